//! Geometric HSV / HSL / HWB (Smith 1978; Joblove & Greenberg; Smith & Lyons HWB 1996).
//! All on RGB components in [0,1]; hue in degrees [0, 360).
use super::V3;

fn hue_of(r: f64, g: f64, b: f64, max: f64, d: f64) -> f64 {
    if d == 0.0 {
        return 0.0;
    }
    let h = if max == r {
        ((g - b) / d).rem_euclid(6.0)
    } else if max == g {
        (b - r) / d + 2.0
    } else {
        (r - g) / d + 4.0
    };
    (h * 60.0).rem_euclid(360.0)
}

pub fn rgb_to_hsv(rgb: V3) -> V3 {
    let (r, g, b) = (rgb[0], rgb[1], rgb[2]);
    let max = r.max(g).max(b);
    let min = r.min(g).min(b);
    let d = max - min;
    let s = if max == 0.0 { 0.0 } else { d / max };
    [hue_of(r, g, b, max, d), s, max]
}
pub fn hsv_to_rgb(hsv: V3) -> V3 {
    let (h, s, v) = (hsv[0].rem_euclid(360.0) / 60.0, hsv[1], hsv[2]);
    let c = v * s;
    let x = c * (1.0 - ((h % 2.0) - 1.0).abs());
    let m = v - c;
    let (r, g, b) = match h as u32 {
        0 => (c, x, 0.0),
        1 => (x, c, 0.0),
        2 => (0.0, c, x),
        3 => (0.0, x, c),
        4 => (x, 0.0, c),
        _ => (c, 0.0, x),
    };
    [r + m, g + m, b + m]
}
pub fn rgb_to_hsl(rgb: V3) -> V3 {
    let (r, g, b) = (rgb[0], rgb[1], rgb[2]);
    let max = r.max(g).max(b);
    let min = r.min(g).min(b);
    let d = max - min;
    let l = (max + min) / 2.0;
    let s = if d == 0.0 { 0.0 } else { d / (1.0 - (2.0 * l - 1.0).abs()) };
    [hue_of(r, g, b, max, d), s, l]
}
pub fn hsl_to_rgb(hsl: V3) -> V3 {
    let (h, s, l) = (hsl[0].rem_euclid(360.0) / 60.0, hsl[1], hsl[2]);
    let c = (1.0 - (2.0 * l - 1.0).abs()) * s;
    let x = c * (1.0 - ((h % 2.0) - 1.0).abs());
    let m = l - c / 2.0;
    let (r, g, b) = match h as u32 {
        0 => (c, x, 0.0),
        1 => (x, c, 0.0),
        2 => (0.0, c, x),
        3 => (0.0, x, c),
        4 => (x, 0.0, c),
        _ => (c, 0.0, x),
    };
    [r + m, g + m, b + m]
}
pub fn hsv_to_hwb(hsv: V3) -> V3 {
    [hsv[0], (1.0 - hsv[1]) * hsv[2], 1.0 - hsv[2]]
}
pub fn hwb_to_hsv(hwb: V3) -> V3 {
    let v = 1.0 - hwb[2];
    let s = if v == 0.0 { 0.0 } else { 1.0 - hwb[1] / v };
    [hwb[0], s, v]
}
pub fn rgb_to_hwb(rgb: V3) -> V3 {
    hsv_to_hwb(rgb_to_hsv(rgb))
}
pub fn hwb_to_rgb(hwb: V3) -> V3 {
    hsv_to_rgb(hwb_to_hsv(hwb))
}
