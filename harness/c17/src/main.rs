mod graphs;
mod vect;
fn main() {
    let g = graphs::g_f32x4::graph();
    println!("{} edges\n{}", g.edge_count(), g.adjacency_text());
    let g = graphs::g_f32x8::graph();
    println!("{} edges", g.edge_count());
    let g = graphs::g_f64x2::graph();
    println!("{} edges", g.edge_count());
    let g = graphs::g_f64x4::graph();
    println!("{} edges", g.edge_count());
    let s = pga::d65_f32();
    println!("scalar {} edges\n{}", s.edge_count(), s.adjacency_text());
}
