// Standalone reproduction of the two C12 findings on the pinned tree (palette/src/rgb/hex.rs).
use palette::{Srgb, Srgba};
fn main() {
    // 1. '+' is accepted: from_str_radix("+f", 16) == Ok(15)
    println!("{:?}", "+f+f+f".parse::<Srgb<u8>>()); // Ok(Rgb { red: 15, green: 15, blue: 15 }), expected Err
    println!("{:?}", "#+f+f+f+f".parse::<Srgba<u8>>()); // Ok(..15, 15, 15, 15), expected Err
    println!("{:?}", "+fff+fff+fff".parse::<Srgb<u16>>()); // Ok(4095, 4095, 4095), expected Err
    // 2. multi-byte characters: byte-indexed slicing panics instead of returning Err
    let r = std::panic::catch_unwind(|| "a\u{e9}".parse::<Srgb<u8>>());
    println!("panicked = {}", r.is_err()); // true, expected Err(ParseIntError) without a panic
    let r = std::panic::catch_unwind(|| "\u{1d7d8}".parse::<Srgba<f32>>());
    println!("panicked = {}", r.is_err()); // true
}
