//! Check functions of C10, part 2: hue shift/set, colour schemes, arithmetic, clamp, slices.
use crate::chk::*;
use crate::lat::z;
use crate::ops::*;
use pv::fl::Fl;
use pv::{json, Collector, Value};

// ------------------------------------------------------------------------------------------
// hue shift and set: variants only

pub fn check_hue<T: Ar>(sp: &Spec<T>, a: &V<T>, hs: &[T], als: &[T], c: &mut Collector, cnt: &mut Cnt) {
    let Some(ops) = &sp.hue else { return };
    const NAMES: [&str; 4] = ["shift_hue", "shift_hue_assign", "with_hue", "set_hue"];
    for &h in hs {
        cnt.st += 1;
        let case = |form: &str, what: &str, obs: Value, exp: Value| json!({"k": "hue", "type": sp.name, "float": T::NAME, "a": hx(a), "f": h1(h), "form": form, "what": what, "a_val": fv(a), "f_val": h.to64(), "observed": obs, "expected": exp});
        let r = pv::catch(|| [(ops.plain[0])(a, h), (ops.plain[1])(a, h), (ops.plain[2])(a, h), (ops.plain[3])(a, h)]);
        cnt.tr += 4;
        let rs = match r {
            Ok(x) => x,
            Err(msg) => {
                c.violation(&sig("hue", sp, "shift_hue", "panic", "-"), 1.0, || case("shift_hue", "panic", json!(msg), json!("no panic")));
                continue;
            }
        };
        if !same3(&rs[0], a) {
            cnt.nt += 1;
        }
        c.outcome(hash_v(&rs[0]) ^ hash_v(&rs[2]).rotate_left(1));
        cnt.tv += 2;
        if !same3(&rs[1], &rs[0]) {
            c.violation(&sig("hue", sp, NAMES[1], "variant", "-"), 1.0, || case(NAMES[1], "shift_hue_assign vs shift_hue", json!(fv(&rs[1])), json!(fv(&rs[0]))));
        }
        if !same3(&rs[3], &rs[2]) {
            c.violation(&sig("hue", sp, NAMES[3], "variant", "-"), 1.0, || case(NAMES[3], "set_hue vs with_hue", json!(fv(&rs[3])), json!(fv(&rs[2]))));
        }
        for &al in als {
            let a4 = with_alpha(a, al);
            let r = pv::catch(|| [(ops.alpha[0])(&a4, h), (ops.alpha[1])(&a4, h), (ops.alpha[2])(&a4, h), (ops.alpha[3])(&a4, h)]);
            cnt.tr += 4;
            match r {
                Err(msg) => c.violation(&sig("hue", sp, "Alpha::shift_hue", "panic", "-"), 1.0, || case("Alpha", "panic", json!(msg), json!("no panic"))),
                Ok(ar) => {
                    for k in 0..4 {
                        cnt.tv += 1;
                        let want = with_alpha(&rs[k], al);
                        if !same4(&ar[k], &want) {
                            c.violation(&sig("hue", sp, &format!("Alpha::{}", NAMES[k]), "variant", "-"), 1.0, || json!({"k": "hue", "type": sp.name, "float": T::NAME, "a": hx(&a4), "f": h1(h), "form": format!("Alpha::{}", NAMES[k]), "what": "Alpha form vs (by-value form on the bare colour, alpha unchanged)", "observed": fv(&ar[k]), "expected": fv(&want)}));
                        }
                    }
                }
            }
        }
    }
}

// ------------------------------------------------------------------------------------------
// colour scheme helpers

pub fn check_schemes<T: Ar>(sp: &Spec<T>, a: &V<T>, als: &[T], c: &mut Collector, cnt: &mut Cnt) {
    let Some(ops) = &sp.schemes else { return };
    cnt.st += 1;
    let case = |form: &str, what: &str, obs: Value, exp: Value| json!({"k": "schemes", "type": sp.name, "float": T::NAME, "a": hx(a), "form": form, "what": what, "a_val": fv(a), "observed": obs, "expected": exp});
    let r = pv::catch(|| (ops.all)(a));
    cnt.tr += ops.angles.len() as u64;
    let rs = match r {
        Ok(x) => x,
        Err(msg) => {
            c.violation(&sig("schemes", sp, "schemes", "panic", "-"), 1.0, || case("schemes", "panic", json!(msg), json!("no panic")));
            return;
        }
    };
    cnt.nt += 1;
    c.outcome(rs.iter().fold(0u64, |h, v| h.rotate_left(7) ^ hash_v(v)));
    if let Some(hops) = &sp.hue {
        // hue based: helper == shift_hue by the documented angle (hue compared on the circle, the rest bitwise)
        let hi = hops.idx;
        for (k, &ang) in ops.angles.iter().enumerate() {
            let want = (hops.plain[0])(a, T::from64(ang));
            cnt.tr += 1;
            cnt.tv += 1;
            let ah = a[hi].to64();
            let t = tol::<T>(360f64.max(ah.abs() + 360.0));
            let e = circ(rs[k][hi].to64(), want[hi].to64());
            let others = (0..sp.n).all(|j| j == hi || rs[k][j].bits64() == want[j].bits64());
            cnt.ratio(e / t, || case(ops.labels[k], "hue vs shift_hue", json!(rs[k][hi].to64()), json!(want[hi].to64())));
            if !(e <= t) || !others {
                c.violation(&sig("schemes", sp, ops.labels[k], "vs-shift_hue", "-"), if others { e } else { 1.0 }, || case(ops.labels[k], &format!("helper vs shift_hue({ang})"), json!(fv(&rs[k])), json!(fv(&want))));
            }
        }
    }
    if let Some((ia, ib)) = ops.lab {
        // Lab-like: rotation of the (a, b) plane about the lightness axis by the documented angle
        let (xa, xb) = (a[ia].to64(), a[ib].to64());
        let scale = sp.scale(ia).max(sp.scale(ib)).max(xa.abs()).max(xb.abs());
        for (k, &ang) in ops.angles.iter().enumerate() {
            let th = ang.to_radians();
            let (wa, wb) = (xa * th.cos() - xb * th.sin(), xa * th.sin() + xb * th.cos());
            let e = (rs[k][ia].to64() - wa).abs().max((rs[k][ib].to64() - wb).abs());
            let t = tol::<T>(scale);
            let others = (0..sp.n).all(|j| j == ia || j == ib || rs[k][j].bits64() == a[j].bits64());
            cnt.tv += 1;
            cnt.ratio(e / t, || case(ops.labels[k], "rotation", json!(fv(&rs[k])), json!([wa, wb])));
            if !(e <= t) || !others {
                c.violation(&sig("schemes", sp, ops.labels[k], "vs-rotation", "-"), if others { e } else { 1.0 }, || case(ops.labels[k], &format!("helper vs rotation of the opponent axes by {ang} degrees, other components untouched"), json!(fv(&rs[k])), json!({"axes": [wa, wb], "others": fv(a)})));
            }
        }
        // and through palette's own polar sibling (convert, helper there, convert back)
        if let Some(polar) = ops.polar {
            cnt.tr += 4;
            match pv::catch(|| polar(a)) {
                Err(_) => {} // a panicking conversion is C07's business
                Ok(ps) => {
                    for k in 0..ops.angles.len() {
                        let mut e = 0f64;
                        for j in 0..sp.n {
                            let sc = if j == ia || j == ib { scale } else { sp.scale(j) };
                            e = e.max((rs[k][j].to64() - ps[k][j].to64()).abs() / sc);
                        }
                        let t = KPOLAR * T::EPS;
                        cnt.tv += 1;
                        cnt.ratio(e / t, || case(ops.labels[k], "via polar", json!(fv(&rs[k])), json!(fv(&ps[k]))));
                        if !(e <= t) {
                            c.violation(&sig("schemes", sp, ops.labels[k], "vs-polar-route", "-"), e, || case(ops.labels[k], "helper vs conversion to the polar form, helper there, and back (error relative to the component scale)", json!(fv(&rs[k])), json!(fv(&ps[k]))));
                        }
                    }
                }
            }
        }
    }
    // Alpha form
    for &al in als {
        let a4 = with_alpha(a, al);
        cnt.tr += ops.angles.len() as u64;
        match pv::catch(|| (ops.aall)(&a4)) {
            Err(msg) => c.violation(&sig("schemes", sp, "Alpha::schemes", "panic", "-"), 1.0, || case("Alpha", "panic", json!(msg), json!("no panic"))),
            Ok(ar) => {
                for k in 0..ops.angles.len() {
                    cnt.tv += 1;
                    let want = with_alpha(&rs[k], al);
                    if !same4(&ar[k], &want) {
                        c.violation(&sig("schemes", sp, &format!("Alpha::{}", ops.labels[k]), "variant", "-"), 1.0, || json!({"k": "schemes", "type": sp.name, "float": T::NAME, "a": hx(&a4), "form": format!("Alpha::{}", ops.labels[k]), "what": "Alpha form vs (helper on the bare colour, alpha unchanged)", "observed": fv(&ar[k]), "expected": fv(&want)}));
                    }
                }
            }
        }
    }
}

// ------------------------------------------------------------------------------------------
// component arithmetic: variants only

pub fn check_arith_cc<T: Ar>(sp: &Spec<T>, a: &V<T>, b: &V<T>, apairs: &[(T, T)], c: &mut Collector, cnt: &mut Cnt) {
    for op in &sp.arith {
        cnt.st += 1;
        let case = |a: &V<T>, b: &V<T>, form: &str, what: &str, obs: Value, exp: Value| json!({"k": "arith-cc", "type": sp.name, "float": T::NAME, "op": op.name, "a": hx(a), "b": hx(b), "form": form, "what": what, "a_val": fv(a), "b_val": fv(b), "observed": obs, "expected": exp});
        let r = pv::catch(|| ((op.cc)(a, b), (op.cc_as)(a, b)));
        cnt.tr += 2;
        let (v, vas) = match r {
            Ok(x) => x,
            Err(msg) => {
                c.violation(&sig("arith", sp, op.name, "panic", "color"), 1.0, || case(a, b, op.name, "panic", json!(msg), json!("no panic")));
                continue;
            }
        };
        cnt.nt += 1;
        c.outcome(hash_v(&v));
        cnt.tv += 1;
        if !same3(&vas, &v) {
            c.violation(&sig("arith", sp, &format!("{}_assign", op.name), "variant", "color"), 1.0, || case(a, b, "assign", "op-assign vs by-value operator", json!(fv(&vas)), json!(fv(&v))));
        }
        for &(aa, ab) in apairs {
            let (a4, b4) = (with_alpha(a, aa), with_alpha(b, ab));
            let want = with_alpha(&v, aa.ar(ab, op.code));
            let r = pv::catch(|| ((op.acc)(&a4, &b4), (op.acc_as)(&a4, &b4), op.pcc.map(|f| f(&a4, &b4)), op.pcc_as.map(|f| f(&a4, &b4))));
            cnt.tr += 2 + 2 * op.pcc.is_some() as u64;
            match r {
                Err(msg) => c.violation(&sig("arith", sp, &format!("Alpha::{}", op.name), "panic", "color"), 1.0, || case(&a4, &b4, "Alpha", "panic", json!(msg), json!("no panic"))),
                Ok((x, xas, p, pas)) => {
                    let mut forms: Vec<(&str, V<T>)> = vec![("Alpha::{}", x), ("Alpha::{}_assign", xas)];
                    if let (Some(p), Some(pas)) = (p, pas) {
                        forms.push(("PreAlpha::{}", p));
                        forms.push(("PreAlpha::{}_assign", pas));
                    }
                    for (nm, got) in forms {
                        cnt.tv += 1;
                        if !same4(&got, &want) {
                            let form = nm.replace("{}", op.name);
                            c.violation(&sig("arith", sp, &form, "variant", "color"), 1.0, || case(&a4, &b4, &form, "wrapped form vs (operator on the bare colours, same operator on the alphas)", json!(fv(&got)), json!(fv(&want))));
                        }
                    }
                }
            }
        }
    }
}

pub fn check_arith_cs<T: Ar>(sp: &Spec<T>, a: &V<T>, ss: &[T], als: &[T], c: &mut Collector, cnt: &mut Cnt) {
    for op in &sp.arith {
        for &s in ss {
            cnt.st += 1;
            let case = |a: &V<T>, form: &str, what: &str, obs: Value, exp: Value| json!({"k": "arith-cs", "type": sp.name, "float": T::NAME, "op": op.name, "a": hx(a), "f": h1(s), "form": form, "what": what, "a_val": fv(a), "f_val": s.to64(), "observed": obs, "expected": exp});
            let r = pv::catch(|| ((op.cs)(a, s), (op.cs_as)(a, s)));
            cnt.tr += 2;
            let (v, vas) = match r {
                Ok(x) => x,
                Err(msg) => {
                    c.violation(&sig("arith", sp, op.name, "panic", "scalar"), 1.0, || case(a, op.name, "panic", json!(msg), json!("no panic")));
                    continue;
                }
            };
            if !same3(&v, a) {
                cnt.nt += 1;
            }
            c.outcome(hash_v(&v));
            cnt.tv += 1;
            if !same3(&vas, &v) {
                c.violation(&sig("arith", sp, &format!("{}_assign", op.name), "variant", "scalar"), 1.0, || case(a, "assign", "op-assign vs by-value operator", json!(fv(&vas)), json!(fv(&v))));
            }
            for &al in als {
                let a4 = with_alpha(a, al);
                let want = with_alpha(&v, al.ar(s, op.code));
                let r = pv::catch(|| ((op.acs)(&a4, s), (op.acs_as)(&a4, s), op.pcs.map(|f| f(&a4, s)), op.pcs_as.map(|f| f(&a4, s))));
                cnt.tr += 2 + 2 * op.pcs.is_some() as u64;
                match r {
                    Err(msg) => c.violation(&sig("arith", sp, &format!("Alpha::{}", op.name), "panic", "scalar"), 1.0, || case(&a4, "Alpha", "panic", json!(msg), json!("no panic"))),
                    Ok((x, xas, p, pas)) => {
                        let mut forms: Vec<(&str, V<T>)> = vec![("Alpha::{}", x), ("Alpha::{}_assign", xas)];
                        if let (Some(p), Some(pas)) = (p, pas) {
                            forms.push(("PreAlpha::{}", p));
                            forms.push(("PreAlpha::{}_assign", pas));
                        }
                        for (nm, got) in forms {
                            cnt.tv += 1;
                            if !same4(&got, &want) {
                                let form = nm.replace("{}", op.name);
                                c.violation(&sig("arith", sp, &form, "variant", "scalar"), 1.0, || case(&a4, &form, "wrapped form vs (operator on the bare colour, same operator on the alpha)", json!(fv(&got)), json!(fv(&want))));
                            }
                        }
                    }
                }
            }
        }
    }
}

// ------------------------------------------------------------------------------------------
// clamp: variants only (the bounds contract itself is C03)

pub fn clamp_alphas<T: Fl>() -> Vec<T> {
    vec![T::from64(-0.5), T::from64(0.5), T::from64(1.5)]
}

pub fn check_clamp<T: Ar>(sp: &Spec<T>, x: &V<T>, c: &mut Collector, cnt: &mut Cnt) {
    let Some(ops) = &sp.clamp else { return };
    cnt.st += 1;
    let case = |x: &V<T>, form: &str, what: &str, obs: Value, exp: Value| json!({"k": "clamp", "type": sp.name, "float": T::NAME, "a": hx(x), "form": form, "what": what, "a_val": fv(x), "observed": obs, "expected": exp});
    let r = pv::catch(|| ((ops.clamp)(x), (ops.clamp_as)(x)));
    cnt.tr += 2;
    let (v, vas) = match r {
        Ok(p) => p,
        Err(msg) => {
            c.violation(&sig("clamp", sp, "clamp", "panic", "-"), 1.0, || case(x, "clamp", "panic", json!(msg), json!("no panic")));
            return;
        }
    };
    if !same3(&v, x) {
        cnt.nt += 1;
    }
    c.outcome(hash_v(&v));
    cnt.tv += 1;
    if !same3(&vas, &v) {
        c.violation(&sig("clamp", sp, "clamp_assign", "variant", "-"), 1.0, || case(x, "clamp_assign", "clamp_assign vs clamp", json!(fv(&vas)), json!(fv(&v))));
    }
    for al in clamp_alphas::<T>() {
        let x4 = with_alpha(x, al);
        let want = with_alpha(&v, T::from64(al.to64().clamp(0.0, 1.0)));
        cnt.tr += 2;
        match pv::catch(|| ((ops.aclamp)(&x4), (ops.aclamp_as)(&x4))) {
            Err(msg) => c.violation(&sig("clamp", sp, "Alpha::clamp", "panic", "-"), 1.0, || case(&x4, "Alpha::clamp", "panic", json!(msg), json!("no panic"))),
            Ok((g, gas)) => {
                cnt.tv += 2;
                if !same3(&g, &want) || g[3].to64() != want[3].to64() {
                    c.violation(&sig("clamp", sp, "Alpha::clamp", "variant", "-"), 1.0, || case(&x4, "Alpha::clamp", "Alpha::clamp vs (clamp of the bare colour, alpha clamped to [0, 1])", json!(fv(&g)), json!(fv(&want))));
                }
                if !same4(&gas, &g) {
                    c.violation(&sig("clamp", sp, "Alpha::clamp_assign", "variant", "-"), 1.0, || case(&x4, "Alpha::clamp_assign", "Alpha::clamp_assign vs Alpha::clamp", json!(fv(&gas)), json!(fv(&g))));
                }
            }
        }
    }
}

/// out-of-range inputs for clamp derived from two in-range colours (sum, difference minus partner)
pub fn clamp_inputs<T: Ar>(sp: &Spec<T>, a: &V<T>, b: &V<T>) -> [V<T>; 2] {
    let mut s = *a;
    let mut d = *a;
    for i in 0..sp.n {
        s[i] = a[i].ar(b[i], 0);
        d[i] = a[i].ar(b[i], 1).ar(b[i], 1);
    }
    [s, d]
}

// ------------------------------------------------------------------------------------------
// slice forms == element-wise by-value form

fn alpha_of<T: Fl>(i: usize, als: &[T]) -> T {
    als[i % als.len()]
}

/// `only`: restrict to one (family, form index, factor bits) — used by replay
pub fn check_slices<T: Ar>(sp: &Spec<T>, cols: &[V<T>], fs: &[T], hs: &[T], als: &[T], tier: &str, only: Option<(&str, usize, u64, usize)>, c: &mut Collector, cnt: &mut Cnt) {
    let n = cols.len();
    let lens: Vec<usize> = [0usize, 1, 2, 3, n].into_iter().filter(|&l| l <= n).collect();
    let acols: Vec<V<T>> = cols.iter().enumerate().map(|(i, v)| with_alpha(v, alpha_of(i, als))).collect();
    // clamp gets out-of-range colours too (sums / differences of lattice colours) and out-of-range alphas
    let ccols: Vec<V<T>> = (0..n).map(|i| if i % 3 == 0 { cols[i] } else { clamp_inputs(sp, &cols[i], &cols[(i * 7 + 3) % n])[i % 2] }).collect();
    let cal = clamp_alphas::<T>();
    let cacols: Vec<V<T>> = ccols.iter().enumerate().map(|(i, v)| with_alpha(v, alpha_of(i, &cal))).collect();
    let mut run = |cols: &[V<T>], acols: &[V<T>], family: &str, form: usize, opname: &str, f: Option<T>, plain: &dyn Fn(&V<T>) -> V<T>, sl: &dyn Fn(&[V<T>]) -> Vec<V<T>>, asl: &dyn Fn(&[V<T>]) -> Vec<V<T>>, c: &mut Collector, cnt: &mut Cnt| {
        let fb = f.map(|x| x.bits64()).unwrap_or(0);
        for &len in &lens {
            if let Some((of, ok, ofb, olen)) = only {
                if of != family || ok != form || ofb != fb || olen != len {
                    continue;
                }
            }
            cnt.st += 1;
            let case = |wrapped: bool, idx: usize, obs: Value, exp: Value| json!({"k": "slice", "type": sp.name, "float": T::NAME, "tier": tier, "family": family, "form_index": form, "form": opname, "f": f.map(|x| h1(x)), "f_val": f.map(|x| x.to64()), "len": len, "alpha_wrapped": wrapped, "what": "slice form vs element-wise by-value form on the bare colour (first differing element shown)", "element": idx, "input": if idx < len { json!(fv(&acols[idx])) } else { json!(null) }, "observed": obs, "expected": exp});
            let want: Vec<V<T>> = cols[..len].iter().map(|v| plain(v)).collect();
            cnt.tr += 3 * len as u64;
            cnt.nt += (len > 0) as u64;
            for (wrapped, got) in [(false, pv::catch(|| sl(&cols[..len]))), (true, pv::catch(|| asl(&acols[..len])))] {
                let form_name = if wrapped { format!("[Alpha]::{opname}") } else { format!("[C]::{opname}") };
                match got {
                    Err(msg) => c.violation(&sig("slices", sp, &form_name, "panic", "-"), 1.0, || case(wrapped, 0, json!(msg), json!("no panic"))),
                    Ok(g) => {
                        cnt.tv += 1 + len as u64;
                        c.outcome(g.iter().fold(len as u64, |h, v| h.rotate_left(5) ^ hash_v(v)));
                        if g.len() != len {
                            c.violation(&sig("slices", sp, &form_name, "length", "-"), 1.0, || case(wrapped, 0, json!(g.len()), json!(len)));
                            continue;
                        }
                        for i in 0..len {
                            let w = if wrapped { with_alpha(&want[i], if family == "clamp" { T::from64(acols[i][3].to64().clamp(0.0, 1.0)) } else { acols[i][3] }) } else { want[i] };
                            let eq = if wrapped { same4(&g[i], &w) } else { same3(&g[i], &w) };
                            if !eq {
                                let class = if i + 1 == len { "last-element" } else if i == 0 { "first-element" } else { "inner-element" };
                                c.violation(&sig("slices", sp, &form_name, "element-wise", class), 1.0, || case(wrapped, i, json!(fv(&g[i])), json!(fv(&w))));
                                break;
                            }
                        }
                    }
                }
            }
        }
    };
    for (family, ops) in [("lighten", &sp.lighten), ("saturate", &sp.saturate)] {
        if let Some(ops) = ops {
            // slice forms 0..4 correspond to by-value forms 0, 1, 4, 5
            for (k, pk) in [(0usize, 0usize), (1, 1), (2, 4), (3, 5)] {
                for &f in fs {
                    run(cols, &acols, family, k, ops.names[[2, 3, 6, 7][k]], Some(f), &|v| (ops.plain[pk])(v, f), &|s| (ops.slice[k])(s, f), &|s| (ops.aslice[k])(s, f), c, cnt);
                }
            }
        }
    }
    if let Some(ops) = &sp.hue {
        for (k, pk, nm) in [(0usize, 0usize, "shift_hue_assign"), (1, 2, "set_hue")] {
            for &h in hs {
                run(cols, &acols, "hue", k, nm, Some(h), &|v| (ops.plain[pk])(v, h), &|s| (ops.slice[k])(s, h), &|s| (ops.aslice[k])(s, h), c, cnt);
            }
        }
    }
    if let Some(ops) = &sp.clamp {
        run(&ccols, &cacols, "clamp", 0, "clamp_assign", None, &|v| (ops.clamp)(v), &|s| (ops.slice)(s), &|s| (ops.aslice)(s), c, cnt);
    }
    let _ = z::<T>();
}
