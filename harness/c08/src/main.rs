//! C08 — blending and compositing follow the W3C formulas and the Porter-Duff identities.
//!
//! palette: `self` is the *source* (top layer), `other` the *backdrop/destination*
//! (`blend_separable(src = self, dst = other, ..)`, docs of `Blend::overlay`/`dodge`, and
//! `BlendWith::blend_with(self, destination, ..)`): W3C B(cb, cs) = palette blend(src = cs, dst = cb).
//!
//! Sub-checks (all exhaustive over the stated lattice products, E1 of DESIGN §3.1):
//!  component/<float>   (cs, cb, αs, αb) ∈ L⁴ × 11 modes × 6 operators × {C, Alpha<C>, PreAlpha<C>} × types
//!  colour/<float>      all ordered pairs of a colour lattice (K³ × alphas): slot independence
//!  identity/<float>    transparent-over, opaque-over (exact), symmetry of the commutative ones
//!  premultiply/<float> premultiply → unpremultiply through every public route
//!  blend-with/<float>  BlendWith with a closure and with every Equations configuration
mod checks;
mod oracle;
mod subject;

use checks::*;
use pv::fl::Fl;
use pv::{json, Collector, Ctx, Mode, Tier, Value};
use subject::*;

/// Component lattice: ¼ and ½ are the soft-light / overlay / hard-light knees, 0 and 1 the
/// dodge/burn guards (blend/blend.rs:389-391, 404-406, 419, 437, 445).
fn lattice<T: Fl>(tier: Tier) -> Vec<T> {
    let (q, h, one) = (T::from64(0.25), T::from64(0.5), T::from64(1.0));
    let mut v = vec![T::from64(0.0), T::from64(1e-9), T::from64(0.125), q.down(), q, q.up(), T::from64(0.375), h.down(), h, h.up(), T::from64(0.75), one.down(), one];
    if tier == Tier::Thorough {
        v.extend([T::from64(1e-3), T::from64(0.0625), T::from64(0.625), T::from64(0.875)]);
    }
    pv::lattice::dedup(v)
}
fn small_lattice<T: Fl>() -> Vec<T> {
    pv::lattice::dedup(vec![T::from64(0.0), T::from64(1e-9), T::from64(0.25), T::from64(0.5), T::from64(0.75), T::from64(1.0).down(), T::from64(1.0)])
}

fn nontrivial4<T: Fl>(v: [T; 4]) -> bool {
    v.iter().any(|x| x.to64() != 0.0 && x.to64() != 1.0)
}

/// All (source, backdrop) tuples of the component level for one form, simplest first.
fn tuples<T: Fl>(lat: &[T], form: Form) -> Vec<(Px<T>, Px<T>)> {
    let one = T::from64(1.0);
    let mut out = vec![];
    match form {
        Form::Opaque => {
            for &cs in lat {
                for &cb in lat {
                    out.push((Px::grey(cs, one), Px::grey(cb, one)));
                }
            }
        }
        _ => {
            for &cs in lat {
                for &cb in lat {
                    for &sa in lat {
                        for &da in lat {
                            if form == Form::Pre && (cs.to64() > sa.to64() || cb.to64() > da.to64()) {
                                continue; // not a premultiplied colour
                            }
                            out.push((Px::grey(cs, sa), Px::grey(cb, da)));
                        }
                    }
                }
            }
        }
    }
    out
}

fn run_component<T: Fl>(ctx: &Ctx, specs: &[Spec<T>], total: &mut Collector) {
    let sub = format!("component/{}", T::NAME);
    if !ctx.wants(&sub) {
        return;
    }
    let lat = lattice::<T>(ctx.tier);
    let tup: Vec<Vec<(Px<T>, Px<T>)>> = FORMS.iter().map(|f| tuples(&lat, *f)).collect();
    let mut jobs = vec![];
    for (si, sp) in specs.iter().enumerate() {
        for (fi, _) in FORMS.iter().enumerate() {
            for (oi, op) in sp.ops().into_iter().enumerate() {
                jobs.push((si, fi, oi, op));
            }
        }
    }
    let (jobs_r, tup_r, sub_r) = (&jobs, &tup, &sub);
    let cc = pv::par::run_chunks(jobs.len(), |j, c| {
        let (si, fi, oi, op) = jobs_r[j];
        let sp = &specs[si];
        let mut l = Local::default();
        let mut nt = 0u64;
        for &(s, d) in &tup_r[fi] {
            check_pair(sp, "component", sub_r, FORMS[fi], op, s, d, c, &mut l, ctx.seed);
            if nontrivial4([s.c[0], d.c[0], s.a, d.a]) {
                nt += 1;
            }
        }
        // a state = one input tuple of one (type, form); counted once, not per operation
        let (st, nt) = if oi == 0 { (tup_r[fi].len() as u64, nt) } else { (0, 0) };
        c.add(sub_r, st, l.trans, l.traces, nt);
    });
    total.merge(cc);
    total.exhaustive(&sub, true, &format!("(cs, cb, αs, αb) ∈ L⁴, |L| = {} (0, 1e-9, the knees ¼ and ½ with both ulp neighbours, 1−ulp, 1, eighths{}): {} tuples for Alpha<C>, {} with c ≤ α for PreAlpha<C>, {} (cs, cb) pairs for opaque C; × 11 modes + 6 operators × {} colour types ({} compose-only)", lat.len(), if ctx.tier == Tier::Thorough { ", 1e-3, sixteenth" } else { "" }, tup[1].len(), tup[2].len(), tup[0].len(), specs.len(), specs.iter().filter(|s| s.blend.is_none()).count()));
}

/// Colour lattice (straight colours with alpha); premultiplied exactly for the Pre form.
fn colours<T: Fl>(tier: Tier, n: usize) -> Vec<Px<T>> {
    let k: Vec<f64> = tier.pick(vec![0.0, 0.375, 0.75, 1.0], vec![0.0, 0.25, 0.5, 0.75, 1.0]);
    let al: Vec<f64> = tier.pick(vec![0.0, 0.5, 1.0], vec![0.0, 0.25, 0.75, 1.0]);
    let mut out = vec![];
    let f = T::from64;
    for &a in &al {
        for &c0 in &k {
            if n == 1 {
                out.push(Px { c: [f(c0), f(0.0), f(0.0)], a: f(a) });
                continue;
            }
            for &c1 in &k {
                for &c2 in &k {
                    out.push(Px { c: [f(c0), f(c1), f(c2)], a: f(a) });
                }
            }
        }
    }
    out
}

fn run_colour<T: Fl>(ctx: &Ctx, specs: &[Spec<T>], total: &mut Collector) {
    let sub = format!("colour/{}", T::NAME);
    if !ctx.wants(&sub) {
        return;
    }
    let cols3 = colours::<T>(ctx.tier, 3);
    let mut jobs = vec![];
    for (si, sp) in specs.iter().enumerate() {
        if sp.n != 3 {
            continue; // one-component types are completely covered by the component level
        }
        for (fi, _) in FORMS.iter().enumerate() {
            for (oi, op) in sp.ops().into_iter().enumerate() {
                jobs.push((si, fi, oi, op));
            }
        }
    }
    let (jobs_r, cols_r, sub_r) = (&jobs, &cols3, &sub);
    let cc = pv::par::run_chunks(jobs.len(), |j, c| {
        let (si, fi, oi, op) = jobs_r[j];
        let sp = &specs[si];
        let form = FORMS[fi];
        let prep = |p: &Px<T>| -> Option<Px<T>> {
            match form {
                Form::Opaque => (p.a.to64() == 1.0).then_some(*p),
                Form::Alpha => Some(*p),
                Form::Pre => {
                    let a = p.a.to64();
                    Some(Px { c: [T::from64(p.c[0].to64() * a), T::from64(p.c[1].to64() * a), T::from64(p.c[2].to64() * a)], a: p.a })
                }
            }
        };
        // inputs of this form, without duplicates (alpha 0 premultiplies every colour to 0)
        let mut seen = std::collections::BTreeSet::new();
        let inputs: Vec<Px<T>> = cols_r.iter().filter_map(prep).filter(|p| seen.insert([p.c[0].bits64(), p.c[1].bits64(), p.c[2].bits64(), p.a.bits64()])).collect();
        let mut l = Local::default();
        let (mut st, mut nt) = (0u64, 0u64);
        for &s in inputs.iter() {
            for &d in inputs.iter() {
                check_pair(sp, "colour", sub_r, form, op, s, d, c, &mut l, ctx.seed);
                st += 1;
                // non-trivial: the three slots do not all carry the same (cs, cb) pair
                if !(s.c[0].bits64() == s.c[1].bits64() && s.c[1].bits64() == s.c[2].bits64() && d.c[0].bits64() == d.c[1].bits64() && d.c[1].bits64() == d.c[2].bits64()) {
                    nt += 1;
                }
            }
        }
        let (st, nt) = if oi == 0 { (st, nt) } else { (0, 0) };
        c.add(sub_r, st, l.trans, l.traces, nt);
    });
    total.merge(cc);
    total.exhaustive(&sub, true, &format!("all ordered pairs of {} colours (K³ × alphas, K = {:?}, alphas = {:?}; premultiplied exactly for PreAlpha, alpha = 1 only for opaque C) × all modes/operators × 3 forms × every three-component type", cols3.len(), ctx.tier.pick(vec![0.0, 0.375, 0.75, 1.0], vec![0.0, 0.25, 0.5, 0.75, 1.0]), ctx.tier.pick(vec![0.0, 0.5, 1.0], vec![0.0, 0.25, 0.75, 1.0])));
}

fn run_identity<T: Fl>(ctx: &Ctx, specs: &[Spec<T>], total: &mut Collector) {
    let sub = format!("identity/{}", T::NAME);
    if !ctx.wants(&sub) {
        return;
    }
    let lat = lattice::<T>(ctx.tier);
    let pre = tuples(&lat, Form::Pre);
    let straight = tuples(&lat, Form::Alpha);
    let opaque = tuples(&lat, Form::Opaque);
    // jobs: per spec: 0 = the two over-identities, 1.. = one commutative op each
    let mut jobs = vec![];
    for (si, sp) in specs.iter().enumerate() {
        jobs.push((si, None));
        for op in COMMUTATIVE {
            if op.is_blend() && sp.blend.is_none() {
                continue;
            }
            jobs.push((si, Some(op)));
        }
    }
    let (jobs_r, sub_r) = (&jobs, &sub);
    let cc = pv::par::run_chunks(jobs.len(), |j, c| {
        let (si, op) = jobs_r[j];
        let sp = &specs[si];
        let mut l = Local::default();
        let (mut st, mut nt) = (0u64, 0u64);
        match op {
            None => {
                // every premultiplied backdrop (cb ≤ αb) / every premultiplied opaque source
                let zero = T::from64(0.0);
                for &cb in &lat {
                    for &da in &lat {
                        if cb.to64() > da.to64() {
                            continue;
                        }
                        let d = Px::grey(cb, da);
                        check_identity(sp, sub_r, "transparent-over", Form::Pre, Op::Over, Px::grey(zero, zero), d, c, &mut l);
                        st += 1;
                        nt += nontrivial4([zero, cb, zero, da]) as u64;
                        for &cs in &lat {
                            check_identity(sp, sub_r, "opaque-over", Form::Pre, Op::Over, Px::grey(cs, T::from64(1.0)), d, c, &mut l);
                            st += 1;
                            nt += nontrivial4([cs, cb, T::from64(1.0), da]) as u64;
                        }
                    }
                }
            }
            Some(op) => {
                for (form, tp) in [(Form::Pre, &pre), (Form::Alpha, &straight), (Form::Opaque, &opaque)] {
                    for &(s, d) in tp.iter() {
                        check_identity(sp, sub_r, "symmetry", form, op, s, d, c, &mut l);
                        st += 1;
                        nt += nontrivial4([s.c[0], d.c[0], s.a, d.a]) as u64;
                    }
                }
            }
        }
        c.add(sub_r, st, l.trans, l.traces, nt);
    });
    total.merge(cc);
    total.exhaustive(&sub, true, "PreAlpha: transparent source over every lattice backdrop (c ≤ α) returns it bit for bit; opaque source over every backdrop returns the source colour bit for bit (alpha to tol); s.op(d) vs d.op(s) for multiply, screen, darken, lighten, difference, exclusion, xor, plus over all component tuples in all three forms (bit-exact for xor/plus on PreAlpha, to tol in premultiplied terms otherwise)");
}

fn run_premul<T: Fl>(ctx: &Ctx, specs: &[Spec<T>], total: &mut Collector) {
    let sub = format!("premultiply/{}", T::NAME);
    if !ctx.wants(&sub) {
        return;
    }
    let lat = lattice::<T>(ctx.tier);
    let mut alphas = lat.clone();
    alphas.push(min_pos::<T>()); // smallest alpha that is a valid divisor (is_normal)
    let alphas = pv::lattice::dedup(alphas);
    let (lat_r, al_r, sub_r) = (&lat, &alphas, &sub);
    let cc = pv::par::run_chunks(specs.len(), |si, c| {
        let sp = &specs[si];
        let mut l = Local::default();
        let (mut st, mut nt) = (0u64, 0u64);
        for route in 0..PREMUL_ROUTES.len() {
            for &cv in lat_r.iter() {
                for &a in al_r.iter() {
                    if route == 4 && a.to64() != 1.0 {
                        continue;
                    }
                    check_premul(sp, sub_r, route, Px::grey(cv, a), c, &mut l);
                    if route == 0 || route == 4 {
                        st += 1;
                        nt += (cv.to64() != 0.0 && a.to64() != 1.0) as u64;
                    }
                }
            }
        }
        c.add(sub_r, st, l.trans, l.traces, nt);
    });
    total.merge(cc);
    total.exhaustive(&sub, true, &format!("(c, α) ∈ L × (L ∪ {{MIN_POSITIVE}}) ({} × {}) through 4 public premultiply/unpremultiply routes, plus the opaque constructors; every colour type", lat.len(), alphas.len()));
    // observation (no verdict): a subnormal alpha is not a "valid divisor" for palette
    let sp = &specs[0];
    let sn = T::from64(min_pos::<T>().to64() / 4.0);
    if let Ok((_, back)) = pv::catch(|| (sp.premul)(0, Px::grey(T::from64(0.5), sn))) {
        total.note(&format!("subnormal-alpha/{}", T::NAME), json!({"color": 0.5, "alpha": sn.to64(), "unpremultiply(premultiply)": back.c[0].to64(), "remark": "alpha below the normal range is treated like zero (num::IsValidDivisor = is_normal); outside the enumerated space (DESIGN §4 C08: normal alpha)"}));
    }
}

fn bw_configs() -> Vec<Bw> {
    use palette::blend::{Equation, Equations, Parameter};
    let mut v = vec![Bw::Closure];
    // (A) same settings for colour and alpha: every equation × every parameter pair; the
    //     additive ones through the public constructor
    for e in EQUATIONS {
        for s in PARAMETERS {
            for d in PARAMETERS {
                v.push(Bw::Eq(if e == Equation::Add { Equations::from_parameters(s, d) } else { mk_eq(e, e, s, d, s, d) }));
            }
        }
    }
    // (B) every pair of colour/alpha equations through from_equations (all parameters One)
    for ce in EQUATIONS {
        for ae in EQUATIONS {
            v.push(Bw::Eq(Equations::from_equations(ce, ae)));
        }
    }
    // (C) colour and alpha parameters that differ (the two channels are independent)
    for (i, s) in PARAMETERS.into_iter().enumerate() {
        let s2 = PARAMETERS[(i + 3) % 10];
        let d = PARAMETERS[(i + 5) % 10];
        let d2 = PARAMETERS[(i + 7) % 10];
        v.push(Bw::Eq(mk_eq(Equation::Add, Equation::Subtract, s, d, s2, d2)));
        v.push(Bw::Eq(mk_eq(Equation::ReverseSubtract, Equation::Add, s2, d2, s, d)));
    }
    let _ = Parameter::One;
    v
}

fn run_bw<T: Fl>(ctx: &Ctx, specs: &[Spec<T>], total: &mut Collector) {
    let sub = format!("blend-with/{}", T::NAME);
    if !ctx.wants(&sub) {
        return;
    }
    let lat = if ctx.tier == Tier::Thorough { lattice::<T>(Tier::Quick) } else { small_lattice::<T>() };
    let tup: Vec<Vec<(Px<T>, Px<T>)>> = FORMS.iter().map(|f| tuples(&lat, *f)).collect();
    let cfgs = bw_configs();
    let per = 16usize;
    let mut jobs = vec![];
    for (si, sp) in specs.iter().enumerate() {
        if sp.bw.is_none() {
            continue;
        }
        let mut i = 0;
        while i < cfgs.len() {
            jobs.push((si, i, (i + per).min(cfgs.len())));
            i += per;
        }
    }
    let (jobs_r, tup_r, cfg_r, sub_r) = (&jobs, &tup, &cfgs, &sub);
    let cc = pv::par::run_chunks(jobs.len(), |j, c| {
        let (si, lo, hi) = jobs_r[j];
        let sp = &specs[si];
        let mut l = Local::default();
        let (mut st, mut nt) = (0u64, 0u64);
        for ci in lo..hi {
            for (fi, form) in FORMS.iter().enumerate() {
                for &(s, d) in &tup_r[fi] {
                    check_bw(sp, sub_r, *form, cfg_r[ci], s, d, c, &mut l);
                    if ci == 0 {
                        st += 1;
                        nt += nontrivial4([s.c[0], d.c[0], s.a, d.a]) as u64;
                    }
                }
            }
        }
        c.add(sub_r, st, l.trans, l.traces, nt);
    });
    total.merge(cc);
    total.exhaustive(&sub, true, &format!("{} blend functions (closure 0.25·S + 0.5·D; 5 equations × 10 × 10 parameters with Add built by Equations::from_parameters; 25 Equations::from_equations pairs; 20 mixed colour/alpha settings) × component tuples over a {}-point lattice ({} Alpha, {} PreAlpha with c ≤ α, {} opaque) × the 5 Blend types", cfgs.len(), lat.len(), tup[1].len(), tup[2].len(), tup[0].len()));
}

/// Equations that spell out Porter-Duff operators / screen must agree with the W3C model too.
fn presets() -> [(Op, palette::blend::Parameter, palette::blend::Parameter); 6] {
    use palette::blend::Parameter as P;
    [
        (Op::Over, P::One, P::OneMinusSourceAlpha),
        (Op::Inside, P::DestinationAlpha, P::Zero),
        (Op::Outside, P::OneMinusDestinationAlpha, P::Zero),
        (Op::Atop, P::DestinationAlpha, P::OneMinusSourceAlpha),
        (Op::Xor, P::OneMinusDestinationAlpha, P::OneMinusSourceAlpha),
        (Op::Screen, P::One, P::OneMinusSourceColor),
    ]
}

/// One premultiplied tuple through `PreAlpha::blend_with(Equations::from_parameters(..))` for
/// the preset spelling `op`, against the W3C model of `op`. Returns (transitions, traces).
fn check_preset<T: Fl>(sp: &Spec<T>, sub: &str, op: Op, s: Px<T>, d: Px<T>, c: &mut Collector) -> (u64, u64) {
    let Some(bwf) = sp.bw else { return (0, 0) };
    let Some((_, ps, pd)) = presets().into_iter().find(|p| p.0 == op) else { return (0, 0) };
    let f = Bw::Eq(palette::blend::Equations::from_parameters(ps, pd));
    let t = tol::<T>();
    let e = oracle::expected(Form::Pre, op, sp.n, &s.to64(), &d.to64(), 0.0);
    let r = match pv::catch(|| bwf(Form::Pre, f, s, d)) {
        Ok(r) => r.to64(),
        Err(m) => {
            c.violation(&format!("C08/equation-presets/{}/{}<{}>/panic", op.name(), sp.name, T::NAME), 1.0, || json!({"sub": "equation-presets", "type": sp.name, "float": T::NAME, "op": op.name(), "input": input_json("component", sp.n, &s, &d), "observed": {"panic": m}}));
            return (1, 0);
        }
    };
    let mut err = (r.a - e.alpha).abs();
    for i in 0..sp.n {
        err = err.max((r.c[i] - e.lo[i]).abs());
    }
    if err <= t {
        c.ratio(sub, err / t, || json!({"op": op.name(), "input": input_json("component", sp.n, &s, &d)}));
    } else {
        c.violation(&format!("C08/equation-presets/{}/{}<{}>/value", op.name(), sp.name, T::NAME), if err.is_finite() { err } else { f64::INFINITY }, || {
            json!({"sub": "equation-presets", "type": sp.name, "float": T::NAME, "op": op.name(), "fn": bw_json(&f), "input": input_json("component", sp.n, &s, &d), "input_values": {"source": s.c[0].to64(), "source_alpha": s.a.to64(), "destination": d.c[0].to64(), "destination_alpha": d.a.to64(), "colours_are": "premultiplied"}, "observed": {"color": fnum(r.c[0]), "alpha": fnum(r.a)}, "expected": {"w3c_premultiplied": e.lo[0], "alpha": e.alpha}, "tol": t})
        });
    }
    c.outcome(pv::splitmix(r.c[0].to_bits() ^ r.a.to_bits().rotate_left(17)));
    (1, 1 + sp.n as u64)
}

fn run_presets<T: Fl>(ctx: &Ctx, specs: &[Spec<T>], total: &mut Collector) {
    let sub = format!("equation-presets/{}", T::NAME);
    if !ctx.wants(&sub) {
        return;
    }
    let lat = lattice::<T>(ctx.tier);
    let tup = tuples(&lat, Form::Pre);
    let (tup_r, sub_r) = (&tup, &sub);
    let cc = pv::par::run_chunks(specs.len(), |si, c| {
        let sp = &specs[si];
        if sp.bw.is_none() {
            return;
        }
        let (mut tr, mut tv) = (0u64, 0u64);
        for (op, _, _) in presets() {
            for &(s, d) in tup_r.iter() {
                let (a, b) = check_preset(sp, sub_r, op, s, d, c);
                tr += a;
                tv += b;
            }
        }
        c.add(sub_r, tup_r.len() as u64, tr, tv, tup_r.iter().filter(|(s, d)| nontrivial4([s.c[0], d.c[0], s.a, d.a])).count() as u64);
    });
    total.merge(cc);
    total.exhaustive(&sub, true, "Equations::from_parameters spelling over/inside/outside/atop/xor (Fa, Fb) and screen (One, OneMinusSourceColor) via PreAlpha::blend_with × all premultiplied component tuples × the 5 Blend types, against the same W3C model");
}

/// DESIGN §3.2: report numeric literals of the anchored sources that the lattice does not know.
fn scan_literals(c: &mut Collector) {
    let repo = std::env::var("VERIF_REPO").unwrap_or_else(|_| "/repo".into());
    let known = ["4.0", "12.0"];
    let mut found = vec![];
    for f in ["palette/src/blend/blend.rs", "palette/src/blend/compose.rs", "palette/src/blend.rs", "palette/src/macros/blend.rs"] {
        let Ok(txt) = std::fs::read_to_string(format!("{repo}/{f}")) else {
            c.note("literal-scan", json!(format!("{repo}/{f} not readable: scan skipped")));
            return;
        };
        for line in txt.lines() {
            let code = line.split("//").next().unwrap_or("");
            let mut rest = code;
            while let Some(p) = rest.find("from_f64(") {
                let tail = &rest[p + 9..];
                let lit: String = tail.chars().take_while(|ch| *ch != ')').collect();
                if !known.contains(&lit.trim()) {
                    c.warn(format!("{f}: numeric literal {lit} is not in C08's threshold list (¼ = 1/4.0, ½ via 2·x, 12.0): check that the lattice straddles any new branch"));
                }
                found.push(format!("{f}:{}", lit.trim()));
                rest = &tail[lit.len()..];
            }
        }
    }
    c.note("literal-scan", json!({"from_f64 literals": found, "known": known, "comparisons are against T::zero()/T::one() after scaling by 2 and 4": true}));
}

/// The reference must reproduce hand-computed values of the W3C formulas (machinery check).
fn oracle_selftest() -> Result<(), String> {
    use oracle::b_w3c;
    let cases: [(Op, f64, f64, f64); 16] = [
        (Op::Multiply, 0.5, 0.25, 0.125),
        (Op::Screen, 0.5, 0.25, 0.625),
        (Op::Overlay, 0.25, 0.5, 0.25),   // backdrop dark: multiply(cs, 2cb)
        (Op::Overlay, 0.75, 0.5, 0.75),   // backdrop light: screen(cs, 2cb−1) = .5 + .5 − .25
        (Op::HardLight, 0.5, 0.25, 0.25), // source dark: multiply(cb, 2cs)
        (Op::HardLight, 0.5, 0.75, 0.75),
        (Op::Dodge, 0.25, 0.5, 0.5),
        (Op::Dodge, 0.0, 1.0, 0.0),
        (Op::Dodge, 0.5, 1.0, 1.0),
        (Op::Burn, 0.75, 0.5, 0.5),
        (Op::Burn, 1.0, 0.0, 1.0),
        (Op::Burn, 0.5, 0.0, 0.0),
        (Op::SoftLight, 0.5, 0.0, 0.25),
        (Op::SoftLight, 0.25, 1.0, 0.5),
        (Op::SoftLight, 0.16, 1.0, 0.398336),
        (Op::Exclusion, 0.5, 0.25, 0.5),
    ];
    for (op, cb, cs, want) in cases {
        let got = b_w3c(op, cb, cs);
        if (got - want).abs() > 1e-12 {
            return Err(format!("reference {}(cb={cb}, cs={cs}) = {got}, hand-computed {want}", op.name()));
        }
    }
    // W3C simple alpha compositing example: source-over of 50% red over opaque blue, premultiplied
    let e = oracle::expected(Form::Alpha, Op::Over, 3, &Px { c: [1.0, 0.0, 0.0], a: 0.5 }, &Px { c: [0.0, 0.0, 1.0], a: 1.0 }, 0.0);
    if e.lo != [0.5, 0.0, 0.5] || e.alpha != 1.0 {
        return Err(format!("reference source-over: {:?} α {}", e.lo, e.alpha));
    }
    Ok(())
}

fn parse_bits(v: &Value) -> Vec<u64> {
    v.as_array().map(|a| a.iter().map(|x| u64::from_str_radix(x.as_str().unwrap_or("0").trim_start_matches("0x"), 16).unwrap_or(0)).collect()).unwrap_or_default()
}

fn replay_t<T: Fl>(specs: Vec<Spec<T>>, case: &Value, c: &mut Collector) {
    let ty = case["type"].as_str().unwrap_or("");
    let Some(sp) = specs.iter().find(|s| s.name == ty) else {
        eprintln!("replay: unknown type {ty}");
        std::process::exit(3)
    };
    let bits = parse_bits(&case["input"]);
    let mut l = Local::default();
    let sub = case["sub"].as_str().unwrap_or("");
    let form = Form::from_name(case["form"].as_str().unwrap_or("pre")).unwrap_or(Form::Pre);
    let op = Op::from_name(case["op"].as_str().unwrap_or("over")).unwrap_or(Op::Over);
    let bad = || -> ! {
        eprintln!("replay: malformed case");
        std::process::exit(3)
    };
    match sub {
        "component" | "colour" => {
            let Some((s, d, level)) = input_from::<T>(sp.n, &bits) else { bad() };
            check_pair(sp, level, "replay", form, op, s, d, c, &mut l, 0);
            let r = pv::catch(|| sp.run(form, op, s, d));
            let e = oracle::expected(form, op, sp.n, &s.to64(), &d.to64(), delta::<T>());
            println!("{}<{}> {} {}: source {:?} α {:?}, backdrop {:?} α {:?}", sp.name, T::NAME, form.name(), op.name(), &s.c[..sp.n], s.a, &d.c[..sp.n], d.a);
            println!("  observed {:?}", r.map(|r| (r.c[..sp.n].to_vec(), r.a)));
            println!("  expected (premultiplied) lo {:?} hi {:?} alpha {}", &e.lo[..sp.n], &e.hi[..sp.n], e.alpha);
        }
        "identity" => {
            let Some((s, d, _)) = input_from::<T>(sp.n, &bits) else { bad() };
            let which = case["which"].as_str().unwrap_or("symmetry");
            let which = IDENTITIES.into_iter().find(|w| *w == which).unwrap_or("symmetry");
            check_identity(sp, "replay", which, form, op, s, d, c, &mut l);
        }
        "premultiply" => {
            if bits.len() != 2 {
                bad()
            }
            let route = case["route"].as_u64().unwrap_or(0) as usize;
            let p = Px::grey(T::from_bits64(bits[0]), T::from_bits64(bits[1]));
            check_premul(sp, "replay", route.min(4), p, c, &mut l);
            println!("{}<{}> route {}: (c, α) = ({:?}, {:?}) -> {:?}", sp.name, T::NAME, PREMUL_ROUTES[route.min(4)], p.c[0], p.a, pv::catch(|| (sp.premul)(route.min(4), p)).map(|(a, b)| (a.c[0], a.a, b.c[0], b.a)));
        }
        "blend-with" => {
            let Some((s, d, _)) = input_from::<T>(sp.n, &bits) else { bad() };
            let Some(f) = bw_from(&case["fn"]) else { bad() };
            check_bw(sp, "replay", form, f, s, d, c, &mut l);
        }
        "equation-presets" => {
            let Some((s, d, _)) = input_from::<T>(sp.n, &bits) else { bad() };
            check_preset(sp, "replay", op, s, d, c);
        }
        _ => bad(),
    }
}

fn main() {
    pv::main_guard(real_main)
}

fn real_main() -> i32 {
    let (ctx, mode) = Ctx::from_args("C08");
    if let Err(e) = oracle_selftest() {
        eprintln!("MACHINERY-FAILURE: {e}");
        return 3;
    }
    if let Mode::Replay(rep) = mode {
        let mut c = Collector::new();
        let case = &rep["case"];
        if case["float"].as_str() == Some("f64") {
            replay_t::<f64>(specs_f64(), case, &mut c);
        } else {
            replay_t::<f32>(specs_f32(), case, &mut c);
        }
        return ctx.finish_replay(c);
    }
    let mut total = Collector::new();
    let (s32, s64) = (specs_f32(), specs_f64());
    run_component(&ctx, &s32, &mut total);
    run_component(&ctx, &s64, &mut total);
    run_colour(&ctx, &s32, &mut total);
    run_colour(&ctx, &s64, &mut total);
    run_identity(&ctx, &s32, &mut total);
    run_identity(&ctx, &s64, &mut total);
    run_premul(&ctx, &s32, &mut total);
    run_premul(&ctx, &s64, &mut total);
    run_bw(&ctx, &s32, &mut total);
    run_bw(&ctx, &s64, &mut total);
    run_presets(&ctx, &s32, &mut total);
    run_presets(&ctx, &s64, &mut total);
    scan_literals(&mut total);
    total.note("tolerance", json!(TOL_NOTE));
    total.note("argument-roles", json!("palette self = W3C source (cs, αs); other = backdrop/destination (cb, αb); verified from blend_separable(src = self, dst = other), the docs of overlay/dodge/burn and BlendWith::blend_with(self, destination, ..)"));
    ctx.finish(
        total,
        "model_checking",
        "a state = one input tuple (source, backdrop, αs, αb as bit patterns) of one (colour type, float, input form); transitions = calls of Blend::*/Compose::*/BlendWith::blend_with/premultiply/unpremultiply on it; traces = result components and alphas compared with the f64 W3C model (value and range); non-trivial = tuples with at least one of the four values strictly inside (0,1) (colour level: the three slots do not all carry the same pair)",
        &[
            "palette's self is the W3C source and other the backdrop (read from blend_separable and the trait docs)",
            "values are compared in premultiplied terms (the statement's formulas are for premultiplied colours); a straight-alpha result (Alpha<C>) is re-premultiplied with its own result alpha, its components are range-checked as returned",
            "colour-dodge / colour-burn on PreAlpha inputs: palette must first divide c/α in the component type; the oracle accepts the hull of B over a ±4 eps box around the unpremultiplied inputs (both functions are monotone), exact quotients 0 and 1 stay exact",
            "plus (W3C lighter, co = cs + cb, αo = αs + αb): the statement also requires results in [0,1]; palette clamps αo, so the expected colour is min(1, cs + cb) — cases with cs + cb > 1 have their own input class",
            "premultiply round trip is required for alpha = 0 and for normal alpha > 0 down to MIN_POSITIVE (underflow of c·α below the normal range is allowed for as rounding)",
        ],
    )
}
