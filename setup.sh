#!/bin/bash
# Build every harness binary offline from files on disk.
set -e
cd "$(dirname "$0")/harness"
export CARGO_NET_OFFLINE=true
[ -f Cargo.lock ] || cp /repo/Cargo.lock .
cargo build --release --offline --workspace --message-format=short 2>&1 | grep -E "^error|Finished|could not" || true
test -x ../target/release/c05
