fn main() {
    eprintln!("C02: check not built yet");
    std::process::exit(3);
}
