//! compiler-discovered conversion graph tables (see pg)
pg::group_prelude!();
pg::d65_core!(d65_f32, f32);
