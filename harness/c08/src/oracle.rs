//! Reference model: W3C Compositing and Blending Level 1 in plain f64, written from the
//! specification text (§5 general formula, §9 Porter-Duff operators, §10 separable blend modes),
//! not from palette's source. `cb` = backdrop (palette: `other`/destination), `cs` = source
//! (palette: `self`).
use crate::subject::{Form, Op, Px};
use palette::blend::{Equation, Equations, Parameter};

/// The per-component blend function B(cb, cs) of the eleven separable modes (W3C §10.1).
pub fn b_w3c(op: Op, cb: f64, cs: f64) -> f64 {
    fn multiply(cb: f64, cs: f64) -> f64 {
        cb * cs
    }
    fn screen(cb: f64, cs: f64) -> f64 {
        cb + cs - cb * cs
    }
    fn hard_light(cb: f64, cs: f64) -> f64 {
        if cs <= 0.5 {
            multiply(cb, 2.0 * cs)
        } else {
            screen(cb, 2.0 * cs - 1.0)
        }
    }
    match op {
        Op::Multiply => multiply(cb, cs),
        Op::Screen => screen(cb, cs),
        // "Overlay: B(cb, cs) = HardLight(cs, cb)" — hard-light with the layers swapped
        Op::Overlay => hard_light(cs, cb),
        Op::Darken => cb.min(cs),
        Op::Lighten => cb.max(cs),
        Op::Dodge => {
            if cb == 0.0 {
                0.0
            } else if cs == 1.0 {
                1.0
            } else {
                (cb / (1.0 - cs)).min(1.0)
            }
        }
        Op::Burn => {
            if cb == 1.0 {
                1.0
            } else if cs == 0.0 {
                0.0
            } else {
                1.0 - ((1.0 - cb) / cs).min(1.0)
            }
        }
        Op::HardLight => hard_light(cb, cs),
        Op::SoftLight => {
            if cs <= 0.5 {
                cb - (1.0 - 2.0 * cs) * cb * (1.0 - cb)
            } else {
                let d = if cb <= 0.25 { ((16.0 * cb - 12.0) * cb + 4.0) * cb } else { cb.sqrt() };
                cb + (2.0 * cs - 1.0) * (d - cb)
            }
        }
        Op::Difference => (cb - cs).abs(),
        Op::Exclusion => cb + cs - 2.0 * cb * cs,
        _ => panic!("checker: not a blend mode"),
    }
}

/// Porter-Duff coefficient pair (Fa, Fb) (W3C §9.1); `plus` is "lighter".
pub fn fa_fb(op: Op, sa: f64, da: f64) -> (f64, f64) {
    match op {
        Op::Over => (1.0, 1.0 - sa),
        Op::Inside => (da, 0.0),
        Op::Outside => (1.0 - da, 0.0),
        Op::Atop => (da, 1.0 - sa),
        Op::Xor => (1.0 - da, 1.0 - sa),
        Op::Plus => (1.0, 1.0),
        _ => panic!("checker: not a compose operator"),
    }
}

/// Expected result in premultiplied terms: per component an interval [lo, hi] (a point except
/// where the backward-error envelope applies), the result alpha, and the input class.
pub struct Exp {
    pub lo: [f64; 3],
    pub hi: [f64; 3],
    pub alpha: f64,
    pub region: [&'static str; 3],
}

/// (straight colour, premultiplied colour) of one component under an input form.
pub fn split(form: Form, c: f64, a: f64) -> (f64, f64) {
    match form {
        Form::Opaque => (c, c),
        Form::Alpha => (c, c * a),
        Form::Pre => (if a != 0.0 { c / a } else { 0.0 }, c),
    }
}

fn perturb(x: f64, delta: f64) -> (f64, f64) {
    // exact quotients (0 = 0/α, 1 = α/α) are exact in every float type
    if x == 0.0 || x >= 1.0 {
        (x, x)
    } else {
        ((x * (1.0 - delta)).max(f64::MIN_POSITIVE), (x * (1.0 + delta)).min(1.0 - f64::EPSILON / 2.0))
    }
}

pub fn region(op: Op, cs: f64, cb: f64, sum_pre: f64) -> &'static str {
    match op {
        Op::Overlay => {
            if cb <= 0.5 {
                "cb<=1/2"
            } else {
                "cb>1/2"
            }
        }
        Op::HardLight => {
            if cs <= 0.5 {
                "cs<=1/2"
            } else {
                "cs>1/2"
            }
        }
        Op::SoftLight => {
            if cs <= 0.5 {
                "cs<=1/2"
            } else if cb <= 0.25 {
                "cs>1/2,cb<=1/4"
            } else {
                "cs>1/2,cb>1/4"
            }
        }
        Op::Dodge => {
            if cb == 0.0 {
                "cb=0"
            } else if cs == 1.0 {
                "cs=1"
            } else if cb / (1.0 - cs) >= 1.0 {
                "cb/(1-cs)>=1"
            } else {
                "cb/(1-cs)<1"
            }
        }
        Op::Burn => {
            if cb == 1.0 {
                "cb=1"
            } else if cs == 0.0 {
                "cs=0"
            } else if (1.0 - cb) / cs >= 1.0 {
                "(1-cb)/cs>=1"
            } else {
                "(1-cb)/cs<1"
            }
        }
        Op::Plus => {
            if sum_pre > 1.0 {
                "cs+cb>1"
            } else {
                "cs+cb<=1"
            }
        }
        _ => "all",
    }
}

/// W3C expectation for `s.op(d)` (s = source, d = backdrop) given in `form`.
/// `delta`: relative half-width of the backward-error box used for colour-dodge / colour-burn
/// on premultiplied inputs (there palette has to divide `c/α` in the component type before the
/// guarded, ill-conditioned `cb/(1−cs)`; DESIGN §3.4).
pub fn expected(form: Form, op: Op, n: usize, s: &Px<f64>, d: &Px<f64>, delta: f64) -> Exp {
    let (sa, da) = match form {
        Form::Opaque => (1.0, 1.0),
        _ => (s.a, d.a),
    };
    let mut e = Exp { lo: [0.0; 3], hi: [0.0; 3], alpha: 0.0, region: ["all"; 3] };
    for i in 0..n {
        let (cs, cs_pre) = split(form, s.c[i], sa);
        let (cb, cb_pre) = split(form, d.c[i], da);
        e.region[i] = region(op, cs, cb, cs_pre + cb_pre);
        if op.is_blend() {
            let (b_lo, b_hi) = if form == Form::Pre && matches!(op, Op::Dodge | Op::Burn) {
                // both functions are non-decreasing in cb and in cs
                let (cs_l, cs_h) = perturb(cs, delta);
                let (cb_l, cb_h) = perturb(cb, delta);
                (b_w3c(op, cb_l, cs_l), b_w3c(op, cb_h, cs_h))
            } else {
                let b = b_w3c(op, cb, cs);
                (b, b)
            };
            let co = |b: f64| cs_pre * (1.0 - da) + sa * da * b + (1.0 - sa) * cb_pre;
            e.lo[i] = co(b_lo);
            e.hi[i] = co(b_hi);
        } else {
            let (fa, fb) = fa_fb(op, sa, da);
            let mut co = cs_pre * fa + cb_pre * fb;
            if op == Op::Plus {
                // the statement requires result components in [0, 1]: the only value that is
                // both in range and agrees with `lighter` wherever that is in range
                co = co.min(1.0);
            }
            e.lo[i] = co;
            e.hi[i] = co;
        }
    }
    e.alpha = if op.is_blend() {
        sa + da - sa * da
    } else {
        let (fa, fb) = fa_fb(op, sa, da);
        (sa * fa + da * fb).min(1.0)
    };
    e
}

fn par_val(p: Parameter, sc: f64, dc: f64, sa: f64, da: f64) -> f64 {
    match p {
        Parameter::One => 1.0,
        Parameter::Zero => 0.0,
        Parameter::SourceColor => sc,
        Parameter::OneMinusSourceColor => 1.0 - sc,
        Parameter::DestinationColor => dc,
        Parameter::OneMinusDestinationColor => 1.0 - dc,
        Parameter::SourceAlpha => sa,
        Parameter::OneMinusSourceAlpha => 1.0 - sa,
        Parameter::DestinationAlpha => da,
        Parameter::OneMinusDestinationAlpha => 1.0 - da,
    }
}
fn eq_val(e: Equation, sp: f64, s: f64, dp: f64, d: f64) -> f64 {
    match e {
        Equation::Add => sp * s + dp * d,
        Equation::Subtract => sp * s - dp * d,
        Equation::ReverseSubtract => dp * d - sp * s,
        Equation::Min => s.min(d),
        Equation::Max => s.max(d),
    }
}

/// The documented meaning of `Equations` ("e(sp * S, dp * D)" on premultiplied S, D; Min/Max
/// ignore the parameters; for the alpha channel "colour" parameters mean the alpha).
/// Returns (premultiplied colour components, alpha).
pub fn equations_expected(eq: &Equations, n: usize, s_pre: &Px<f64>, d_pre: &Px<f64>) -> ([f64; 3], f64) {
    let (sa, da) = (s_pre.a, d_pre.a);
    let mut c = [0.0; 3];
    for i in 0..n {
        let (sc, dc) = (s_pre.c[i], d_pre.c[i]);
        let sp = par_val(eq.color_parameters.source, sc, dc, sa, da);
        let dp = par_val(eq.color_parameters.destination, sc, dc, sa, da);
        c[i] = eq_val(eq.color_equation, sp, sc, dp, dc);
    }
    let sp = par_val(eq.alpha_parameters.source, sa, da, sa, da);
    let dp = par_val(eq.alpha_parameters.destination, sa, da, sa, da);
    (c, eq_val(eq.alpha_equation, sp, sa, dp, da))
}
