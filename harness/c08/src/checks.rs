//! Check functions (one per kind of case; used by the explorer and by --replay alike).
use crate::oracle::{equations_expected, expected, split};
use crate::subject::*;
use pv::fl::Fl;
use pv::{json, Collector, Value};

/// Absolute tolerance in premultiplied terms for results of magnitude O(1) (scaled by
/// max(1, |expected|)). Calibration on the pinned tree: see `TOL_NOTE`.
pub const TOL32: f64 = 64.0 / 16777216.0; // 64 · 2^-24 = 3.8e-6
pub const TOL64: f64 = 1e-12;
pub const TOL_NOTE: &str = "f32: 64·2^-24 = 3.8e-6, f64: 1e-12; absolute, in premultiplied terms, × max(1, |expected|). Each formula is ≤ ~12 roundings of O(1) intermediates; worst rounding error observed on the pinned tree (thorough lattice): 0.037·tol = 1.4e-7 in f32 (27× slack), 4.4e-4·tol = 4.4e-16 in f64; every realistic property-breaking change moves some lattice result by ≥ 1e-3 (260× tol). Round trip premultiply/unpremultiply: 16 eps relative (observed ≤ 1 eps)";

/// relative tolerance of Porter-Duff results, in units of eps (≤ ~6 roundings: premultiply, 1 − α,
/// two products, a sum, the final division)
pub const REL_K: f64 = 16.0;
pub fn tol<T: Fl>() -> f64 {
    if T::NAME == "f32" {
        TOL32
    } else {
        TOL64
    }
}
/// relative half-width of the backward-error box for dodge/burn on premultiplied inputs: 4 eps
pub fn delta<T: Fl>() -> f64 {
    4.0 * T::EPS
}
pub fn min_pos<T: Fl>() -> T {
    if T::NAME == "f32" {
        T::from64(f32::MIN_POSITIVE as f64)
    } else {
        T::from64(f64::MIN_POSITIVE)
    }
}

pub fn hexv<T: Fl>(v: &[T]) -> Vec<String> {
    v.iter().map(|x| format!("{:#x}", x.bits64())).collect()
}
pub fn fnum(x: f64) -> Value {
    if x.is_finite() {
        json!(x)
    } else {
        json!(format!("{x}"))
    }
}
fn fvec(v: &[f64]) -> Value {
    Value::Array(v.iter().map(|x| fnum(*x)).collect())
}

/// Local state of one chunk: counters and the running maximum of err/tol (so that the
/// string-keyed collector is only touched when the maximum grows).
#[derive(Default)]
pub struct Local {
    pub trans: u64,
    pub traces: u64,
    pub best: f64,
    pub best_rel: f64,
    pub k: u64,
}

/// `level` = "component" (grey colours; input = [cs, cb, αs, αb]) or "colour"
/// (input = [s.., αs, d.., αb]).
pub fn input_json<T: Fl>(level: &str, n: usize, s: &Px<T>, d: &Px<T>) -> Value {
    if level == "colour" {
        let mut v: Vec<T> = s.c[..n].to_vec();
        v.push(s.a);
        v.extend_from_slice(&d.c[..n]);
        v.push(d.a);
        json!(hexv(&v))
    } else {
        json!(hexv(&[s.c[0], d.c[0], s.a, d.a]))
    }
}
pub fn input_from<T: Fl>(n: usize, bits: &[u64]) -> Option<(Px<T>, Px<T>, &'static str)> {
    let f = |b: u64| T::from_bits64(b);
    if bits.len() == 4 {
        Some((Px::grey(f(bits[0]), f(bits[2])), Px::grey(f(bits[1]), f(bits[3])), "component"))
    } else if bits.len() == 2 * n + 2 {
        let z = T::from64(0.0);
        let mut s = Px { c: [z; 3], a: f(bits[n]) };
        let mut d = Px { c: [z; 3], a: f(bits[2 * n + 1]) };
        for i in 0..n {
            s.c[i] = f(bits[i]);
            d.c[i] = f(bits[n + 1 + i]);
        }
        Some((s, d, "colour"))
    } else {
        None
    }
}

fn mix(h: u64, x: u64) -> u64 {
    pv::splitmix(h ^ x)
}

/// One application `s.op(d)` in one form against the W3C model: value (premultiplied terms),
/// result alpha, range of every result component and of the alpha, finiteness, no panic.
#[allow(clippy::too_many_arguments)]
pub fn check_pair<T: Fl>(sp: &Spec<T>, level: &'static str, sub: &str, form: Form, op: Op, s: Px<T>, d: Px<T>, c: &mut Collector, l: &mut Local, seed: u64) {
    let n = sp.n;
    let t = tol::<T>();
    // the result alpha of the eleven blend modes is one shared formula: one signature for all
    let sig = |region: &str, kind: &str| format!("C08/{}/{}/{}/{}<{}>/{}/{}", level, if region == "alpha" && op.is_blend() { "blend-mode" } else { op.name() }, form.name(), sp.name, T::NAME, region, kind);
    let (s64, d64) = (s.to64(), d.to64());
    let e = expected(form, op, n, &s64, &d64, delta::<T>());
    l.trans += 1;
    let obs = match pv::catch(|| sp.run(form, op, s, d)) {
        Ok(o) => o,
        Err(msg) => {
            c.violation(&sig(e.region[0], "panic"), 1.0, || {
                json!({"sub": level, "type": sp.name, "float": T::NAME, "form": form.name(), "op": op.name(), "input": input_json(level, n, &s, &d), "observed": {"panic": msg}, "expected": "no panic"})
            });
            return;
        }
    };
    let o64 = obs.to64();
    let case = |what: &str, comp: Value| {
        json!({"sub": level, "type": sp.name, "float": T::NAME, "form": form.name(), "op": op.name(),
            "input": input_json(level, n, &s, &d),
            "input_values": {"source": fvec(&s64.c[..n]), "source_alpha": s64.a, "backdrop": fvec(&d64.c[..n]), "backdrop_alpha": d64.a, "colours_are": if form == Form::Pre { "premultiplied" } else { "straight" }},
            "what": what, "component": comp,
            "observed": {"color": fvec(&o64.c[..n]), "alpha": fnum(o64.a), "result_is": if form == Form::Alpha { "straight alpha" } else if form == Form::Pre { "premultiplied" } else { "opaque colour" }},
            "expected": {"premultiplied_lo": fvec(&e.lo[..n]), "premultiplied_hi": fvec(&e.hi[..n]), "alpha": e.alpha, "range": "[0,1]"}, "tol": t})
    };
    let mut worst = 0.0f64;
    let mut h = mix(op.index() << 8 | form as u64, 0);
    for i in 0..n {
        let x = o64.c[i];
        h = mix(h, obs.c[i].bits64());
        l.traces += 2;
        if !x.is_finite() {
            c.violation(&sig("any", if x.is_nan() { "NaN" } else { "inf" }), f64::INFINITY, || case("non-finite result component", json!(i)));
            continue;
        }
        // range of the component as returned
        let excess = (-x).max(x - 1.0).max(0.0);
        // value in premultiplied terms
        let xp = match form {
            Form::Alpha => x * o64.a,
            _ => x,
        };
        let scale = e.hi[i].abs().max(1.0);
        let err = (e.lo[i] - xp).max(xp - e.hi[i]).max(0.0);
        if excess <= t && err <= t * scale && e.region[i] != "cs+cb>1" {
            // calibration figure: only what passes (violations carry their own magnitude), and
            // not the plus overshoot class, where an excess below tol is the recorded defect
            // at a small size, not rounding
            worst = worst.max(excess / t).max(err / (t * scale));
        }
        if excess > t {
            c.violation(&sig(e.region[i], "range"), excess, || case("result component outside [0,1]", json!(i)));
        } else if !(err <= t * scale) {
            c.violation(&sig(e.region[i], "value"), err, || case("result component differs from the W3C formula (premultiplied terms)", json!(i)));
        }
        // Porter-Duff operators on non-negative inputs are sums of products of non-negative terms
        // (1 − α is exact or correctly rounded): no cancellation, so every result component is accurate
        // RELATIVE to its own size, however small — in premultiplied terms and, for the straight-alpha
        // form, after the final division too.
        // (xor's published alpha, αs + αb − 2αsαb, does cancel: its straight-alpha colours are exempt)
        if !op.is_blend() && !(op == Op::Xor && form == Form::Alpha) && e.region[i] != "cs+cb>1" && e.lo[i] == e.hi[i] && excess <= t && err <= t * scale {
            let want = match form {
                Form::Alpha => if e.alpha > 1e-30 { e.lo[i] / e.alpha } else { 0.0 },
                _ => e.lo[i],
            };
            if want > 1e-30 {
                let rel = (x - want).abs() / want;
                let rt = REL_K * T::EPS;
                l.traces += 1;
                if rel <= rt {
                    if rel / rt > l.best_rel {
                        l.best_rel = rel / rt;
                        c.ratio(&format!("{sub}/compose-relative"), rel / rt, || case("largest relative error/tolerance of a Porter-Duff result so far", json!(i)));
                    }
                } else {
                    c.violation(&sig(e.region[i], "relative"), rel, || case("Porter-Duff result component is not accurate relative to its own size (cancellation)", json!(i)));
                }
            }
        }
        if form == Form::Alpha && o64.a == 0.0 && x != 0.0 {
            c.violation(&sig(e.region[i], "nonzero-colour-at-zero-alpha"), x.abs(), || case("straight-alpha result with alpha 0 must be the zero colour", json!(i)));
        }
    }
    if form != Form::Opaque {
        h = mix(h, obs.a.bits64());
        l.traces += 2;
        let a = o64.a;
        if !a.is_finite() {
            c.violation(&sig("alpha", if a.is_nan() { "NaN" } else { "inf" }), f64::INFINITY, || case("non-finite result alpha", json!("alpha")));
        } else {
            let excess = (-a).max(a - 1.0).max(0.0);
            let err = (a - e.alpha).abs();
            if excess <= t && err <= t {
                worst = worst.max(excess / t).max(err / t);
            }
            if excess > t {
                c.violation(&sig("alpha", "range"), excess, || case("result alpha outside [0,1]", json!("alpha")));
            } else if !(err <= t) {
                c.violation(&sig("alpha", "value"), err, || case("result alpha differs from the W3C formula", json!("alpha")));
            } else if !op.is_blend() && op != Op::Xor && e.alpha > 1e-30 {
                let rel = (a - e.alpha).abs() / e.alpha;
                l.traces += 1;
                if !(rel <= REL_K * T::EPS) {
                    c.violation(&sig("alpha", "relative"), rel, || case("Porter-Duff result alpha is not accurate relative to its own size (cancellation)", json!("alpha")));
                }
            }
        }
    }
    if worst > l.best {
        l.best = worst;
        c.ratio(sub, worst, || case("largest error/tolerance so far", json!(null)));
    }
    c.outcome(h);
    l.k += 1;
    if l.k % 61 == 0 {
        c.sample(mix(mix(mix(h ^ pv::fnv(sp.name.as_bytes()) ^ pv::fnv(sub.as_bytes()).rotate_left(21), s.c[0].bits64() ^ s.c[2].bits64().rotate_left(7) ^ s.a.bits64().rotate_left(13)), d.c[0].bits64() ^ d.c[1].bits64().rotate_left(9) ^ d.a.bits64().rotate_left(29)), seed), || {
            json!({"sub": sub, "type": sp.name, "form": form.name(), "op": op.name(), "source": fvec(&s64.c[..n]), "source_alpha": s64.a, "backdrop": fvec(&d64.c[..n]), "backdrop_alpha": d64.a, "result": fvec(&o64.c[..n]), "result_alpha": fnum(o64.a), "w3c_premultiplied": fvec(&e.lo[..n]), "w3c_alpha": e.alpha})
        });
    }
}

fn same<T: Fl>(a: T, b: T) -> bool {
    a.bits64() == b.bits64() || a.to64() == b.to64()
}

pub const IDENTITIES: [&str; 3] = ["transparent-over", "opaque-over", "symmetry"];
pub const COMMUTATIVE: [Op; 8] = [Op::Multiply, Op::Screen, Op::Darken, Op::Lighten, Op::Difference, Op::Exclusion, Op::Xor, Op::Plus];

/// Porter-Duff identities in premultiplied terms. Inputs are premultiplied (c ≤ α).
/// `which`: transparent-over (s ignored: source is the transparent colour), opaque-over
/// (s.a is forced to 1), symmetry (op must be commutative; form Pre or Alpha).
#[allow(clippy::too_many_arguments)]
pub fn check_identity<T: Fl>(sp: &Spec<T>, sub: &str, which: &str, form: Form, op: Op, s: Px<T>, d: Px<T>, c: &mut Collector, l: &mut Local) {
    let n = sp.n;
    let t = tol::<T>();
    let (zero, one) = (T::from64(0.0), T::from64(1.0));
    let sig = |kind: &str| format!("C08/identity/{}/{}/{}/{}<{}>/{}", which, op.name(), form.name(), sp.name, T::NAME, kind);
    let case = |s: &Px<T>, d: &Px<T>, obs: Value, exp: Value| json!({"sub": "identity", "which": which, "type": sp.name, "float": T::NAME, "form": form.name(), "op": op.name(), "input": input_json("component", n, s, d), "input_values": {"source": s.c[0].to64(), "source_alpha": s.a.to64(), "backdrop": d.c[0].to64(), "backdrop_alpha": d.a.to64()}, "observed": obs, "expected": exp});
    match which {
        "transparent-over" => {
            let s = Px::grey(zero, zero);
            l.trans += 1;
            l.traces += 1;
            match pv::catch(|| sp.run(Form::Pre, Op::Over, s, d)) {
                Err(m) => c.violation(&sig("panic"), 1.0, || case(&s, &d, json!({"panic": m}), json!("no panic"))),
                Ok(r) => {
                    let ok = (0..n).all(|i| same(r.c[i], d.c[i])) && same(r.a, d.a);
                    if !ok {
                        let mag = (0..n).map(|i| (r.c[i].to64() - d.c[i].to64()).abs()).fold((r.a.to64() - d.a.to64()).abs(), f64::max);
                        c.violation(&sig("not-backdrop"), if mag.is_finite() { mag.max(f64::MIN_POSITIVE) } else { f64::INFINITY }, || case(&s, &d, json!({"color": fvec(&r.to64().c[..n]), "alpha": fnum(r.a.to64())}), json!({"exactly": {"color": d.c[0].to64(), "alpha": d.a.to64()}})));
                    }
                    c.outcome(mix(r.c[0].bits64(), r.a.bits64()));
                }
            }
        }
        "opaque-over" => {
            let s = Px { c: s.c, a: one };
            l.trans += 1;
            l.traces += 2;
            match pv::catch(|| sp.run(Form::Pre, Op::Over, s, d)) {
                Err(m) => c.violation(&sig("panic"), 1.0, || case(&s, &d, json!({"panic": m}), json!("no panic"))),
                Ok(r) => {
                    if !(0..n).all(|i| same(r.c[i], s.c[i])) {
                        let mag = (0..n).map(|i| (r.c[i].to64() - s.c[i].to64()).abs()).fold(0.0, f64::max);
                        c.violation(&sig("not-source"), if mag.is_finite() { mag.max(f64::MIN_POSITIVE) } else { f64::INFINITY }, || case(&s, &d, json!({"color": fvec(&r.to64().c[..n]), "alpha": fnum(r.a.to64())}), json!({"color_exactly": s.c[0].to64(), "alpha": 1.0})));
                    }
                    let ea = (r.a.to64() - 1.0).abs();
                    c.ratio(sub, ea / t, || case(&s, &d, json!({"alpha": fnum(r.a.to64())}), json!({"alpha": 1.0})));
                    if !(ea <= t) {
                        c.violation(&sig("alpha-not-1"), ea, || case(&s, &d, json!({"alpha": fnum(r.a.to64())}), json!({"alpha": 1.0, "tol": t})));
                    }
                    c.outcome(mix(r.c[0].bits64(), r.a.bits64()));
                }
            }
        }
        _ => {
            l.trans += 2;
            l.traces += 1;
            match pv::catch(|| (sp.run(form, op, s, d), sp.run(form, op, d, s))) {
                Err(m) => c.violation(&sig("panic"), 1.0, || case(&s, &d, json!({"panic": m}), json!("no panic"))),
                Ok((r1, r2)) => {
                    let exact = form == Form::Pre && matches!(op, Op::Xor | Op::Plus);
                    let (a, b) = (r1.to64(), r2.to64());
                    let pre = |p: &Px<f64>, i: usize| if form == Form::Alpha { p.c[i] * p.a } else { p.c[i] };
                    let mut mag = if form == Form::Opaque { 0.0 } else { (a.a - b.a).abs() };
                    for i in 0..n {
                        mag = mag.max((pre(&a, i) - pre(&b, i)).abs());
                    }
                    let obs = || json!({"s.op(d)": {"color": fvec(&a.c[..n]), "alpha": fnum(a.a)}, "d.op(s)": {"color": fvec(&b.c[..n]), "alpha": fnum(b.a)}});
                    if exact {
                        let ok = (0..n).all(|i| same(r1.c[i], r2.c[i])) && same(r1.a, r2.a);
                        if !ok {
                            c.violation(&sig("asymmetric-exact"), if mag.is_finite() { mag.max(f64::MIN_POSITIVE) } else { f64::INFINITY }, || case(&s, &d, obs(), json!("s.op(d) == d.op(s) exactly (commutative float additions/multiplications only)")));
                        }
                    } else {
                        let scale = (0..n).map(|i| pre(&a, i).abs()).fold(1.0, f64::max);
                        if mag.is_finite() {
                            c.ratio(sub, mag / (t * scale), || case(&s, &d, obs(), json!("symmetric to tol (premultiplied terms)")));
                        }
                        if !(mag <= t * scale) {
                            c.violation(&sig("asymmetric"), if mag.is_finite() { mag } else { f64::INFINITY }, || case(&s, &d, obs(), json!({"s.op(d) == d.op(s) within": t * scale, "in": "premultiplied terms"})));
                        }
                    }
                    c.outcome(mix(r1.c[0].bits64(), r2.a.bits64()));
                }
            }
        }
    }
}

/// premultiply / unpremultiply through one API route; `p` = straight grey colour + alpha.
pub fn check_premul<T: Fl>(sp: &Spec<T>, sub: &str, route: usize, p: Px<T>, c: &mut Collector, l: &mut Local) {
    let n = sp.n;
    let (cv, a) = (p.c[0].to64(), p.a.to64());
    let sig = |kind: &str| format!("C08/premultiply/route{}/{}<{}>/{}/{}", route, sp.name, T::NAME, if a == 0.0 { "alpha=0" } else { "alpha>0" }, kind);
    let case = |obs: Value, exp: Value| json!({"sub": "premultiply", "type": sp.name, "float": T::NAME, "route": route, "route_name": PREMUL_ROUTES[route], "input": hexv(&[p.c[0], p.a]), "input_values": {"color": cv, "alpha": a}, "observed": obs, "expected": exp});
    l.trans += 2;
    let (pre, back) = match pv::catch(|| (sp.premul)(route, p)) {
        Ok(x) => x,
        Err(m) => {
            c.violation(&sig("panic"), 1.0, || case(json!({"panic": m}), json!("no panic")));
            return;
        }
    };
    let a_eff = if route == 4 { 1.0 } else { a };
    let mp = min_pos::<T>().to64();
    let under = 8.0 * mp * T::EPS; // underflow of the product below the normal range
    let obs = || json!({"premultiplied": {"color": fvec(&pre.to64().c[..n]), "alpha": fnum(pre.a.to64())}, "back": {"color": fvec(&back.to64().c[..n]), "alpha": fnum(back.a.to64())}});
    // alpha is carried unchanged
    l.traces += 2;
    if pre.a.to64() != a_eff || (route != 3 && back.a.to64() != a_eff) {
        c.violation(&sig("alpha-changed"), f64::max((pre.a.to64() - a_eff).abs(), (back.a.to64() - a_eff).abs()).max(f64::MIN_POSITIVE), || case(obs(), json!({"alpha": a_eff})));
    }
    for i in 0..n {
        l.traces += 2;
        let want = cv * a_eff;
        let tp = 8.0 * T::EPS * want.abs() + under;
        let ep = (pre.c[i].to64() - want).abs();
        c.ratio(sub, ep / tp, || case(obs(), json!({"premultiplied": want})));
        if !(ep <= tp) {
            c.violation(&sig("premultiplied-value"), if ep.is_finite() { ep } else { f64::INFINITY }, || case(obs(), json!({"premultiplied": want, "tol": tp})));
        }
        let b = back.c[i].to64();
        if a_eff == 0.0 {
            if !(b == 0.0) {
                c.violation(&sig("nonzero-colour-at-zero-alpha"), if b.is_finite() { b.abs() } else { f64::INFINITY }, || case(obs(), json!({"back": 0.0})));
            }
        } else {
            let tb = 16.0 * T::EPS * cv.abs() + under / a_eff;
            let eb = (b - cv).abs();
            c.ratio(sub, eb / tb, || case(obs(), json!({"back": cv})));
            if !(eb <= tb) {
                c.violation(&sig("round-trip"), if eb.is_finite() { eb } else { f64::INFINITY }, || case(obs(), json!({"back": cv, "tol": tb})));
            }
        }
    }
    c.outcome(mix(pre.c[0].bits64(), back.c[0].bits64() ^ (route as u64) << 60));
    l.k += 1;
    if l.k % 37 == 0 {
        c.sample(mix(pre.c[0].bits64(), p.a.bits64()), || json!({"sub": sub, "type": sp.name, "route": PREMUL_ROUTES[route], "color": cv, "alpha": a, "premultiplied": pre.c[0].to64(), "unpremultiplied": back.c[0].to64()}));
    }
}

pub fn bw_json(f: &Bw) -> Value {
    match f {
        Bw::Closure => json!("closure"),
        Bw::Eq(e) => json!({"color_equation": eq_name(e.color_equation), "alpha_equation": eq_name(e.alpha_equation),
            "color_source": par_name(e.color_parameters.source), "color_destination": par_name(e.color_parameters.destination),
            "alpha_source": par_name(e.alpha_parameters.source), "alpha_destination": par_name(e.alpha_parameters.destination)}),
    }
}
pub fn bw_from(v: &Value) -> Option<Bw> {
    if v.as_str() == Some("closure") {
        return Some(Bw::Closure);
    }
    let g = |k: &str| v[k].as_str();
    Some(Bw::Eq(mk_eq(eq_from(g("color_equation")?)?, eq_from(g("alpha_equation")?)?, par_from(g("color_source")?)?, par_from(g("color_destination")?)?, par_from(g("alpha_source")?)?, par_from(g("alpha_destination")?)?)))
}

/// `s.blend_with(d, f)` against the documented meaning of `f` (closure: called with the
/// premultiplied source and destination in that order; `Equations`: e(sp·S, dp·D)).
#[allow(clippy::too_many_arguments)]
pub fn check_bw<T: Fl>(sp: &Spec<T>, sub: &str, form: Form, f: Bw, s: Px<T>, d: Px<T>, c: &mut Collector, l: &mut Local) {
    let n = sp.n;
    let t = tol::<T>();
    // input class: closure / additive equation (uses the parameters) / min-max equation
    let class = |alpha_channel: bool| match &f {
        Bw::Closure => "closure",
        Bw::Eq(e) => {
            let q = if alpha_channel { e.alpha_equation } else { e.color_equation };
            if matches!(q, palette::blend::Equation::Min | palette::blend::Equation::Max) {
                "equations:min-max"
            } else {
                "equations:parametrised"
            }
        }
    };
    let sig = |kind: &str| format!("C08/blend-with/{}/{}/{}<{}>/{}", class(kind == "alpha"), form.name(), sp.name, T::NAME, kind);
    let (s64, d64) = (s.to64(), d.to64());
    let (sa, da) = if form == Form::Opaque { (1.0, 1.0) } else { (s64.a, d64.a) };
    let mut sp64 = Px { c: [0.0; 3], a: sa };
    let mut dp64 = Px { c: [0.0; 3], a: da };
    for i in 0..n {
        sp64.c[i] = split(form, s64.c[i], sa).1;
        dp64.c[i] = split(form, d64.c[i], da).1;
    }
    let (ec, ea) = match &f {
        Bw::Closure => {
            let mut cc = [0.0; 3];
            for i in 0..n {
                cc[i] = 0.25 * sp64.c[i] + 0.5 * dp64.c[i];
            }
            (cc, 0.25 * sa + 0.5 * da)
        }
        Bw::Eq(e) => equations_expected(e, n, &sp64, &dp64),
    };
    let bwf = sp.bw.expect("blend_with on a type without it");
    l.trans += 1;
    let case = |obs: Value| json!({"sub": "blend-with", "type": sp.name, "float": T::NAME, "form": form.name(), "fn": bw_json(&f), "input": input_json("component", n, &s, &d), "input_values": {"source": s64.c[0], "source_alpha": s64.a, "destination": d64.c[0], "destination_alpha": d64.a}, "observed": obs, "expected": {"premultiplied_color": fvec(&ec[..n]), "alpha": ea}, "tol": t});
    let obs = match pv::catch(|| bwf(form, f, s, d)) {
        Ok(o) => o,
        Err(m) => {
            c.violation(&sig("panic"), 1.0, || case(json!({"panic": m})));
            return;
        }
    };
    let o64 = obs.to64();
    let oj = || json!({"color": fvec(&o64.c[..n]), "alpha": fnum(o64.a)});
    let mut worst = 0.0f64;
    // alpha (not returned by the opaque form)
    if form != Form::Opaque {
        l.traces += 1;
        let err = (o64.a - ea).abs();
        let ts = t * ea.abs().max(1.0);
        worst = worst.max(err / ts);
        if !(err <= ts) {
            c.violation(&sig("alpha"), if err.is_finite() { err } else { f64::INFINITY }, || case(oj()));
        }
    }
    for i in 0..n {
        l.traces += 1;
        let x = o64.c[i];
        // straight forms: the colour was divided by the result alpha (zero colour if that is
        // not a valid divisor: documented loss of information)
        let (xp, want) = match form {
            Form::Pre => (x, ec[i]),
            Form::Alpha => {
                if o64.a.abs() < min_pos::<T>().to64() {
                    (x, 0.0)
                } else {
                    (x * o64.a, ec[i])
                }
            }
            Form::Opaque => {
                if ea == 0.0 {
                    (x, 0.0)
                } else {
                    (x, ec[i] / ea)
                }
            }
        };
        let ts = t * want.abs().max(1.0);
        let err = (xp - want).abs();
        worst = worst.max(err / ts);
        if !(err <= ts) {
            c.violation(&sig("color"), if err.is_finite() { err } else { f64::INFINITY }, || case(oj()));
        }
    }
    if worst > l.best {
        l.best = worst;
        c.ratio(sub, worst, || case(oj()));
    }
    c.outcome(mix(obs.c[0].bits64(), obs.a.bits64()));
    l.k += 1;
    if l.k % 4099 == 0 {
        c.sample(mix(obs.c[0].bits64(), obs.a.bits64() ^ l.k), || json!({"sub": sub, "type": sp.name, "form": form.name(), "fn": bw_json(&f), "source": s64.c[0], "source_alpha": s64.a, "destination": d64.c[0], "destination_alpha": d64.a, "result": fnum(o64.c[0]), "result_alpha": fnum(o64.a)}));
    }
}
