//! Which wrapper instantiations are castable at all: `Alpha<C, A>` may implement `ArrayCast` only
//! when every field has the array's item type, i.e. exactly when `A` is the component type of `C`
//! (anything else reinterprets the alpha field — or padding — as a component). The product
//! colour family x component type x alpha type is enumerated with autoref-specialisation probes,
//! so the answer is the compiler's; for every implementation found the size/alignment/item
//! equalities are checked as well.
use core::any::TypeId;
use core::marker::PhantomData;
use core::mem::{align_of, size_of};
use palette::cast::ArrayCast;
use palette::encoding::{Linear, Srgb as SrgbE};
use palette::white_point::D65;
use palette::*;
use pv::{json, Collector, Ctx};

pub struct P<X>(PhantomData<X>);
/// (size_of X, align_of X, size_of Array, align_of Array, size_of Item, TypeId of Item)
pub type Info = (usize, usize, usize, usize, usize, TypeId);
pub trait Yes {
    fn info(&self) -> Option<Info>;
}
pub trait No {
    fn info(&self) -> Option<Info>;
}
impl<X> Yes for P<X>
where
    X: ArrayCast,
    X::Array: IntoIterator,
    <X::Array as IntoIterator>::Item: 'static,
{
    fn info(&self) -> Option<Info> {
        Some((size_of::<X>(), align_of::<X>(), size_of::<X::Array>(), align_of::<X::Array>(), size_of::<<X::Array as IntoIterator>::Item>(), TypeId::of::<<X::Array as IntoIterator>::Item>()))
    }
}
impl<X> No for &P<X> {
    fn info(&self) -> Option<Info> {
        None
    }
}

pub struct Row {
    pub colour: String,
    pub comp: &'static str,
    pub alpha: &'static str,
    pub comp_id: TypeId,
    pub alpha_id: TypeId,
    pub alpha_size: usize,
    pub info: Option<Info>,
    pub plain: Option<Info>,
}

macro_rules! alphas {
    ($out:ident, $cname:expr, $C:ty, $T:ty, [$($A:ty),*]) => {$(
        $out.push(Row {
            colour: $cname.to_string(), comp: stringify!($T), alpha: stringify!($A),
            comp_id: TypeId::of::<$T>(), alpha_id: TypeId::of::<$A>(), alpha_size: size_of::<$A>(),
            info: (&P::<Alpha<$C, $A>>(PhantomData)).info(),
            plain: (&P::<$C>(PhantomData)).info(),
        });
    )*};
}
macro_rules! colours {
    ($out:ident, $T:ty, [$( ($n:literal, $C:ty) ),* $(,)?]) => {$(
        alphas!($out, format!("{}<{}>", $n, stringify!($T)), $C, $T, [f32, f64, u8, u16, u32, u64, i8, i32, bool, (), [u8; 4], [u8; 8]]);
    )*};
}
macro_rules! float_colours {
    ($out:ident, $T:ty) => {
        colours!($out, $T, [
            ("Srgb", rgb::Rgb<SrgbE, $T>), ("LinSrgb", rgb::Rgb<Linear<SrgbE>, $T>), ("SrgbLuma", luma::Luma<SrgbE, $T>),
            ("Hsv", Hsv<SrgbE, $T>), ("Hsl", Hsl<SrgbE, $T>), ("Hwb", Hwb<SrgbE, $T>),
            ("Lab", Lab<D65, $T>), ("Lch", Lch<D65, $T>), ("Luv", Luv<D65, $T>), ("Lchuv", Lchuv<D65, $T>), ("Hsluv", Hsluv<D65, $T>),
            ("Xyz", Xyz<D65, $T>), ("Yxy", Yxy<D65, $T>),
            ("Oklab", Oklab<$T>), ("Oklch", Oklch<$T>), ("Okhsl", Okhsl<$T>), ("Okhsv", Okhsv<$T>), ("Okhwb", Okhwb<$T>),
            ("Cam16Jch", cam16::Cam16Jch<$T>), ("Cam16Qsh", cam16::Cam16Qsh<$T>), ("Cam16UcsJab", cam16::Cam16UcsJab<$T>), ("Cam16UcsJmh", cam16::Cam16UcsJmh<$T>),
        ]);
    };
}
macro_rules! int_colours {
    ($out:ident, $T:ty) => {
        colours!($out, $T, [("Srgb", rgb::Rgb<SrgbE, $T>), ("LinSrgb", rgb::Rgb<Linear<SrgbE>, $T>), ("SrgbLuma", luma::Luma<SrgbE, $T>)]);
    };
}

pub fn rows() -> Vec<Row> {
    let mut out = vec![];
    float_colours!(out, f32);
    float_colours!(out, f64);
    int_colours!(out, u8);
    int_colours!(out, u16);
    int_colours!(out, u32);
    out
}

pub fn run(ctx: &Ctx, total: &mut Collector) {
    if !ctx.wants("castable") {
        return;
    }
    let rows = rows();
    let mut c = Collector::new();
    let (mut yes, mut no) = (0u64, 0u64);
    for r in &rows {
        let homogeneous = r.comp_id == r.alpha_id;
        let name = format!("Alpha<{}, {}>", r.colour, r.alpha);
        let mk = |what: &str, obs: pv::Value, exp: pv::Value| json!({"sub": "castable", "type": name, "form": "castable", "kind": what, "input": name, "observed": obs, "expected": exp});
        c.outcome(pv::fnv(format!("{}{}", homogeneous, r.info.is_some()).as_bytes()));
        match (&r.info, homogeneous) {
            (Some(i), false) => {
                c.violation(&format!("C04/castable/heterogeneous-alpha-is-ArrayCast/Alpha<{}, _>/{}", r.colour, if r.alpha_size == size_of_val_id(i) { "same-size" } else { "other-size" }), 1.0, || {
                    mk("ArrayCast implemented for a struct whose alpha field is not of the array's item type", json!({"implemented": true, "size_of_alpha_field": r.alpha_size, "size_of_array_item": i.4, "size_of_struct": i.0, "size_of_array": i.2}), json!({"implemented": false}))
                });
                yes += 1;
            }
            (None, true) => {
                // coverage, not a verdict: a castable colour lost its castable Alpha form
                if r.plain.is_some() {
                    c.warn(format!("{name} does not implement ArrayCast although {} does", r.colour));
                }
                no += 1;
            }
            (Some(i), true) => {
                yes += 1;
                let Some(p) = &r.plain else { continue };
                let ok = i.0 == i.2 && i.1 == i.3 && i.5 == r.comp_id && i.4 == size_of_comp(r) && i.2 == p.2 + i.4 && i.1 == p.1;
                if !ok {
                    c.violation(&format!("C04/castable/layout/Alpha<{}, _>", r.colour), 1.0, || mk("size/alignment/item of Alpha<C, T> vs its array", json!({"alpha": [i.0, i.1, i.2, i.3, i.4], "plain": [p.0, p.1, p.2, p.3, p.4]}), json!("size_of(Alpha) == size_of(Array) == size_of(C::Array) + size_of(T), equal alignments, Item == T")));
                }
            }
            (None, false) => no += 1,
        }
    }
    c.add("castable", rows.len() as u64, rows.len() as u64, yes, yes);
    c.note("castable", json!({"probed": rows.len(), "implemented": yes, "not_implemented": no}));
    total.merge(c);
    total.exhaustive("castable", true, &format!("{} instantiations Alpha<C<T>, A>: 22 colour families x f32/f64 + 3 x u8/u16/u32, x 12 alpha types (f32, f64, u8, u16, u32, u64, i8, i32, bool, (), [u8;4], [u8;8]); ArrayCast must be implemented exactly for A == T (compiler-decided probe), with matching size/alignment/item", rows.len()));
}

fn size_of_val_id(i: &Info) -> usize {
    i.4
}
fn size_of_comp(r: &Row) -> usize {
    match r.comp {
        "f32" | "u32" => 4,
        "f64" => 8,
        "u8" => 1,
        "u16" => 2,
        _ => 0,
    }
}
