//! Transfer functions on SIMD components: `IntoLinear<V, V>` / `FromLinear<V, V>` of every encoding (incl. the
//! ones the D65 conversion graph does not contain: ProPhoto, P3 gamma, Gamma<2.2>) must give, in every lane, the
//! scalar result for that lane's value — in particular for vectors whose lanes lie on DIFFERENT segments of a
//! piecewise curve. Space: per curve a lattice with both knees (value, float neighbours, ±2 %), 0, tiny, mid and
//! 1; every ordered pair (a, b) of it as the vector (a, b, a, b, …) and as (a, …, a, b at lane p) for every p.
use crate::vect::Vect;
use palette::encoding::{self, FromLinear, IntoLinear};
use pv::fl::Fl;
use pv::{json, Collector, Ctx};
use wide::{f32x4, f32x8, f64x2, f64x4};

fn lattice<S: Fl>() -> Vec<S> {
    let mut v: Vec<f64> = vec![0.0, 1e-9, 1e-4, 0.2, 0.5, 0.9, 1.0];
    for k in [0.0031308, 0.04045, 0.018053968510807, 4.5 * 0.018053968510807, 1.0 / 512.0, 1.0 / 32.0] {
        v.extend([k, k * 0.98, k * 1.02]);
    }
    let mut out: Vec<S> = v.iter().map(|x| S::from64(*x)).collect();
    for k in [0.0031308, 0.04045, 1.0 / 512.0, 1.0 / 32.0] {
        let s = S::from64(k);
        out.push(s.up());
        out.push(s.down());
    }
    out
}

macro_rules! curve_on {
    ($c:expr, $n:expr, $name:literal, $TF:ty, $V:ty) => {{
        type V = $V;
        type S = <V as Vect>::S;
        let lat = lattice::<S>();
        let n = <V as Vect>::N;
        let tol = |r: f64| -> f64 { (if <S as Fl>::NAME == "f32" { 2e-6 } else { 1e-13 }) * r.abs().max(1e-3) };
        let judge = |c: &mut Collector, cnt: &mut u64, dir: &'static str, lanes_in: &[S], got: [S; crate::vect::MAXN], f: fn(S) -> S| {
            for i in 0..n {
                *cnt += 1;
                let want = f(lanes_in[i]);
                let (g, w) = (got[i].to64(), want.to64());
                if !((g - w).abs() <= tol(w)) {
                    c.violation(&format!("C17/transfer/{}/{}/{}", <V as Vect>::NAME, $name, dir), (g - w).abs().max(f64::MIN_POSITIVE), || json!({"sub": "transfer", "vec": <V as Vect>::NAME, "curve": $name, "dir": dir, "input": {"lanes": lanes_in.iter().map(|x| x.to64()).collect::<Vec<_>>()}, "lane": i, "observed": g, "expected": {"scalar": w, "tol": tol(w)}}));
                }
            }
        };
        for &a in &lat {
            for &b in &lat {
                let mut pats: Vec<Vec<S>> = vec![(0..n).map(|i| if i % 2 == 0 { a } else { b }).collect()];
                for p in 0..n {
                    pats.push((0..n).map(|i| if i == p { b } else { a }).collect());
                }
                for l in pats {
                    let v = V::from_lanes(&l);
                    match pv::catch(|| (<$TF as IntoLinear<V, V>>::into_linear(v).lanes(), <$TF as FromLinear<V, V>>::from_linear(v).lanes())) {
                        Ok((dec, enc)) => {
                            judge(&mut $c, &mut $n, "into_linear", &l, dec, |s| <$TF as IntoLinear<S, S>>::into_linear(s));
                            judge(&mut $c, &mut $n, "from_linear", &l, enc, |s| <$TF as FromLinear<S, S>>::from_linear(s));
                        }
                        Err(msg) => $c.violation(&format!("C17/transfer/{}/{}/panic", <V as Vect>::NAME, $name), 1.0, || json!({"sub": "transfer", "vec": <V as Vect>::NAME, "curve": $name, "input": {"lanes": l.iter().map(|x| x.to64()).collect::<Vec<_>>()}, "observed": {"panic": msg}, "expected": "no panic"})),
                    }
                }
            }
        }
    }};
}

macro_rules! all_curves {
    ($c:expr, $n:expr, $V:ty) => {{
        curve_on!($c, $n, "Srgb", encoding::Srgb, $V);
        curve_on!($c, $n, "RecOetf", encoding::RecOetf, $V);
        curve_on!($c, $n, "AdobeRgb", encoding::AdobeRgb, $V);
        curve_on!($c, $n, "P3Gamma", encoding::P3Gamma, $V);
        curve_on!($c, $n, "ProPhotoRgb", encoding::ProPhotoRgb, $V);
        curve_on!($c, $n, "LinearFn", encoding::linear::LinearFn, $V);
        curve_on!($c, $n, "GammaFn<F2p2>", encoding::gamma::GammaFn<encoding::gamma::F2p2>, $V);
    }};
}

pub fn run(ctx: &Ctx, total: &mut Collector) {
    macro_rules! one {
        ($V:ty) => {{
            let sub = format!("transfer/{}", <$V as Vect>::NAME);
            if ctx.wants(&sub) {
                let mut c = Collector::new();
                let mut n = 0u64;
                all_curves!(c, n, $V);
                c.add(&sub, n, n, n, n);
                total.merge(c);
                total.exhaustive(&sub, true, "7 transfer functions (sRGB, Rec OETF, Adobe RGB, P3 gamma, ProPhoto, linear, Gamma 2.2) x into_linear / from_linear x every ordered pair of a 33-value lattice (all knees with float neighbours and +-2 %, 0, tiny, mid, 1) as alternating lanes and as one odd lane at every position: each lane against the scalar function");
            }
        }};
    }
    one!(f32x4);
    one!(f32x8);
    one!(f64x2);
    one!(f64x4);
}
