//! The only place that calls palette. Everything is instantiated for f32 and f64 by a macro
//! that generates many small functions (one per colour space / trait).
#![allow(deprecated)]
use palette::bool_mask::HasBoolMask;
use palette::cam16::{Cam16UcsJab, Cam16UcsJmh};
use palette::color_difference::{Ciede2000, DeltaE, EuclideanDistance, HyAb, ImprovedCiede2000, ImprovedDeltaE, Wcag21RelativeContrast};
use palette::convert::FromColorUnclamped;
use palette::white_point::D65;
use palette::{ColorDifference, FromColor, RelativeContrast};
use palette::{Hsl, Hsluv, Hsv, Hwb, Lab, Lch, Lchuv, LinLuma, LinSrgb, Luv, Okhsl, Okhwb, Oklab, Oklch, Srgb, SrgbLuma, Xyz, Yxy};
use pv::fl::Fl;

#[derive(Clone, Copy, PartialEq, Eq, Debug)]
pub enum Space {
    Lab,
    Lch,
    Luv,
    Oklab,
    Jab,
    Jmh,
    Srgb,
    LinSrgb,
    Xyz,
    Yxy,
    Luma,
}
pub const SPACES: [Space; 11] = [Space::Lab, Space::Lch, Space::Luv, Space::Oklab, Space::Jab, Space::Jmh, Space::Srgb, Space::LinSrgb, Space::Xyz, Space::Yxy, Space::Luma];
impl Space {
    pub fn name(self) -> &'static str {
        match self {
            Space::Lab => "Lab",
            Space::Lch => "Lch",
            Space::Luv => "Luv",
            Space::Oklab => "Oklab",
            Space::Jab => "Cam16UcsJab",
            Space::Jmh => "Cam16UcsJmh",
            Space::Srgb => "Srgb",
            Space::LinSrgb => "LinSrgb",
            Space::Xyz => "Xyz",
            Space::Yxy => "Yxy",
            Space::Luma => "SrgbLuma",
        }
    }
    pub fn from_name(s: &str) -> Option<Space> {
        SPACES.into_iter().find(|x| x.name() == s)
    }
    pub fn polar(self) -> bool {
        matches!(self, Space::Lch | Space::Jmh)
    }
    /// the rectangular sibling of a polar space
    pub fn rect(self) -> Space {
        match self {
            Space::Lch => Space::Lab,
            Space::Jmh => Space::Jab,
            s => s,
        }
    }
    pub fn measures(self) -> &'static [Meas] {
        use Meas::*;
        match self {
            Space::Lab => &[Ciede2000, ImprovedCiede2000, ColorDifference, DeltaE, ImprovedDeltaE, Distance, DistanceSquared, HyAb],
            Space::Lch => &[Ciede2000, ImprovedCiede2000, ColorDifference, DeltaE, ImprovedDeltaE],
            Space::Luv | Space::Oklab => &[Distance, DistanceSquared, HyAb],
            Space::Jab => &[DeltaE, ImprovedDeltaE, Distance, DistanceSquared, HyAb],
            Space::Jmh => &[DeltaE, ImprovedDeltaE],
            Space::Srgb | Space::LinSrgb | Space::Xyz | Space::Yxy | Space::Luma => &[Distance, DistanceSquared],
        }
    }
    /// number of components that carry information
    pub fn n(self) -> usize {
        if self == Space::Luma {
            1
        } else {
            3
        }
    }
}

#[derive(Clone, Copy, PartialEq, Eq, Debug)]
pub enum Meas {
    Ciede2000,
    ImprovedCiede2000,
    /// the deprecated `palette::ColorDifference::get_color_difference`
    ColorDifference,
    DeltaE,
    ImprovedDeltaE,
    Distance,
    DistanceSquared,
    HyAb,
}
pub const MEASURES: [Meas; 8] = [Meas::Ciede2000, Meas::ImprovedCiede2000, Meas::ColorDifference, Meas::DeltaE, Meas::ImprovedDeltaE, Meas::Distance, Meas::DistanceSquared, Meas::HyAb];
impl Meas {
    pub fn name(self) -> &'static str {
        match self {
            Meas::Ciede2000 => "Ciede2000::difference",
            Meas::ImprovedCiede2000 => "ImprovedCiede2000::improved_difference",
            Meas::ColorDifference => "ColorDifference::get_color_difference",
            Meas::DeltaE => "DeltaE::delta_e",
            Meas::ImprovedDeltaE => "ImprovedDeltaE::improved_delta_e",
            Meas::Distance => "EuclideanDistance::distance",
            Meas::DistanceSquared => "EuclideanDistance::distance_squared",
            Meas::HyAb => "HyAb::hybrid_distance",
        }
    }
    pub fn from_name(s: &str) -> Option<Meas> {
        MEASURES.into_iter().find(|x| x.name() == s)
    }
    pub fn is_ciede(self) -> bool {
        matches!(self, Meas::Ciede2000 | Meas::ImprovedCiede2000 | Meas::ColorDifference)
    }
}

/// Types implementing `Wcag21RelativeContrast`.
#[derive(Clone, Copy, PartialEq, Eq, Debug)]
pub enum WType {
    Srgb,
    LinSrgb,
    SrgbLuma,
    LinLuma,
}
pub const WTYPES: [WType; 4] = [WType::Srgb, WType::LinSrgb, WType::SrgbLuma, WType::LinLuma];
impl WType {
    pub fn name(self) -> &'static str {
        match self {
            WType::Srgb => "Srgb",
            WType::LinSrgb => "LinSrgb",
            WType::SrgbLuma => "SrgbLuma",
            WType::LinLuma => "LinLuma",
        }
    }
    pub fn from_name(s: &str) -> Option<WType> {
        WTYPES.into_iter().find(|x| x.name() == s)
    }
    pub fn linear(self) -> bool {
        matches!(self, WType::LinSrgb | WType::LinLuma)
    }
    pub fn grey(self) -> bool {
        matches!(self, WType::SrgbLuma | WType::LinLuma)
    }
}

/// Types implementing the deprecated `RelativeContrast` that are reached from an sRGB colour
/// through palette's own `FromColor` (the first four are used directly).
#[derive(Clone, Copy, PartialEq, Eq, Debug)]
pub enum OType {
    Srgb,
    LinSrgb,
    SrgbLuma,
    LinLuma,
    Hsl,
    Hsv,
    Hwb,
    Xyz,
    Yxy,
    Lab,
    Lch,
    Luv,
    Lchuv,
    Hsluv,
    Oklab,
    Oklch,
    Okhsl,
    Okhwb,
}
pub const OTYPES: [OType; 18] = [OType::Srgb, OType::LinSrgb, OType::SrgbLuma, OType::LinLuma, OType::Hsl, OType::Hsv, OType::Hwb, OType::Xyz, OType::Yxy, OType::Lab, OType::Lch, OType::Luv, OType::Lchuv, OType::Hsluv, OType::Oklab, OType::Oklch, OType::Okhsl, OType::Okhwb];
impl OType {
    pub fn name(self) -> &'static str {
        match self {
            OType::Srgb => "Srgb",
            OType::LinSrgb => "LinSrgb",
            OType::SrgbLuma => "SrgbLuma",
            OType::LinLuma => "LinLuma",
            OType::Hsl => "Hsl",
            OType::Hsv => "Hsv",
            OType::Hwb => "Hwb",
            OType::Xyz => "Xyz",
            OType::Yxy => "Yxy",
            OType::Lab => "Lab",
            OType::Lch => "Lch",
            OType::Luv => "Luv",
            OType::Lchuv => "Lchuv",
            OType::Hsluv => "Hsluv",
            OType::Oklab => "Oklab",
            OType::Oklch => "Oklch",
            OType::Okhsl => "Okhsl",
            OType::Okhwb => "Okhwb",
        }
    }
    pub fn from_name(s: &str) -> Option<OType> {
        OTYPES.into_iter().find(|x| x.name() == s)
    }
    /// same input convention as the Wcag21 type of the same name (else: an sRGB colour)
    pub fn as_wtype(self) -> Option<WType> {
        WType::from_name(self.name())
    }
}

/// What one ordered-pair-in-both-orders evaluation of a contrast trait returned.
#[derive(Clone, Copy, Debug)]
pub struct WObs<T> {
    /// relative_luminance of x and of y (Wcag21 only)
    pub lum: Option<[T; 2]>,
    /// ratio (x, y) and (y, x)
    pub r: [T; 2],
    /// the five predicates for (x, y) and (y, x), in the order of `oracle::THRESHOLDS`
    pub p: [[bool; 5]; 2],
}

fn w_obs<C>(a: C, b: C) -> WObs<C::Scalar>
where
    C: Wcag21RelativeContrast + Copy,
    C::Scalar: HasBoolMask<Mask = bool> + Copy,
{
    let p = |x: C, y: C| [Wcag21RelativeContrast::has_min_contrast_text(x, y), Wcag21RelativeContrast::has_min_contrast_large_text(x, y), Wcag21RelativeContrast::has_enhanced_contrast_text(x, y), Wcag21RelativeContrast::has_enhanced_contrast_large_text(x, y), Wcag21RelativeContrast::has_min_contrast_graphics(x, y)];
    WObs { lum: Some([a.relative_luminance().luma, b.relative_luminance().luma]), r: [a.relative_contrast(b), b.relative_contrast(a)], p: [p(a, b), p(b, a)] }
}

fn o_obs<C>(a: C, b: C) -> WObs<C::Scalar>
where
    C: RelativeContrast + Copy,
    C::Scalar: HasBoolMask<Mask = bool> + Copy,
{
    let p = |x: C, y: C| [RelativeContrast::has_min_contrast_text(x, y), RelativeContrast::has_min_contrast_large_text(x, y), RelativeContrast::has_enhanced_contrast_text(x, y), RelativeContrast::has_enhanced_contrast_large_text(x, y), RelativeContrast::has_min_contrast_graphics(x, y)];
    WObs { lum: None, r: [a.get_contrast_ratio(b), b.get_contrast_ratio(a)], p: [p(a, b), p(b, a)] }
}

pub trait Sc: Fl {
    /// `x.measure(y)` in `space`; None when the space does not implement the measure.
    fn dist(space: Space, m: Meas, x: [Self; 3], y: [Self; 3]) -> Option<Self>;
    /// palette's own polar → rectangular conversion (Lch → Lab, Jmh → Jab) and back.
    fn to_rect(space: Space, p: [Self; 3]) -> [Self; 3];
    fn to_polar(space: Space, r: [Self; 3]) -> [Self; 3];
    fn wcag(ty: WType, x: [Self; 3], y: [Self; 3]) -> WObs<Self>;
    /// deprecated trait; for types without a Wcag21 namesake x and y are sRGB colours that are
    /// first converted with `FromColor`.
    fn wcag_old(ty: OType, x: [Self; 3], y: [Self; 3]) -> WObs<Self>;
    /// `Srgb<u8>::into_format()` of one channel
    fn from_u8(v: u8) -> Self;
    /// relative luminance of `Srgb::<u8>::new(r, g, b).into_format::<Self>()`
    fn lum_u8(r: u8, g: u8, b: u8) -> Self;
}

macro_rules! old_via {
    ($ty:ty, $t:ty, $x:expr, $y:expr) => {{
        let a: $ty = FromColor::from_color(Srgb::<$t>::new($x[0], $x[1], $x[2]));
        let b: $ty = FromColor::from_color(Srgb::<$t>::new($y[0], $y[1], $y[2]));
        o_obs(a, b)
    }};
}

macro_rules! impl_sc {
    ($t:ty, $m:ident) => {
        mod $m {
            use super::*;
            type T = $t;
            fn eu<C: EuclideanDistance<Scalar = T> + Copy>(m: Meas, a: C, b: C) -> Option<T> {
                match m {
                    Meas::Distance => Some(a.distance(b)),
                    Meas::DistanceSquared => Some(a.distance_squared(b)),
                    _ => None,
                }
            }
            fn lab(x: [T; 3]) -> Lab<D65, T> {
                Lab::new(x[0], x[1], x[2])
            }
            fn lch(x: [T; 3]) -> Lch<D65, T> {
                Lch::new(x[0], x[1], x[2])
            }
            fn jab(x: [T; 3]) -> Cam16UcsJab<T> {
                Cam16UcsJab::new(x[0], x[1], x[2])
            }
            fn jmh(x: [T; 3]) -> Cam16UcsJmh<T> {
                Cam16UcsJmh::new(x[0], x[1], x[2])
            }
            pub fn lab_m(m: Meas, x: [T; 3], y: [T; 3]) -> Option<T> {
                let (a, b) = (lab(x), lab(y));
                match m {
                    Meas::Ciede2000 => Some(Ciede2000::difference(a, b)),
                    Meas::ImprovedCiede2000 => Some(ImprovedCiede2000::improved_difference(a, b)),
                    Meas::ColorDifference => Some(ColorDifference::get_color_difference(a, b)),
                    Meas::DeltaE => Some(DeltaE::delta_e(a, b)),
                    Meas::ImprovedDeltaE => Some(ImprovedDeltaE::improved_delta_e(a, b)),
                    Meas::HyAb => Some(HyAb::hybrid_distance(a, b)),
                    _ => eu(m, a, b),
                }
            }
            pub fn lch_m(m: Meas, x: [T; 3], y: [T; 3]) -> Option<T> {
                let (a, b) = (lch(x), lch(y));
                match m {
                    Meas::Ciede2000 => Some(Ciede2000::difference(a, b)),
                    Meas::ImprovedCiede2000 => Some(ImprovedCiede2000::improved_difference(a, b)),
                    Meas::ColorDifference => Some(ColorDifference::get_color_difference(a, b)),
                    Meas::DeltaE => Some(DeltaE::delta_e(a, b)),
                    Meas::ImprovedDeltaE => Some(ImprovedDeltaE::improved_delta_e(a, b)),
                    _ => None,
                }
            }
            pub fn luv_m(m: Meas, x: [T; 3], y: [T; 3]) -> Option<T> {
                let (a, b) = (Luv::<D65, T>::new(x[0], x[1], x[2]), Luv::<D65, T>::new(y[0], y[1], y[2]));
                match m {
                    Meas::HyAb => Some(HyAb::hybrid_distance(a, b)),
                    _ => eu(m, a, b),
                }
            }
            pub fn oklab_m(m: Meas, x: [T; 3], y: [T; 3]) -> Option<T> {
                let (a, b) = (Oklab::<T>::new(x[0], x[1], x[2]), Oklab::<T>::new(y[0], y[1], y[2]));
                match m {
                    Meas::HyAb => Some(HyAb::hybrid_distance(a, b)),
                    _ => eu(m, a, b),
                }
            }
            pub fn jab_m(m: Meas, x: [T; 3], y: [T; 3]) -> Option<T> {
                let (a, b) = (jab(x), jab(y));
                match m {
                    Meas::DeltaE => Some(DeltaE::delta_e(a, b)),
                    Meas::ImprovedDeltaE => Some(ImprovedDeltaE::improved_delta_e(a, b)),
                    Meas::HyAb => Some(HyAb::hybrid_distance(a, b)),
                    _ => eu(m, a, b),
                }
            }
            pub fn jmh_m(m: Meas, x: [T; 3], y: [T; 3]) -> Option<T> {
                let (a, b) = (jmh(x), jmh(y));
                match m {
                    Meas::DeltaE => Some(DeltaE::delta_e(a, b)),
                    Meas::ImprovedDeltaE => Some(ImprovedDeltaE::improved_delta_e(a, b)),
                    _ => None,
                }
            }
            pub fn other_m(space: Space, m: Meas, x: [T; 3], y: [T; 3]) -> Option<T> {
                match space {
                    Space::Srgb => eu(m, Srgb::<T>::new(x[0], x[1], x[2]), Srgb::<T>::new(y[0], y[1], y[2])),
                    Space::LinSrgb => eu(m, LinSrgb::<T>::new(x[0], x[1], x[2]), LinSrgb::<T>::new(y[0], y[1], y[2])),
                    Space::Xyz => eu(m, Xyz::<D65, T>::new(x[0], x[1], x[2]), Xyz::<D65, T>::new(y[0], y[1], y[2])),
                    Space::Yxy => eu(m, Yxy::<D65, T>::new(x[0], x[1], x[2]), Yxy::<D65, T>::new(y[0], y[1], y[2])),
                    Space::Luma => eu(m, SrgbLuma::<T>::new(x[0]), SrgbLuma::<T>::new(y[0])),
                    _ => None,
                }
            }
            pub fn to_rect(space: Space, p: [T; 3]) -> [T; 3] {
                match space {
                    Space::Lch => {
                        let c = Lab::<D65, T>::from_color_unclamped(lch(p));
                        [c.l, c.a, c.b]
                    }
                    Space::Jmh => {
                        let c = Cam16UcsJab::<T>::from_color_unclamped(jmh(p));
                        [c.lightness, c.a, c.b]
                    }
                    _ => p,
                }
            }
            pub fn to_polar(space: Space, r: [T; 3]) -> [T; 3] {
                match space {
                    Space::Lch => {
                        let c = Lch::<D65, T>::from_color_unclamped(lab(r));
                        [c.l, c.chroma, c.hue.into_raw_degrees()]
                    }
                    Space::Jmh => {
                        let c = Cam16UcsJmh::<T>::from_color_unclamped(jab(r));
                        [c.lightness, c.colorfulness, c.hue.into_raw_degrees()]
                    }
                    _ => r,
                }
            }
            pub fn wcag(ty: WType, x: [T; 3], y: [T; 3]) -> WObs<T> {
                match ty {
                    WType::Srgb => w_obs(Srgb::<T>::new(x[0], x[1], x[2]), Srgb::<T>::new(y[0], y[1], y[2])),
                    WType::LinSrgb => w_obs(LinSrgb::<T>::new(x[0], x[1], x[2]), LinSrgb::<T>::new(y[0], y[1], y[2])),
                    WType::SrgbLuma => w_obs(SrgbLuma::<T>::new(x[0]), SrgbLuma::<T>::new(y[0])),
                    WType::LinLuma => w_obs(LinLuma::<D65, T>::new(x[0]), LinLuma::<D65, T>::new(y[0])),
                }
            }
            pub fn old_direct(ty: WType, x: [T; 3], y: [T; 3]) -> WObs<T> {
                match ty {
                    WType::Srgb => o_obs(Srgb::<T>::new(x[0], x[1], x[2]), Srgb::<T>::new(y[0], y[1], y[2])),
                    WType::LinSrgb => o_obs(LinSrgb::<T>::new(x[0], x[1], x[2]), LinSrgb::<T>::new(y[0], y[1], y[2])),
                    WType::SrgbLuma => o_obs(SrgbLuma::<T>::new(x[0]), SrgbLuma::<T>::new(y[0])),
                    WType::LinLuma => o_obs(LinLuma::<D65, T>::new(x[0]), LinLuma::<D65, T>::new(y[0])),
                }
            }
            pub fn old_a(ty: OType, x: [T; 3], y: [T; 3]) -> Option<WObs<T>> {
                Some(match ty {
                    OType::Hsl => old_via!(Hsl<palette::encoding::Srgb, T>, T, x, y),
                    OType::Hsv => old_via!(Hsv<palette::encoding::Srgb, T>, T, x, y),
                    OType::Hwb => old_via!(Hwb<palette::encoding::Srgb, T>, T, x, y),
                    OType::Xyz => old_via!(Xyz<D65, T>, T, x, y),
                    OType::Yxy => old_via!(Yxy<D65, T>, T, x, y),
                    _ => return None,
                })
            }
            pub fn old_b(ty: OType, x: [T; 3], y: [T; 3]) -> Option<WObs<T>> {
                Some(match ty {
                    OType::Lab => old_via!(Lab<D65, T>, T, x, y),
                    OType::Lch => old_via!(Lch<D65, T>, T, x, y),
                    OType::Luv => old_via!(Luv<D65, T>, T, x, y),
                    OType::Lchuv => old_via!(Lchuv<D65, T>, T, x, y),
                    OType::Hsluv => old_via!(Hsluv<D65, T>, T, x, y),
                    _ => return None,
                })
            }
            pub fn old_c(ty: OType, x: [T; 3], y: [T; 3]) -> Option<WObs<T>> {
                Some(match ty {
                    OType::Oklab => old_via!(Oklab<T>, T, x, y),
                    OType::Oklch => old_via!(Oklch<T>, T, x, y),
                    OType::Okhsl => old_via!(Okhsl<T>, T, x, y),
                    OType::Okhwb => old_via!(Okhwb<T>, T, x, y),
                    _ => return None,
                })
            }
            pub fn from_u8(v: u8) -> T {
                Srgb::<u8>::new(v, 0, 0).into_format::<T>().red
            }
            pub fn lum_u8(r: u8, g: u8, b: u8) -> T {
                Srgb::<u8>::new(r, g, b).into_format::<T>().relative_luminance().luma
            }
        }
        impl Sc for $t {
            fn dist(space: Space, m: Meas, x: [Self; 3], y: [Self; 3]) -> Option<Self> {
                match space {
                    Space::Lab => $m::lab_m(m, x, y),
                    Space::Lch => $m::lch_m(m, x, y),
                    Space::Luv => $m::luv_m(m, x, y),
                    Space::Oklab => $m::oklab_m(m, x, y),
                    Space::Jab => $m::jab_m(m, x, y),
                    Space::Jmh => $m::jmh_m(m, x, y),
                    s => $m::other_m(s, m, x, y),
                }
            }
            fn to_rect(space: Space, p: [Self; 3]) -> [Self; 3] {
                $m::to_rect(space, p)
            }
            fn to_polar(space: Space, r: [Self; 3]) -> [Self; 3] {
                $m::to_polar(space, r)
            }
            fn wcag(ty: WType, x: [Self; 3], y: [Self; 3]) -> WObs<Self> {
                $m::wcag(ty, x, y)
            }
            fn wcag_old(ty: OType, x: [Self; 3], y: [Self; 3]) -> WObs<Self> {
                if let Some(w) = ty.as_wtype() {
                    return $m::old_direct(w, x, y);
                }
                $m::old_a(ty, x, y).or_else(|| $m::old_b(ty, x, y)).or_else(|| $m::old_c(ty, x, y)).expect("every OType is handled")
            }
            fn from_u8(v: u8) -> Self {
                $m::from_u8(v)
            }
            fn lum_u8(r: u8, g: u8, b: u8) -> Self {
                $m::lum_u8(r, g, b)
            }
        }
    };
}
impl_sc!(f32, s32);
impl_sc!(f64, s64);
