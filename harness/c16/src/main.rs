//! C16 — CAM16 appearance correlates round-trip and are mutually consistent.
//!
//! Space (exhaustive product, no sampling): viewing conditions (L_A × Y_b × surround × discounting ×
//! white point, static and dynamic) × an XYZ lattice in and around the sRGB gamut × {f32, f64};
//! at every point all seven CAM16 types (Cam16 + six partials) and the CAM16-UCS forms are driven
//! through palette's public API and compared with an independent f64 reference (oracle.rs).
//!
//! Units (read from cam16/parameters.rs and math.rs): palette's XYZ and white point have Y = 1 for
//! white (multiplied by 100 internally), `background_luminance` is relative to white = 1
//! (n = Y_b/Y_w), `adapting_luminance` is in cd/m², `Surround::Percent` runs from 0 % (dark) over
//! 10 % (dim) to 20 % (average) and is clamped, `Discounting::Custom` is clamped to [0, 1].
mod checks;
mod oracle;
mod subject;

use checks::{Local, Pt, Sub, NSUB, SUBS};
use oracle::{Cond64, Disc, Sur};
use pv::fl::Fl;
use pv::{json, Collector, Ctx, Mode, Tier, Value};
use subject::{Cam, WpSel, WPS};

type Colour = ([f64; 3], &'static str);

/// XYZ lattice (white Y = 1), simplest first. Classes: black, in-srgb, near-black, outside-srgb, xyz-cube.
fn colours(tier: Tier) -> Vec<Colour> {
    // quick: 9 levels per channel (k/8); thorough: 17 levels (k/16)
    let n: usize = tier.pick(8, 16);
    let srgb = pv::refmodel::rgb::SRGB;
    let lin = pv::refmodel::rgb::LIN_SRGB;
    let mut v: Vec<Colour> = vec![];
    // images of the 9³ (thorough: 17³) encoded sRGB grid (contains black, white, the primaries and secondaries)
    for r in 0..=n {
        for g in 0..=n {
            for b in 0..=n {
                let x = srgb.to_xyz([r as f64 / n as f64, g as f64 / n as f64, b as f64 / n as f64]);
                v.push((x, if r + g + b == 0 { "black" } else { "in-srgb" }));
            }
        }
    }
    // near-black: 1e-9 of white and of each primary
    for p in [[1e-9, 1e-9, 1e-9], [1e-9, 0.0, 0.0], [0.0, 1e-9, 0.0], [0.0, 0.0, 1e-9]] {
        v.push((lin.to_xyz(p), "near-black"));
    }
    // around the gamut: linear sRGB with components below 0 / above 1 (wide-gamut and over-range colours)
    let l = [-0.2, 0.0, 0.5, 1.2];
    for r in l {
        for g in l {
            for b in l {
                if [r, g, b].iter().any(|c| *c < 0.0 || *c > 1.0) {
                    v.push((lin.to_xyz([r, g, b]), "outside-srgb"));
                }
            }
        }
    }
    // thorough: over-range (HDR) images of the 9³ grid, 4× the sRGB luminance
    if tier == Tier::Thorough {
        for r in 0..9 {
            for g in 0..9 {
                for b in 0..9 {
                    if r + g + b > 0 {
                        let x = srgb.to_xyz([r as f64 / 8.0, g as f64 / 8.0, b as f64 / 8.0]);
                        v.push(([4.0 * x[0], 4.0 * x[1], 4.0 * x[2]], "outside-srgb"));
                    }
                }
            }
        }
    }
    // the Rec. 2020 primaries (real colours outside sRGB)
    for p in [[1.0, 0.0, 0.0], [0.0, 1.0, 0.0], [0.0, 0.0, 1.0]] {
        v.push((pv::refmodel::rgb::LIN_REC2020.to_xyz(p), "outside-srgb"));
    }
    // the XYZ cube [0, 1.2]³ (contains imaginary stimuli: negative cone responses, and points
    // outside the real-valued domain of the model, which are classified by the reference)
    let l = [0.0, 0.3, 0.6, 0.9, 1.2];
    for x in l {
        for y in l {
            for z in l {
                if x + y + z > 0.0 {
                    v.push(([x, y, z], "xyz-cube"));
                }
            }
        }
    }
    v
}

#[derive(Clone, Copy, Debug)]
struct CondSpec {
    la: f64,
    yb: f64,
    sur: Sur,
    disc: Disc,
    sel: WpSel,
}

struct Axes {
    la: Vec<f64>,
    yb: Vec<f64>,
    sur: Vec<Sur>,
    disc: Vec<Disc>,
}

fn axes(tier: Tier) -> Axes {
    // both lerp segments of the surround (0-10 %, 10-20 %) with their three ends
    // and the documented clamp beyond both ends (-5 % = dark, 25 % = average)
    let sur8 = vec![Sur::Average, Sur::Dim, Sur::Dark, Sur::Percent(0.0), Sur::Percent(5.0), Sur::Percent(10.0), Sur::Percent(15.0), Sur::Percent(20.0), Sur::Percent(-5.0), Sur::Percent(25.0)];
    match tier {
        Tier::Quick => Axes { la: vec![40.0, 0.2, 318.0, 1000.0], yb: vec![0.2, 0.05, 0.9], sur: sur8, disc: vec![Disc::Auto, Disc::Custom(0.5), Disc::Custom(1.5)] },
        Tier::Thorough => {
            let mut sur = sur8;
            // off-centre points of both segments and the documented clamp at both ends
            sur.extend([Sur::Percent(2.5), Sur::Percent(12.5), Sur::Percent(100.0), Sur::Percent(20.000001)]);
            Axes { la: vec![40.0, 0.2, 4.0, 64.0, 318.0, 1000.0, 0.01, 1e4], yb: vec![0.2, 0.05, 0.5, 0.9], sur, disc: vec![Disc::Auto, Disc::Custom(0.0), Disc::Custom(0.5), Disc::Custom(1.0), Disc::Custom(1.5)] }
        }
    }
}

fn conditions(ax: &Axes) -> Vec<CondSpec> {
    let mut v = vec![];
    for &sel in &WPS {
        for &la in &ax.la {
            for &yb in &ax.yb {
                for &sur in &ax.sur {
                    for &disc in &ax.disc {
                        v.push(CondSpec { la, yb, sur, disc, sel });
                    }
                }
            }
        }
    }
    v
}

/// The conditions as the component type sees them (parameters rounded to T once, here).
fn cond_for<T: Fl>(s: &CondSpec) -> Cond64 {
    let r = |x: f64| T::from64(x).to64();
    Cond64 {
        la: r(s.la),
        yb: r(s.yb),
        sur: match s.sur {
            Sur::Percent(p) => Sur::Percent(r(p)),
            o => o,
        },
        disc: match s.disc {
            Disc::Custom(d) => Disc::Custom(r(d)),
            o => o,
        },
        white: [0.0; 3],
    }
}

/// Parameters::bake through the public API; a panic there is a violation of its own (replayable:
/// the case is the black point under these conditions).
fn make_subject<T: Cam>(spec: &CondSpec, cond: &Cond64, c: &mut Collector) -> Option<subject::Subject<T>> {
    match pv::catch(|| T::subject(spec.sel, cond)) {
        Ok(s) => Some(s),
        Err(m) => {
            c.violation(&format!("C16/panic/Parameters::bake/{}/{}", spec.sel.type_name(), T::NAME), 1.0, || {
                let z = [T::from64(0.0); 3];
                let refp = oracle::params(&Cond64 { white: [1.0; 3], ..*cond });
                let mut j = checks::case_json("panic", &Pt { cond, sel: spec.sel, refp: &refp, x: z, class: "black" });
                j["observed"] = json!({"panic": m});
                j
            });
            None
        }
    }
}

/// One chunk: one set of viewing conditions, all colours + the adopted white.
fn run_cond<T: Cam>(spec: &CondSpec, cols: &[Colour], enabled: [bool; NSUB], seed: u64) -> (Collector, Local) {
    let mut c = Collector::new();
    let mut l = Local::with_enabled(enabled);
    let mut cond = cond_for::<T>(spec);
    let Some(subj) = make_subject::<T>(spec, &cond, &mut c) else { return (c, l) };
    cond.white = [subj.white[0].to64(), subj.white[1].to64(), subj.white[2].to64()];
    let refp = oracle::params(&cond);
    let mut seen = std::collections::BTreeSet::new();
    for (x, class) in cols.iter().copied().chain(std::iter::once((cond.white, "adopted-white"))) {
        let xt = if class == "adopted-white" { subj.white } else { [T::from64(x[0]), T::from64(x[1]), T::from64(x[2])] };
        if !seen.insert((xt[0].bits64(), xt[1].bits64(), xt[2].bits64(), class == "adopted-white")) {
            continue;
        }
        let pt = Pt { cond: &cond, sel: spec.sel, refp: &refp, x: xt, class };
        checks::check_point(&pt, &subj, &mut c, &mut l, seed);
    }
    (c, l)
}

fn sub_enabled<T: Fl>(ctx: &Ctx) -> [bool; NSUB] {
    let mut e = [false; NSUB];
    for i in 0..NSUB {
        e[i] = ctx.wants(&format!("{}/{}", SUBS[i], T::NAME));
    }
    e
}

fn bound_text(sub: Sub) -> &'static str {
    match sub {
        Sub::Roundtrip => "into_xyz(from_xyz(x)) vs x for Cam16 and the six partial types at every in-domain, non-black point of the space",
        Sub::Black => "XYZ = 0 under every set of conditions: all attributes exactly 0, into_xyz exactly 0 through all seven types, into_full all 0",
        Sub::PartialEq => "every point (also outside the model's domain, NaN-aware): P::from_xyz and P::from_full equal the corresponding fields of Cam16::from_xyz bit for bit, 6 partial types",
        Sub::Baked => "every point: Cam16::from_xyz with un-baked Parameters equals the BakedParameters route bit for bit",
        Sub::IntoFull => "P::into_full(P::from_xyz(x)) vs Cam16::from_xyz(x), five attributes relative + hue identical, 6 partial types, every in-domain point",
        Sub::Interconvert => "all 36 ordered pairs (P1, P2): P2::from_full(P1.into_full()).into_full() vs P1.into_full() — J↔Q and C↔M↔s are mutually inverse — every in-domain point (pairs whose P1::into_full is itself wrong are reported by into-full only)",
        Sub::Forward => "Cam16::from_xyz vs the independent f64 reference (Li et al. 2017, offset form): J, Q, C·e^{ih}, M·e^{ih}, s² at every in-domain point",
        Sub::Ucs => "from each point's Cam16Jmh: Cam16UcsJmh (vs J' = 1.7J/(1+0.007J), M' = ln(1+0.0228M)/0.0228), back to Cam16Jmh, Cam16UcsJab (vs a' = M'cos h, b' = M'sin h; from UcsJmh and directly from Jmh), back to Cam16UcsJmh and to Cam16Jmh",
        Sub::WhiteJ => "the adopted white of every set of viewing conditions (as reported by WhitePointParameter::into_xyz): J = 100",
    }
}

fn run_float<T: Cam>(ctx: &Ctx, conds: &[CondSpec], cols: &[Colour], ax: &Axes, total: &mut Collector) {
    let enabled = sub_enabled::<T>(ctx);
    let want_vector = ctx.wants(&format!("published-vector/{}", T::NAME));
    if !enabled.iter().any(|e| *e) && !want_vector {
        return;
    }
    let space = format!("space/{}", T::NAME);
    if enabled.iter().any(|e| *e) {
        let parts = pv::par::map_chunks(conds.len(), |i| run_cond::<T>(&conds[i], cols, enabled, ctx.seed));
        let mut l = Local::default();
        for (c, ll) in parts {
            total.merge(c);
            l.merge(ll);
        }
        total.add(&space, l.states, l.trans, 0, l.nontrivial);
        total.exhaustive(
            &space,
            true,
            &format!(
                "{} viewing conditions = white point {{StaticWp<D65>, StaticWp<D50>, dynamic D65, E, A}} × L_A {:?} × Y_b {:?} × surround {:?} × discounting {:?}; × ({} lattice colours [9³ (thorough 17³) sRGB grid images, 4 near-black, 56 linear-sRGB points with components in {{-0.2, 0, 0.5, 1.2}} outside [0,1], Rec.2020 primaries, thorough: the 9³ grid at 4× luminance, 124 points of the XYZ cube {{0,.3,.6,.9,1.2}}³] + the adopted white, duplicates in {} removed); every palette operation of the property executed at every point",
                conds.len(),
                ax.la,
                ax.yb,
                ax.sur,
                ax.disc,
                cols.len(),
                T::NAME
            ),
        );
        for (i, name) in SUBS.iter().enumerate() {
            if enabled[i] {
                let s = format!("{name}/{}", T::NAME);
                total.add(&s, 0, 0, l.traces[i], 0);
                total.exhaustive(&s, true, &format!("evaluated on the states counted under space/{}: {}", T::NAME, bound_text([Sub::Roundtrip, Sub::Black, Sub::PartialEq, Sub::Baked, Sub::IntoFull, Sub::Interconvert, Sub::Forward, Sub::Ucs, Sub::WhiteJ][i])));
            }
        }
        if !l.fail_conds.is_empty() {
            let mut fc = json!({});
            for (i, (sig, classes)) in l.fail_conds.iter().enumerate() {
                let v: Vec<&String> = classes.iter().collect();
                if i < 60 {
                    println!("failing-conditions signature={sig} classes={v:?}");
                }
                fc[sig] = json!(v);
            }
            total.note(&format!("failing-condition-classes/{}", T::NAME), fc);
        }
        let mut maxima = json!({});
        for ((s, m, cl), v) in &l.maxima {
            maxima[format!("{}/{m}/{cl}", SUBS[*s])] = pv::report::fnum(*v);
        }
        total.note(&format!("raw-error-maxima/{}", T::NAME), maxima);
        total.note(
            &format!("domain/{}", T::NAME),
            json!({"points": l.states, "black": l.black, "outside the real-valued domain of the published equations (A <= 0 or t-denominator <= 0): no-panic, partial-eq-full and baked-vs-unbaked only": l.outside_domain, "cancellation kappa > 50 (boundary of the domain): same": l.boundary, "fully checked": l.states - l.black - l.outside_domain - l.boundary, "of these with a negative adapted cone response (sign branch of the compression)": l.negative_cone, "of these chromatic (reference C > 1) = non-trivial": l.nontrivial}),
        );
    }
    if want_vector {
        let s = format!("published-vector/{}", T::NAME);
        let (tr, tv) = checks::check_vector::<T>(total);
        total.add(&s, 1, tr, tv, 1);
        total.exhaustive(&s, true, "XYZ = (19.01, 20.00, 21.78)/100, white (95.05, 100, 108.88)/100 as a dynamic white point, L_A = 318.31, Y_b = 0.20, Average, Auto: J, C, h, Q, M, s to the 4 published decimals (f32: 2e-3)");
    }
}

fn bits(v: &Value) -> Option<u64> {
    u64::from_str_radix(v.as_str()?.trim_start_matches("0x"), 16).ok()
}

fn parse_sur(v: &Value) -> Option<Sur> {
    Some(match v["kind"].as_str()? {
        "Dark" => Sur::Dark,
        "Dim" => Sur::Dim,
        "Average" => Sur::Average,
        "Percent" => Sur::Percent(f64::from_bits(bits(&v["bits"])?)),
        _ => return None,
    })
}
fn parse_disc(v: &Value) -> Option<Disc> {
    Some(match v["kind"].as_str()? {
        "Auto" => Disc::Auto,
        "Custom" => Disc::Custom(f64::from_bits(bits(&v["bits"])?)),
        _ => return None,
    })
}

fn replay_t<T: Cam>(case: &Value, c: &mut Collector) -> Option<()> {
    if case["sub"].as_str() == Some("published-vector") {
        checks::check_vector::<T>(c);
        return Some(());
    }
    let sel = WpSel::from_name(case["wp"].as_str()?)?;
    let cd = &case["cond"];
    let spec = CondSpec { la: f64::from_bits(bits(&cd["la_bits"])?), yb: f64::from_bits(bits(&cd["yb_bits"])?), sur: parse_sur(&cd["surround"])?, disc: parse_disc(&cd["discounting"])?, sel };
    let xb = case["xyz_bits"].as_array()?;
    let x = [T::from_bits64(bits(&xb[0])?), T::from_bits64(bits(&xb[1])?), T::from_bits64(bits(&xb[2])?)];
    let class: &'static str = ["black", "in-srgb", "near-black", "outside-srgb", "xyz-cube", "adopted-white"].into_iter().find(|k| Some(*k) == case["class"].as_str())?;
    let mut cond = cond_for::<T>(&spec);
    let Some(subj) = make_subject::<T>(&spec, &cond, c) else { return Some(()) };
    cond.white = [subj.white[0].to64(), subj.white[1].to64(), subj.white[2].to64()];
    let refp = oracle::params(&cond);
    let pt = Pt { cond: &cond, sel, refp: &refp, x, class };
    let mut l = Local::default();
    checks::check_point(&pt, &subj, c, &mut l, 0);
    let x64 = [x[0].to64(), x[1].to64(), x[2].to64()];
    let r = oracle::forward(&refp, x64);
    println!("{} {} {:?}: XYZ = {:?} ({})", T::NAME, sel.name(), spec, x64, class);
    println!("  reference parameters: {:?}", refp);
    println!("  reference [J,C,h,Q,M,s] = {:?}  in_domain = {}  kappa = {}", r.attrs(), r.in_domain(), r.kappa);
    if let Ok(o) = pv::catch(|| (subj.run)(x)) {
        println!("  Cam16::from_xyz [J,C,h,Q,M,s] = {:?}", o.full);
        println!("  Cam16::into_xyz = {:?}", o.back_full);
        for i in 0..6 {
            println!("  {}: from_xyz = {:?}  into_xyz = {:?}  into_full = {:?}", subject::PARTIALS[i], o.part[i], o.back[i], o.into_full[i]);
        }
    }
    Some(())
}

fn main() {
    pv::main_guard(real_main)
}

fn real_main() -> i32 {
    let (ctx, mode) = Ctx::from_args("C16");
    if let Err(e) = oracle::selftest() {
        eprintln!("MACHINERY-FAILURE: {e}");
        return 3;
    }
    if let Mode::Replay(rep) = mode {
        let mut c = Collector::new();
        let case = &rep["case"];
        let ok = if case["float"].as_str() == Some("f64") { replay_t::<f64>(case, &mut c) } else { replay_t::<f32>(case, &mut c) };
        if ok.is_none() {
            eprintln!("replay: malformed case");
            return 3;
        }
        return ctx.finish_replay(c);
    }
    let ax = axes(ctx.tier);
    let conds = conditions(&ax);
    let cols = colours(ctx.tier);
    let mut total = Collector::new();
    run_float::<f64>(&ctx, &conds, &cols, &ax, &mut total);
    run_float::<f32>(&ctx, &conds, &cols, &ax, &mut total);
    total.note("tolerance", json!(checks::TOL_NOTE));
    total.note("reference-validation", json!("in this run the f64 reference reproduced the published vector (J = 41.7312, C = 0.1034, h = 217.0680, s = 2.3450, Q = 195.3717, M = 0.1074) to 4 decimals and palette's five unit-test expectations (cam16/full.rs: #5588cc, white, red, green, blue under D65, L_A = 40, Y_b = 0.2, average) to the epsilons used there; a disagreement exits 3"));
    total.note("units", json!("palette Xyz/white point: Y = 1 for white (×100 internally); background_luminance relative to white = 1; Surround::Percent 0 % dark – 10 % dim – 20 % average, clamped; Discounting::Custom clamped to [0,1] — the reference applies the same documented clamps"));
    ctx.finish(
        total,
        "model_checking",
        "a state = one (viewing conditions, white-point parameter type and value, XYZ bit pattern, float type); transitions = palette calls on it (Parameters::bake, Cam16::from_xyz ×2, 7 × into_xyz, 6 × from_xyz/from_full/into_full, 36 × from_full→into_full, 6 UCS conversions); traces = comparisons with the reference model / the exact relations; non-trivial = non-black points inside the model's domain whose reference chroma exceeds 1",
        &[
            "valid viewing conditions: L_A > 0, 0 < Y_b <= Y_w, any surround/discounting value (clamped as documented)",
            "intermediate surrounds interpolate (F, c, N_c) linearly between the published dark/dim/average rows on palette's documented 0-10-20 % scale",
            "the published equations are real-valued only for A > 0 and a positive t-denominator; XYZ-cube points outside that domain (imaginary stimuli) or with cancellation kappa > 50 are only required not to panic and to keep partial = full",
            "the adopted white is the value palette reports through WhitePointParameter::into_xyz (the correctness of the white-point constants themselves is C14)",
            "XYZ tolerances are relative to white Y = 1 and scale with the size of the colour plus an absolute floor (near-black is ill-conditioned in absolute terms only)",
        ],
    )
}
