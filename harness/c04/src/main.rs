fn main() {
    eprintln!("C04: check not built yet");
    std::process::exit(3);
}
