fn main() {
    eprintln!("C09: check not built yet");
    std::process::exit(3);
}
