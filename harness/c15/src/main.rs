//! C15 — gamut-bounded cylindrical spaces stay inside the RGB gamut.
//! Forward: a cylinder grid (every hue step, every sector edge ± ulp; saturation-like and
//! lightness-like components on a grid that includes both bounds) of HSL, HSV, HWB (for every
//! RGB standard), Okhsl, Okhsv, Okhwb and HSLuv must convert into RGB components in [0,1]±eps.
//! Reverse: every in-gamut RGB colour (all 2^24 8-bit sRGB colours in the thorough tier) must
//! convert into those spaces within their bounds and back to the same RGB colour.
use pg::{Graph, Kind};
use pv::fl::Fl;
use pv::{json, Collector, Ctx, Mode, Tier, Value};

fn to64<T: Fl>(v: [T; 3]) -> [f64; 3] {
    [v[0].to64(), v[1].to64(), v[2].to64()]
}
fn hex<T: Fl>(v: &[T]) -> Vec<String> {
    v.iter().map(|x| format!("{:#x}", x.bits64())).collect()
}

/// "a small tolerance". The geometric spaces are exact up to rounding. HSLuv and the Ok spaces
/// are *approximations of the sRGB gamut by published algorithms* (C02 shows that palette
/// follows those algorithms to 1e-5), so their tolerance is the accuracy of the published
/// method with 2x slack, measured on the pinned tree:
/// * HSLuv bounds the gamut with its own sRGB matrix (white x=0.3127, y=0.3290), 1.6e-4 away
///   from palette's: 1.5e-4 out of gamut in linear light = 2.0e-3 in an encoded component next
///   to zero (slope 12.92); saturation of in-gamut colours up to 100.048;
/// * Okhsl/Okhsv/Okhwb (one Halley step from a polynomial guess): 2.5e-3 out of gamut at
///   s = 1, saturation of in-gamut colours up to 1.0115 (blue region), round trip through the
///   red-primary hue loses 2.4e-3 in f32.
/// The discontinuity at the blue primary proper is classified `@ok-blue-cusp` (known finding).
struct Tol {
    forward: f64,
    bounds: f64,
    roundtrip: f64,
}
fn tols<T: Fl>(k: &Kind) -> Tol {
    let f32_ = T::NAME == "f32";
    match k {
        Kind::Okhsl | Kind::Okhsv | Kind::Okhwb => Tol { forward: 5e-3, bounds: 2.3e-2, roundtrip: if f32_ { 5e-3 } else { 2e-5 } },
        Kind::Hsluv(_) => Tol { forward: 4e-3, bounds: 1e-3, roundtrip: if f32_ { 2e-4 } else { 2e-5 } },
        _ => Tol { forward: if f32_ { 2e-6 } else { 1e-12 }, bounds: if f32_ { 1e-4 } else { 1e-12 } /* HSL saturation is d / (2 - max - min): next to white f32 rounding is amplified by 1/(2 - sum) <= 128 on the 8-bit grid */, roundtrip: if f32_ { 2e-5 } else { 1e-10 } },
    }
}
fn eps_out_of_gamut<T: Fl>(k: &Kind) -> f64 {
    tols::<T>(k).forward
}
fn tol_roundtrip<T: Fl>(k: &Kind) -> f64 {
    tols::<T>(k).roundtrip
}

fn is_cyl(k: &Kind) -> bool {
    matches!(k, Kind::Hsl(_) | Kind::Hsv(_) | Kind::Hwb(_) | Kind::Okhsl | Kind::Okhsv | Kind::Okhwb | Kind::Hsluv(_))
}
/// the RGB nodes of the graph that a cylindrical node is bounded by (same spec; for the Ok
/// spaces and HSLuv: sRGB, encoded and linear)
fn rgb_partners<T>(g: &Graph<T>, k: &Kind) -> Vec<usize> {
    let spec = k.gamut().expect("gamut");
    (0..g.n())
        .filter(|&i| match g.nodes[i].kind {
            Kind::Rgb(s) => {
                if matches!(k, Kind::Hsl(_) | Kind::Hsv(_) | Kind::Hwb(_)) {
                    s == spec
                } else {
                    s.prim == spec.prim && s.wp == spec.wp && (s.tf == spec.tf || s.tf == pv::refmodel::tf::Tf::Linear)
                }
            }
            _ => false,
        })
        .collect()
}

fn cyl_grid<T: Fl>(k: &Kind, hue_step: f64) -> Vec<[T; 3]> {
    let mut hues: Vec<T> = vec![];
    let mut h = 0.0;
    while h < 360.0 {
        hues.push(T::from64(h));
        h += hue_step;
    }
    for e in 0..=12 {
        let t = T::from64(e as f64 * 30.0);
        hues.push(t.up());
        hues.push(t.down());
    }
    hues.extend([T::from64(pv::colorkind::OK_BLUE_CUSP_HUE), T::from64(pv::colorkind::OK_BLUE_CUSP_HUE - 1e-4), T::from64(-180.0), T::from64(720.0)]);
    let mut unit: Vec<f64> = vec![0.0, 1e-9, 1.0 - 1e-9, 1.0];
    for i in 1..20 {
        unit.push(i as f64 * 0.05);
    }
    let scale = if matches!(k, Kind::Hsluv(_)) { 100.0 } else { 1.0 };
    let mut out = vec![];
    for &hh in &hues {
        for &a in &unit {
            for &b in &unit {
                if matches!(k, Kind::Hwb(_) | Kind::Okhwb) && a + b > 1.0 {
                    continue;
                }
                out.push([hh, T::from64(a * scale), T::from64(b * scale)]);
            }
        }
    }
    out
}

fn hue_class(k: &Kind, v: [f64; 3]) -> &'static str {
    if k.is_ok_cyl() && (v[0].rem_euclid(360.0) - pv::colorkind::OK_BLUE_CUSP_HUE).abs() < 0.01 {
        "@ok-blue-cusp"
    } else {
        ""
    }
}

fn forward<T: Fl>(ctx: &Ctx, g: &Graph<T>, hue_step: f64, total: &mut Collector) {
    let sub = format!("forward/{}/{}", g.name, T::NAME);
    if !ctx.wants(&sub) {
        return;
    }
    let cyls: Vec<usize> = (0..g.n()).filter(|&i| is_cyl(&g.nodes[i].kind)).collect();
    let nch = 32usize;
    let cyls_ref = &cyls;
    let cc = pv::par::run_chunks(cyls.len() * nch, |ci, c| {
        let a = cyls_ref[ci / nch];
        let ka = g.nodes[a].kind;
        let grid = cyl_grid::<T>(&ka, hue_step);
        let partners = rgb_partners(g, &ka);
        let eps = eps_out_of_gamut::<T>(&ka);
        let part = ci % nch;
        let (lo, hi) = (grid.len() * part / nch, grid.len() * (part + 1) / nch);
        let (mut st, mut tr) = (0u64, 0u64);
        for v in &grid[lo..hi] {
            st += 1;
            for &b in &partners {
                let Some(f) = g.unc[a][b] else { continue };
                tr += 1;
                let mk = |obs: Value| json!({"sub": "forward", "group": g.name, "float": T::NAME, "path": [g.nodes[a].name, g.nodes[b].name], "input": hex(v), "value": to64(*v), "observed": obs, "expected": {"components in": [-eps, 1.0 + eps]}});
                match pv::catch(|| f(*v)) {
                    Err(msg) => c.violation(&format!("C15/forward/{}/{}/{}->{}/panic", g.name, T::NAME, g.nodes[a].name, g.nodes[b].name), 1.0, || mk(json!({"panic": msg}))),
                    Ok(r) => {
                        let r64 = to64(r);
                        let mut excess: f64 = 0.0;
                        for x in r64 {
                            let e = if x.is_nan() { f64::NAN } else { (-x).max(x - 1.0).max(0.0) };
                            if e.is_nan() || e > excess {
                                excess = e;
                            }
                        }
                        if excess <= eps {
                            c.ratio(&format!("forward-excess/{}", g.nodes[a].name.split('<').next().unwrap_or("")), excess / eps, || mk(json!({"rgb": r64, "excess": excess})));
                        } else {
                            c.violation(&format!("C15/forward/{}/{}/{}->{}/out-of-gamut{}", g.name, T::NAME, g.nodes[a].name, g.nodes[b].name, hue_class(&ka, to64(*v))), excess, || mk(json!({"rgb": r64, "excess": pv::report::fnum(excess)})));
                        }
                        c.outcome(r[0].bits64() ^ r[1].bits64().rotate_left(21) ^ r[2].bits64().rotate_left(42));
                    }
                }
            }
        }
        c.add(&sub, st, tr, tr, st);
        c.sample(pv::splitmix(ci as u64), || json!({"group": g.name, "float": T::NAME, "node": g.nodes[a].name, "value": to64(grid[lo])}));
    });
    total.merge(cc);
    total.exhaustive(&sub, true, &format!("{} cylindrical nodes x hue every {}° + every 30° edge ± ulp + blue cusp x 23^2 (saturation-like, lightness-like) incl. both bounds -> their RGB nodes", cyls.len(), hue_step));
}

fn reverse<T: Fl>(ctx: &Ctx, g: &Graph<T>, levels: u32, total: &mut Collector) {
    let sub = format!("reverse/{}/{}", g.name, T::NAME);
    if !ctx.wants(&sub) {
        return;
    }
    let n = g.n();
    let rgbs: Vec<usize> = (0..n).filter(|&i| matches!(g.nodes[i].kind, Kind::Rgb(_))).collect();
    // pairs (rgb node, cylindrical node bounded by it)
    let mut pairs: Vec<(usize, usize)> = vec![];
    for &r in &rgbs {
        for c in 0..n {
            if is_cyl(&g.nodes[c].kind) && rgb_partners(g, &g.nodes[c].kind).contains(&r) && g.unc[r][c].is_some() && g.unc[c][r].is_some() {
                pairs.push((r, c));
            }
        }
    }
    let nl = levels as usize;
    let pairs_ref = &pairs;
    let cc = pv::par::run_chunks(pairs.len() * nl, |ci, c| {
        let (r, k) = pairs_ref[ci / nl];
        let ri = (ci % nl) as u32;
        let kk = g.nodes[k].kind;
        let (fwd, back) = (g.unc[r][k].unwrap(), g.unc[k][r].unwrap());
        let eps = tols::<T>(&kk).bounds;
        let tol = tol_roundtrip::<T>(&kk);
        let scale = if matches!(kk, Kind::Hsluv(_)) { 100.0 } else { 1.0 };
        let q = (levels - 1) as f64;
        let (mut st, mut tr) = (0u64, 0u64);
        for gi in 0..levels {
            for bi in 0..levels {
                let v = [T::from64(ri as f64 / q), T::from64(gi as f64 / q), T::from64(bi as f64 / q)];
                st += 1;
                tr += 2;
                let xyz = g.nodes[r].kind.to_xyz(to64(v));
                let cls = if kk.is_ok_cyl() && pv::colorkind::on_ok_blue_cusp(xyz) { "@ok-blue-cusp" } else { "" };
                let mk = |what: &str, obs: Value, exp: Value| json!({"sub": "reverse", "what": what, "group": g.name, "float": T::NAME, "path": [g.nodes[r].name, g.nodes[k].name], "input": hex(&v), "value": to64(v), "observed": obs, "expected": exp});
                let res = pv::catch(|| {
                    let m = fwd(v);
                    (m, back(m))
                });
                match res {
                    Err(msg) => c.violation(&format!("C15/reverse/{}/{}/{}->{}/panic", g.name, T::NAME, g.nodes[r].name, g.nodes[k].name), 1.0, || mk("convert", json!({"panic": msg}), json!("no panic"))),
                    Ok((m, b)) => {
                        let m64 = to64(m);
                        // within the bounds of the space (saturation-like and lightness-like components)
                        let mut excess: f64 = 0.0;
                        for i in 1..3 {
                            let x = m64[i] / scale;
                            let e = if x.is_nan() { f64::NAN } else { (-x).max(x - 1.0).max(0.0) };
                            if e.is_nan() || e > excess {
                                excess = e;
                            }
                        }
                        if matches!(kk, Kind::Hwb(_) | Kind::Okhwb) {
                            let e = (m64[1] + m64[2] - 1.0).max(0.0);
                            if e > excess {
                                excess = e;
                            }
                        }
                        // a result that lies inside the documented bounds exactly must also be *reported* as within
                        // bounds, by the predicate and by the checked conversion (greys sit exactly on w + b = 1)
                        if excess == 0.0 {
                            if let Some((_, within)) = g.clamp[k] {
                                tr += 1;
                                if !within(m) {
                                    c.violation(&format!("C15/reverse-is_within_bounds/{}/{}/{}->{}", g.name, T::NAME, g.nodes[r].name, g.nodes[k].name), 1.0, || mk("in-gamut RGB -> cylindrical space: inside the documented bounds but is_within_bounds() is false", json!({"result": m64, "is_within_bounds": false}), json!({"is_within_bounds": true})));
                                }
                            }
                            if let Some(tryf) = g.tryc[r][k] {
                                tr += 1;
                                if let Ok(Err(_)) = pv::catch(|| tryf(v)) {
                                    c.violation(&format!("C15/reverse-try_from_color/{}/{}/{}->{}", g.name, T::NAME, g.nodes[r].name, g.nodes[k].name), 1.0, || mk("in-gamut RGB -> cylindrical space: inside the documented bounds but try_from_color returns Err", json!({"result": m64, "try_from_color": "Err"}), json!({"try_from_color": "Ok"})));
                                }
                            }
                        }
                        if excess <= eps {
                            c.ratio(&format!("reverse-bounds/{}", g.nodes[k].name.split('<').next().unwrap_or("")), excess / eps, || mk("bounds", json!({"result": m64, "excess": excess}), json!(null)));
                        } else {
                            // saturation at (next to) white and black is a ratio of vanishing quantities
                            let lum = xyz[1];
                            let c2 = if !cls.is_empty() { cls } else if lum >= 0.9 { "@near-white" } else if lum <= 1e-3 { "@near-black" } else { "" };
                            c.violation(&format!("C15/reverse-bounds/{}/{}/{}->{}/out-of-bounds{}", g.name, T::NAME, g.nodes[r].name, g.nodes[k].name, c2), excess, || mk("in-gamut RGB -> cylindrical space: component outside its documented bounds", json!({"result": m64, "excess": pv::report::fnum(excess)}), json!({"tol": eps})));
                        }
                        // and back to the same RGB colour
                        let b64 = to64(b);
                        let v64 = to64(v);
                        let mut d: f64 = 0.0;
                        for i in 0..3 {
                            let e = (b64[i] - v64[i]).abs();
                            if e.is_nan() || e > d {
                                d = e;
                            }
                        }
                        if d <= tol {
                            c.ratio(&format!("reverse-roundtrip/{}", g.nodes[k].name.split('<').next().unwrap_or("")), d / tol, || mk("roundtrip", json!({"back": b64}), json!(null)));
                        } else {
                            c.violation(&format!("C15/reverse-roundtrip/{}/{}/{}->{}/{}{}", g.name, T::NAME, g.nodes[r].name, g.nodes[k].name, if d.is_nan() { "NaN" } else { "finite-off" }, cls), d, || mk("RGB -> cylindrical space -> RGB", json!({"via": m64, "back": b64, "err": pv::report::fnum(d)}), json!({"back": v64, "tol": tol})));
                        }
                        c.outcome(m[0].bits64() ^ m[1].bits64().rotate_left(21) ^ m[2].bits64().rotate_left(42));
                    }
                }
            }
        }
        c.add(&sub, st, tr, 2 * st, st);
        if ri % 37 == 0 {
            c.sample(pv::splitmix(ci as u64), || json!({"group": g.name, "float": T::NAME, "rgb_node": g.nodes[r].name, "space": g.nodes[k].name, "red_level": ri}));
        }
    });
    total.merge(cc);
    total.exhaustive(&sub, true, &format!("{} (RGB node, cylindrical node) pairs x the complete {}^3 grid of RGB levels k/{} (256: all 2^24 8-bit colours)", pairs.len(), levels, levels - 1));
}

/// Dark colours: the RGB grid scaled by 1e-2 .. 1e-5 -> HSV / HSLuv -> RGB must return the colour with
/// an error small RELATIVE to the colour's size; an absolute tolerance cannot see a guard that flattens
/// everything darker than some threshold. Only HSV (value = max, saturation = a ratio) and HSLuv (L* is
/// linear in Y down there, u', v' are ratios) are scale-covariant *as published*; the HSL / HWB formulas
/// (1 − |2L − 1|, 1 − blackness) and the Ok toe function subtract O(1) quantities, so their dark colours
/// are only defined to an absolute accuracy. HSLuv colours below L* = 1e-4 are left out: the CIELUV
/// code treats L* < 1e-5 as black (a division guard), which is inside the property's absolute tolerance.
fn reverse_dark<T: Fl>(ctx: &Ctx, g: &Graph<T>, total: &mut Collector) {
    let sub = format!("reverse-dark/{}/{}", g.name, T::NAME);
    if !ctx.wants(&sub) {
        return;
    }
    let n = g.n();
    let levels = 7u32;
    let mut pairs: Vec<(usize, usize)> = vec![];
    for r in (0..n).filter(|&i| matches!(g.nodes[i].kind, Kind::Rgb(_))) {
        for c in 0..n {
            if matches!(g.nodes[c].kind, Kind::Hsv(_) | Kind::Hsluv(_)) && rgb_partners(g, &g.nodes[c].kind).contains(&r) && g.unc[r][c].is_some() && g.unc[c][r].is_some() {
                pairs.push((r, c));
            }
        }
    }
    let pairs_ref = &pairs;
    let cc = pv::par::run_chunks(pairs.len(), |ci, c| {
        let (r, k) = pairs_ref[ci];
        let kk = g.nodes[k].kind;
        let (fwd, back) = (g.unc[r][k].unwrap(), g.unc[k][r].unwrap());
        // HSV: rounding only; HSLuv: the f32 round-trip tolerance of the bright grid / the 7-digit matrices in f64
        let f32_ = T::NAME == "f32";
        let hsluv = matches!(kk, Kind::Hsluv(_));
        let tol = if hsluv { if f32_ { 2e-4 } else { 1e-6 } } else if f32_ { 2e-5 } else { 1e-11 };
        let q = (levels - 1) as f64;
        let (mut st, mut tr) = (0u64, 0u64);
        for sc in [1e-2, 1e-3, 1e-4, 1e-5] {
            for ri in 0..levels {
                for gi in 0..levels {
                    for bi in 0..levels {
                        if ri + gi + bi == 0 {
                            continue;
                        }
                        let v = [T::from64(sc * ri as f64 / q), T::from64(sc * gi as f64 / q), T::from64(sc * bi as f64 / q)];
                        st += 1;
                        tr += 2;
                        let xyz = g.nodes[r].kind.to_xyz(to64(v));
                        if hsluv && pv::refmodel::cie::KAPPA * xyz[1] < 1e-4 {
                            continue;
                        }
                        let cls = "";
                        let res = pv::catch(|| {
                            let m = fwd(v);
                            (m, back(m))
                        });
                        let mk = |what: &str, obs: Value, exp: Value| json!({"sub": "reverse-dark", "what": what, "group": g.name, "float": T::NAME, "path": [g.nodes[r].name, g.nodes[k].name], "input": hex(&v), "value": to64(v), "observed": obs, "expected": exp});
                        match res {
                            Err(msg) => c.violation(&format!("C15/reverse-dark/{}/{}/{}->{}/panic", g.name, T::NAME, g.nodes[r].name, g.nodes[k].name), 1.0, || mk("convert", json!({"panic": msg}), json!("no panic"))),
                            Ok((m, b)) => {
                                let (b64, v64) = (to64(b), to64(v));
                                let size = v64.iter().fold(0.0f64, |a, x| a.max(x.abs()));
                                let mut d: f64 = 0.0;
                                for i in 0..3 {
                                    let e = (b64[i] - v64[i]).abs() / size;
                                    if e.is_nan() || e > d {
                                        d = e;
                                    }
                                }
                                if d <= tol {
                                    c.ratio(&format!("reverse-dark/{}", g.nodes[k].name.split('<').next().unwrap_or("")), d / tol, || mk("roundtrip", json!({"back": b64}), json!(null)));
                                } else {
                                    c.violation(&format!("C15/reverse-dark/{}/{}/{}->{}/{}{}", g.name, T::NAME, g.nodes[r].name, g.nodes[k].name, if d.is_nan() { "NaN" } else { "finite-off" }, cls), d, || mk("dark RGB -> cylindrical space -> RGB, error relative to the colour's size", json!({"via": to64(m), "back": b64, "relative_err": pv::report::fnum(d)}), json!({"back": v64, "relative_tol": tol})));
                                }
                                c.outcome(m[0].bits64() ^ m[1].bits64().rotate_left(21) ^ m[2].bits64().rotate_left(42));
                            }
                        }
                    }
                }
            }
        }
        c.add(&sub, st, tr, st, st);
    });
    total.merge(cc);
    total.exhaustive(&sub, true, &format!("{} (RGB node, HSV or HSLuv node) pairs x the 7^3 grid of RGB levels scaled by 1e-2, 1e-3, 1e-4, 1e-5 (black excluded; HSLuv: colours with L* >= 1e-4): round trip with the error relative to the colour's largest component", pairs.len()));
}

macro_rules! with_graph {
    ($group:expr, $float:expr, |$g:ident| $body:expr) => {
        match ($group, $float) {
            ("D65-core", "f32") => { let $g = pga::d65_f32(); $body }
            ("D65-core", "f64") => { let $g = pgb::d65_f64(); $body }
            ("D65-cylindrical", "f32") => { let $g = pgc::d65cyl_f32(); $body }
            ("D65-cylindrical", "f64") => { let $g = pgc::d65cyl_f64(); $body }
            ("D50", "f32") => { let $g = pgd::d50_f32(); $body }
            ("D50", "f64") => { let $g = pgd::d50_f64(); $body }
            ("DCI", "f32") => { let $g = pgd::dci_f32(); $body }
            ("DCI", "f64") => { let $g = pgd::dci_f64(); $body }
            (g, f) => { eprintln!("unknown graph {g}/{f}"); std::process::exit(3) }
        }
    };
}

fn replay(c: &mut Collector, rep: &Value) {
    let case = &rep["case"];
    let group = case["group"].as_str().unwrap_or("").to_string();
    let float = case["float"].as_str().unwrap_or("").to_string();
    let path: Vec<String> = case["path"].as_array().map(|a| a.iter().map(|x| x.as_str().unwrap_or("").to_string()).collect()).unwrap_or_default();
    let b: Vec<u64> = case["input"].as_array().map(|a| a.iter().map(|x| u64::from_str_radix(x.as_str().unwrap_or("0").trim_start_matches("0x"), 16).unwrap_or(0)).collect()).unwrap_or_default();
    let sig = rep["signature"].as_str().unwrap_or("C15/replay").to_string();
    let is_fwd = case["sub"] == "forward";
    fn go<T: Fl>(g: &Graph<T>, path: &[String], b: &[u64], is_fwd: bool, sig: &str, case: &Value, c: &mut Collector) {
        let (ia, ib) = (g.index(&path[0]).expect("node"), g.index(&path[1]).expect("node"));
        let v = [T::from_bits64(b[0]), T::from_bits64(b[1]), T::from_bits64(b[2])];
        let f = g.unc[ia][ib].expect("edge");
        let m = pv::catch(|| f(v));
        println!("{} {:?} -> {} {:?}", path[0], to64(v), path[1], m.as_ref().map(|x| to64(*x)));
        let Ok(m) = m else {
            c.violation(sig, 1.0, || case.clone());
            return;
        };
        if is_fwd {
            let eps = eps_out_of_gamut::<T>(&g.nodes[ia].kind);
            if to64(m).iter().any(|x| !(*x >= -eps && *x <= 1.0 + eps)) {
                c.violation(sig, 1.0, || case.clone());
            }
        } else {
            let kk = g.nodes[ib].kind;
            let scale = if matches!(kk, Kind::Hsluv(_)) { 100.0 } else { 1.0 };
            let eps = tols::<T>(&kk).bounds;
            let m64 = to64(m);
            let oob = (1..3).any(|i| !(m64[i] / scale >= -eps && m64[i] / scale <= 1.0 + eps));
            let back = pv::catch(|| g.unc[ib][ia].expect("edge")(m));
            println!("back {:?}", back.as_ref().map(|x| to64(*x)));
            let bad_rt = match back {
                Ok(bk) => (0..3).any(|i| !((bk[i].to64() - v[i].to64()).abs() <= tol_roundtrip::<T>(&kk))),
                Err(_) => true,
            };
            let not_within = g.clamp[ib].map(|(_, w)| !w(m)).unwrap_or(false);
            let try_err = g.tryc[ia][ib].map(|t| matches!(pv::catch(|| t(v)), Ok(Err(_)))).unwrap_or(false);
            if (sig.contains("reverse-bounds") && oob) || (sig.contains("reverse-roundtrip") && bad_rt) || (sig.contains("reverse-is_within_bounds") && not_within) || (sig.contains("reverse-try_from_color") && try_err) {
                c.violation(sig, 1.0, || case.clone());
            }
        }
    }
    with_graph!(group.as_str(), float.as_str(), |g| go(&g, &path, &b, is_fwd, &sig, case, c));
}

fn main() {
    pv::main_guard(real_main)
}

fn real_main() -> i32 {
    let (ctx, mode) = Ctx::from_args("C15");
    if let Mode::Replay(rep) = mode {
        let mut c = Collector::new();
        replay(&mut c, &rep);
        return ctx.finish_replay(c);
    }
    let mut total = Collector::new();
    let quick = ctx.tier == Tier::Quick;
    let hue_step = if quick { 1.0 } else { 0.25 };
    forward(&ctx, &pga::d65_f32(), hue_step, &mut total);
    forward(&ctx, &pgb::d65_f64(), hue_step, &mut total);
    forward(&ctx, &pgc::d65cyl_f32(), hue_step, &mut total);
    forward(&ctx, &pgc::d65cyl_f64(), hue_step, &mut total);
    forward(&ctx, &pgd::d50_f32(), hue_step, &mut total);
    forward(&ctx, &pgd::d50_f64(), hue_step, &mut total);
    forward(&ctx, &pgd::dci_f32(), hue_step, &mut total);
    forward(&ctx, &pgd::dci_f64(), hue_step, &mut total);
    // reverse: complete 8-bit cube for the sRGB-rooted graph in the thorough tier
    let lv_main = if quick { 52 } else { 256 };
    let lv_other = if quick { 18 } else { 86 };
    reverse(&ctx, &pga::d65_f32(), lv_main, &mut total);
    reverse(&ctx, &pgb::d65_f64(), lv_main, &mut total);
    reverse(&ctx, &pgc::d65cyl_f32(), lv_other, &mut total);
    reverse(&ctx, &pgc::d65cyl_f64(), lv_other, &mut total);
    reverse(&ctx, &pgd::d50_f32(), lv_other, &mut total);
    reverse(&ctx, &pgd::d50_f64(), lv_other, &mut total);
    reverse(&ctx, &pgd::dci_f32(), lv_other, &mut total);
    reverse(&ctx, &pgd::dci_f64(), lv_other, &mut total);
    reverse_dark(&ctx, &pga::d65_f32(), &mut total);
    reverse_dark(&ctx, &pgb::d65_f64(), &mut total);
    reverse_dark(&ctx, &pgc::d65cyl_f32(), &mut total);
    reverse_dark(&ctx, &pgc::d65cyl_f64(), &mut total);
    reverse_dark(&ctx, &pgd::d50_f32(), &mut total);
    reverse_dark(&ctx, &pgd::d50_f64(), &mut total);
    reverse_dark(&ctx, &pgd::dci_f32(), &mut total);
    reverse_dark(&ctx, &pgd::dci_f64(), &mut total);
    ctx.finish(
        total,
        "model_checking",
        "states = cylinder grid points (hue x saturation-like x lightness-like, bounds included) per cylindrical node, and RGB grid colours (complete 8-bit cube for the sRGB graph in the thorough tier) per (RGB node, cylindrical node) pair; transitions = conversions executed; traces = bound / round-trip predictions compared; every state is non-trivial",
        &["tolerances (fn tols): geometric spaces exact up to rounding (1e-12 f64 / 2e-6 f32); HSLuv and the Ok spaces: accuracy of the published gamut approximation with 2x slack (forward 4e-3 / 5e-3, bounds 1e-3 / 2.3e-2)", "that palette follows the published Ok / HSLuv algorithms is C02's claim, not this check's"],
    )
}
