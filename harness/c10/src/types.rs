//! The colour types of C10 with their explicit operator-trait lists (discovered by reading the
//! macro invocations in palette/src/*.rs and confirmed by compilation: a keyword for a trait the
//! type does not implement does not compile).
use crate::ops::*;
use core::ops::{Add, AddAssign, Div, DivAssign, Mul, MulAssign, Sub, SubAssign};
use palette::cam16::{Cam16Jch, Cam16Jmh, Cam16Jsh, Cam16Qch, Cam16Qmh, Cam16Qsh, Cam16UcsJab, Cam16UcsJmh};
use palette::color_theory::{Analogous, Complementary, SplitComplementary, Tetradic, Triadic};
use palette::convert::FromColorUnclamped;
use palette::encoding::{self, Linear};
use palette::lms::VonKriesLms;
use palette::luma::Luma;
use palette::rgb::Rgb;
use palette::white_point::D65;
use palette::{Clamp, ClampAssign, Darken, DarkenAssign, Desaturate, DesaturateAssign, Lighten, LightenAssign, Mix, MixAssign, Saturate, SaturateAssign, SetHue, ShiftHue, ShiftHueAssign, WithHue};
use palette::{Hsl, Hsluv, Hsv, Hwb, Lab, Lch, Lchuv, Luv, Okhsl, Okhsv, Okhwb, Oklab, Oklch, Xyz, Yxy};

/// operator keywords: mix | pre (PreAlpha forms of mix and arithmetic; needs Premultiply) |
/// lighten[aff..] | saturate[aff..] | hue(idx) (ShiftHue/WithHue/SetHue + hue based colour schemes) |
/// labschemes(Polar, ia, ib) | addsub | muldiv | clamp | coupled
macro_rules! spec_ops {
    ($s:ident, $C:ty, $T:ty, $N:literal, $pre:tt;) => {};
    ($s:ident, $C:ty, $T:ty, $N:literal, $pre:tt; mix $(, $($rest:tt)*)?) => {
        #[allow(unused_mut)]
        let mut m = mix_ops!($C, $T, $N);
        spec_ops!(@pre_mix m, $C, $T, $N, $pre);
        $s.mix = Some(m);
        spec_ops!($s, $C, $T, $N, $pre; $($($rest)*)?);
    };
    (@pre_mix $m:ident, $C:ty, $T:ty, $N:literal, yes) => { mix_pre!($m, $C, $T, $N); };
    (@pre_mix $m:ident, $C:ty, $T:ty, $N:literal, no) => {};
    ($s:ident, $C:ty, $T:ty, $N:literal, $pre:tt; lighten[$($aff:expr),+] $(, $($rest:tt)*)?) => {
        $s.lighten = Some(lighten_ops!($C, $T, $N, vec![$($aff),+]));
        spec_ops!($s, $C, $T, $N, $pre; $($($rest)*)?);
    };
    ($s:ident, $C:ty, $T:ty, $N:literal, $pre:tt; saturate[$($aff:expr),+] $(, $($rest:tt)*)?) => {
        $s.saturate = Some(saturate_ops!($C, $T, $N, vec![$($aff),+]));
        spec_ops!($s, $C, $T, $N, $pre; $($($rest)*)?);
    };
    ($s:ident, $C:ty, $T:ty, $N:literal, $pre:tt; hue($idx:literal) $(, $($rest:tt)*)?) => {
        $s.hue = Some(hue_ops!($C, $T, $N, $idx));
        $s.schemes = Some(hue_schemes!($C, $T, $N));
        spec_ops!($s, $C, $T, $N, $pre; $($($rest)*)?);
    };
    ($s:ident, $C:ty, $T:ty, $N:literal, $pre:tt; labschemes($P:ty, $ia:literal, $ib:literal) $(, $($rest:tt)*)?) => {
        $s.schemes = Some(lab_schemes!($C, $P, $T, $N, $ia, $ib));
        spec_ops!($s, $C, $T, $N, $pre; $($($rest)*)?);
    };
    ($s:ident, $C:ty, $T:ty, $N:literal, $pre:tt; addsub $(, $($rest:tt)*)?) => {
        $s.arith.push(spec_ops!(@pre_ar arith_op!($C, $T, $N, "add", 0, Add::add, AddAssign::add_assign), $C, $T, $N, Add::add, AddAssign::add_assign, $pre));
        $s.arith.push(spec_ops!(@pre_ar arith_op!($C, $T, $N, "sub", 1, Sub::sub, SubAssign::sub_assign), $C, $T, $N, Sub::sub, SubAssign::sub_assign, $pre));
        spec_ops!($s, $C, $T, $N, $pre; $($($rest)*)?);
    };
    ($s:ident, $C:ty, $T:ty, $N:literal, $pre:tt; muldiv $(, $($rest:tt)*)?) => {
        $s.arith.push(spec_ops!(@pre_ar arith_op!($C, $T, $N, "mul", 2, Mul::mul, MulAssign::mul_assign), $C, $T, $N, Mul::mul, MulAssign::mul_assign, $pre));
        $s.arith.push(spec_ops!(@pre_ar arith_op!($C, $T, $N, "div", 3, Div::div, DivAssign::div_assign), $C, $T, $N, Div::div, DivAssign::div_assign, $pre));
        spec_ops!($s, $C, $T, $N, $pre; $($($rest)*)?);
    };
    (@pre_ar $o:expr, $C:ty, $T:ty, $N:literal, $Op:ident :: $op:ident, $OpA:ident :: $opa:ident, yes) => { arith_pre!($o, $C, $T, $N, $Op::$op, $OpA::$opa) };
    (@pre_ar $o:expr, $C:ty, $T:ty, $N:literal, $Op:ident :: $op:ident, $OpA:ident :: $opa:ident, no) => { $o };
    ($s:ident, $C:ty, $T:ty, $N:literal, $pre:tt; clamp $(, $($rest:tt)*)?) => {
        $s.clamp = Some(clamp_ops!($C, $T, $N));
        spec_ops!($s, $C, $T, $N, $pre; $($($rest)*)?);
    };
    ($s:ident, $C:ty, $T:ty, $N:literal, $pre:tt; coupled $(, $($rest:tt)*)?) => {
        $s.coupled = true;
        spec_ops!($s, $C, $T, $N, $pre; $($($rest)*)?);
    };
}

macro_rules! spec {
    ($v:ident, $T:ty, $name:literal, $C:ty, $N:literal, pre = $pre:tt, [$($comp:expr),+]; $($ops:tt)*) => {{
        type C = $C;
        #[allow(unused_mut)]
        let mut s = Spec::<$T>::new($name, $N, vec![$($comp),+]);
        spec_ops!(s, C, $T, $N, $pre; $($ops)*);
        $v.push(s);
    }};
}

macro_rules! cam16_partial {
    ($v:ident, $T:ty, $name:literal, $C:ty, $lum:literal, $chr:literal, $lmax:expr, $cmax:expr) => {
        spec!($v, $T, $name, $C, 3, pre = no, [r($lum, 0.0, $lmax), r($chr, 0.0, $cmax), hu("hue")]; mix, hue(2), addsub, clamp);
    };
}

macro_rules! specs_fn {
    ($fname:ident, $T:ty) => {
        pub fn $fname() -> Vec<Spec<$T>> {
            type T = $T;
            let mut v: Vec<Spec<T>> = vec![];
            spec!(v, T, "Srgb", Rgb<encoding::Srgb, T>, 3, pre = yes, [r("red", C::min_red(), C::max_red()), r("green", C::min_green(), C::max_green()), r("blue", C::min_blue(), C::max_blue())];
                mix, lighten[aff(0, C::min_red(), C::max_red(), 1), aff(1, C::min_green(), C::max_green(), 1), aff(2, C::min_blue(), C::max_blue(), 1)], addsub, muldiv, clamp);
            spec!(v, T, "LinSrgb", Rgb<Linear<encoding::Srgb>, T>, 3, pre = yes, [r("red", C::min_red(), C::max_red()), r("green", C::min_green(), C::max_green()), r("blue", C::min_blue(), C::max_blue())];
                mix, lighten[aff(0, C::min_red(), C::max_red(), 1), aff(1, C::min_green(), C::max_green(), 1), aff(2, C::min_blue(), C::max_blue(), 1)], addsub, muldiv, clamp);
            spec!(v, T, "Luma", Luma<encoding::Srgb, T>, 1, pre = yes, [r("luma", C::min_luma(), C::max_luma())];
                mix, lighten[aff(0, C::min_luma(), C::max_luma(), 1)], addsub, muldiv, clamp);
            spec!(v, T, "Xyz", Xyz<D65, T>, 3, pre = yes, [r("x", C::min_x(), C::max_x()), r("y", C::min_y(), C::max_y()), r("z", C::min_z(), C::max_z())];
                mix, lighten[aff(0, C::min_x(), C::max_x(), 1), aff(1, C::min_y(), C::max_y(), 1), aff(2, C::min_z(), C::max_z(), 1)], addsub, muldiv, clamp);
            spec!(v, T, "Yxy", Yxy<D65, T>, 3, pre = yes, [r("x", C::min_x(), C::max_x()), r("y", C::min_y(), C::max_y()), r("luma", C::min_luma(), C::max_luma())];
                mix, lighten[aff(2, C::min_luma(), C::max_luma(), 1)], addsub, muldiv, clamp);
            spec!(v, T, "Lab", Lab<D65, T>, 3, pre = yes, [r("l", C::min_l(), C::max_l()), r("a", C::min_a(), C::max_a()), r("b", C::min_b(), C::max_b())];
                mix, lighten[aff(0, C::min_l(), C::max_l(), 1)], labschemes(Lch<D65, T>, 1, 2), addsub, muldiv, clamp);
            spec!(v, T, "Luv", Luv<D65, T>, 3, pre = yes, [r("l", C::min_l(), C::max_l()), r("u", C::min_u(), C::max_u()), r("v", C::min_v(), C::max_v())];
                mix, lighten[aff(0, C::min_l(), C::max_l(), 1)], labschemes(Lchuv<D65, T>, 1, 2), addsub, muldiv, clamp);
            spec!(v, T, "Lch", Lch<D65, T>, 3, pre = no, [r("l", C::min_l(), C::max_l()), r("chroma", C::min_chroma(), C::max_chroma()), hu("hue")];
                mix, lighten[aff(0, C::min_l(), C::max_l(), 1)], saturate[aff(1, C::min_chroma(), C::max_chroma(), 1)], hue(2), addsub, clamp);
            spec!(v, T, "Lchuv", Lchuv<D65, T>, 3, pre = no, [r("l", C::min_l(), C::max_l()), r("chroma", C::min_chroma(), C::max_chroma()), hu("hue")];
                mix, lighten[aff(0, C::min_l(), C::max_l(), 1)], saturate[aff(1, C::min_chroma(), C::max_chroma(), 1)], hue(2), addsub, clamp);
            spec!(v, T, "Hsluv", Hsluv<D65, T>, 3, pre = no, [hu("hue"), r("saturation", C::min_saturation(), C::max_saturation()), r("l", C::min_l(), C::max_l())];
                mix, lighten[aff(2, C::min_l(), C::max_l(), 1)], saturate[aff(1, C::min_saturation(), C::max_saturation(), 1)], hue(0), addsub, clamp);
            spec!(v, T, "Hsl", Hsl<encoding::Srgb, T>, 3, pre = no, [hu("hue"), r("saturation", C::min_saturation(), C::max_saturation()), r("lightness", C::min_lightness(), C::max_lightness())];
                mix, lighten[aff(2, C::min_lightness(), C::max_lightness(), 1)], saturate[aff(1, C::min_saturation(), C::max_saturation(), 1)], hue(0), addsub, clamp);
            spec!(v, T, "Hsv", Hsv<encoding::Srgb, T>, 3, pre = no, [hu("hue"), r("saturation", C::min_saturation(), C::max_saturation()), r("value", C::min_value(), C::max_value())];
                mix, lighten[aff(2, C::min_value(), C::max_value(), 1)], saturate[aff(1, C::min_saturation(), C::max_saturation(), 1)], hue(0), addsub, clamp);
            spec!(v, T, "Hwb", Hwb<encoding::Srgb, T>, 3, pre = no, [hu("hue"), r("whiteness", C::min_whiteness(), C::max_whiteness()), r("blackness", C::min_blackness(), C::max_blackness())];
                coupled, mix, lighten[aff(1, C::min_whiteness(), C::max_whiteness(), 1), aff(2, C::min_blackness(), C::max_blackness(), -1)], hue(0), addsub, clamp);
            spec!(v, T, "Oklab", Oklab<T>, 3, pre = yes, [r("l", C::min_l(), C::max_l()), r("a", -0.5, 0.5), r("b", -0.5, 0.5)];
                mix, lighten[aff(0, C::min_l(), C::max_l(), 1)], labschemes(Oklch<T>, 1, 2), addsub, muldiv, clamp);
            spec!(v, T, "Oklch", Oklch<T>, 3, pre = no, [r("l", C::min_l(), C::max_l()), r("chroma", C::min_chroma(), 0.5), hu("hue")];
                mix, lighten[aff(0, C::min_l(), C::max_l(), 1)], hue(2), addsub, clamp);
            spec!(v, T, "Okhsl", Okhsl<T>, 3, pre = no, [hu("hue"), r("saturation", C::min_saturation(), C::max_saturation()), r("lightness", C::min_lightness(), C::max_lightness())];
                mix, lighten[aff(2, C::min_lightness(), C::max_lightness(), 1)], saturate[aff(1, C::min_saturation(), C::max_saturation(), 1)], hue(0), addsub, clamp);
            spec!(v, T, "Okhsv", Okhsv<T>, 3, pre = no, [hu("hue"), r("saturation", C::min_saturation(), C::max_saturation()), r("value", C::min_value(), C::max_value())];
                mix, lighten[aff(2, C::min_value(), C::max_value(), 1)], saturate[aff(1, C::min_saturation(), C::max_saturation(), 1)], hue(0), addsub, clamp);
            spec!(v, T, "Okhwb", Okhwb<T>, 3, pre = no, [hu("hue"), r("whiteness", C::min_whiteness(), C::max_whiteness()), r("blackness", C::min_blackness(), C::max_blackness())];
                coupled, mix, lighten[aff(1, C::min_whiteness(), C::max_whiteness(), 1), aff(2, C::min_blackness(), C::max_blackness(), -1)], hue(0), addsub, clamp);
            spec!(v, T, "Lms", VonKriesLms<D65, T>, 3, pre = yes, [r("long", C::min_long(), 1.0), r("medium", C::min_medium(), 1.0), r("short", C::min_short(), 1.0)];
                mix, addsub, muldiv, clamp);
            cam16_partial!(v, T, "Cam16Jch", Cam16Jch<T>, "lightness", "chroma", 100.0, 120.0);
            cam16_partial!(v, T, "Cam16Jmh", Cam16Jmh<T>, "lightness", "colorfulness", 100.0, 100.0);
            cam16_partial!(v, T, "Cam16Jsh", Cam16Jsh<T>, "lightness", "saturation", 100.0, 100.0);
            cam16_partial!(v, T, "Cam16Qch", Cam16Qch<T>, "brightness", "chroma", 200.0, 120.0);
            cam16_partial!(v, T, "Cam16Qmh", Cam16Qmh<T>, "brightness", "colorfulness", 200.0, 100.0);
            cam16_partial!(v, T, "Cam16Qsh", Cam16Qsh<T>, "brightness", "saturation", 200.0, 100.0);
            spec!(v, T, "Cam16UcsJmh", Cam16UcsJmh<T>, 3, pre = no, [r("lightness", C::min_lightness(), C::max_lightness()), r("colorfulness", C::min_colorfulness(), C::max_srgb_colorfulness()), hu("hue")];
                mix, lighten[aff(0, C::min_lightness(), C::max_lightness(), 1)], saturate[aff(1, C::min_colorfulness(), C::max_srgb_colorfulness(), 1)], hue(2), addsub, clamp);
            spec!(v, T, "Cam16UcsJab", Cam16UcsJab<T>, 3, pre = yes, [r("lightness", C::min_lightness(), C::max_lightness()), r("a", C::min_srgb_a(), C::max_srgb_a()), r("b", C::min_srgb_b(), C::max_srgb_b())];
                mix, lighten[aff(0, C::min_lightness(), C::max_lightness(), 1)], labschemes(Cam16UcsJmh<T>, 1, 2), addsub, muldiv, clamp);
            v
        }
    };
}

specs_fn!(specs_f32, f32);
specs_fn!(specs_f64, f64);
