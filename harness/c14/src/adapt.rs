//! chromatic adaptation over all ordered pairs of white points x cone matrices x an XYZ lattice
#![allow(deprecated)]
use palette::chromatic_adaptation::{AdaptFrom, AdaptFromUnclamped, Method};
use palette::lms::matrix::{Bradford, UnitMatrix, VonKries};
use palette::white_point::{self as wp, WhitePoint};
use palette::Xyz;
use pv::{json, Collector, Ctx};

fn lattice() -> Vec<[f64; 3]> {
    let l = [0.0, 1e-9, 0.18, 0.5, 0.9, 1.0, 1.2];
    let mut v = vec![];
    for &x in &l {
        for &y in &l {
            for &z in &l {
                v.push([x, y, z]);
            }
        }
    }
    v
}

macro_rules! pair {
    ($c:ident, $n:ident, $T:ty, $sn:literal, $S:ty, $dn:literal, $D:ty) => {{
        type T = $T;
        let tn = stringify!($T);
        let same = $sn == $dn;
        let sw: Xyz<$S, T> = <$S as WhitePoint<T>>::get_xyz().with_white_point();
        let dw: Xyz<$D, T> = <$D as WhitePoint<T>>::get_xyz().with_white_point();
        let mut pts: Vec<[T; 3]> = lattice().into_iter().map(|p| [p[0] as T, p[1] as T, p[2] as T]).collect();
        pts.push([sw.x, sw.y, sw.z]);
        // tolerance: the cone matrices and their published inverses have 7 digits (mutually
        // inverse to ~4e-7 with entries up to 1.7); XYZ scaling is exact up to rounding
        let (t_cone, t_unit): (f64, f64) = if tn == "f32" { (2e-5, 2e-6) } else { (4e-6, 1e-12) };
        macro_rules! method {
            ($mn:literal, $M:ty, $old:expr, $tol:expr) => {{
                for p in &pts {
                    let x: Xyz<$S, T> = Xyz::new(p[0], p[1], p[2]);
                    $n += 1;
                    let case = json!({"sub": "adapt", "float": tn, "from": $sn, "to": $dn, "method": $mn, "input": [p[0] as f64, p[1] as f64, p[2] as f64]});
                    let r = pv::catch(|| {
                        let y: Xyz<$D, T> = Xyz::adapt_from_unclamped_with::<$M>(x);
                        let back: Xyz<$S, T> = Xyz::adapt_from_unclamped_with::<$M>(y);
                        let o: Xyz<$D, T> = Xyz::adapt_from_using(x, $old);
                        (y, back, o)
                    });
                    let (y, back, o) = match r {
                        Ok(v) => v,
                        Err(msg) => {
                            $c.violation(&format!("C14/adapt/{}/{}/panic", $mn, tn), 1.0, || json!({"sub": "adapt", "case": case, "input": case["input"], "observed": {"panic": msg}, "expected": "no panic"}));
                            continue;
                        }
                    };
                    let is_white = p[0] == sw.x && p[1] == sw.y && p[2] == sw.z;
                    if same {
                        // identity between equal white points: bit exact (new API)
                        if (y.x.to_bits(), y.y.to_bits(), y.z.to_bits()) != (p[0].to_bits(), p[1].to_bits(), p[2].to_bits()) {
                            $c.violation(&format!("C14/adapt-identity/{}/{}/{}", $mn, tn, $sn), 1.0, || json!({"sub": "adapt", "what": "identity between equal white points", "float": tn, "from": $sn, "to": $dn, "method": $mn, "input": [p[0] as f64, p[1] as f64, p[2] as f64], "observed": [y.x as f64, y.y as f64, y.z as f64], "expected": "bit-identical"}));
                        }
                        let d = ((o.x - p[0]).abs() as f64).max((o.y - p[1]).abs() as f64).max((o.z - p[2]).abs() as f64);
                        if !(d <= $tol * 1.2) {
                            $c.violation(&format!("C14/adapt-identity-deprecated-api/{}/{}/{}", $mn, tn, $sn), d, || json!({"sub": "adapt", "what": "identity between equal white points (AdaptFrom)", "float": tn, "from": $sn, "to": $dn, "method": $mn, "input": [p[0] as f64, p[1] as f64, p[2] as f64], "observed": [o.x as f64, o.y as f64, o.z as f64], "expected": "input"}));
                        }
                    }
                    if is_white {
                        let d = ((y.x - dw.x).abs() as f64).max((y.y - dw.y).abs() as f64).max((y.z - dw.z).abs() as f64);
                        $c.ratio("adapt-white", d / $tol, || case.clone());
                        if !(d <= $tol) {
                            $c.violation(&format!("C14/adapt-white/{}/{}/{}->{}", $mn, tn, $sn, $dn), d, || json!({"sub": "adapt", "what": "source white -> destination white", "float": tn, "from": $sn, "to": $dn, "method": $mn, "input": [p[0] as f64, p[1] as f64, p[2] as f64], "observed": [y.x as f64, y.y as f64, y.z as f64], "expected": [dw.x as f64, dw.y as f64, dw.z as f64], "tol": $tol}));
                        }
                    }
                    // there and back (scaled by the size of the gains: a white point pair like A -> C has gains up to 3.3)
                    let d = ((back.x - p[0]).abs() as f64).max((back.y - p[1]).abs() as f64).max((back.z - p[2]).abs() as f64);
                    $c.ratio("adapt-roundtrip", d / (4.0 * $tol), || case.clone());
                    if !(d <= 4.0 * $tol) {
                        $c.violation(&format!("C14/adapt-roundtrip/{}/{}/{}->{}", $mn, tn, $sn, $dn), d, || json!({"sub": "adapt", "what": "adapt there and back", "float": tn, "from": $sn, "to": $dn, "method": $mn, "input": [p[0] as f64, p[1] as f64, p[2] as f64], "observed": [back.x as f64, back.y as f64, back.z as f64], "expected": "input", "tol": 4.0 * $tol}));
                    }
                    // deprecated and new API agree
                    let d = ((o.x - y.x).abs() as f64).max((o.y - y.y).abs() as f64).max((o.z - y.z).abs() as f64);
                    if !(d <= 4.0 * $tol) {
                        $c.violation(&format!("C14/adapt-api-agreement/{}/{}/{}->{}", $mn, tn, $sn, $dn), d, || json!({"sub": "adapt", "what": "AdaptFrom vs AdaptFromUnclamped", "float": tn, "from": $sn, "to": $dn, "method": $mn, "input": [p[0] as f64, p[1] as f64, p[2] as f64], "observed": [o.x as f64, o.y as f64, o.z as f64], "expected": [y.x as f64, y.y as f64, y.z as f64]}));
                    }
                    $c.outcome((y.x as f64).to_bits() ^ (y.z as f64).to_bits().rotate_left(29));
                }
            }};
        }
        method!("Bradford", Bradford, Method::Bradford, t_cone);
        method!("VonKries", VonKries, Method::VonKries, t_cone);
        method!("XyzScaling", UnitMatrix, Method::XyzScaling, t_unit.max(if tn == "f32" { 2e-6 } else { 1e-12 }));
    }};
}

macro_rules! all_pairs {
    ($c:ident, $n:ident, $T:ty, [$(($sn:literal, $S:ty)),*], $dsts:tt) => {
        $( all_pairs!(@row $c, $n, $T, $sn, $S, $dsts); )*
    };
    (@row $c:ident, $n:ident, $T:ty, $sn:literal, $S:ty, [$(($dn:literal, $D:ty)),*]) => {
        $( pair!($c, $n, $T, $sn, $S, $dn, $D); )*
    };
}

pub fn run(ctx: &Ctx, total: &mut Collector) {
    let sub = "adaptation";
    if !ctx.wants(sub) {
        return;
    }
    let mut c = Collector::new();
    let mut n = 0u64;
    macro_rules! wps {
        ($T:ty) => {
            all_pairs!(c, n, $T,
                [("A", wp::A), ("B", wp::B), ("C", wp::C), ("D50", wp::D50), ("D55", wp::D55), ("D65", wp::D65), ("D75", wp::D75), ("E", wp::E), ("F2", wp::F2), ("F7", wp::F7), ("F11", wp::F11)],
                [("A", wp::A), ("B", wp::B), ("C", wp::C), ("D50", wp::D50), ("D55", wp::D55), ("D65", wp::D65), ("D75", wp::D75), ("E", wp::E), ("F2", wp::F2), ("F7", wp::F7), ("F11", wp::F11)]);
        };
    }
    wps!(f64);
    wps!(f32);
    c.add(sub, n, 3 * n, 4 * n, n);
    c.exhaustive(sub, true, "all 121 ordered pairs of 11 white points x {Bradford, VonKries, XYZ scaling} x 7^3 XYZ lattice points + the source white, f32 and f64; new (AdaptFromUnclamped) and deprecated (AdaptFrom) API");
    total.merge(c);
}
