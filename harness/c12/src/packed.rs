//! Sub-check (b): packed integers. Complete 2^32 space per RGBA channel order, complete 2^16
//! space per luma order; each channel at the documented byte position, pack/unpack identity,
//! into_u32/from_u32/From conventions as documented in the source.
use palette::cast::{ComponentOrder, Packed};
use palette::luma::channels as lch;
use palette::rgb::channels as rch;
use palette::{Srgb, SrgbLuma, SrgbLumaa, Srgba};
use pv::{json, Collector, Ctx, Value};

/// RGBA channel order; POS[k] = index (0 = most significant byte / first array element) of
/// red, green, blue, alpha, as the order's name spells it.
pub trait Order4: ComponentOrder<Srgba<u8>, u32> + ComponentOrder<Srgba<u8>, [u8; 4]> + ComponentOrder<Srgba<u16>, [u16; 4]> + 'static {
    const NAME: &'static str;
    const POS: [usize; 4];
}
impl Order4 for rch::Rgba {
    const NAME: &'static str = "Rgba";
    const POS: [usize; 4] = [0, 1, 2, 3];
}
impl Order4 for rch::Argb {
    const NAME: &'static str = "Argb";
    const POS: [usize; 4] = [1, 2, 3, 0];
}
impl Order4 for rch::Bgra {
    const NAME: &'static str = "Bgra";
    const POS: [usize; 4] = [2, 1, 0, 3];
}
impl Order4 for rch::Abgr {
    const NAME: &'static str = "Abgr";
    const POS: [usize; 4] = [3, 2, 1, 0];
}

fn show4(c: &Srgba<u8>) -> Value {
    json!({"red": c.red, "green": c.green, "blue": c.blue, "alpha": c.alpha})
}
fn show3(c: &Srgb<u8>) -> Value {
    json!({"red": c.red, "green": c.green, "blue": c.blue})
}
fn h32(v: u32) -> String {
    format!("0x{:08x}", v)
}

pub const OPS4: u64 = 14;

/// fast predicate: everything as documented for packed value `v` in order `O`
#[inline(always)]
fn packed_ok<O: Order4>(v: u32) -> bool {
    let by = v.to_be_bytes();
    let exp = Srgba::<u8>::new(by[O::POS[0]], by[O::POS[1]], by[O::POS[2]], by[O::POS[3]]);
    let opaque = v | (0xffu32 << (8 * (3 - O::POS[3])));
    let p: Packed<O, u32> = Packed::from(v);
    let u: Srgba<u8> = p.unpack();
    let a1: [u8; 4] = <O as ComponentOrder<Srgba<u8>, [u8; 4]>>::pack(exp);
    let a2: Srgba<u8> = <O as ComponentOrder<Srgba<u8>, [u8; 4]>>::unpack(by);
    u == exp
        && Packed::<O, u32>::pack(exp).color == v
        && Srgba::<u8>::from_u32::<O>(v) == exp
        && exp.into_u32::<O>() == v
        && Srgb::<u8>::from_u32::<O>(v) == exp.color
        && exp.color.into_u32::<O>() == opaque
        && a1 == by
        && a2 == exp
        && Srgba::<u8>::from(p) == exp
        && Srgb::<u8>::from(p) == exp.color
        && Packed::<O, u32>::from(exp).color == v
        && Packed::<O, u32>::from(exp.color).color == opaque
        && <O as ComponentOrder<Srgba<u8>, u32>>::unpack(v) == exp
        && <O as ComponentOrder<Srgba<u8>, u32>>::pack(exp) == v
}

/// detailed single-case check (violations per operation); used on the slow path and by --replay
pub fn check_packed<O: Order4>(c: &mut Collector, v: u32) {
    let by = v.to_be_bytes();
    let exp = Srgba::<u8>::new(by[O::POS[0]], by[O::POS[1]], by[O::POS[2]], by[O::POS[3]]);
    let opaque = v | (0xffu32 << (8 * (3 - O::POS[3])));
    let mut viol = |op: &str, observed: Value, expected: Value| {
        c.violation(&format!("C12/packed/{}/{}", O::NAME, op), 1.0, || json!({"sub": "packed", "order": O::NAME, "input": h32(v), "op": op, "observed": observed, "expected": expected}));
    };
    macro_rules! op {
        ($name:expr, $e:expr, $want:expr, $show:expr) => {
            match pv::catch(|| $e) {
                Ok(got) => {
                    if got != $want {
                        viol($name, $show(&got), $show(&$want));
                    }
                }
                Err(msg) => viol($name, json!({"panic": msg}), $show(&$want)),
            }
        };
    }
    let hs = |x: &u32| json!(h32(*x));
    let arr = |x: &[u8; 4]| json!(x);
    op!("Packed::unpack", Packed::<O, u32>::from(v).unpack::<Srgba<u8>>(), exp, show4);
    op!("Packed::pack", Packed::<O, u32>::pack(exp).color, v, hs);
    op!("Rgba::from_u32", Srgba::<u8>::from_u32::<O>(v), exp, show4);
    op!("Rgba::into_u32", exp.into_u32::<O>(), v, hs);
    op!("Rgb::from_u32", Srgb::<u8>::from_u32::<O>(v), exp.color, show3);
    op!("Rgb::into_u32", exp.color.into_u32::<O>(), opaque, hs);
    op!("ComponentOrder<[u8;4]>::pack", <O as ComponentOrder<Srgba<u8>, [u8; 4]>>::pack(exp), by, arr);
    op!("ComponentOrder<[u8;4]>::unpack", <O as ComponentOrder<Srgba<u8>, [u8; 4]>>::unpack(by), exp, show4);
    op!("Rgba::from(Packed)", Srgba::<u8>::from(Packed::<O, u32>::from(v)), exp, show4);
    op!("Rgb::from(Packed)", Srgb::<u8>::from(Packed::<O, u32>::from(v)), exp.color, show3);
    op!("Packed::from(Rgba)", Packed::<O, u32>::from(exp).color, v, hs);
    op!("Packed::from(Rgb)", Packed::<O, u32>::from(exp.color).color, opaque, hs);
    op!("ComponentOrder<u32>::unpack", <O as ComponentOrder<Srgba<u8>, u32>>::unpack(v), exp, show4);
    op!("ComponentOrder<u32>::pack", <O as ComponentOrder<Srgba<u8>, u32>>::pack(exp), v, hs);
}

const CHUNK_BITS: u32 = 20;

/// At most this many failing values per 2^20-chunk go through the detailed (itemising) path;
/// all failing values are still found and counted by the complete fast pass.
const ITEMISE_PER_CHUNK: u64 = 8;

pub fn packed_order<O: Order4>(ctx: &Ctx, total: &mut Collector) {
    let sub = format!("packed/{}", O::NAME);
    if !ctx.wants(&sub) {
        return;
    }
    let t0 = std::time::Instant::now();
    let seed = ctx.seed;
    let outs = pv::par::map_chunks(1usize << (32 - CHUNK_BITS), |ci| {
        let mut c = Collector::new();
        let start = (ci as u32) << CHUNK_BITS;
        let len = 1u32 << CHUNK_BITS;
        // complete fast pass over the chunk
        let fast = pv::catch(|| {
            let mut bad = 0u64;
            let mut nt = 0u64;
            for k in 0..len {
                let v = start + k;
                bad += !packed_ok::<O>(v) as u64;
                let by = v.to_be_bytes();
                nt += !(by[0] == by[1] && by[1] == by[2] && by[2] == by[3]) as u64;
            }
            (bad, nt)
        });
        let (bad, nt) = match fast {
            Ok((0, nt)) => (0, nt),
            Ok((bad, nt)) => {
                // some values fail: itemise the first few of the chunk
                let first: Vec<u32> = pv::catch(|| (0..len).map(|k| start + k).filter(|v| !packed_ok::<O>(*v)).take(ITEMISE_PER_CHUNK as usize).collect()).unwrap_or_default();
                for v in first {
                    check_packed::<O>(&mut c, v);
                }
                (bad, nt)
            }
            Err(_) => {
                // a panic: value by value
                let mut nt = 0;
                let mut bad = 0u64;
                for k in 0..len {
                    let v = start + k;
                    let by = v.to_be_bytes();
                    nt += !(by[0] == by[1] && by[1] == by[2] && by[2] == by[3]) as u64;
                    if pv::catch(|| packed_ok::<O>(v)) != Ok(true) {
                        bad += 1;
                        if bad <= ITEMISE_PER_CHUNK {
                            check_packed::<O>(&mut c, v);
                        }
                    }
                }
                (bad, nt)
            }
        };
        c.add(&sub, len as u64, OPS4 * len as u64, OPS4 * len as u64, nt);
        let v = start ^ (pv::splitmix(seed ^ ci as u64) as u32 & (len - 1));
        if let Ok(u) = pv::catch(|| Packed::<O, u32>::from(v).unpack::<Srgba<u8>>()) {
            c.outcome(pv::fnv(&[u.red, u.green, u.blue, u.alpha, O::POS[0] as u8]));
            if ci % 512 == 3 {
                c.sample(pv::splitmix(seed ^ v as u64), || json!({"sub": sub, "packed": h32(v), "unpacked": show4(&u), "repacked": h32(Packed::<O, u32>::pack(u).color)}));
            }
        }
        (c, bad)
    });
    let mut failing = 0u64;
    for (c, bad) in outs {
        total.merge(c);
        failing += bad;
    }
    total.exhaustive(&sub, true, "all 2^32 packed u32 values (= all 2^32 Rgba<u8> colours): unpack gives each channel from its documented byte, pack gives the value back; Packed, ComponentOrder<u32>, ComponentOrder<[u8;4]> (big-endian), from_u32/into_u32 of Rgba and Rgb (alpha byte 0xFF), From conversions");
    total.note(&format!("{sub}/failing-values"), json!(failing));
    if failing > 0 {
        total.note(&format!("{sub}/itemised"), json!(format!("violation counts itemise at most {ITEMISE_PER_CHUNK} failing values per 2^20 chunk; {failing} values fail in total")));
    }
    total.note(&format!("wall_s/{sub}"), json!(t0.elapsed().as_secs_f64()));
}

/// From<u32> / Into<u32>: ARGB (0xAARRGGBB) for Rgb, RGBA (0xRRGGBBAA) for Rgba — as documented
pub fn check_from_u32(c: &mut Collector, v: u32) {
    let by = v.to_be_bytes();
    let rgb = Srgb::<u8>::new(by[1], by[2], by[3]);
    let rgba = Srgba::<u8>::new(by[0], by[1], by[2], by[3]);
    let mut viol = |op: &str, observed: Value, expected: Value| {
        c.violation(&format!("C12/packed/From<u32>/{}", op), 1.0, || json!({"sub": "from-u32", "input": h32(v), "op": op, "observed": observed, "expected": expected}));
    };
    let a = Srgb::<u8>::from(v);
    if a != rgb {
        viol("Rgb::from(u32)", show3(&a), show3(&rgb));
    }
    let b = u32::from(rgb);
    if b != (v | 0xff00_0000) {
        viol("u32::from(Rgb)", json!(h32(b)), json!(h32(v | 0xff00_0000)));
    }
    let d = Srgba::<u8>::from(v);
    if d != rgba {
        viol("Rgba::from(u32)", show4(&d), show4(&rgba));
    }
    let e = u32::from(rgba);
    if e != v {
        viol("u32::from(Rgba)", json!(h32(e)), json!(h32(v)));
    }
}

#[inline(always)]
fn from_u32_ok(v: u32) -> bool {
    let by = v.to_be_bytes();
    let rgb = Srgb::<u8>::new(by[1], by[2], by[3]);
    let rgba = Srgba::<u8>::new(by[0], by[1], by[2], by[3]);
    Srgb::<u8>::from(v) == rgb && u32::from(rgb) == (v | 0xff00_0000) && Srgba::<u8>::from(v) == rgba && u32::from(rgba) == v
}

pub fn from_u32(ctx: &Ctx, total: &mut Collector) {
    let sub = "packed/From<u32>";
    if !ctx.wants(sub) {
        return;
    }
    let outs = pv::par::map_chunks(1usize << (32 - CHUNK_BITS), |ci| {
        let mut c = Collector::new();
        let start = (ci as u32) << CHUNK_BITS;
        let len = 1u32 << CHUNK_BITS;
        let fast = pv::catch(|| {
            let mut bad = 0u64;
            for k in 0..len {
                bad += !from_u32_ok(start + k) as u64;
            }
            bad
        });
        let mut bad = 0u64;
        match fast {
            Ok(0) => {}
            Ok(b) => {
                bad = b;
                let first: Vec<u32> = pv::catch(|| (0..len).map(|k| start + k).filter(|v| !from_u32_ok(*v)).take(ITEMISE_PER_CHUNK as usize).collect()).unwrap_or_default();
                for v in first {
                    check_from_u32(&mut c, v);
                }
            }
            Err(_) => {
                for k in 0..len {
                    let v = start + k;
                    if pv::catch(|| from_u32_ok(v)) != Ok(true) {
                        bad += 1;
                        if bad <= ITEMISE_PER_CHUNK {
                            if let Err(msg) = pv::catch(|| check_from_u32(&mut c, v)) {
                                c.violation("C12/packed/From<u32>/panic", 1.0, || json!({"sub": "from-u32", "input": h32(v), "observed": {"panic": msg}, "expected": "no panic"}));
                            }
                        }
                    }
                }
            }
        }
        c.add(sub, len as u64, 4 * len as u64, 4 * len as u64, len as u64 - if ci == 0 { 1 } else { 0 });
        if ci % 1024 == 5 {
            let v = start | 0x607f;
            c.outcome(pv::fnv(&u32::from(Srgb::<u8>::from(v)).to_be_bytes()));
            c.sample(pv::splitmix(seed_of(ctx) ^ v as u64), || json!({"sub": sub, "input": h32(v), "Rgb::from": show3(&Srgb::<u8>::from(v)), "Rgba::from": show4(&Srgba::<u8>::from(v))}));
        }
        (c, bad)
    });
    let mut failing = 0u64;
    for (c, bad) in outs {
        total.merge(c);
        failing += bad;
    }
    total.exhaustive(sub, true, "all 2^32 u32 values: Rgb<u8>::from(u32) reads 0xAARRGGBB and ignores AA, u32::from(Rgb<u8>) writes AA = 0xFF; Rgba<u8>::from(u32) / u32::from(Rgba<u8>) use 0xRRGGBBAA");
    total.note(&format!("{sub}/failing-values"), json!(failing));
}

fn seed_of(ctx: &Ctx) -> u64 {
    ctx.seed
}

// ---------------------------------------------------------------------------------------
// [u16; 4] arrays (same ComponentOrder impls, other component type)

pub fn check_array16<O: Order4>(c: &mut Collector, ch: [u16; 4]) {
    let exp = Srgba::<u16>::new(ch[0], ch[1], ch[2], ch[3]);
    let mut arr = [0u16; 4];
    for k in 0..4 {
        arr[O::POS[k]] = ch[k];
    }
    let got = <O as ComponentOrder<Srgba<u16>, [u16; 4]>>::pack(exp);
    if got != arr {
        c.violation(&format!("C12/packed/{}/ComponentOrder<[u16;4]>::pack", O::NAME), 1.0, || json!({"sub": "packed-array16", "order": O::NAME, "input": ch, "observed": got, "expected": arr}));
    }
    let back = <O as ComponentOrder<Srgba<u16>, [u16; 4]>>::unpack(arr);
    if back != exp {
        c.violation(&format!("C12/packed/{}/ComponentOrder<[u16;4]>::unpack", O::NAME), 1.0, || {
            json!({"sub": "packed-array16", "order": O::NAME, "input": ch, "observed": [back.red, back.green, back.blue, back.alpha], "expected": ch})
        });
    }
}

pub fn array16<O: Order4>(ctx: &Ctx, total: &mut Collector) {
    let sub = format!("packed-array16/{}", O::NAME);
    if !ctx.wants(&sub) {
        return;
    }
    let lv = crate::roundtrip::levels(16, ctx.tier);
    let mut c = Collector::new();
    let mut n = 0u64;
    let mut nt = 0u64;
    for &r in &lv {
        for &g in &lv {
            for &b in &lv {
                for &a in &lv {
                    let ch = [r as u16, g as u16, b as u16, a as u16];
                    check_array16::<O>(&mut c, ch);
                    n += 1;
                    nt += !(r == g && g == b && b == a) as u64;
                }
            }
        }
    }
    c.add(&sub, n, 2 * n, 2 * n, nt);
    c.exhaustive(&sub, true, &format!("{}-level lattice per channel of Rgba<u16> through ComponentOrder<_, [u16; 4]>", lv.len()));
    total.merge(c);
}

// ---------------------------------------------------------------------------------------
// luma

pub trait Order2: ComponentOrder<SrgbLumaa<u8>, u16> + ComponentOrder<SrgbLumaa<u8>, [u8; 2]> + 'static {
    const NAME: &'static str;
    /// index (0 = most significant byte) of luma, alpha
    const POS: [usize; 2];
}
impl Order2 for lch::La {
    const NAME: &'static str = "La";
    const POS: [usize; 2] = [0, 1];
}
impl Order2 for lch::Al {
    const NAME: &'static str = "Al";
    const POS: [usize; 2] = [1, 0];
}

pub fn check_luma<O: Order2>(c: &mut Collector, v: u16) {
    let by = v.to_be_bytes();
    let exp = SrgbLumaa::<u8>::new(by[O::POS[0]], by[O::POS[1]]);
    let opaque = v | (0xffu16 << (8 * (1 - O::POS[1])));
    let h16 = |x: u16| format!("0x{:04x}", x);
    let sh = |x: &SrgbLumaa<u8>| json!({"luma": x.luma, "alpha": x.alpha});
    let mut viol = |op: &str, observed: Value, expected: Value| {
        c.violation(&format!("C12/packed-luma/{}/{}", O::NAME, op), 1.0, || json!({"sub": "packed-luma", "order": O::NAME, "input": h16(v), "op": op, "observed": observed, "expected": expected}));
    };
    let u: SrgbLumaa<u8> = Packed::<O, u16>::from(v).unpack();
    if u != exp {
        viol("Packed::unpack", sh(&u), sh(&exp));
    }
    let p = Packed::<O, u16>::pack(exp).color;
    if p != v {
        viol("Packed::pack", json!(h16(p)), json!(h16(v)));
    }
    let f = SrgbLumaa::<u8>::from_u16::<O>(v);
    if f != exp {
        viol("Lumaa::from_u16", sh(&f), sh(&exp));
    }
    let i = exp.into_u16::<O>();
    if i != v {
        viol("Lumaa::into_u16", json!(h16(i)), json!(h16(v)));
    }
    let l = SrgbLuma::<u8>::from_u16::<O>(v);
    if l != exp.color {
        viol("Luma::from_u16", json!(l.luma), json!(exp.luma));
    }
    let li = exp.color.into_u16::<O>();
    if li != opaque {
        viol("Luma::into_u16", json!(h16(li)), json!(h16(opaque)));
    }
    let a1 = <O as ComponentOrder<SrgbLumaa<u8>, [u8; 2]>>::pack(exp);
    if a1 != by {
        viol("ComponentOrder<[u8;2]>::pack", json!(a1), json!(by));
    }
    let a2 = <O as ComponentOrder<SrgbLumaa<u8>, [u8; 2]>>::unpack(by);
    if a2 != exp {
        viol("ComponentOrder<[u8;2]>::unpack", sh(&a2), sh(&exp));
    }
}

/// From<u16>: 0xAALL for Luma, 0xLLAA for Lumaa — as documented
pub fn check_from_u16(c: &mut Collector, v: u16) {
    let by = v.to_be_bytes();
    let h16 = |x: u16| format!("0x{:04x}", x);
    let mut viol = |op: &str, observed: Value, expected: Value| {
        c.violation(&format!("C12/packed-luma/From<u16>/{}", op), 1.0, || json!({"sub": "from-u16", "input": h16(v), "op": op, "observed": observed, "expected": expected}));
    };
    let l = SrgbLuma::<u8>::from(v);
    if l.luma != by[1] {
        viol("Luma::from(u16)", json!(l.luma), json!(by[1]));
    }
    let b = u16::from(SrgbLuma::<u8>::new(by[1]));
    if b != (v | 0xff00) {
        viol("u16::from(Luma)", json!(h16(b)), json!(h16(v | 0xff00)));
    }
    let la = SrgbLumaa::<u8>::from(v);
    if (la.luma, la.alpha) != (by[0], by[1]) {
        viol("Lumaa::from(u16)", json!([la.luma, la.alpha]), json!(by));
    }
    let e = u16::from(SrgbLumaa::<u8>::new(by[0], by[1]));
    if e != v {
        viol("u16::from(Lumaa)", json!(h16(e)), json!(h16(v)));
    }
}

pub fn luma(ctx: &Ctx, total: &mut Collector) {
    for (name, f) in [("packed-luma/La", check_luma::<lch::La> as fn(&mut Collector, u16)), ("packed-luma/Al", check_luma::<lch::Al>), ("packed-luma/From<u16>", check_from_u16)] {
        if !ctx.wants(name) {
            continue;
        }
        let mut c = Collector::new();
        let mut nt = 0u64;
        for v in 0..=u16::MAX {
            if let Err(msg) = pv::catch(|| f(&mut c, v)) {
                c.violation(&format!("C12/{}/panic", name), 1.0, || json!({"sub": if name.ends_with("<u16>") { "from-u16" } else { "packed-luma" }, "order": &name[12..], "input": format!("0x{:04x}", v), "observed": {"panic": msg}, "expected": "no panic"}));
            }
            nt += (v >> 8 != v & 255) as u64;
            if v % 257 == 3 {
                let u = SrgbLumaa::<u8>::from(v);
                c.outcome(pv::fnv(&[u.luma, u.alpha, name.len() as u8]));
            }
        }
        let ops = if name.ends_with("<u16>") { 4 } else { 8 };
        c.add(name, 65536, ops * 65536, ops * 65536, nt);
        c.exhaustive(name, true, "all 2^16 packed u16 values: luma and alpha from their documented bytes, pack gives the value back, from_u16/into_u16 of Lumaa and Luma (alpha byte 0xFF), [u8;2] arrays, From conventions");
        c.sample(pv::splitmix(ctx.seed ^ name.len() as u64), || json!({"sub": name, "packed": "0x60ff", "Lumaa::from": {"luma": SrgbLumaa::<u8>::from(0x60ffu16).luma, "alpha": SrgbLumaa::<u8>::from(0x60ffu16).alpha}}));
        total.merge(c);
    }
}

// ---------------------------------------------------------------------------------------
// the public aliases name the order their documentation says (type identity + a byte-position probe)

pub fn aliases(ctx: &Ctx, total: &mut Collector) {
    use core::any::TypeId;
    use palette::luma::{PackedAluma, PackedLumaa};
    use palette::rgb::{PackedAbgr, PackedArgb, PackedBgra, PackedRgba};
    let sub = "packed-aliases";
    if !ctx.wants(sub) {
        return;
    }
    let h16 = |x: u16| format!("0x{:04x}", x);
    let mut c = Collector::new();
    let mut n = 0u64;
    // (alias name, alias type id, Packed<documented order> type id) for the default and one other storage type
    let ids: Vec<(&str, TypeId, TypeId)> = vec![
        ("rgb::PackedRgba<u32>", TypeId::of::<PackedRgba>(), TypeId::of::<Packed<palette::rgb::channels::Rgba, u32>>()),
        ("rgb::PackedArgb<u32>", TypeId::of::<PackedArgb>(), TypeId::of::<Packed<palette::rgb::channels::Argb, u32>>()),
        ("rgb::PackedBgra<u32>", TypeId::of::<PackedBgra>(), TypeId::of::<Packed<palette::rgb::channels::Bgra, u32>>()),
        ("rgb::PackedAbgr<u32>", TypeId::of::<PackedAbgr>(), TypeId::of::<Packed<palette::rgb::channels::Abgr, u32>>()),
        ("rgb::PackedRgba<[u8;4]>", TypeId::of::<PackedRgba<[u8; 4]>>(), TypeId::of::<Packed<palette::rgb::channels::Rgba, [u8; 4]>>()),
        ("rgb::PackedArgb<[u8;4]>", TypeId::of::<PackedArgb<[u8; 4]>>(), TypeId::of::<Packed<palette::rgb::channels::Argb, [u8; 4]>>()),
        ("rgb::PackedBgra<[u8;4]>", TypeId::of::<PackedBgra<[u8; 4]>>(), TypeId::of::<Packed<palette::rgb::channels::Bgra, [u8; 4]>>()),
        ("rgb::PackedAbgr<[u8;4]>", TypeId::of::<PackedAbgr<[u8; 4]>>(), TypeId::of::<Packed<palette::rgb::channels::Abgr, [u8; 4]>>()),
        ("luma::PackedLumaa<u16>", TypeId::of::<PackedLumaa>(), TypeId::of::<Packed<palette::luma::channels::La, u16>>()),
        ("luma::PackedAluma<u16>", TypeId::of::<PackedAluma>(), TypeId::of::<Packed<palette::luma::channels::Al, u16>>()),
        ("luma::PackedLumaa<[u8;2]>", TypeId::of::<PackedLumaa<[u8; 2]>>(), TypeId::of::<Packed<palette::luma::channels::La, [u8; 2]>>()),
        ("luma::PackedAluma<[u8;2]>", TypeId::of::<PackedAluma<[u8; 2]>>(), TypeId::of::<Packed<palette::luma::channels::Al, [u8; 2]>>()),
    ];
    for (name, a, b) in &ids {
        n += 1;
        if a != b {
            c.violation(&format!("C12/packed-aliases/{}/type", name), 1.0, || json!({"sub": "packed-aliases", "input": name, "observed": "alias is another type", "expected": "Packed<the order named by the alias, P>"}));
        }
    }
    // byte positions through the aliases, every channel distinct: 0xRRGGBBAA etc. as documented
    let col = Srgba::<u8>::new(0x11, 0x22, 0x33, 0x44);
    let probes: Vec<(&str, u32, u32)> = vec![
        ("rgb::PackedRgba", PackedRgba::pack(col).color, 0x1122_3344),
        ("rgb::PackedArgb", PackedArgb::pack(col).color, 0x4411_2233),
        ("rgb::PackedBgra", PackedBgra::pack(col).color, 0x3322_1144),
        ("rgb::PackedAbgr", PackedAbgr::pack(col).color, 0x4433_2211),
    ];
    for (name, got, want) in &probes {
        n += 2;
        if got != want {
            c.violation(&format!("C12/packed-aliases/{}/pack", name), 1.0, || json!({"sub": "packed-aliases", "input": "Srgba(0x11, 0x22, 0x33, 0x44)", "alias": name, "observed": h32(*got), "expected": h32(*want)}));
        }
    }
    let un: Vec<(&str, Srgba<u8>)> = vec![
        ("rgb::PackedRgba", PackedRgba::from(0x1122_3344u32).unpack()),
        ("rgb::PackedArgb", PackedArgb::from(0x4411_2233u32).unpack()),
        ("rgb::PackedBgra", PackedBgra::from(0x3322_1144u32).unpack()),
        ("rgb::PackedAbgr", PackedAbgr::from(0x4433_2211u32).unpack()),
    ];
    for (name, got) in &un {
        if *got != col {
            c.violation(&format!("C12/packed-aliases/{}/unpack", name), 1.0, || json!({"sub": "packed-aliases", "alias": name, "input": "the documented layout of Srgba(0x11, 0x22, 0x33, 0x44)", "observed": show4(got), "expected": show4(&col)}));
        }
    }
    let la = SrgbLumaa::<u8>::new(0x60, 0xc3);
    let lp: Vec<(&str, u16, u16)> = vec![("luma::PackedLumaa", PackedLumaa::pack(la).color, 0x60c3), ("luma::PackedAluma", PackedAluma::pack(la).color, 0xc360)];
    for (name, got, want) in &lp {
        n += 2;
        if got != want {
            c.violation(&format!("C12/packed-aliases/{}/pack", name), 1.0, || json!({"sub": "packed-aliases", "input": "SrgbLumaa(0x60, 0xc3)", "alias": name, "observed": h16(*got), "expected": h16(*want)}));
        }
    }
    let lu: Vec<(&str, SrgbLumaa<u8>)> = vec![("luma::PackedLumaa", PackedLumaa::from(0x60c3u16).unpack()), ("luma::PackedAluma", PackedAluma::from(0xc360u16).unpack())];
    for (name, got) in &lu {
        if *got != la {
            c.violation(&format!("C12/packed-aliases/{}/unpack", name), 1.0, || json!({"sub": "packed-aliases", "alias": name, "input": "the documented layout of SrgbLumaa(0x60, 0xc3)", "observed": [got.luma, got.alpha], "expected": [la.luma, la.alpha]}));
        }
    }
    c.add(sub, ids.len() as u64 + 6, n, n, ids.len() as u64 + 6);
    c.outcome(pv::fnv(&probes.iter().flat_map(|p| p.1.to_be_bytes()).collect::<Vec<u8>>()));
    total.merge(c);
    total.exhaustive(sub, true, "the six public aliases (rgb::PackedRgba/Argb/Bgra/Abgr, luma::PackedLumaa/Aluma) x 2 storage types: type identity with Packed<the named order, P>, and pack/unpack of an all-distinct colour against the documented byte layout (the orders themselves are covered exhaustively by packed/* and packed-luma/*)");
}
