//! Runtime description of palette's colour types for the graph checks (C01, C03, C07, C17):
//! which reference map takes a node's components to XYZ (relative to the group's white
//! point), its nominal range, and a lattice of in-range values closed under the case splits
//! of the conversion code (DESIGN.md §3.2).
use crate::refmodel::cie::{self, Wp};
use crate::refmodel::rgb::RgbSpec;
use crate::refmodel::{hexcone, hsluv, invert, mat_vec, ok, M3, V3};

#[derive(Clone, Copy, Debug, PartialEq)]
pub enum Kind {
    Xyz(Wp),
    Yxy(Wp),
    Lab(Wp),
    Lch(Wp),
    Luv(Wp),
    Lchuv(Wp),
    Hsluv(Wp),
    LmsVonKries(Wp),
    LmsBradford(Wp),
    Oklab,
    Oklch,
    Okhsl,
    Okhsv,
    Okhwb,
    Rgb(RgbSpec),
    Hsl(RgbSpec),
    Hsv(RgbSpec),
    Hwb(RgbSpec),
    /// single channel: luminance encoded with the spec's transfer function
    Luma(RgbSpec),
}

/// Hunt-Pointer-Estevez (von Kries) and Bradford cone response matrices (XYZ -> LMS).
pub const VON_KRIES: M3 = [[0.40024, 0.70760, -0.08081], [-0.22630, 1.16532, 0.04570], [0.0, 0.0, 0.91822]];
pub const BRADFORD: M3 = [[0.8951, 0.2664, -0.1614], [-0.7502, 1.7135, 0.0367], [0.0389, -0.0685, 1.0296]];

impl Kind {
    pub fn is_luma(&self) -> bool {
        matches!(self, Kind::Luma(_))
    }
    pub fn has_hue(&self) -> Option<usize> {
        match self {
            Kind::Lch(_) | Kind::Lchuv(_) | Kind::Oklch => Some(2),
            Kind::Hsluv(_) | Kind::Okhsl | Kind::Okhsv | Kind::Okhwb | Kind::Hsl(_) | Kind::Hsv(_) | Kind::Hwb(_) => Some(0),
            _ => None,
        }
    }
    /// components -> XYZ relative to the group's white point (Y of white = 1)
    pub fn to_xyz(&self, v: V3) -> V3 {
        match *self {
            Kind::Xyz(_) => v,
            Kind::Yxy(_) => cie::yxy_to_xyz(v),
            Kind::Lab(w) => cie::lab_to_xyz(v, w),
            Kind::Lch(w) => cie::lab_to_xyz(cie::from_polar(v), w),
            Kind::Luv(w) => cie::luv_to_xyz(v, w),
            Kind::Lchuv(w) => cie::luv_to_xyz(cie::from_polar(v), w),
            Kind::Hsluv(w) => cie::luv_to_xyz(cie::from_polar(hsluv::hsluv_to_lch(v)), w),
            Kind::LmsVonKries(_) => mat_vec(&invert(&VON_KRIES), v),
            Kind::LmsBradford(_) => mat_vec(&invert(&BRADFORD), v),
            Kind::Oklab => ok::oklab_to_xyz(v),
            Kind::Oklch => ok::oklab_to_xyz(cie::from_polar(v)),
            Kind::Okhsl => ok::oklab_to_xyz(ok::okhsl_to_oklab(v)),
            Kind::Okhsv => ok::oklab_to_xyz(ok::okhsv_to_oklab(v)),
            Kind::Okhwb => ok::oklab_to_xyz(ok::okhsv_to_oklab(ok::okhwb_to_okhsv(v))),
            Kind::Rgb(s) => s.to_xyz(v),
            Kind::Hsl(s) => s.to_xyz(hexcone::hsl_to_rgb(v)),
            Kind::Hsv(s) => s.to_xyz(hexcone::hsv_to_rgb(v)),
            Kind::Hwb(s) => s.to_xyz(hexcone::hwb_to_rgb(v)),
            Kind::Luma(s) => {
                let y = s.tf.decode(v[0]);
                let w = s.wp.xyz();
                [w[0] * y, w[1] * y, w[2] * y]
            }
        }
    }
    /// XYZ -> components (reference image; hue in degrees as atan2 gives it)
    pub fn from_xyz(&self, xyz: V3) -> V3 {
        match *self {
            Kind::Xyz(_) => xyz,
            Kind::Yxy(w) => cie::xyz_to_yxy(xyz, w),
            Kind::Lab(w) => cie::xyz_to_lab(xyz, w),
            Kind::Lch(w) => cie::to_polar(cie::xyz_to_lab(xyz, w)),
            Kind::Luv(w) => cie::xyz_to_luv(xyz, w),
            Kind::Lchuv(w) => cie::to_polar(cie::xyz_to_luv(xyz, w)),
            Kind::Hsluv(w) => hsluv::lch_to_hsluv(cie::to_polar(cie::xyz_to_luv(xyz, w))),
            Kind::LmsVonKries(_) => mat_vec(&VON_KRIES, xyz),
            Kind::LmsBradford(_) => mat_vec(&BRADFORD, xyz),
            Kind::Oklab => ok::xyz_to_oklab(xyz),
            Kind::Oklch => cie::to_polar(ok::xyz_to_oklab(xyz)),
            Kind::Okhsl => ok::oklab_to_okhsl(ok::xyz_to_oklab(xyz)),
            Kind::Okhsv => ok::oklab_to_okhsv(ok::xyz_to_oklab(xyz)),
            Kind::Okhwb => ok::okhsv_to_okhwb(ok::oklab_to_okhsv(ok::xyz_to_oklab(xyz))),
            Kind::Rgb(s) => s.from_xyz(xyz),
            Kind::Hsl(s) => hexcone::rgb_to_hsl(s.from_xyz(xyz)),
            Kind::Hsv(s) => hexcone::rgb_to_hsv(s.from_xyz(xyz)),
            Kind::Hwb(s) => hexcone::rgb_to_hwb(s.from_xyz(xyz)),
            Kind::Luma(s) => [s.tf.encode(xyz[1]), 0.0, 0.0],
        }
    }
    /// The RGB gamut that bounds this type, if it is gamut-bounded.
    pub fn gamut(&self) -> Option<RgbSpec> {
        match *self {
            Kind::Rgb(s) | Kind::Hsl(s) | Kind::Hsv(s) | Kind::Hwb(s) => Some(s),
            Kind::Okhsl | Kind::Okhsv | Kind::Okhwb | Kind::Hsluv(_) => Some(crate::refmodel::rgb::SRGB),
            _ => None,
        }
    }
    /// Can this type represent the colour `xyz` (C01: "any other space that can represent it")?
    /// Unbounded spaces always can; gamut-bounded ones when the colour is inside their RGB gamut
    /// (closed, with `margin` to absorb rounding of boundary colours); luma only on the grey axis.
    pub fn can_represent(&self, xyz: V3, margin: f64) -> bool {
        if !xyz.iter().all(|x| x.is_finite()) {
            return false;
        }
        // xyY and the CIELUV family carry chromaticity *relative to luminance*: a stimulus whose
        // luminance is (next to) nothing compared with X + Y + Z (chromaticity y < 0.01; the
        // spectral locus stays above y = 0.0048 and every RGB primary above 0.04) is not a physical colour and is erased or
        // ill-conditioned there (y -> 0 resp. v' -> 0 is a division by ~0).
        if matches!(self, Kind::Yxy(_) | Kind::Luv(_) | Kind::Lchuv(_) | Kind::Hsluv(_)) {
            let s = xyz[0] + xyz[1] + xyz[2];
            if s != 0.0 && !(xyz[1] / s >= 1e-2) {
                return false;
            }
        }
        match *self {
            Kind::Luma(s) => {
                let w = s.wp.xyz();
                let y = xyz[1];
                (xyz[0] - w[0] * y).abs() <= margin && (xyz[2] - w[2] * y).abs() <= margin && (-margin..=1.0 + margin).contains(&y)
            }
            _ => match self.gamut() {
                None => true,
                Some(s) => {
                    // XYZ of this group is relative to the group's white point; Ok*/Hsluv nodes only occur in D65 groups
                    // the gamut is a cone at black: the lower margin is relative to the colour's size
                    let lin = mat_vec(&s.xyz_to_rgb(), xyz);
                    let size = lin.iter().fold(0.0f64, |m, c| m.max(c.abs()));
                    lin.iter().all(|&c| c >= -margin * size && c <= 1.0 + margin)
                }
            },
        }
    }
    /// In-range lattice of this type's own coordinates (nominal range per the accessors, or
    /// the sRGB envelope for the unbounded Oklab a/b and chroma), n ≈ `size` controls density.
    pub fn lattice(&self, dense: bool) -> Vec<V3> {
        let unit: Vec<f64> = if dense {
            vec![0.0, 1e-9, 0.001953125, 0.0031308, 0.018053968510807, 0.04045, 0.08, 0.2, 0.25, 0.4, 0.5, 0.6, 0.75, 0.9, 1.0 - 1e-9, 1.0]
        } else {
            vec![0.0, 1e-9, 0.0031308, 0.04045, 0.2, 0.5, 0.8, 1.0 - 1e-9, 1.0]
        };
        let hues: Vec<f64> = if dense {
            let mut h: Vec<f64> = (0..36).map(|k| k as f64 * 10.0).collect();
            h.extend([29.999999, 60.000001, 119.999, 180.0 - 1e-9, 240.0 + 1e-9, 359.999999, 45.0, 135.0, 225.0, 315.0, 264.05]);
            // hues are angles: values outside one turn are legal and name the same colours
            h.extend([-120.0, -30.0, -330.0, 360.0, 390.0, 480.0, 765.0, -400.0]);
            // a hair below a whole turn: the unsigned normal form rounds to exactly 360 (f32: -1e-6, f64: -1e-15)
            h.extend([-1e-6, -1e-15, 719.9999999999999]);
            h
        } else {
            vec![0.0, 30.0, 60.0, 60.000001, 90.0, 120.0, 150.0, 180.0, 210.0, 240.0, 270.0, 300.0, 330.0, 359.999999, 45.0, 264.05, -120.0, -30.0, 390.0, 480.0, 360.0, -1e-6, -1e-15]
        };
        let prod = |a: &[f64], b: &[f64], c: &[f64]| -> Vec<V3> {
            let mut v = Vec::with_capacity(a.len() * b.len() * c.len());
            for &x in a {
                for &y in b {
                    for &z in c {
                        v.push([x, y, z]);
                    }
                }
            }
            v
        };
        let scale = |u: &[f64], lo: f64, hi: f64| -> Vec<f64> { u.iter().map(|x| lo + (hi - lo) * x).collect() };
        let sym: Vec<f64> = if dense { vec![0.0, 0.02, 0.1, 0.25, 0.4, 0.5, 0.6, 0.75, 0.9, 1.0] } else { vec![0.0, 0.1, 0.4, 0.5, 0.6, 0.9, 1.0] };
        match *self {
            Kind::Xyz(w) => {
                let wx = w.xyz();
                prod(&scale(&unit, 0.0, wx[0]), &scale(&unit, 0.0, wx[1]), &scale(&unit, 0.0, wx[2]))
            }
            Kind::Yxy(_) => {
                let xs: Vec<f64> = if dense { vec![0.0, 0.05, 0.15, 0.3127, 1.0 / 3.0, 0.45, 0.64, 0.735, 1.0] } else { vec![0.0, 0.15, 0.3127, 0.45, 0.64, 1.0] };
                // y = 0 with Y > 0 would need an infinite stimulus: not a colour
                prod(&xs, &xs, &unit).into_iter().filter(|v| v[0] + v[1] <= 1.0 && (v[1] > 0.0 || v[2] == 0.0)).collect()
            }
            Kind::Lab(_) => {
                // the L* toe ends at 8 (= kappa·eps)
                let mut ls = scale(&sym, 0.0, 100.0);
                ls.extend([1e-7, 7.9999, 8.0, 8.0001, 99.9999999]);
                prod(&ls, &scale(&sym, -128.0, 127.0), &scale(&sym, -128.0, 127.0))
            }
            Kind::Luv(_) => {
                let mut ls = scale(&sym, 0.0, 100.0);
                ls.extend([1e-7, 7.9999, 8.0, 8.0001, 99.9999999]);
                prod(&ls, &scale(&sym, -84.0, 176.0), &scale(&sym, -135.0, 108.0))
            }
            Kind::Lch(_) => {
                let mut ls = scale(&sym, 0.0, 100.0);
                ls.extend([1e-7, 8.0, 8.0001]);
                prod(&ls, &[0.0, 1e-7, 1.0, 30.0, 64.0, 100.0, 128.0], &hues)
            }
            Kind::Lchuv(_) => {
                let mut ls = scale(&sym, 0.0, 100.0);
                ls.extend([1e-7, 8.0, 8.0001]);
                prod(&ls, &[0.0, 1e-7, 1.0, 30.0, 90.0, 140.0, 180.0], &hues)
            }
            Kind::Hsluv(_) => prod(&hues, &scale(&sym, 0.0, 100.0), &[0.0, 1e-7, 5.0, 8.0, 25.0, 50.0, 75.0, 99.0, 99.99999, 100.0]),
            Kind::LmsVonKries(_) | Kind::LmsBradford(_) => prod(&unit, &unit, &unit),
            Kind::Oklab => prod(&unit, &scale(&sym, -0.4, 0.4), &scale(&sym, -0.4, 0.4)),
            Kind::Oklch => prod(&unit, &[0.0, 1e-9, 0.01, 0.1, 0.2, 0.3, 0.4], &hues),
            Kind::Okhsl | Kind::Okhsv => prod(&hues, &[0.0, 1e-9, 0.2, 0.5, 0.79, 0.8, 0.81, 0.95, 1.0 - 1e-9, 1.0], &[0.0, 1e-9, 0.05, 0.3, 0.5, 0.7, 0.95, 1.0 - 1e-9, 1.0]),
            Kind::Okhwb | Kind::Hwb(_) => prod(&hues, &unit, &unit).into_iter().filter(|v| v[1] + v[2] <= 1.0).collect(),
            Kind::Rgb(_) => prod(&unit, &unit, &unit),
            Kind::Hsl(_) | Kind::Hsv(_) => prod(&hues, &unit, &unit),
            Kind::Luma(_) => unit.iter().map(|&l| [l, 0.0, 0.0]).collect(),
        }
    }
}

/// Is `xyz` a (possibly very saturated) real stimulus: finite, non-negative tristimulus values
/// not far above the white point? Lattice points of unbounded coordinate spaces (CIELAB a*/b*,
/// CIELUV u*/v* at low L*, Oklab a/b) that map to negative or astronomically large XYZ are not
/// "colours of the source gamut" and are skipped as sources.
pub fn plausible(xyz: V3) -> bool {
    xyz.iter().all(|x| x.is_finite() && *x >= -1e-9 && *x <= 4.0)
}

/// sRGB grid (n levels per channel incl. 0 and 1) as XYZ relative to D65 — the "colours of
/// the source gamut" that every D65 node can represent.
pub fn srgb_grid_xyz(n: usize, spec: &RgbSpec) -> Vec<V3> {
    let m = spec.rgb_to_xyz();
    let mut out = Vec::with_capacity(n * n * n);
    for r in 0..n {
        for g in 0..n {
            for b in 0..n {
                let enc = [r as f64 / (n - 1) as f64, g as f64 / (n - 1) as f64, b as f64 / (n - 1) as f64];
                out.push(mat_vec(&m, spec.decode(enc)));
            }
        }
    }
    out
}

// ---------------------------------------------------------------------------------------
// classification helpers shared by the graph checks (input classes of known defects)

impl Kind {
    pub fn is_ok_cyl(&self) -> bool {
        matches!(self, Kind::Okhsl | Kind::Okhsv | Kind::Okhwb)
    }
    pub fn is_ok_family(&self) -> bool {
        matches!(self, Kind::Oklab | Kind::Oklch | Kind::Okhsl | Kind::Okhsv | Kind::Okhwb)
    }
    /// types whose RGB space is `Srgb` (sRGB primaries, D65): palette converts these to and from
    /// Oklab with Ottosson's direct linear-sRGB matrices instead of going through XYZ
    pub fn is_srgb_space(&self) -> bool {
        match self {
            Kind::Rgb(s) | Kind::Hsl(s) | Kind::Hsv(s) | Kind::Hwb(s) => s.prim == crate::refmodel::rgb::SRGB.prim && s.wp == Wp::D65,
            _ => false,
        }
    }
    /// Like `to_xyz`, but Ok-family values are taken to XYZ through Ottosson's *direct*
    /// Oklab -> linear sRGB matrices and the sRGB matrix (the other published definition).
    pub fn to_xyz_alt(&self, v: V3) -> V3 {
        let lab = match *self {
            Kind::Oklab => v,
            Kind::Oklch => cie::from_polar(v),
            Kind::Okhsl => ok::okhsl_to_oklab(v),
            Kind::Okhsv => ok::okhsv_to_oklab(v),
            Kind::Okhwb => ok::okhsv_to_oklab(ok::okhwb_to_okhsv(v)),
            _ => return self.to_xyz(v),
        };
        mat_vec(&crate::refmodel::rgb::SRGB.rgb_to_xyz(), ok::oklab_to_linear_srgb(lab))
    }
}

/// Oklab hue (degrees, [0,360)), chroma and lightness of an XYZ(D65) colour
pub fn oklab_hcl(xyz: V3) -> (f64, f64, f64) {
    let lab = ok::xyz_to_oklab(xyz);
    (lab[2].atan2(lab[1]).to_degrees().rem_euclid(360.0), (lab[1] * lab[1] + lab[2] * lab[2]).sqrt(), lab[0])
}
/// Hue of the sRGB blue primary in Oklab: the max-saturation approximation of Okhsl/Okhsv is
/// discontinuous there.
pub const OK_BLUE_CUSP_HUE: f64 = 264.0520206;
pub fn on_ok_blue_cusp(xyz: V3) -> bool {
    let (h, c, _) = oklab_hcl(xyz);
    c > 1e-6 && (h - OK_BLUE_CUSP_HUE).abs() < 0.01
}
