//! (4b) SIMD masks: `palette::bool_mask::{BoolMask, Select, LazySelect, BitOps}` and
//! `palette::num::{PartialCmp, IsValidDivisor}` on the vector types act lane by lane exactly like
//! the scalar operations (`bool`, `f32`/`f64`), for ALL 2^N lane patterns.
use crate::vect::{Vect, MAXN};
use palette::bool_mask::{BitOps, BoolMask, HasBoolMask, LazySelect, Select};
use palette::num::{IsValidDivisor, PartialCmp};
use pv::fl::Fl;
use pv::{json, Collector, Ctx, Value};

pub trait MaskVect: Vect + HasBoolMask<Mask = Self> + BoolMask + Select<Self> + LazySelect<Self> + BitOps + PartialCmp + IsValidDivisor
where
    Self::S: PartialCmp + HasBoolMask<Mask = bool> + IsValidDivisor,
{
}
impl MaskVect for wide::f32x4 {}
impl MaskVect for wide::f32x8 {}
impl MaskVect for wide::f64x2 {}
impl MaskVect for wide::f64x4 {}

fn ones<S: Fl>() -> S {
    S::from_bits64(u64::MAX)
}
/// the canonical mask lane for a bool: all bits set / all bits clear
fn lane_of<S: Fl>(b: bool) -> u64 {
    if b {
        ones::<S>().bits64()
    } else {
        0
    }
}
fn mask_from_pattern<V: Vect>(p: u32) -> V {
    let mut l = [<V::S as Fl>::from64(0.0); MAXN];
    for i in 0..V::N {
        if p >> i & 1 == 1 {
            l[i] = ones::<V::S>();
        }
    }
    V::from_lanes(&l[..V::N])
}
fn lane_bits<V: Vect>(v: V) -> [u64; MAXN] {
    let l = v.lanes();
    core::array::from_fn(|i| l[i].bits64())
}
fn hexv(l: &[u64]) -> Vec<String> {
    l.iter().map(|x| format!("{x:#x}")).collect()
}

pub const CMP_NAMES: [&str; 6] = ["lt", "lt_eq", "eq", "neq", "gt_eq", "gt"];
fn cmp_v<V: MaskVect>(op: usize, a: &V, b: &V) -> V
where
    V::S: PartialCmp + HasBoolMask<Mask = bool> + IsValidDivisor,
{
    match op {
        0 => a.lt(b),
        1 => a.lt_eq(b),
        2 => a.eq(b),
        3 => a.neq(b),
        4 => a.gt_eq(b),
        _ => a.gt(b),
    }
}
fn cmp_s<S: PartialCmp + HasBoolMask<Mask = bool>>(op: usize, a: &S, b: &S) -> bool {
    match op {
        0 => a.lt(b),
        1 => a.lt_eq(b),
        2 => a.eq(b),
        3 => a.neq(b),
        4 => a.gt_eq(b),
        _ => a.gt(b),
    }
}

/// operand values: both sides of / exactly at a threshold, zeros of both signs, infinities, NaN
fn operands<S: Fl>(full: bool) -> Vec<S> {
    let t = S::from64(0.04045);
    let mut v = vec![S::from64(-1.0), S::from64(-0.0), S::from64(0.0), t.down(), t, t.up(), S::from64(1.0), S::from64(f64::INFINITY), S::from64(f64::NAN)];
    if full {
        v.extend([S::from64(f64::NEG_INFINITY), S::from_bits64(1), S::from64(-0.04045), S::from64(1.0).up()]);
    }
    v
}

fn case_cmp<V: MaskVect>(op: usize, pat: u32, p: [V::S; 2], q: [V::S; 2]) -> Value
where
    V::S: PartialCmp + HasBoolMask<Mask = bool> + IsValidDivisor,
{
    json!({"sub": "mask-ops", "vec": V::NAME, "kind": "cmp", "op": CMP_NAMES[op], "pattern": pat, "p": [format!("{:#x}", p[0].bits64()), format!("{:#x}", p[1].bits64())], "q": [format!("{:#x}", q[0].bits64()), format!("{:#x}", q[1].bits64())],
           "input": {"lanes_with_bit_set": [pv::report::fnum(p[0].to64()), pv::report::fnum(p[1].to64())], "other_lanes": [pv::report::fnum(q[0].to64()), pv::report::fnum(q[1].to64())]}})
}

/// one comparison on one lane pattern: lanes with their bit set compare p.0 ? p.1, the others q.0 ? q.1
pub fn check_cmp_case<V: MaskVect>(op: usize, pat: u32, p: [V::S; 2], q: [V::S; 2], c: &mut Collector) -> u64
where
    V::S: PartialCmp + HasBoolMask<Mask = bool> + IsValidDivisor,
{
    let mut la = [p[0]; MAXN];
    let mut lb = [p[1]; MAXN];
    for i in 0..V::N {
        if pat >> i & 1 == 0 {
            la[i] = q[0];
            lb[i] = q[1];
        }
    }
    let (a, b) = (V::from_lanes(&la[..V::N]), V::from_lanes(&lb[..V::N]));
    let m = lane_bits(cmp_v::<V>(op, &a, &b));
    let mut h = 0u64;
    for i in 0..V::N {
        let exp = lane_of::<V::S>(cmp_s(op, &la[i], &lb[i]));
        h = pv::splitmix(h ^ m[i]);
        if m[i] != exp {
            let cls = if la[i] != la[i] || lb[i] != lb[i] { "nan-operand" } else if la[i] == lb[i] { "equal-operands" } else { "ordered-operands" };
            c.violation(&format!("C17/mask-ops/{}/PartialCmp::{}/{}", V::NAME, CMP_NAMES[op], cls), 1.0, || {
                let mut j = case_cmp::<V>(op, pat, p, q);
                j["observed"] = json!({"lane": i, "mask_lane": format!("{:#x}", m[i]), "all_lanes": hexv(&m[..V::N])});
                j["expected"] = json!({"mask_lane": format!("{exp:#x}"), "scalar": cmp_s(op, &la[i], &lb[i])});
                j
            });
        }
    }
    c.outcome(h);
    V::N as u64
}

/// select / lazy_select / BitOps / BoolMask on one pair of lane patterns
pub fn check_pattern_case<V: MaskVect>(p: u32, q: u32, c: &mut Collector) -> u64
where
    V::S: PartialCmp + HasBoolMask<Mask = bool> + IsValidDivisor,
{
    let n = V::N;
    let all = (1u32 << n) - 1;
    let (mp, mq) = (mask_from_pattern::<V>(p), mask_from_pattern::<V>(q));
    let mk = |op: &str, obs: Value, exp: Value| json!({"sub": "mask-ops", "vec": V::NAME, "kind": "pattern", "op": op, "p": p, "q": q, "input": {"p": format!("{p:#b}"), "q": format!("{q:#b}")}, "observed": obs, "expected": exp});
    let mut ops = 0u64;
    let mut h = 0u64;
    // bit operations, by value and by reference, against bool per lane
    let results: [(&str, V, fn(bool, bool) -> bool); 7] = [
        ("BitAnd", mp & mq, |a, b| a & b),
        ("BitAnd<&>", mp & &mq, |a, b| a & b),
        ("BitOr", mp | mq, |a, b| a | b),
        ("BitOr<&>", mp | &mq, |a, b| a | b),
        ("BitXor", mp ^ mq, |a, b| a ^ b),
        ("BitXor<&>", mp ^ &mq, |a, b| a ^ b),
        ("Not", !mp, |a, _| !a),
    ];
    for (name, r, f) in results {
        ops += 1;
        let l = lane_bits(r);
        for i in 0..n {
            let exp = lane_of::<V::S>(f(p >> i & 1 == 1, q >> i & 1 == 1));
            h = pv::splitmix(h ^ l[i]);
            if l[i] != exp {
                c.violation(&format!("C17/mask-ops/{}/BitOps::{}", V::NAME, name), 1.0, || mk(name, json!({"lane": i, "bits": format!("{:#x}", l[i]), "all_lanes": hexv(&l[..n])}), json!({"bits": format!("{exp:#x}")})));
            }
        }
    }
    if q == 0 {
        // BoolMask reductions (only depend on p)
        ops += 2;
        let (t, f) = (mp.is_true(), mp.is_false());
        if t != (p == all) {
            c.violation(&format!("C17/mask-ops/{}/BoolMask::is_true", V::NAME), 1.0, || mk("is_true", json!(t), json!(p == all)));
        }
        if f != (p == 0) {
            c.violation(&format!("C17/mask-ops/{}/BoolMask::is_false", V::NAME), 1.0, || mk("is_false", json!(f), json!(p == 0)));
        }
    }
    // select / lazy_select with mask p: operand sets chosen by q's low bits (distinct sentinels, or
    // signed zeros / NaN / inf which a blend must move untouched)
    let nan = <V::S as Fl>::from64(f64::NAN);
    let sets: [([V::S; MAXN], [V::S; MAXN]); 2] = [
        (core::array::from_fn(|i| <V::S as Fl>::from64(1.0 + i as f64)), core::array::from_fn(|i| <V::S as Fl>::from64(-101.0 - i as f64))),
        (core::array::from_fn(|i| if i % 2 == 0 { <V::S as Fl>::from64(-0.0) } else { nan }), core::array::from_fn(|i| if i % 2 == 0 { <V::S as Fl>::from64(f64::INFINITY) } else { <V::S as Fl>::from64(0.0) })),
    ];
    if q < 2 {
        let (la, lb) = sets[q as usize];
        let (a, b) = (V::from_lanes(&la[..n]), V::from_lanes(&lb[..n]));
        let sel = lane_bits(mp.select(a, b));
        let lazy = lane_bits(mp.lazy_select(|| a, || b));
        ops += 2;
        for i in 0..n {
            let bit = p >> i & 1 == 1;
            // the scalar operation: bool::select
            let exp = Select::<V::S>::select(bit, la[i], lb[i]).bits64();
            let exp_lazy = LazySelect::<V::S>::lazy_select(bit, || la[i], || lb[i]).bits64();
            h = pv::splitmix(h ^ sel[i]);
            if sel[i] != exp {
                c.violation(&format!("C17/mask-ops/{}/Select::select", V::NAME), 1.0, || mk("select", json!({"lane": i, "bits": format!("{:#x}", sel[i]), "all_lanes": hexv(&sel[..n])}), json!({"bits": format!("{exp:#x}"), "mask_lane_true": bit})));
            }
            if lazy[i] != exp_lazy {
                c.violation(&format!("C17/mask-ops/{}/LazySelect::lazy_select", V::NAME), 1.0, || mk("lazy_select", json!({"lane": i, "bits": format!("{:#x}", lazy[i]), "all_lanes": hexv(&lazy[..n])}), json!({"bits": format!("{exp_lazy:#x}"), "mask_lane_true": bit})));
            }
        }
    }
    if p == 0 && q < 2 {
        // from_bool
        let b = q == 1;
        let l = lane_bits(<V as BoolMask>::from_bool(b));
        ops += 1;
        for i in 0..n {
            if l[i] != lane_of::<V::S>(b) {
                c.violation(&format!("C17/mask-ops/{}/BoolMask::from_bool", V::NAME), 1.0, || mk("from_bool", json!({"lane": i, "bits": format!("{:#x}", l[i])}), json!({"bits": format!("{:#x}", lane_of::<V::S>(b))})));
            }
        }
    }
    c.outcome(h);
    ops
}

/// is_valid_divisor on normal / zero operands (scalar floats use is_normal(), the vectors != 0:
/// they are only required to agree where both definitions do — subnormal, infinite and NaN
/// divisors are outside this check)
pub fn check_divisor_case<V: MaskVect>(pat: u32, x: V::S, y: V::S, c: &mut Collector) -> u64
where
    V::S: PartialCmp + HasBoolMask<Mask = bool> + IsValidDivisor,
{
    let mut l = [x; MAXN];
    for i in 0..V::N {
        if pat >> i & 1 == 0 {
            l[i] = y;
        }
    }
    let m = lane_bits(V::from_lanes(&l[..V::N]).is_valid_divisor());
    for i in 0..V::N {
        let exp = lane_of::<V::S>(l[i].is_valid_divisor());
        if m[i] != exp {
            c.violation(&format!("C17/mask-ops/{}/IsValidDivisor", V::NAME), 1.0, || json!({"sub": "mask-ops", "vec": V::NAME, "kind": "divisor", "pattern": pat, "p": [format!("{:#x}", x.bits64()), format!("{:#x}", y.bits64())], "input": [x.to64(), y.to64()], "observed": {"lane": i, "bits": format!("{:#x}", m[i])}, "expected": {"bits": format!("{exp:#x}")}}));
        }
    }
    c.outcome(pv::splitmix(m[0] ^ pat as u64));
    V::N as u64
}

pub fn run_mask<V: MaskVect>(ctx: &Ctx, total: &mut Collector)
where
    V::S: PartialCmp + HasBoolMask<Mask = bool> + IsValidDivisor,
{
    let sub = format!("mask-ops/{}", V::NAME);
    if !ctx.wants(&sub) {
        return;
    }
    let full = ctx.tier == pv::Tier::Thorough;
    let npat = 1u32 << V::N;
    // (a) all pairs of lane patterns: bit ops, select, lazy_select, reductions, from_bool
    let c1 = pv::par::run_chunks(npat as usize, |p, c| {
        let mut ops = 0;
        for q in 0..npat {
            ops += check_pattern_case::<V>(p as u32, q, c);
        }
        c.add(&sub, npat as u64, ops, ops * V::N as u64, npat as u64 - 1);
        c.sample(pv::splitmix(p as u64 | 3 << 60), || json!({"sub": sub, "mask_pattern": format!("{p:#b}"), "against": "all patterns"}));
    });
    total.merge(c1);
    // (b) comparisons: every ordered pair of operand pairs x every lane pattern x 6 comparisons
    let ov = operands::<V::S>(full);
    let pairs: Vec<[V::S; 2]> = ov.iter().flat_map(|a| ov.iter().map(move |b| [*a, *b])).collect();
    let pairs_r = &pairs;
    let c2 = pv::par::run_chunks(pairs.len(), |pi, c| {
        let p = pairs_r[pi];
        let (mut states, mut ops, mut traces) = (0u64, 0u64, 0u64);
        for (qi, q) in pairs_r.iter().enumerate() {
            // pattern 0 (all lanes = q) and the full pattern (all lanes = p) are visited once per pair
            for pat in 0..npat {
                if qi == pi && pat != 0 {
                    continue;
                }
                states += 1;
                for op in 0..6 {
                    traces += check_cmp_case::<V>(op, pat, p, *q, c);
                    ops += 1;
                }
            }
        }
        c.add(&sub, states, ops, traces, states);
    });
    total.merge(c2);
    // (c) is_valid_divisor
    let dv: Vec<V::S> = [-1.0, -0.0, 0.0, 0.04045, 1.0, 1e-30, -1e-30].iter().map(|x| <V::S as Fl>::from64(*x)).collect();
    let mut c3 = Collector::new();
    let mut n3 = 0u64;
    for x in &dv {
        for y in &dv {
            for pat in 0..npat {
                n3 += check_divisor_case::<V>(pat, *x, *y, &mut c3);
            }
        }
    }
    c3.add(&sub, (dv.len() * dv.len()) as u64 * npat as u64, n3 / V::N as u64, n3, n3 / V::N as u64);
    total.merge(c3);
    total.exhaustive(
        &sub,
        true,
        &format!(
            "{}: all {}x{} pairs of lane patterns for BitAnd/BitOr/BitXor (by value and by reference)/Not; all {} patterns for is_true/is_false, select and lazy_select (2 operand sets incl. -0/NaN/inf), from_bool(true/false); PartialCmp lt/lt_eq/eq/neq/gt_eq/gt for every ordered pair of operand pairs from {} values (threshold 0.04045 with both ulp neighbours, ±0, ±1, inf, NaN{}) x all {} lane patterns; is_valid_divisor over 7x7 normal/zero operands x all patterns",
            V::NAME, npat, npat, npat, ov.len(), if full { ", -inf, min subnormal, -t, 1+ulp" } else { "" }, npat
        ),
    );
}

pub fn replay_mask<V: MaskVect>(case: &Value, c: &mut Collector)
where
    V::S: PartialCmp + HasBoolMask<Mask = bool> + IsValidDivisor,
{
    let hx = |v: &Value| -> V::S { <V::S as Fl>::from_bits64(u64::from_str_radix(v.as_str().unwrap_or("0").trim_start_matches("0x"), 16).unwrap_or(0)) };
    match case["kind"].as_str().unwrap_or("") {
        "cmp" => {
            let op = CMP_NAMES.iter().position(|n| Some(*n) == case["op"].as_str()).expect("op");
            let pat = case["pattern"].as_u64().unwrap_or(0) as u32;
            let p = [hx(&case["p"][0]), hx(&case["p"][1])];
            let q = [hx(&case["q"][0]), hx(&case["q"][1])];
            println!("{}::{} pattern {:#b}: set lanes {:?} ? {:?}, other lanes {:?} ? {:?}", V::NAME, CMP_NAMES[op], pat, p[0], p[1], q[0], q[1]);
            check_cmp_case::<V>(op, pat, p, q, c);
        }
        "divisor" => {
            let pat = case["pattern"].as_u64().unwrap_or(0) as u32;
            check_divisor_case::<V>(pat, hx(&case["p"][0]), hx(&case["p"][1]), c);
        }
        _ => {
            let (p, q) = (case["p"].as_u64().unwrap_or(0) as u32, case["q"].as_u64().unwrap_or(0) as u32);
            println!("{} mask patterns p = {:#b}, q = {:#b}", V::NAME, p, q);
            check_pattern_case::<V>(p, q, c);
        }
    }
}
