fn main() {
    eprintln!("C14: check not built yet");
    std::process::exit(3);
}
