//! Executors (real container / reference Vec), step comparison, alphabets, merged BFS and the
//! unmerged enumeration.
use crate::ops::*;
use pv::{json, Collector, Value};
use std::collections::{BTreeMap, BTreeSet};

pub fn keys_of(cs: &[u8], cols: &[Key]) -> Vec<Key> {
    cs.iter().map(|&c| cols[c as usize % cols.len()]).collect()
}

pub fn apply_real<G: Cfg>(v: &mut G::V, op: &Op, cols: &[Key], tr: &mut Trace) {
    let q = cols.len();
    match op {
        Op::Push(c) => G::push(v, &cols[*c as usize % q]),
        Op::Pop => {
            let r = G::pop(v);
            tr.push(Tok::Ret(r))
        }
        Op::Clear => G::clear(v),
        Op::Extend(cs) => G::extend(v, &keys_of(cs, cols)),
        Op::Collect(cs) => *v = G::collect(&keys_of(cs, cols)),
        Op::WithCapacity(k) => *v = G::with_capacity(*k as usize),
        Op::Drain(r, sc) => G::drain(v, *r, *sc, tr),
        Op::Get(i) => G::get_i(v, *i, tr),
        Op::GetR(r) => G::get_r(v, *r, tr),
        Op::GetMut(i, c) => {
            let r = G::get_mut_i(v, *i, &cols[*c as usize % q]);
            tr.push(Tok::Ret(r))
        }
        Op::GetMutR(r, sh) => G::get_mut_r(v, *r, cols, *sh as usize, tr),
        Op::Iterate(m, b, sc, sh) => G::iterate(v, *m, *b, *sc, cols, *sh as usize, tr),
    }
}

/// The reference model: the very same operation on a plain `Vec<C>` of scalar colours.
pub fn apply_model<G: Cfg>(m: &mut Vec<G::C>, op: &Op, cols: &[Key], tr: &mut Trace) {
    let q = cols.len();
    let nc = G::nc();
    match op {
        Op::Push(c) => m.push(G::mkc(&cols[*c as usize % q])),
        Op::Pop => {
            let r = m.pop();
            tr.push(Tok::Ret(r.map(|c| G::keyc(&c))))
        }
        Op::Clear => m.clear(),
        Op::Extend(cs) => m.extend(keys_of(cs, cols).iter().map(G::mkc)),
        Op::Collect(cs) => *m = keys_of(cs, cols).iter().map(G::mkc).collect(),
        Op::WithCapacity(k) => *m = Vec::with_capacity(*k as usize),
        Op::Drain(r, sc) => crate::with_range!(*r, rr => run_script(m.drain(rr), *sc, tr, |c, _| G::keyc(&c))),
        // the real side reads through five backings (Vec, &[T], &mut [T], [T;N], Box<[T]>)
        Op::Get(i) => {
            let r = m.get(*i).map(G::keyc);
            for _ in 0..5 {
                tr.push(Tok::Ret(r))
            }
        }
        Op::GetR(r) => {
            let got: Option<&[G::C]> = crate::with_range!(*r, rr => m.get(rr));
            for _ in 0..5 {
                match got {
                    None => tr.push(Tok::Slice(None)),
                    Some(s) => {
                        tr.push(Tok::Slice(Some(vec![s.len(); nc])));
                        for c in s {
                            tr.push(Tok::Item(Some(G::keyc(c))));
                        }
                    }
                }
            }
        }
        Op::GetMut(i, c) => {
            let r = m.get_mut(*i).map(|r| {
                let old = G::keyc(r);
                *r = G::mkc(&cols[*c as usize % q]);
                old
            });
            tr.push(Tok::Ret(r))
        }
        Op::GetMutR(r, sh) => {
            let got: Option<&mut [G::C]> = crate::with_range!(*r, rr => m.get_mut(rr));
            match got {
                None => tr.push(Tok::Slice(None)),
                Some(s) => {
                    tr.push(Tok::Slice(Some(vec![s.len(); nc])));
                    for (j, c) in s.iter_mut().enumerate() {
                        tr.push(Tok::Item(Some(G::keyc(c))));
                        *c = G::mkc(&cols[(j + *sh as usize) % q]);
                    }
                }
            }
        }
        Op::Iterate(mode, b, sc, sh) => {
            let sh = *sh as usize;
            if writes(*mode, *b) {
                run_script(m.iter_mut(), *sc, tr, |c, j| {
                    let old = G::keyc(c);
                    *c = G::mkc(&cols[(j + sh) % q]);
                    old
                })
            } else if *mode == Mode::Owned && *b != Backing::Slice {
                run_script(m.clone().into_iter(), *sc, tr, |c, _| G::keyc(&c))
            } else {
                run_script(m.iter(), *sc, tr, |c, _| G::keyc(c))
            }
        }
    }
}

pub fn empty<G: Cfg>() -> (G::V, Vec<G::C>) {
    (G::from_bufs(vec![vec![]; G::nc()]), Vec::new())
}

/// Rebuild the pair (real, model) by replaying `path` from the empty container (no comparison;
/// every op on the path was compared when it was explored as the last op of a shorter sequence).
pub fn rebuild<G: Cfg>(path: &[Op], cols: &[Key], predict: bool) -> (G::V, Vec<G::C>) {
    let (mut v, mut m) = empty::<G>();
    let mut tr = Trace::new();
    for op in path {
        tr.clear();
        let _ = pv::catch(|| apply_real::<G>(&mut v, op, cols, &mut tr));
        tr.clear();
        if predict && matches!(op, Op::Drain(r, _) if r.resolve(m.len()).is_none()) {
            continue;
        }
        let _ = pv::catch(|| apply_model::<G>(&mut m, op, cols, &mut tr));
    }
    (v, m)
}

pub fn model_keys<G: Cfg>(m: &[G::C]) -> Vec<Key> {
    m.iter().map(G::keyc).collect()
}
pub fn state_of(keys: &[Key], cols: &[Key]) -> Option<Vec<u8>> {
    keys.iter().map(|k| cols.iter().position(|c| c == k).map(|p| p as u8)).collect()
}

pub struct StepOut {
    pub real: Trace,
    pub model: Trace,
    pub real_panic: Option<String>,
    pub model_panic: Option<String>,
    /// component vectors of the real container after the op, read from the fields
    pub bufs: Vec<Vec<f32>>,
    pub expect: Vec<Key>,
    /// (class, explanation)
    pub mismatch: Option<(&'static str, String)>,
    /// tokens compared with the model (trace tokens + the contents comparison)
    pub compared: u64,
    pub lenient_forget: bool,
}

pub fn rows(bufs: &[Vec<f32>]) -> Option<Vec<Key>> {
    let n = bufs[0].len();
    if bufs.iter().any(|b| b.len() != n) {
        return None;
    }
    Some(
        (0..n)
            .map(|j| {
                let mut k = [0u32; MAXC];
                for (i, b) in bufs.iter().enumerate() {
                    k[i] = b[j].to_bits();
                }
                k
            })
            .collect(),
    )
}

fn is_subsequence(needle: &[Key], hay: &[Key]) -> bool {
    let mut it = hay.iter();
    needle.iter().all(|n| it.any(|h| h == n))
}

/// Execute `op` on both, compare the observations token by token, then the contents and the
/// equal-length invariant.
pub fn step<G: Cfg>(v: &mut G::V, m: &mut Vec<G::C>, op: &Op, cols: &[Key], predict: bool) -> StepOut {
    let forget = matches!(op, Op::Drain(_, sc) if sc.end == End::Forget);
    let before: Vec<Key> = if forget { model_keys::<G>(m) } else { vec![] };
    let mut real = Trace::with_capacity(48);
    let mut model = Trace::with_capacity(48);
    let rp = pv::catch(|| apply_real::<G>(v, op, cols, &mut real)).err();
    if rp.is_some() {
        real.push(Tok::Panic);
    }
    let mp = if predict && matches!(op, Op::Drain(r, _) if r.resolve(m.len()).is_none()) {
        Some("predicted: Vec::drain panics for this range".to_string())
    } else {
        pv::catch(|| apply_model::<G>(m, op, cols, &mut model)).err()
    };
    if mp.is_some() {
        model.push(Tok::Panic);
    }
    let bufs: Vec<Vec<f32>> = G::bufs(v);
    let mut expect = model_keys::<G>(m);
    let mut mismatch = None;
    let compared = model.len().max(real.len()) as u64 + 1;
    // 1. observations
    if real != model {
        let i = real.iter().zip(model.iter()).position(|(a, b)| a != b).unwrap_or(real.len().min(model.len()));
        let (a, b) = (real.get(i), model.get(i));
        let class = if matches!(a, Some(Tok::Panic)) || matches!(b, Some(Tok::Panic)) {
            "panic"
        } else {
            "behaviour"
        };
        mismatch = Some((class, format!("observation #{i} differs: got {:?}, Vec gives {:?}", a.map(|t| show_tok(t, G::nc())), b.map(|t| show_tok(t, G::nc())))));
    }
    // 2. equal-length invariant, 3. contents
    let mut lenient_forget = false;
    match rows(&bufs) {
        None => {
            if mismatch.is_none() || mismatch.as_ref().map(|m| m.0) != Some("panic") {
                mismatch = Some(("lengths", format!("component collections have lengths {:?}", bufs.iter().map(|b| b.len()).collect::<Vec<_>>())));
            }
        }
        Some(r) => {
            if r != expect {
                // mem::forget of a Drain: std's Vec truncates to the start of the drained range
                // ("leak amplification") and never restores the tail. The property statement says
                // nothing about forgotten iterators, so a struct-of-arrays container that stays
                // consistent across its components (equal lengths — checked above — and every
                // element still a whole colour of the original, in order, the untouched prefix
                // intact) but leaks a different number of trailing elements than Vec is NOT
                // flagged; the model then continues from the container's contents.
                let a = expect.len();
                if forget && mp.is_none() && rp.is_none() && r.len() >= a && r[..a] == expect[..] && is_subsequence(&r[a..], &before[a.min(before.len())..]) {
                    lenient_forget = true;
                    *m = r.iter().map(G::mkc).collect();
                    expect = r;
                } else if mismatch.is_none() {
                    mismatch = Some(("behaviour", "contents after the operation differ from the Vec".to_string()));
                }
            }
        }
    }
    StepOut { real, model, real_panic: rp, model_panic: mp, bufs, expect, mismatch, compared, lenient_forget }
}

pub fn show_key(k: &Key, nc: usize) -> String {
    let v: Vec<String> = k[..nc].iter().map(|b| format!("{}", f32::from_bits(*b))).collect();
    format!("({})", v.join(","))
}
pub fn show_tok(t: &Tok, nc: usize) -> String {
    match t {
        Tok::Len(n) => format!("len={n}"),
        Tok::Hint(a, b) => format!("size_hint=({a},{b:?})"),
        Tok::Item(None) => "item=None".into(),
        Tok::Item(Some(k)) => format!("item={}", show_key(k, nc)),
        Tok::Ret(None) => "ret=None".into(),
        Tok::Ret(Some(k)) => format!("ret=Some{}", show_key(k, nc)),
        Tok::Count(n) => format!("count={n}"),
        Tok::Slice(None) => "slice=None".into(),
        Tok::Slice(Some(l)) => format!("slice-lens={l:?}"),
        Tok::Panic => "PANIC".into(),
    }
}
pub fn show_trace(t: &Trace, nc: usize) -> Vec<String> {
    t.iter().map(|t| show_tok(t, nc)).collect()
}

fn mix(h: &mut u64, x: u64) {
    *h = (*h ^ x).wrapping_mul(0x100000001b3).rotate_left(23);
}
pub fn hash_out(o: &StepOut) -> u64 {
    let mut h = 0xcbf29ce484222325u64;
    for t in &o.real {
        match t {
            Tok::Len(n) => mix(&mut h, 0x100 + *n as u64),
            Tok::Hint(a, b) => mix(&mut h, 0x200 + *a as u64 * 64 + b.map(|b| b as u64 + 1).unwrap_or(0)),
            Tok::Item(k) | Tok::Ret(k) => match k {
                None => mix(&mut h, 0x300),
                Some(k) => {
                    for x in k {
                        mix(&mut h, *x as u64)
                    }
                }
            },
            Tok::Count(n) => mix(&mut h, 0x400 + *n as u64),
            Tok::Slice(None) => mix(&mut h, 0x500),
            Tok::Slice(Some(l)) => mix(&mut h, 0x600 + l.first().copied().unwrap_or(0) as u64),
            Tok::Panic => mix(&mut h, 0x700),
        }
    }
    for b in &o.bufs {
        mix(&mut h, 0x800 + b.len() as u64);
        for x in b {
            mix(&mut h, x.to_bits() as u64);
        }
    }
    h
}

// ---------------------------------------------------------------------------------------
// alphabets

#[derive(Clone, Copy, PartialEq, Eq, Debug)]
pub enum Level {
    Full,
    Reduced,
}
#[derive(Clone, Copy, Debug)]
pub struct Params {
    pub max_len: usize,
    pub ncol: usize,
    pub level: Level,
    /// predict the Vec's panic for an invalid drain range from `Rng::resolve` instead of
    /// letting it panic (only the unmerged enumeration, where unwinding dominates the cost;
    /// `selftest_resolve` proves the prediction against the real Vec at start-up)
    pub predict_model_panics: bool,
}

fn tuples(q: usize, k: usize) -> Vec<Vec<u8>> {
    let mut out = vec![vec![]];
    for _ in 0..k {
        let mut next = vec![];
        for t in &out {
            for c in 0..q {
                let mut t2: Vec<u8> = t.clone();
                t2.push(c as u8);
                next.push(t2);
            }
        }
        out = next;
    }
    out
}

/// The operations offered in a state holding `n` colours (simplest first).
pub fn alphabet(n: usize, p: &Params) -> Vec<Op> {
    let q = p.ncol;
    let full = p.level == Level::Full;
    let mut ops = vec![];
    if n < p.max_len {
        for c in 0..q {
            ops.push(Op::Push(c as u8));
        }
    }
    ops.push(Op::Pop);
    ops.push(Op::Clear);
    for k in 0..=2usize {
        if n + k <= p.max_len {
            for t in tuples(q, k) {
                ops.push(Op::Extend(t));
            }
        }
    }
    for k in 0..=2usize {
        if k <= p.max_len {
            for t in tuples(q, k) {
                ops.push(Op::Collect(t));
            }
        }
    }
    for k in 0..=2u8 {
        ops.push(Op::WithCapacity(k));
    }
    for i in 0..=n + 1 {
        ops.push(Op::Get(i));
    }
    ops.push(Op::Get(usize::MAX));
    for i in 0..=n + 1 {
        for c in 0..q {
            ops.push(Op::GetMut(i, c as u8));
        }
    }
    ops.push(Op::GetMut(usize::MAX, 0));
    let mut ranges = Rng::all(n);
    if !full {
        // reduced alphabet: every valid range of every form, and two representative
        // invalid ranges (inverted, end out of range)
        let keep = [Rng::AB(1, 0), Rng::ABIncl(0, n)];
        ranges.retain(|r| r.resolve(n).is_some() || keep.contains(r));
    }
    if full {
        for r in &ranges {
            ops.push(Op::GetR(*r));
        }
    }
    for r in &ranges {
        let shifts = if r.resolve(n).map(|(a, b)| b > a).unwrap_or(false) && full { q } else { 1 };
        for s in 0..shifts {
            ops.push(Op::GetMutR(*r, ((s + 1) % q) as u8));
        }
    }
    let all_ends = [End::Drop, End::Count, End::Last, End::Fold, End::RFold, End::Forget];
    for r in &ranges {
        match r.resolve(n) {
            None => ops.push(Op::Drain(*r, Script { walk: Walk::Front, k: 0, end: End::Drop })),
            Some((a, b)) => {
                let scripts = if full { Script::all(b - a, &all_ends) } else { Script::reduced(b - a, &[End::Drop, End::Forget]) };
                for sc in scripts {
                    ops.push(Op::Drain(*r, sc));
                }
            }
        }
    }
    if full {
        for (mode, b) in SOURCES {
            // mem::forget is only meaningful for Drain (it skips the Drop that repairs the
            // vector); forgetting a borrowing or owning iterator is a no-op or a plain leak
            let ends: &[End] = &all_ends[..5];
            let shifts = if writes(mode, b) { q } else { 1 };
            for sc in Script::all(n, ends) {
                for s in 0..shifts {
                    ops.push(Op::Iterate(mode, b, sc, ((s + 1) % q) as u8));
                }
            }
        }
    } else {
        let ex = Script { walk: Walk::Front, k: (n + 1) as u8, end: End::Drop };
        ops.push(Op::Iterate(Mode::Ref, Backing::Vec, ex, 0));
        ops.push(Op::Iterate(Mode::Owned, Backing::Vec, ex, 0));
        ops.push(Op::Iterate(Mode::Mut, Backing::Vec, ex, 1));
        ops.push(Op::Iterate(Mode::Mut, Backing::MutSlice, Script { walk: Walk::Back, k: 1, end: End::Drop }, 1));
    }
    ops
}

// ---------------------------------------------------------------------------------------
// reporting a mismatch

pub fn signature<G: Cfg>(op: &Op, class: &str) -> String {
    format!("C18/ops/{}/{}/{}", G::name(), op.method(), class)
}

pub fn case_json<G: Cfg>(sub: &str, ncol: usize, contents: &[u8], path: &[Op], op: &Op, o: &StepOut, deterministic: bool) -> Value {
    let nc = G::nc();
    json!({
        "sub": sub, "cfg": G::name(), "ncol": ncol, "contents": contents,
        "path": path.iter().map(|o| o.to_json()).collect::<Vec<_>>(),
        "op": op.to_json(),
        "input": {"type": G::name(), "contents": contents, "op": op.to_json()},
        "why": o.mismatch.as_ref().map(|m| m.1.clone()),
        "observed": {"trace": show_trace(&o.real, nc), "panic": o.real_panic, "components_after": o.bufs},
        "expected": {"trace": show_trace(&o.model, nc), "panic": o.model_panic, "colours_after": o.expect.iter().map(|k| show_key(k, nc)).collect::<Vec<_>>()},
        "replayed_twice_identical": deterministic,
    })
}

fn colours(q: usize, nc: usize) -> Vec<Key> {
    (0..q).map(|j| colour(j, nc)).collect()
}

/// Evaluate `op` after `path` (stateless: both containers are rebuilt from empty).
/// Returns the step outcome and the model's contents afterwards as colour indices.
pub fn eval<G: Cfg>(c: &mut Collector, sub: &str, p: &Params, cols: &[Key], contents: &[u8], path: &[Op], op: &Op) -> (StepOut, Vec<u8>) {
    let (mut v, mut m) = rebuild::<G>(path, cols, p.predict_model_panics);
    let o = step::<G>(&mut v, &mut m, op, cols, p.predict_model_panics);
    if let Some((class, _)) = &o.mismatch {
        c.violation(&signature::<G>(op, class), 1.0, || {
            // re-execute: the observation must be bit-identical (no uncontrolled nondeterminism)
            let (mut v2, mut m2) = rebuild::<G>(path, cols, false);
            let o2 = step::<G>(&mut v2, &mut m2, op, cols, false);
            let same = o2.real == o.real && rows(&o2.bufs) == rows(&o.bufs) && o2.bufs.iter().map(|b| b.len()).eq(o.bufs.iter().map(|b| b.len()));
            case_json::<G>(sub, p.ncol, contents, path, op, &o, same)
        });
    }
    c.outcome(hash_out(&o));
    let after = state_of(&model_keys::<G>(&m), cols).expect("model holds only colours of the set");
    (o, after)
}

pub struct Node {
    pub state: Vec<u8>,
    pub path: Vec<Op>,
}

/// Merged breadth-first search to closure. Returns the collector and state -> BFS depth.
pub fn bfs<G: Cfg>(sub: &str, p: &Params, seed: u64) -> (Collector, BTreeMap<Vec<u8>, usize>) {
    let cols = colours(p.ncol, G::nc());
    let mut total = Collector::new();
    let mut visited: BTreeMap<Vec<u8>, usize> = BTreeMap::new();
    visited.insert(vec![], 0);
    let mut level = vec![Node { state: vec![], path: vec![] }];
    let mut depth = 0usize;
    let mut max_alpha = 0usize;
    while !level.is_empty() {
        let lv = &level;
        let cols_ref = &cols;
        let outs = pv::par::map_chunks(lv.len(), |i| {
            let node = &lv[i];
            let mut c = Collector::new();
            let ops = alphabet(node.state.len(), p);
            let mut succ: Vec<(Vec<u8>, Op)> = vec![];
            let mut seen: BTreeSet<Vec<u8>> = BTreeSet::new();
            let mut traces = 0u64;
            let pick = pv::splitmix(seed ^ pv::fnv(&node.state) ^ pv::fnv(sub.as_bytes())) as usize % ops.len();
            for (oi, op) in ops.iter().enumerate() {
                let (o, after) = eval::<G>(&mut c, sub, p, cols_ref, &node.state, &node.path, op);
                traces += o.compared;
                if o.lenient_forget {
                    c.note(&format!("{sub}/forget-leaks-differently-than-Vec"), json!(true));
                }
                if oi == pick {
                    c.sample(pv::splitmix(seed ^ pv::fnv(&node.state) ^ pv::fnv(sub.as_bytes()) ^ 0x51), || {
                        json!({"sub": sub, "cfg": G::name(), "contents": node.state, "op": op.to_json(), "trace": show_trace(&o.real, G::nc()), "contents_after": after})
                    });
                }
                // a step that already diverged from the Vec is reported once and not built upon
                if o.mismatch.is_none() && after != node.state && after.len() <= p.max_len && seen.insert(after.clone()) {
                    succ.push((after, op.clone()));
                }
            }
            c.add(sub, 1, ops.len() as u64, traces, (node.state.len() >= 2) as u64);
            (c, succ, ops.len())
        });
        let mut next = vec![];
        for (i, (c, succ, na)) in outs.into_iter().enumerate() {
            total.merge(c);
            max_alpha = max_alpha.max(na);
            for (s, op) in succ {
                if !visited.contains_key(&s) {
                    visited.insert(s.clone(), depth + 1);
                    let mut path = level[i].path.clone();
                    path.push(op);
                    next.push(Node { state: s, path });
                }
            }
        }
        level = next;
        depth += 1;
    }
    total.note(&format!("{sub}/reachable_states"), json!(visited.len()));
    total.note(&format!("{sub}/max_alphabet"), json!(max_alpha));
    total.note(&format!("{sub}/bfs_levels"), json!(depth));
    (total, visited)
}

/// All operation sequences up to `depth` over the reduced alphabet, no merging: every sequence
/// is replayed from the empty container and its last operation compared with the Vec. Returns
/// canonical contents of the REAL container (as read from its fields) -> minimal depth.
pub fn unmerged<G: Cfg>(sub: &str, p: &Params, depth: usize) -> (Collector, BTreeMap<Vec<Key>, usize>) {
    let cols = colours(p.ncol, G::nc());
    let cols_ref = &cols;
    let mut total = Collector::new();
    let mut reach: BTreeMap<Vec<Key>, usize> = BTreeMap::new();
    reach.insert(vec![], 0);
    // frontier: every sequence of the previous length, with the contents it leads to
    let mut frontier: Vec<(Vec<Op>, Vec<u8>)> = vec![(vec![], vec![])];
    for d in 1..=depth {
        let fr = &frontier;
        let keep = d < depth;
        // parents are dealt round-robin to at most 256 chunks (deterministic, balanced)
        let nch = fr.len().min(256);
        let outs = pv::par::map_chunks(nch, |ch| {
            let mut c = Collector::new();
            let mut reach: BTreeSet<Vec<Key>> = BTreeSet::new();
            let mut next: Vec<(Vec<Op>, Vec<u8>)> = vec![];
            let (mut n_ops, mut traces) = (0u64, 0u64);
            let mut i = ch;
            while i < fr.len() {
                let (path, state) = &fr[i];
                let ops = alphabet(state.len(), p);
                for op in &ops {
                    let (o, after) = eval::<G>(&mut c, sub, p, cols_ref, state, path, op);
                    traces += o.compared;
                    if let Some(canon) = rows(&o.bufs) {
                        if reach.last() != Some(&canon) {
                            reach.insert(canon);
                        }
                    }
                    // a sequence that already diverged from the Vec is reported once, not extended
                    if keep && o.mismatch.is_none() {
                        let mut seq = path.clone();
                        seq.push(op.clone());
                        next.push((seq, after));
                    }
                }
                n_ops += ops.len() as u64;
                i += nch;
            }
            c.add(sub, 0, n_ops, traces, 0);
            (c, reach, next)
        });
        let mut next_frontier = vec![];
        for (c, r, n) in outs {
            total.merge(c);
            for k in r {
                reach.entry(k).or_insert(d);
            }
            next_frontier.extend(n);
        }
        frontier = next_frontier;
    }
    // states of this sub-check = distinct canonical contents the sequences led to
    total.add(sub, reach.len() as u64, 0, 0, reach.keys().filter(|k| k.len() >= 2).count() as u64);
    (total, reach)
}

/// The cross-check: states first reached at depth <= `depth` by the merged BFS over the same
/// alphabet must be exactly the canonical contents the unmerged enumeration saw, at the same
/// minimal depths.
pub fn cross_check<G: Cfg>(c: &mut Collector, p: &Params, depth: usize, merged: &BTreeMap<Vec<u8>, usize>, un: &BTreeMap<Vec<Key>, usize>) {
    let cols = colours(p.ncol, G::nc());
    let m: BTreeMap<Vec<Key>, usize> = merged.iter().filter(|(_, d)| **d <= depth).map(|(s, d)| (keys_of(s, &cols), *d)).collect();
    if &m != un {
        let only_m: Vec<String> = m.iter().filter(|(k, d)| un.get(*k) != Some(d)).take(4).map(|(k, d)| format!("{:?}@{d}", state_of(k, &cols))).collect();
        let only_u: Vec<String> = un.iter().filter(|(k, d)| m.get(*k) != Some(d)).take(4).map(|(k, d)| format!("{:?}@{d}", k.iter().map(|k| show_key(k, G::nc())).collect::<Vec<_>>())).collect();
        c.violation(&format!("C18/unmerged-vs-merged/{}", G::name()), 1.0, || {
            json!({"sub": "unmerged", "cfg": G::name(), "ncol": p.ncol, "max_len": p.max_len, "depth": depth,
                   "input": {"type": G::name(), "depth": depth},
                   "observed": {"merged_states": m.len(), "unmerged_states": un.len(), "only_or_other_depth_in_merged": only_m, "only_or_other_depth_in_unmerged": only_u},
                   "expected": "identical sets of reachable canonical states with identical minimal depths"})
        });
    }
    c.note(&format!("unmerged/{}/states_within_depth", G::name()), json!(un.len()));
}

/// Start-up self-test of `Rng::resolve` (used to predict panics in the unmerged enumeration and
/// to size the consumption scripts): for every range of every form on vectors of 0..=7 elements,
/// `Vec::drain` panics iff `resolve` is None, and drains exactly `resolve`'s span otherwise.
pub fn selftest_resolve() -> Result<(), String> {
    for len in 0..=7usize {
        for r in Rng::all(len) {
            let mut v: Vec<usize> = (0..len).collect();
            let got = pv::catch(|| crate::with_range!(r, rr => v.drain(rr).collect::<Vec<usize>>()));
            match (got, r.resolve(len)) {
                (Err(_), None) => {}
                (Ok(d), Some((a, b))) if d == (a..b).collect::<Vec<_>>() => {}
                (g, w) => return Err(format!("resolve({r:?}, len {len}) = {w:?} but Vec::drain gave {g:?}")),
            }
        }
    }
    Ok(())
}
