//! Conversion sub-checks over the compiler-discovered graphs:
//!  (1) lane-mix enumeration: bitwise lane independence of every SIMD edge,
//!  (2) SIMD lane == scalar result of the same width (XYZ metric, calibrated tolerance),
//!  (3) scalar f32 == scalar f64 to single precision (XYZ metric, c02's tolerances and classes).
use crate::lat::{self, bits3, to64};
use crate::vect::{pack3, splat3, unpack3, Vect, MAXN};
use pg::{Graph, Kind};
use pv::fl::Fl;
use pv::refmodel::{max_abs_diff, V3};
use pv::{json, Collector, Ctx, Tier, Value};

pub fn hex3<T: Fl>(v: [T; 3]) -> Vec<String> {
    v.iter().map(|x| format!("{:#x}", x.bits64())).collect()
}
pub fn parse_hex3<T: Fl>(v: &Value) -> [T; 3] {
    let a: Vec<u64> = v.as_array().map(|a| a.iter().map(|x| u64::from_str_radix(x.as_str().unwrap_or("0").trim_start_matches("0x"), 16).unwrap_or(0)).collect()).unwrap_or_default();
    [T::from_bits64(a[0]), T::from_bits64(a[1]), T::from_bits64(a[2])]
}
/// bitwise equality; two NaNs are equal whatever their payload (DESIGN §3.4 "NaN-aware")
#[inline]
pub fn same_bits<T: Fl>(a: T, b: T) -> bool {
    a.bits64() == b.bits64() || (a != a && b != b)
}
#[inline]
pub fn same3<T: Fl>(a: [T; 3], b: [T; 3]) -> bool {
    same_bits(a[0], b[0]) && same_bits(a[1], b[1]) && same_bits(a[2], b[2])
}
fn hash3<T: Fl>(v: [T; 3]) -> u64 {
    pv::splitmix(v[0].bits64() ^ pv::splitmix(v[1].bits64() ^ pv::splitmix(v[2].bits64())))
}

/// ‖ΔXYZ‖∞ between two values of one node type through the same f64 reference map
/// (only Y for luma). 0 when the values are bitwise identical.
pub fn xyz_err<T: Fl>(k: &Kind, r1: [T; 3], r2: [T; 3]) -> f64 {
    if same3(r1, r2) {
        return 0.0;
    }
    let (x1, x2) = (k.to_xyz(to64(r1)), k.to_xyz(to64(r2)));
    if k.is_luma() {
        (x1[1] - x2[1]).abs()
    } else {
        max_abs_diff(x1, x2)
    }
}
fn kind_of_err(e: f64) -> &'static str {
    if e.is_nan() {
        "NaN"
    } else if e.is_infinite() {
        "inf"
    } else {
        "finite-off"
    }
}

// ---------------------------------------------------------------------------------------
// (1) lane-mix enumeration

pub type Lanes<S> = [[S; 3]; MAXN];

/// f(splat(x)), all lanes; a panic is reported by the caller
pub fn splat_ref<V: Vect>(f: pg::F3<V>, x: [V::S; 3]) -> Result<Lanes<V::S>, String> {
    pv::catch(|| unpack3(f(splat3::<V>(x))))
}

fn mix_sig<V: Vect>(g: &Graph<V>, a: usize, b: usize, what: &str, in_range: bool) -> String {
    format!("C17/lane-independence/{}/{}->{}/{}/{}", V::NAME, g.nodes[a].name, g.nodes[b].name, what, if in_range { "in-range" } else { "out-of-range" })
}

/// One packed input: `x` in lane `lane`, `y` in every other lane. Every lane of the result is
/// compared bitwise with the same lane of f(splat(that lane's input)). Returns
/// (lane comparisons made, could a leak have been observed: ref(x) != ref(y)).
pub fn check_mix_case<V: Vect>(g: &Graph<V>, a: usize, b: usize, x: [V::S; 3], y: [V::S; 3], lane: usize, rx: &Lanes<V::S>, ry: &Lanes<V::S>, c: &mut Collector) -> (u64, bool) {
    let Some(f) = g.unc[a][b] else { return (0, false) };
    let ka = g.nodes[a].kind;
    let mut cols = [y; MAXN];
    cols[lane] = x;
    let in_range = lat::in_nominal_range(ka, to64(x)) && lat::in_nominal_range(ka, to64(y));
    let mk = |obs: Value, exp: Value| json!({"sub": "lane-mix", "vec": V::NAME, "path": [g.nodes[a].name, g.nodes[b].name], "lane": lane, "x": hex3(x), "y": hex3(y), "input": {"x": to64(x), "y": to64(y)}, "observed": obs, "expected": exp});
    match pv::catch(|| unpack3(f(pack3::<V>(&cols[..V::N])))) {
        Err(msg) => {
            c.violation(&mix_sig(g, a, b, "panic", in_range), 1.0, || mk(json!({"panic": msg}), json!("no panic")));
            (0, false)
        }
        Ok(out) => {
            let mut h = 0u64;
            for j in 0..V::N {
                let exp = if j == lane { rx[j] } else { ry[j] };
                h = pv::splitmix(h ^ hash3(out[j]));
                if !same3(out[j], exp) {
                    let what = if j == lane { "x-lane" } else { "other-lane" };
                    c.violation(&mix_sig(g, a, b, what, in_range), 1.0, || {
                        mk(json!({"lane": j, "bits": hex3(out[j]), "value": to64(out[j])}), json!({"splat_lane": j, "bits": hex3(exp), "value": to64(exp)}))
                    });
                }
            }
            c.outcome(h);
            (V::N as u64, !same3(rx[lane], ry[lane]))
        }
    }
}

/// all lanes of f(splat(x)) must be bitwise identical (lane position is irrelevant)
fn check_uniform<V: Vect>(g: &Graph<V>, a: usize, b: usize, x: [V::S; 3], r: &Lanes<V::S>, c: &mut Collector) {
    for j in 1..V::N {
        if !same3(r[j], r[0]) {
            let in_range = lat::in_nominal_range(g.nodes[a].kind, to64(x));
            c.violation(&mix_sig(g, a, b, "splat-not-uniform", in_range), 1.0, || {
                json!({"sub": "lane-mix", "vec": V::NAME, "path": [g.nodes[a].name, g.nodes[b].name], "lane": j, "x": hex3(x), "y": hex3(x), "input": {"x": to64(x)}, "observed": {"lane": j, "bits": hex3(r[j])}, "expected": {"lane": 0, "bits": hex3(r[0])}})
            });
        }
    }
}

pub fn run_lanemix<V: Vect>(ctx: &Ctx, g: &Graph<V>, total: &mut Collector) {
    let sub = format!("lane-mix/{}", V::NAME);
    if !ctx.wants(&sub) {
        return;
    }
    let full = ctx.tier == Tier::Thorough;
    let n = g.n();
    let has_edge: Vec<bool> = (0..n).map(|a| g.unc[a].iter().any(|e| e.is_some())).collect();
    let lats: Vec<Vec<[V::S; 3]>> = (0..n).map(|a| if has_edge[a] { lat::pair_lattice::<V::S>(g.nodes[a].kind, full) } else { vec![] }).collect();
    let mut items: Vec<(usize, usize)> = vec![];
    for a in 0..n {
        for xi in 0..lats[a].len() {
            items.push((a, xi));
        }
    }
    let (items_r, lats_r) = (&items, &lats);
    // stage 1: f(splat(x)) for every x and edge (and its uniformity over the lanes)
    let stage1: Vec<(Vec<Option<Lanes<V::S>>>, Collector)> = pv::par::map_chunks(items.len(), |ci| {
        let (a, xi) = items_r[ci];
        let x = lats_r[a][xi];
        let mut c = Collector::new();
        let mut row = vec![None; n];
        let mut tr = 0;
        for b in 0..n {
            let Some(f) = g.unc[a][b] else { continue };
            tr += 1;
            match splat_ref::<V>(f, x) {
                Ok(r) => {
                    check_uniform(g, a, b, x, &r, &mut c);
                    row[b] = Some(r);
                }
                Err(msg) => {
                    let in_range = lat::in_nominal_range(g.nodes[a].kind, to64(x));
                    c.violation(&mix_sig(g, a, b, "panic", in_range), 1.0, || json!({"sub": "lane-mix", "vec": V::NAME, "path": [g.nodes[a].name, g.nodes[b].name], "lane": 0, "x": hex3(x), "y": hex3(x), "input": {"x": to64(x)}, "observed": {"panic": msg}, "expected": "no panic"}));
                }
            }
        }
        c.add(&sub, 1, tr, tr * (V::N as u64 - 1), 0);
        (row, c)
    });
    let mut refs: Vec<Vec<Option<Lanes<V::S>>>> = Vec::with_capacity(items.len());
    for (row, c) in stage1 {
        refs.push(row);
        total.merge(c);
    }
    // items are ordered by (a, xi): index of the first item of node a
    let mut first_of = vec![0usize; n + 1];
    for a in 0..n {
        first_of[a + 1] = first_of[a] + lats[a].len();
    }
    let (refs_r, first_r) = (&refs, &first_of);
    // stage 2: every ordered pair, x in every lane position
    let cc = pv::par::run_chunks(items.len(), |ci, c| {
        let (a, xi) = items_r[ci];
        let x = lats_r[a][xi];
        let (mut tr, mut traces, mut nontriv) = (0u64, 0u64, 0u64);
        for b in 0..n {
            if g.unc[a][b].is_none() {
                continue;
            }
            let Some(rx) = &refs_r[ci][b] else { continue };
            for yi in 0..lats_r[a].len() {
                if yi == xi {
                    continue;
                }
                let Some(ry) = &refs_r[first_r[a] + yi][b] else { continue };
                let y = lats_r[a][yi];
                for lane in 0..V::N {
                    let (cmp, obs) = check_mix_case(g, a, b, x, y, lane, rx, ry, c);
                    tr += 1;
                    traces += cmp;
                    nontriv += obs as u64;
                }
                if (xi * 131 + yi * 17 + b) % 257 == 0 {
                    c.sample(pv::splitmix(((a * 64 + b) as u64) << 24 | (xi as u64) << 12 | yi as u64), || json!({"sub": sub, "edge": [g.nodes[a].name, g.nodes[b].name], "x": to64(x), "y": to64(y), "splat_x": to64(rx[0]), "splat_y": to64(ry[0])}));
                }
            }
        }
        // states: distinct packed inputs of this source node = (pairs with this x) * N
        let st = (lats_r[a].len() as u64 - 1) * V::N as u64;
        c.add(&sub, st, tr, traces, nontriv);
    });
    total.merge(cc);
    let sizes: Vec<Value> = (0..n).filter(|&a| has_edge[a]).map(|a| json!([g.nodes[a].name, lats[a].len()])).collect();
    total.note(&format!("pair-lattice-sizes/{}", V::NAME), json!(sizes));
    total.exhaustive(
        &sub,
        true,
        &format!(
            "{} discovered edges of the {} graph x every ordered pair (x, y), x != y, of the branch-covering lattice of the source node ({} points in total over {} source nodes, see notes) x every lane position of x (N = {}); every lane of every result compared bitwise with f(splat)",
            g.edge_count(),
            V::NAME,
            lats.iter().map(|l| l.len()).sum::<usize>(),
            has_edge.iter().filter(|h| **h).count(),
            V::N
        ),
    );
}

// ---------------------------------------------------------------------------------------
// (2) SIMD vs scalar of the same width

/// Tolerance on ‖ΔXYZ‖∞ (white = 1) between a SIMD lane and the scalar conversion of the same
/// component width. `wide`'s pow/sin_cos/atan2 are polynomial kernels, not libm, and mul_add is
/// unfused without FMA: the largest deviation observed on the pinned tree is recorded in the
/// evidence (max_err_over_tol); the tolerance keeps >= 8x slack over it and stays >= 10x below
/// the effect of a wrong branch or constant (>= 1e-3).
pub fn tol_simd<V: Vect>() -> f64 {
    if <V::S as Fl>::NAME == "f32" {
        // observed (Lab/Lch sources aside, see `simd_class`): 9.8e-6 (Luv -> Lchuv at chroma 200)
        1.0e-4
    } else {
        // observed: 1.3e-14 from the kernels; 2.4e-9 where scalar and SIMD hue differ by 360° and
        // the f64 reference map itself steps over the IEC sRGB knee (the published constants leave
        // a 2.4e-9 discontinuity at 0.04045)
        1.0e-7
    }
}

/// Input class of the one known defect of this sub-check: every f32 vector conversion that
/// starts with Lab -> Xyz (sources Lab and Lch) multiplies by `T::from_f64(116.0).recip()` etc.
/// (xyz.rs:323-325) and `Recip for f32x4/f32x8` (num/wide.rs) is the hardware's 12-bit
/// reciprocal *estimate*.
pub fn simd_class<V: Vect>(ka: &Kind) -> &'static str {
    if <V::S as Fl>::NAME == "f32" && matches!(ka, Kind::Lab(_) | Kind::Lch(_)) {
        "@via-lab-to-xyz"
    } else {
        ""
    }
}

fn representable(ka: &Kind, kb: &Kind, v64: V3) -> bool {
    let xyz_ref = ka.to_xyz(v64);
    pv::colorkind::plausible(xyz_ref) && (ka.can_represent(xyz_ref, 1e-7) || ka.is_luma()) && (kb.can_represent(xyz_ref, 1e-7) || kb.is_luma())
}

pub fn check_vs_scalar_case<V: Vect>(gv: &Graph<V>, gs: &Graph<V::S>, a: usize, b: usize, v: [V::S; 3], c: &mut Collector, cnt: &mut [u64; 3], verbose: bool) -> Option<f64> {
    let (ka, kb) = (gv.nodes[a].kind, gv.nodes[b].kind);
    let Some(fv) = gv.unc[a][b] else { return None };
    let Some(fs) = gs.unc[a][b] else { return None };
    if !representable(&ka, &kb, to64(v)) {
        return None;
    }
    cnt[0] += 1;
    let sig = |cls: &str| format!("C17/simd-vs-scalar/{}/{}->{}/{}", V::NAME, gv.nodes[a].name, gv.nodes[b].name, cls);
    let mk = |obs: Value, exp: Value| json!({"sub": "simd-vs-scalar", "vec": V::NAME, "path": [gv.nodes[a].name, gv.nodes[b].name], "x": hex3(v), "input": to64(v), "observed": obs, "expected": exp});
    let rv = splat_ref::<V>(fv, v);
    let rs = pv::catch(|| fs(v));
    cnt[1] += 2;
    match (rv, rs) {
        (Err(m1), Err(_)) => {
            let _ = m1;
            None
        }
        (Err(msg), Ok(_)) => {
            c.violation(&sig("panic"), 1.0, || mk(json!({"panic": msg}), json!("no panic")));
            None
        }
        (Ok(_), Err(msg)) => {
            c.violation(&sig("scalar-panic"), 1.0, || mk(json!("no panic"), json!({"panic": msg})));
            None
        }
        (Ok(rv), Ok(rs)) => {
            // worst lane (they are all the same unless lane-mix reports splat-not-uniform)
            let mut e = 0.0f64;
            for j in 0..V::N {
                let ej = xyz_err(&kb, rv[j], rs);
                if !(ej <= e) {
                    e = ej;
                }
            }
            cnt[2] += 1;
            let t = tol_simd::<V>();
            if verbose {
                println!("  {} {:?} -> {}: simd {:?} scalar {:?} dxyz {:e} (tol {:e})", gv.nodes[a].name, to64(v), gv.nodes[b].name, to64(rv[0]), to64(rs), e, t);
            }
            let cls = simd_class::<V>(&ka);
            if e <= t {
                if cls.is_empty() {
                    c.ratio(&format!("simd-vs-scalar/{}", V::NAME), e / t, || mk(json!({"simd": to64(rv[0]), "dxyz": e}), json!({"scalar": to64(rs)})));
                }
            } else {
                c.violation(&sig(&format!("{}{}", kind_of_err(e), cls)), e, || mk(json!({"simd_lane0": to64(rv[0]), "bits": hex3(rv[0]), "dxyz": pv::report::fnum(e)}), json!({"scalar": to64(rs), "bits": hex3(rs), "tol": t})));
            }
            c.outcome(hash3(rv[0]));
            Some(e)
        }
    }
}

pub fn run_vs_scalar<V: Vect>(ctx: &Ctx, gv: &Graph<V>, gs: &Graph<V::S>, total: &mut Collector) {
    let sub = format!("simd-vs-scalar/{}", V::NAME);
    if !ctx.wants(&sub) {
        return;
    }
    let grid = ctx.tier.pick(9, 17);
    let n = gv.n();
    let has_edge: Vec<bool> = (0..n).map(|a| (0..n).any(|b| b != a && gv.unc[a][b].is_some())).collect();
    let vals: Vec<Vec<[V::S; 3]>> = (0..n).map(|a| if has_edge[a] { lat::values_with_thresholds::<V::S>(gv.nodes[a].kind, grid) } else { vec![] }).collect();
    let mut items = vec![];
    for a in 0..n {
        let per = 128;
        let mut i = 0;
        while i < vals[a].len() {
            items.push((a, i, (i + per).min(vals[a].len())));
            i += per;
        }
    }
    let (items_r, vals_r) = (&items, &vals);
    let cc = pv::par::run_chunks(items.len(), |ci, c| {
        let (a, lo, hi) = items_r[ci];
        let mut cnt = [0u64; 3];
        let mut states = 0;
        for i in lo..hi {
            let v = vals_r[a][i];
            let before = cnt[0];
            for b in 0..n {
                if b != a {
                    check_vs_scalar_case(gv, gs, a, b, v, c, &mut cnt, false);
                }
            }
            if cnt[0] > before {
                states += 1;
            }
            if i % 16 == 0 {
                c.sample(pv::splitmix((ci as u64) << 20 | i as u64 | 1 << 60), || json!({"sub": sub, "node": gv.nodes[a].name, "value": to64(v)}));
            }
        }
        c.add(&sub, states, cnt[1], cnt[2], states);
    });
    total.merge(cc);
    total.exhaustive(
        &sub,
        true,
        &format!("{} discovered non-identity edges of the {} graph x every dense lattice value ∪ branch-covering pair-lattice point ∪ {}^3 sRGB-grid image of the source node that source and target can represent ({} values over all source nodes); every lane of f(splat(x)) vs the scalar {} conversion", (0..n).map(|a| (0..n).filter(|&b| b != a && gv.unc[a][b].is_some()).count()).sum::<usize>(), V::NAME, grid, vals.iter().map(|v| v.len()).sum::<usize>(), <V::S as Fl>::NAME),
    );
}

// ---------------------------------------------------------------------------------------
// (3) scalar f32 vs scalar f64

/// c02's tolerances on ‖ΔXYZ‖∞ for f32 results (the f64 side is two orders more accurate)
pub fn tol_f32(ka: &Kind, kb: &Kind) -> f64 {
    if ka.is_ok_cyl() || kb.is_ok_cyl() {
        1.0e-3
    } else {
        1.0e-4
    }
}
/// the input classes of the known Okhsl/Okhsv/Okhwb defects (c02::input_class)
pub fn input_class(ka: &Kind, kb: &Kind, xyz_ref: V3) -> &'static str {
    if ka.is_ok_cyl() || kb.is_ok_cyl() {
        if pv::colorkind::on_ok_blue_cusp(xyz_ref) {
            return "@ok-blue-cusp";
        }
        if pv::colorkind::oklab_hcl(xyz_ref).2 >= 0.95 {
            return "@okcyl-near-white";
        }
    }
    ""
}

pub fn check_f32_f64_case(g32: &Graph<f32>, g64: &Graph<f64>, a: usize, b: usize, v: [f32; 3], c: &mut Collector, cnt: &mut [u64; 3], verbose: bool) {
    let (ka, kb) = (g32.nodes[a].kind, g32.nodes[b].kind);
    let (Some(f32e), Some(f64e)) = (g32.unc[a][b], g64.unc[a][b]) else { return };
    let v64: V3 = to64(v); // exact widening: both widths convert the same colour
    if !representable(&ka, &kb, v64) {
        return;
    }
    let xyz_ref = ka.to_xyz(v64);
    cnt[0] += 1;
    cnt[1] += 2;
    let sig = |cls: &str| format!("C17/f32-vs-f64/{}->{}/{}", g32.nodes[a].name, g32.nodes[b].name, cls);
    let mk = |obs: Value, exp: Value| json!({"sub": "f32-vs-f64", "path": [g32.nodes[a].name, g32.nodes[b].name], "x": hex3(v), "input": v64, "observed": obs, "expected": exp});
    match (pv::catch(|| f32e(v)), pv::catch(|| f64e(v64))) {
        (Ok(r32), Ok(r64)) => {
            let r32w: V3 = to64(r32);
            let e = if kb.is_luma() { (kb.to_xyz(r32w)[1] - kb.to_xyz(r64)[1]).abs() } else { max_abs_diff(kb.to_xyz(r32w), kb.to_xyz(r64)) };
            cnt[2] += 1;
            let t = tol_f32(&ka, &kb);
            if verbose {
                println!("  {} {:?} -> {}: f32 {:?} f64 {:?} dxyz {:e} (tol {:e})", g32.nodes[a].name, v64, g32.nodes[b].name, r32w, r64, e, t);
            }
            let icls = input_class(&ka, &kb, xyz_ref);
            if e <= t {
                // inputs of the known-defect classes do not count towards the recorded slack
                if icls.is_empty() {
                    c.ratio("f32-vs-f64", e / t, || mk(json!({"f32": r32w, "dxyz": e}), json!({"f64": r64})));
                }
            } else {
                let cls = format!("{}{}", kind_of_err(e), icls);
                c.violation(&sig(&cls), e, || mk(json!({"f32": r32w, "bits": hex3(r32), "dxyz": pv::report::fnum(e)}), json!({"f64": r64, "tol": t})));
            }
            c.outcome(hash3(r32));
        }
        (Err(_), Err(_)) => {}
        (Err(msg), Ok(_)) => c.violation(&sig("panic-f32"), 1.0, || mk(json!({"panic": msg}), json!("no panic (f64 does not)"))),
        (Ok(_), Err(msg)) => c.violation(&sig("panic-f64"), 1.0, || mk(json!("no panic"), json!({"panic": msg}))),
    }
}

pub fn run_f32_f64(ctx: &Ctx, g32: &Graph<f32>, g64: &Graph<f64>, total: &mut Collector) {
    let sub = "f32-vs-f64";
    if !ctx.wants(sub) {
        return;
    }
    let grid = ctx.tier.pick(9, 17);
    let n = g32.n();
    let vals: Vec<Vec<[f32; 3]>> = (0..n).map(|a| lat::values_with_thresholds::<f32>(g32.nodes[a].kind, grid)).collect();
    let mut items = vec![];
    for a in 0..n {
        let per = 256;
        let mut i = 0;
        while i < vals[a].len() {
            items.push((a, i, (i + per).min(vals[a].len())));
            i += per;
        }
    }
    let (items_r, vals_r) = (&items, &vals);
    let cc = pv::par::run_chunks(items.len(), |ci, c| {
        let (a, lo, hi) = items_r[ci];
        let mut cnt = [0u64; 3];
        let mut states = 0;
        for i in lo..hi {
            let v = vals_r[a][i];
            let before = cnt[0];
            for b in 0..n {
                if b != a {
                    check_f32_f64_case(g32, g64, a, b, v, c, &mut cnt, false);
                }
            }
            if cnt[0] > before {
                states += 1;
            }
            if i % 16 == 0 {
                c.sample(pv::splitmix((ci as u64) << 20 | i as u64 | 2 << 60), || json!({"sub": sub, "node": g32.nodes[a].name, "value": to64(v)}));
            }
        }
        c.add(sub, states, cnt[1], cnt[2], states);
    });
    total.merge(cc);
    total.exhaustive(sub, true, &format!("{} nodes, {} discovered scalar edges (f32 and f64 graphs have the same edge set, asserted) x every f32-representable dense lattice value ∪ branch-covering pair-lattice point ∪ {}^3 sRGB-grid image of the source node that source and target can represent ({} values)", n, g32.edge_count(), grid, vals.iter().map(|v| v.len()).sum::<usize>()));
}

/// hidden calibration helper (`--only calib`): per-edge maximum of the SIMD-vs-scalar deviation
pub fn calib<V: Vect>(gv: &Graph<V>, gs: &Graph<V::S>) {
    let n = gv.n();
    let rows: Vec<Vec<(f64, usize, usize, V3)>> = pv::par::map_chunks(n, |a| {
        let mut out = vec![];
        let vals = lat::values_with_thresholds::<V::S>(gv.nodes[a].kind, 9);
        for b in 0..n {
            if a == b {
                continue;
            }
            let mut m = -1.0f64;
            let mut worst: V3 = [0.0; 3];
            let mut c = Collector::new();
            let mut cnt = [0u64; 3];
            for &v in &vals {
                if let Some(e) = check_vs_scalar_case(gv, gs, a, b, v, &mut c, &mut cnt, false) {
                    if !(e <= m) {
                        m = e;
                        worst = to64(v);
                    }
                }
            }
            if m >= 0.0 || m.is_nan() {
                out.push((m, a, b, worst));
            }
        }
        out
    });
    let skip = std::env::var("C17_CALIB_SKIP").unwrap_or_default();
    let mut all: Vec<(f64, usize, usize, V3)> = rows.into_iter().flatten().filter(|e| skip.is_empty() || !skip.split(',').any(|s| s == gv.nodes[e.1].name)).collect();
    all.sort_by(|x, y| y.0.partial_cmp(&x.0).unwrap_or(core::cmp::Ordering::Equal));
    println!("calib {}: {} edges; zero-deviation edges: {}", V::NAME, all.len(), all.iter().filter(|e| e.0 == 0.0).count());
    for (m, a, b, w) in all.iter().take(40) {
        println!("  {:e}  {} -> {}   at {:?}", m, gv.nodes[*a].name, gv.nodes[*b].name, w);
    }
}
