//! Transfer functions (OETF / inverse) of the RGB standards, closed forms in f64.
//! IEC 61966-2-1 (sRGB), ITU-R BT.709/BT.2020, Adobe RGB (1998), SMPTE RP 431-2 (2.6 gamma),
//! ROMM RGB / ProPhoto (ISO 22028-2).

#[derive(Clone, Copy, Debug, PartialEq, Eq)]
pub enum Tf {
    Linear,
    Srgb,
    RecOetf,
    Adobe,
    P3Gamma,
    ProPhoto,
    /// palette's `GammaFn<F2p2>` as documented: "encoded using V^γ", γ = 2.2 (no published standard)
    Gamma22,
}

pub const REC_BETA: f64 = 0.018053968510807;
pub const REC_ALPHA: f64 = 1.09929682680944;

impl Tf {
    pub fn name(self) -> &'static str {
        match self {
            Tf::Linear => "Linear",
            Tf::Srgb => "Srgb",
            Tf::RecOetf => "RecOetf",
            Tf::Adobe => "AdobeRgb",
            Tf::P3Gamma => "P3Gamma",
            Tf::ProPhoto => "ProPhotoRgb",
            Tf::Gamma22 => "GammaFn<F2p2>",
        }
    }
    /// linear -> encoded
    pub fn encode(self, x: f64) -> f64 {
        match self {
            Tf::Linear => x,
            Tf::Srgb => {
                if x <= 0.0031308 {
                    12.92 * x
                } else {
                    1.055 * x.powf(1.0 / 2.4) - 0.055
                }
            }
            Tf::RecOetf => {
                if x < REC_BETA {
                    4.5 * x
                } else {
                    REC_ALPHA * x.powf(0.45) - (REC_ALPHA - 1.0)
                }
            }
            // pure power laws are extended to negative values by odd symmetry (as CSS Color 4 does)
            Tf::Adobe => x.abs().powf(256.0 / 563.0).copysign(x),
            Tf::P3Gamma => x.abs().powf(1.0 / 2.6).copysign(x),
            Tf::Gamma22 => x.powf(2.2),
            Tf::ProPhoto => {
                if x < 1.0 / 512.0 {
                    16.0 * x
                } else {
                    x.powf(1.0 / 1.8)
                }
            }
        }
    }
    /// encoded -> linear
    pub fn decode(self, y: f64) -> f64 {
        match self {
            Tf::Linear => y,
            Tf::Srgb => {
                if y <= 0.04045 {
                    y / 12.92
                } else {
                    ((y + 0.055) / 1.055).powf(2.4)
                }
            }
            Tf::RecOetf => {
                if y < 4.5 * REC_BETA {
                    y / 4.5
                } else {
                    ((y + (REC_ALPHA - 1.0)) / REC_ALPHA).powf(1.0 / 0.45)
                }
            }
            Tf::Adobe => y.abs().powf(563.0 / 256.0).copysign(y),
            Tf::P3Gamma => y.abs().powf(2.6).copysign(y),
            Tf::Gamma22 => y.powf(1.0 / 2.2),
            Tf::ProPhoto => {
                if y < 1.0 / 32.0 {
                    y / 16.0
                } else {
                    y.powf(1.8)
                }
            }
        }
    }
    /// The knee (in linear light) where the segments meet, if any.
    pub fn knee_linear(self) -> Option<f64> {
        match self {
            Tf::Srgb => Some(0.0031308),
            Tf::RecOetf => Some(REC_BETA),
            Tf::ProPhoto => Some(1.0 / 512.0),
            _ => None,
        }
    }
    pub fn knee_encoded(self) -> Option<f64> {
        match self {
            Tf::Srgb => Some(0.04045),
            Tf::RecOetf => Some(4.5 * REC_BETA),
            Tf::ProPhoto => Some(1.0 / 32.0),
            _ => None,
        }
    }
}
