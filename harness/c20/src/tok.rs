//! TokenFormat: a serde format owned by the harness.
//!
//! * `TSer` records the exact sequence of serde data-model calls as a `Vec<Tok>`.
//! * `TDe` replays a token list the ways real formats do:
//!   - `StructAs::Map`   self-describing, structs delivered through `visit_map` (JSON/RON-like);
//!     keys can be delivered as str / borrowed str / String / bytes / u64 index (packed-CBOR-like);
//!   - `StructAs::Seq`   self-describing, structs delivered through `visit_seq`, the length is
//!     given by the data (MessagePack/CBOR-array/JSON-array-like);
//!   - `StructAs::Fixed` not self-describing, strictly typed, structs and tuples are delivered
//!     through `visit_seq` with exactly the number of elements the `Deserialize` impl asked for
//!     (bincode/postcard-like).
//! * `Node` replays a token list into any other `Serializer` (used to render permuted /
//!   mutated inputs as JSON and RON text).
use serde::de::{self, DeserializeSeed, Visitor};
use serde::ser::{self, Serialize};
use std::fmt;

#[derive(Clone, Debug, PartialEq)]
pub enum Tok {
    Bool(bool),
    I8(i8),
    I16(i16),
    I32(i32),
    I64(i64),
    I128(i128),
    U8(u8),
    U16(u16),
    U32(u32),
    U64(u64),
    U128(u128),
    F32(u32),
    F64(u64),
    Char(char),
    Str(String),
    Bytes(Vec<u8>),
    None,
    Some,
    Unit,
    UnitStruct(&'static str),
    NewtypeStruct(&'static str),
    UnitVariant(&'static str, &'static str),
    NewtypeVariant(&'static str, &'static str),
    Seq(Option<usize>),
    SeqEnd,
    Tuple(usize),
    TupleEnd,
    TupleStruct(&'static str, usize),
    TupleStructEnd,
    TupleVariant(&'static str, &'static str, usize),
    TupleVariantEnd,
    Map(Option<usize>),
    MapEnd,
    Struct(&'static str, usize),
    StructEnd,
    StructVariant(&'static str, &'static str, usize),
    StructVariantEnd,
    /// struct field key + running index among the emitted fields
    Field(&'static str, u32),
    SkipField(&'static str),
}

impl fmt::Display for Tok {
    fn fmt(&self, f: &mut fmt::Formatter) -> fmt::Result {
        match self {
            Tok::F32(b) => write!(f, "f32:{:?}", f32::from_bits(*b)),
            Tok::F64(b) => write!(f, "f64:{:?}", f64::from_bits(*b)),
            Tok::Field(n, i) => write!(f, "{n}#{i}:"),
            Tok::Struct(n, l) => write!(f, "struct {n}/{l} {{"),
            Tok::StructEnd => write!(f, "}}"),
            Tok::TupleStruct(n, l) => write!(f, "tstruct {n}/{l} ("),
            Tok::TupleStructEnd | Tok::TupleEnd => write!(f, ")"),
            Tok::Tuple(l) => write!(f, "tuple/{l} ("),
            Tok::NewtypeStruct(n) => write!(f, "newtype {n}"),
            Tok::UnitStruct(n) => write!(f, "unit-struct {n}"),
            Tok::Seq(l) => write!(f, "seq/{l:?} ["),
            Tok::SeqEnd => write!(f, "]"),
            Tok::Map(l) => write!(f, "map/{l:?} {{"),
            Tok::MapEnd => write!(f, "}}"),
            other => write!(f, "{other:?}"),
        }
    }
}

pub fn show(toks: &[Tok]) -> String {
    toks.iter().map(|t| t.to_string()).collect::<Vec<_>>().join(" ")
}

#[derive(Debug, Clone)]
pub struct TErr(pub String);
impl fmt::Display for TErr {
    fn fmt(&self, f: &mut fmt::Formatter) -> fmt::Result {
        f.write_str(&self.0)
    }
}
impl std::error::Error for TErr {}
impl ser::Error for TErr {
    fn custom<T: fmt::Display>(m: T) -> Self {
        TErr(m.to_string())
    }
}
impl de::Error for TErr {
    fn custom<T: fmt::Display>(m: T) -> Self {
        TErr(m.to_string())
    }
}

// ---------------------------------------------------------------------------------------
// serializer

pub struct TSer<'a> {
    pub out: &'a mut Vec<Tok>,
    pub hr: bool,
}
pub struct TComp<'a> {
    out: &'a mut Vec<Tok>,
    hr: bool,
    end: Tok,
    idx: u32,
}

pub fn to_toks<T: Serialize + ?Sized>(x: &T, hr: bool) -> Result<Vec<Tok>, TErr> {
    let mut out = vec![];
    x.serialize(TSer { out: &mut out, hr })?;
    Ok(out)
}

macro_rules! ser_prim {
    ($($f:ident $t:ty => $e:expr;)*) => {$(
        fn $f(self, v: $t) -> Result<(), TErr> { self.out.push(($e)(v)); Ok(()) }
    )*};
}

impl<'a> TSer<'a> {
    fn comp(self, start: Tok, end: Tok) -> Result<TComp<'a>, TErr> {
        self.out.push(start);
        Ok(TComp { out: self.out, hr: self.hr, end, idx: 0 })
    }
}

impl<'a> ser::Serializer for TSer<'a> {
    type Ok = ();
    type Error = TErr;
    type SerializeSeq = TComp<'a>;
    type SerializeTuple = TComp<'a>;
    type SerializeTupleStruct = TComp<'a>;
    type SerializeTupleVariant = TComp<'a>;
    type SerializeMap = TComp<'a>;
    type SerializeStruct = TComp<'a>;
    type SerializeStructVariant = TComp<'a>;
    ser_prim! {
        serialize_bool bool => Tok::Bool;
        serialize_i8 i8 => Tok::I8;
        serialize_i16 i16 => Tok::I16;
        serialize_i32 i32 => Tok::I32;
        serialize_i64 i64 => Tok::I64;
        serialize_i128 i128 => Tok::I128;
        serialize_u8 u8 => Tok::U8;
        serialize_u16 u16 => Tok::U16;
        serialize_u32 u32 => Tok::U32;
        serialize_u64 u64 => Tok::U64;
        serialize_u128 u128 => Tok::U128;
        serialize_f32 f32 => |v: f32| Tok::F32(v.to_bits());
        serialize_f64 f64 => |v: f64| Tok::F64(v.to_bits());
        serialize_char char => Tok::Char;
        serialize_str &str => |v: &str| Tok::Str(v.to_string());
        serialize_bytes &[u8] => |v: &[u8]| Tok::Bytes(v.to_vec());
    }
    fn serialize_none(self) -> Result<(), TErr> {
        self.out.push(Tok::None);
        Ok(())
    }
    fn serialize_some<T: Serialize + ?Sized>(self, v: &T) -> Result<(), TErr> {
        self.out.push(Tok::Some);
        v.serialize(self)
    }
    fn serialize_unit(self) -> Result<(), TErr> {
        self.out.push(Tok::Unit);
        Ok(())
    }
    fn serialize_unit_struct(self, name: &'static str) -> Result<(), TErr> {
        self.out.push(Tok::UnitStruct(name));
        Ok(())
    }
    fn serialize_unit_variant(self, name: &'static str, _i: u32, variant: &'static str) -> Result<(), TErr> {
        self.out.push(Tok::UnitVariant(name, variant));
        Ok(())
    }
    fn serialize_newtype_struct<T: Serialize + ?Sized>(self, name: &'static str, v: &T) -> Result<(), TErr> {
        self.out.push(Tok::NewtypeStruct(name));
        v.serialize(self)
    }
    fn serialize_newtype_variant<T: Serialize + ?Sized>(self, name: &'static str, _i: u32, variant: &'static str, v: &T) -> Result<(), TErr> {
        self.out.push(Tok::NewtypeVariant(name, variant));
        v.serialize(self)
    }
    fn serialize_seq(self, len: Option<usize>) -> Result<TComp<'a>, TErr> {
        self.comp(Tok::Seq(len), Tok::SeqEnd)
    }
    fn serialize_tuple(self, len: usize) -> Result<TComp<'a>, TErr> {
        self.comp(Tok::Tuple(len), Tok::TupleEnd)
    }
    fn serialize_tuple_struct(self, name: &'static str, len: usize) -> Result<TComp<'a>, TErr> {
        self.comp(Tok::TupleStruct(name, len), Tok::TupleStructEnd)
    }
    fn serialize_tuple_variant(self, name: &'static str, _i: u32, variant: &'static str, len: usize) -> Result<TComp<'a>, TErr> {
        self.comp(Tok::TupleVariant(name, variant, len), Tok::TupleVariantEnd)
    }
    fn serialize_map(self, len: Option<usize>) -> Result<TComp<'a>, TErr> {
        self.comp(Tok::Map(len), Tok::MapEnd)
    }
    fn serialize_struct(self, name: &'static str, len: usize) -> Result<TComp<'a>, TErr> {
        self.comp(Tok::Struct(name, len), Tok::StructEnd)
    }
    fn serialize_struct_variant(self, name: &'static str, _i: u32, variant: &'static str, len: usize) -> Result<TComp<'a>, TErr> {
        self.comp(Tok::StructVariant(name, variant, len), Tok::StructVariantEnd)
    }
    fn is_human_readable(&self) -> bool {
        self.hr
    }
}

impl<'a> TComp<'a> {
    fn value<T: Serialize + ?Sized>(&mut self, v: &T) -> Result<(), TErr> {
        v.serialize(TSer { out: &mut *self.out, hr: self.hr })
    }
    fn finish(self) -> Result<(), TErr> {
        self.out.push(self.end);
        Ok(())
    }
}
macro_rules! comp_elems {
    ($tr:ident, $m:ident) => {
        impl<'a> ser::$tr for TComp<'a> {
            type Ok = ();
            type Error = TErr;
            fn $m<T: Serialize + ?Sized>(&mut self, v: &T) -> Result<(), TErr> {
                self.value(v)
            }
            fn end(self) -> Result<(), TErr> {
                self.finish()
            }
        }
    };
}
comp_elems!(SerializeSeq, serialize_element);
comp_elems!(SerializeTuple, serialize_element);
comp_elems!(SerializeTupleStruct, serialize_field);
comp_elems!(SerializeTupleVariant, serialize_field);
impl<'a> ser::SerializeMap for TComp<'a> {
    type Ok = ();
    type Error = TErr;
    fn serialize_key<T: Serialize + ?Sized>(&mut self, k: &T) -> Result<(), TErr> {
        self.value(k)
    }
    fn serialize_value<T: Serialize + ?Sized>(&mut self, v: &T) -> Result<(), TErr> {
        self.value(v)
    }
    fn end(self) -> Result<(), TErr> {
        self.finish()
    }
}
macro_rules! comp_fields {
    ($tr:ident) => {
        impl<'a> ser::$tr for TComp<'a> {
            type Ok = ();
            type Error = TErr;
            fn serialize_field<T: Serialize + ?Sized>(&mut self, key: &'static str, v: &T) -> Result<(), TErr> {
                self.out.push(Tok::Field(key, self.idx));
                self.idx += 1;
                self.value(v)
            }
            fn skip_field(&mut self, key: &'static str) -> Result<(), TErr> {
                self.out.push(Tok::SkipField(key));
                Ok(())
            }
            fn end(self) -> Result<(), TErr> {
                self.finish()
            }
        }
    };
}
comp_fields!(SerializeStruct);
comp_fields!(SerializeStructVariant);

// ---------------------------------------------------------------------------------------
// token-list utilities

fn is_end(t: &Tok) -> bool {
    matches!(t, Tok::SeqEnd | Tok::TupleEnd | Tok::TupleStructEnd | Tok::TupleVariantEnd | Tok::MapEnd | Tok::StructEnd | Tok::StructVariantEnd)
}

/// index just after the complete value that starts at `i` (panics on a malformed list:
/// token lists only ever come from `TSer` or from the harness' own generators).
pub fn skip_value(t: &[Tok], i: usize) -> usize {
    match &t[i] {
        Tok::Some | Tok::NewtypeStruct(_) | Tok::NewtypeVariant(..) => skip_value(t, i + 1),
        Tok::Seq(_) | Tok::Tuple(_) | Tok::TupleStruct(..) | Tok::TupleVariant(..) | Tok::Map(_) => {
            let mut j = i + 1;
            while !is_end(&t[j]) {
                j = skip_value(t, j);
            }
            j + 1
        }
        Tok::Struct(..) | Tok::StructVariant(..) => {
            let mut j = i + 1;
            loop {
                match &t[j] {
                    Tok::SkipField(_) => j += 1,
                    Tok::Field(..) => j = skip_value(t, j + 1),
                    x if is_end(x) => return j + 1,
                    x => panic!("malformed token list: {x:?} inside a struct"),
                }
            }
        }
        x if is_end(x) => panic!("malformed token list: value starts with {x:?}"),
        Tok::Field(..) | Tok::SkipField(_) => panic!("malformed token list: value starts with a field key"),
        _ => i + 1,
    }
}

/// Top-level struct split into (name, len, entries); an entry is (key, index, value tokens).
pub fn struct_entries(t: &[Tok]) -> Option<(&'static str, usize, Vec<(&'static str, u32, Vec<Tok>)>)> {
    let (name, len) = match t.first()? {
        Tok::Struct(n, l) => (*n, *l),
        _ => return None,
    };
    let mut out = vec![];
    let mut j = 1;
    loop {
        match &t[j] {
            Tok::StructEnd => break,
            Tok::SkipField(_) => j += 1,
            Tok::Field(k, i) => {
                let e = skip_value(t, j + 1);
                out.push((*k, *i, t[j + 1..e].to_vec()));
                j = e;
            }
            _ => return None,
        }
    }
    Some((name, len, out))
}

/// intern a map key so that it can be used where serde wants `&'static str` (a handful of
/// distinct keys exist in the whole run)
pub fn intern(s: &str) -> &'static str {
    static KEYS: std::sync::Mutex<Vec<&'static str>> = std::sync::Mutex::new(Vec::new());
    let mut g = KEYS.lock().unwrap();
    if let Some(k) = g.iter().find(|k| **k == s) {
        return k;
    }
    let k: &'static str = Box::leak(s.to_string().into_boxed_str());
    g.push(k);
    k
}

/// the top-level container of named entries: a struct, or a map with string keys
/// (what `#[serde(flatten)]` produces)
#[derive(Clone, Copy, Debug, PartialEq)]
pub enum Top {
    Struct(&'static str),
    Map,
}

pub fn top_entries(t: &[Tok]) -> Option<(Top, Vec<(&'static str, u32, Vec<Tok>)>)> {
    match t.first()? {
        Tok::Struct(..) => struct_entries(t).map(|(n, _, e)| (Top::Struct(n), e)),
        Tok::Map(_) => {
            let mut out = vec![];
            let mut j = 1;
            while t[j] != Tok::MapEnd {
                let Tok::Str(k) = &t[j] else { return None };
                let e = skip_value(t, j + 1);
                out.push((intern(k), out.len() as u32, t[j + 1..e].to_vec()));
                j = e;
            }
            Some((Top::Map, out))
        }
        _ => None,
    }
}

pub fn build_top(top: Top, entries: &[(&'static str, u32, Vec<Tok>)]) -> Vec<Tok> {
    match top {
        Top::Struct(name) => build_struct(name, entries),
        Top::Map => {
            let mut t = vec![Tok::Map(Some(entries.len()))];
            for (k, _, v) in entries {
                t.push(Tok::Str(k.to_string()));
                t.extend(v.iter().cloned());
            }
            t.push(Tok::MapEnd);
            t
        }
    }
}

pub fn build_struct(name: &'static str, entries: &[(&'static str, u32, Vec<Tok>)]) -> Vec<Tok> {
    let mut t = vec![Tok::Struct(name, entries.len())];
    for (k, i, v) in entries {
        t.push(Tok::Field(k, *i));
        t.extend(v.iter().cloned());
    }
    t.push(Tok::StructEnd);
    t
}

/// every struct becomes a tuple of its field values (the "array form" of text formats)
pub fn structs_to_tuples(t: &[Tok]) -> Vec<Tok> {
    // struct lengths must be recomputed: count fields per struct
    fn go(t: &[Tok], i: usize, out: &mut Vec<Tok>) -> usize {
        match &t[i] {
            Tok::Struct(..) => {
                let at = out.len();
                out.push(Tok::Tuple(0));
                let mut n = 0;
                let mut j = i + 1;
                loop {
                    match &t[j] {
                        Tok::SkipField(_) => j += 1,
                        Tok::Field(..) => {
                            j = go(t, j + 1, out);
                            n += 1;
                        }
                        _ => break,
                    }
                }
                out[at] = Tok::Tuple(n);
                out.push(Tok::TupleEnd);
                j + 1
            }
            Tok::Some | Tok::NewtypeStruct(_) | Tok::NewtypeVariant(..) => {
                out.push(t[i].clone());
                go(t, i + 1, out)
            }
            Tok::Seq(_) | Tok::Tuple(_) | Tok::TupleStruct(..) | Tok::TupleVariant(..) | Tok::Map(_) | Tok::StructVariant(..) => {
                out.push(t[i].clone());
                let mut j = i + 1;
                while !is_end(&t[j]) {
                    if let Tok::Field(..) | Tok::SkipField(_) = &t[j] {
                        out.push(t[j].clone());
                        j += 1;
                        continue;
                    }
                    j = go(t, j, out);
                }
                out.push(t[j].clone());
                j + 1
            }
            x => {
                out.push(x.clone());
                i + 1
            }
        }
    }
    let mut out = vec![];
    let mut i = 0;
    while i < t.len() {
        i = go(t, i, &mut out);
    }
    out
}

/// The documented rule of `AlphaSerializer`: the alpha value is added alongside the colour's
/// own values, at the same level. `None` = the colour's shape is one the serializer declares
/// unsupported (primitives, options, enums).
pub fn alpha_rule(ct: &[Tok], at: &[Tok]) -> Option<Vec<Tok>> {
    let n = ct.len();
    let mut out: Vec<Tok> = vec![];
    match ct.first()? {
        Tok::Struct(name, len) => {
            let (_, _, entries) = struct_entries(ct)?;
            out.push(Tok::Struct(name, len + 1));
            out.extend(ct[1..n - 1].iter().cloned());
            out.push(Tok::Field("alpha", entries.len() as u32));
            out.extend(at.iter().cloned());
            out.push(Tok::StructEnd);
        }
        Tok::TupleStruct(name, len) => {
            out.push(Tok::TupleStruct(name, len + 1));
            out.extend(ct[1..n - 1].iter().cloned());
            out.extend(at.iter().cloned());
            out.push(Tok::TupleStructEnd);
        }
        Tok::NewtypeStruct(name) => {
            out.push(Tok::TupleStruct(name, 2));
            out.extend(ct[1..].iter().cloned());
            out.extend(at.iter().cloned());
            out.push(Tok::TupleStructEnd);
        }
        Tok::UnitStruct(name) => {
            out.push(Tok::NewtypeStruct(name));
            out.extend(at.iter().cloned());
        }
        Tok::Unit => {
            out.push(Tok::Tuple(1));
            out.extend(at.iter().cloned());
            out.push(Tok::TupleEnd);
        }
        Tok::Tuple(len) => {
            out.push(Tok::Tuple(len + 1));
            out.extend(ct[1..n - 1].iter().cloned());
            out.extend(at.iter().cloned());
            out.push(Tok::TupleEnd);
        }
        Tok::Seq(len) => {
            out.push(Tok::Seq(len.map(|l| l + 1)));
            out.extend(ct[1..n - 1].iter().cloned());
            out.extend(at.iter().cloned());
            out.push(Tok::SeqEnd);
        }
        Tok::Map(len) => {
            out.push(Tok::Map(len.map(|l| l + 1)));
            out.extend(ct[1..n - 1].iter().cloned());
            out.push(Tok::Str("alpha".into()));
            out.extend(at.iter().cloned());
            out.push(Tok::MapEnd);
        }
        _ => return None,
    }
    Some(out)
}

/// remove the (insignificant) newtype wrapper of hue types: `newtype RgbHue, f32` -> `f32`
pub fn strip_hue_newtypes(t: &[Tok]) -> Vec<Tok> {
    t.iter().filter(|x| !matches!(x, Tok::NewtypeStruct(n) if n.ends_with("Hue"))).cloned().collect()
}

// ---------------------------------------------------------------------------------------
// replay of a token list into any serializer

pub struct Node<'a>(pub &'a [Tok], pub usize);

impl<'a> Serialize for Node<'a> {
    fn serialize<S: ser::Serializer>(&self, s: S) -> Result<S::Ok, S::Error> {
        use ser::{SerializeMap, SerializeSeq, SerializeStruct, SerializeTuple, SerializeTupleStruct};
        let t = self.0;
        let i = self.1;
        match &t[i] {
            Tok::Bool(v) => s.serialize_bool(*v),
            Tok::I8(v) => s.serialize_i8(*v),
            Tok::I16(v) => s.serialize_i16(*v),
            Tok::I32(v) => s.serialize_i32(*v),
            Tok::I64(v) => s.serialize_i64(*v),
            Tok::I128(v) => s.serialize_i128(*v),
            Tok::U8(v) => s.serialize_u8(*v),
            Tok::U16(v) => s.serialize_u16(*v),
            Tok::U32(v) => s.serialize_u32(*v),
            Tok::U64(v) => s.serialize_u64(*v),
            Tok::U128(v) => s.serialize_u128(*v),
            Tok::F32(v) => s.serialize_f32(f32::from_bits(*v)),
            Tok::F64(v) => s.serialize_f64(f64::from_bits(*v)),
            Tok::Char(v) => s.serialize_char(*v),
            Tok::Str(v) => s.serialize_str(v),
            Tok::Bytes(v) => s.serialize_bytes(v),
            Tok::None => s.serialize_none(),
            Tok::Some => s.serialize_some(&Node(t, i + 1)),
            Tok::Unit => s.serialize_unit(),
            Tok::UnitStruct(n) => s.serialize_unit_struct(n),
            Tok::NewtypeStruct(n) => s.serialize_newtype_struct(n, &Node(t, i + 1)),
            Tok::Seq(len) => {
                let mut q = s.serialize_seq(*len)?;
                let mut j = i + 1;
                while t[j] != Tok::SeqEnd {
                    q.serialize_element(&Node(t, j))?;
                    j = skip_value(t, j);
                }
                q.end()
            }
            Tok::Tuple(len) => {
                let mut q = s.serialize_tuple(*len)?;
                let mut j = i + 1;
                while t[j] != Tok::TupleEnd {
                    q.serialize_element(&Node(t, j))?;
                    j = skip_value(t, j);
                }
                q.end()
            }
            Tok::TupleStruct(n, len) => {
                let mut q = s.serialize_tuple_struct(n, *len)?;
                let mut j = i + 1;
                while t[j] != Tok::TupleStructEnd {
                    q.serialize_field(&Node(t, j))?;
                    j = skip_value(t, j);
                }
                q.end()
            }
            Tok::Map(len) => {
                let mut q = s.serialize_map(*len)?;
                let mut j = i + 1;
                while t[j] != Tok::MapEnd {
                    q.serialize_key(&Node(t, j))?;
                    j = skip_value(t, j);
                    q.serialize_value(&Node(t, j))?;
                    j = skip_value(t, j);
                }
                q.end()
            }
            Tok::Struct(n, len) => {
                let mut q = s.serialize_struct(n, *len)?;
                let mut j = i + 1;
                loop {
                    match &t[j] {
                        Tok::StructEnd => break,
                        Tok::SkipField(k) => {
                            q.skip_field(k)?;
                            j += 1;
                        }
                        Tok::Field(k, _) => {
                            q.serialize_field(k, &Node(t, j + 1))?;
                            j = skip_value(t, j + 1);
                        }
                        x => return Err(ser::Error::custom(format!("malformed token list: {x:?}"))),
                    }
                }
                q.end()
            }
            x => Err(ser::Error::custom(format!("TokenFormat replay does not support {x:?}"))),
        }
    }
}

// ---------------------------------------------------------------------------------------
// deserializer

#[derive(Clone, Copy, PartialEq, Eq, Hash, Debug)]
pub enum StructAs {
    Map,
    Seq,
    Fixed,
}
#[derive(Clone, Copy, PartialEq, Eq, Hash, Debug)]
pub enum Key {
    Str,
    Borrowed,
    Owned,
    Bytes,
    Index,
}

pub struct TDe<'de> {
    toks: &'de [Tok],
    pos: usize,
    structs: StructAs,
    key: Key,
}

pub fn from_toks<'de, T: de::Deserialize<'de>>(toks: &'de [Tok], structs: StructAs, key: Key) -> Result<T, TErr> {
    let mut d = TDe { toks, pos: 0, structs, key };
    let v = T::deserialize(&mut d)?;
    if d.pos != toks.len() {
        return Err(TErr(format!("trailing data: {} unread token(s) after the value", toks.len() - d.pos)));
    }
    Ok(v)
}

impl<'de> TDe<'de> {
    fn peek(&self) -> Result<&'de Tok, TErr> {
        self.toks.get(self.pos).ok_or_else(|| TErr("unexpected end of data".into()))
    }
    fn next(&mut self) -> Result<&'de Tok, TErr> {
        let t = self.peek()?;
        self.pos += 1;
        Ok(t)
    }
    fn fixed(&self) -> bool {
        self.structs == StructAs::Fixed
    }
    fn mismatch<T>(&self, want: &str, got: &Tok) -> Result<T, TErr> {
        Err(TErr(format!("type mismatch: the reader asked for {want}, the data holds {got}")))
    }
    /// consume the rest of a compound value; unread elements are an error (a real format
    /// would either report trailing data or misread what follows)
    fn finish(&mut self, end: &Tok, in_struct: bool) -> Result<(), TErr> {
        let mut unread = 0;
        loop {
            let t = self.peek()?;
            if t == end {
                self.pos += 1;
                break;
            }
            match t {
                Tok::SkipField(_) | Tok::Field(..) if in_struct => self.pos += 1,
                x if is_end(x) => return Err(TErr(format!("malformed data: {x:?} where {end:?} was expected"))),
                _ => {
                    self.pos = skip_value(self.toks, self.pos);
                    unread += 1;
                }
            }
        }
        if unread > 0 {
            Err(TErr(format!("trailing data: {unread} unread element(s) inside the value")))
        } else {
            Ok(())
        }
    }
    fn seq<V: Visitor<'de>>(&mut self, v: V, end: Tok, limit: Option<usize>, in_struct: bool) -> Result<V::Value, TErr> {
        let r = v.visit_seq(TSeq { de: self, end: end.clone(), remaining: limit, in_struct })?;
        self.finish(&end, in_struct)?;
        Ok(r)
    }
    fn map<V: Visitor<'de>>(&mut self, v: V, end: Tok, in_struct: bool) -> Result<V::Value, TErr> {
        let r = v.visit_map(TMap { de: self, end: end.clone(), in_struct })?;
        self.finish(&end, in_struct)?;
        Ok(r)
    }
    fn end_of(start: &Tok) -> Tok {
        match start {
            Tok::Seq(_) => Tok::SeqEnd,
            Tok::Tuple(_) => Tok::TupleEnd,
            Tok::TupleStruct(..) => Tok::TupleStructEnd,
            Tok::Map(_) => Tok::MapEnd,
            _ => Tok::StructEnd,
        }
    }
    /// fixed-size product in the non-self-describing mode: struct, tuple and tuple struct are
    /// indistinguishable on the wire
    fn fixed_product<V: Visitor<'de>>(&mut self, v: V, len: usize, want: &str) -> Result<V::Value, TErr> {
        let t = self.next()?;
        match t {
            Tok::Struct(..) | Tok::Tuple(_) | Tok::TupleStruct(..) => {
                let in_struct = matches!(t, Tok::Struct(..));
                self.seq(v, Self::end_of(t), Some(len), in_struct)
            }
            other => self.mismatch(want, other),
        }
    }
}

struct TSeq<'a, 'de> {
    de: &'a mut TDe<'de>,
    end: Tok,
    remaining: Option<usize>,
    in_struct: bool,
}
impl<'a, 'de> de::SeqAccess<'de> for TSeq<'a, 'de> {
    type Error = TErr;
    fn next_element_seed<S: DeserializeSeed<'de>>(&mut self, seed: S) -> Result<Option<S::Value>, TErr> {
        if self.remaining == Some(0) {
            return Ok(None);
        }
        loop {
            let t = self.de.peek()?;
            match t {
                Tok::SkipField(_) | Tok::Field(..) if self.in_struct => self.de.pos += 1,
                _ => break,
            }
        }
        if *self.de.peek()? == self.end {
            return match self.remaining {
                // not self-describing: the reader would run past the end of the value
                Some(n) => Err(TErr(format!("data exhausted: the reader wants {n} more element(s) than the data holds"))),
                None => Ok(None),
            };
        }
        if let Some(n) = self.remaining.as_mut() {
            *n -= 1;
        }
        seed.deserialize(&mut *self.de).map(Some)
    }
    fn size_hint(&self) -> Option<usize> {
        self.remaining
    }
}

struct TMap<'a, 'de> {
    de: &'a mut TDe<'de>,
    end: Tok,
    in_struct: bool,
}
impl<'a, 'de> de::MapAccess<'de> for TMap<'a, 'de> {
    type Error = TErr;
    fn next_key_seed<S: DeserializeSeed<'de>>(&mut self, seed: S) -> Result<Option<S::Value>, TErr> {
        loop {
            match self.de.peek()? {
                Tok::SkipField(_) if self.in_struct => self.de.pos += 1,
                _ => break,
            }
        }
        let t = self.de.peek()?;
        if *t == self.end {
            return Ok(None);
        }
        match t {
            Tok::Field(name, idx) if self.in_struct => {
                self.de.pos += 1;
                seed.deserialize(KeyDe { name, idx: Some(*idx as u64), kind: self.de.key }).map(Some)
            }
            Tok::Str(s) if !self.in_struct => {
                self.de.pos += 1;
                seed.deserialize(KeyDe { name: s.as_str(), idx: None, kind: self.de.key }).map(Some)
            }
            _ if !self.in_struct => seed.deserialize(&mut *self.de).map(Some),
            other => Err(TErr(format!("malformed data: {other:?} where a field key was expected"))),
        }
    }
    fn next_value_seed<S: DeserializeSeed<'de>>(&mut self, seed: S) -> Result<S::Value, TErr> {
        seed.deserialize(&mut *self.de)
    }
}

struct KeyDe<'de> {
    name: &'de str,
    idx: Option<u64>,
    kind: Key,
}
impl<'de> de::Deserializer<'de> for KeyDe<'de> {
    type Error = TErr;
    fn deserialize_any<V: Visitor<'de>>(self, v: V) -> Result<V::Value, TErr> {
        match (self.kind, self.idx) {
            (Key::Index, Some(i)) => v.visit_u64(i),
            (Key::Str, _) | (Key::Index, None) => v.visit_str(self.name),
            (Key::Borrowed, _) => v.visit_borrowed_str(self.name),
            (Key::Owned, _) => v.visit_string(self.name.to_string()),
            (Key::Bytes, _) => v.visit_bytes(self.name.as_bytes()),
        }
    }
    serde::forward_to_deserialize_any! {
        bool i8 i16 i32 i64 i128 u8 u16 u32 u64 u128 f32 f64 char str string bytes byte_buf option unit
        unit_struct newtype_struct seq tuple tuple_struct map struct enum identifier ignored_any
    }
}

macro_rules! de_prim {
    ($($m:ident $want:expr, $p:pat => $e:expr;)*) => {$(
        fn $m<V: Visitor<'de>>(self, v: V) -> Result<V::Value, TErr> {
            if !self.fixed() { return self.deserialize_any(v); }
            let t = self.next()?;
            #[allow(unused_variables)]
            match t { $p => { let f = $e; f(v) } other => self.mismatch($want, other) }
        }
    )*};
}

impl<'a, 'de> de::Deserializer<'de> for &'a mut TDe<'de> {
    type Error = TErr;

    fn deserialize_any<V: Visitor<'de>>(self, v: V) -> Result<V::Value, TErr> {
        if self.fixed() {
            return Err(TErr("this format is not self-describing (deserialize_any)".into()));
        }
        let t = self.next()?;
        match t {
            Tok::Bool(x) => v.visit_bool(*x),
            Tok::I8(x) => v.visit_i8(*x),
            Tok::I16(x) => v.visit_i16(*x),
            Tok::I32(x) => v.visit_i32(*x),
            Tok::I64(x) => v.visit_i64(*x),
            Tok::I128(x) => v.visit_i128(*x),
            Tok::U8(x) => v.visit_u8(*x),
            Tok::U16(x) => v.visit_u16(*x),
            Tok::U32(x) => v.visit_u32(*x),
            Tok::U64(x) => v.visit_u64(*x),
            Tok::U128(x) => v.visit_u128(*x),
            Tok::F32(x) => v.visit_f32(f32::from_bits(*x)),
            Tok::F64(x) => v.visit_f64(f64::from_bits(*x)),
            Tok::Char(x) => v.visit_char(*x),
            Tok::Str(x) => v.visit_borrowed_str(x.as_str()),
            Tok::Bytes(x) => v.visit_borrowed_bytes(x.as_slice()),
            Tok::None => v.visit_none(),
            Tok::Some => v.visit_some(self),
            Tok::Unit | Tok::UnitStruct(_) => v.visit_unit(),
            Tok::NewtypeStruct(_) => v.visit_newtype_struct(self),
            Tok::Seq(_) | Tok::Tuple(_) | Tok::TupleStruct(..) => self.seq(v, TDe::end_of(t), None, false),
            Tok::Map(_) => self.map(v, Tok::MapEnd, false),
            Tok::Struct(..) => match self.structs {
                StructAs::Map => self.map(v, Tok::StructEnd, true),
                _ => self.seq(v, Tok::StructEnd, None, true),
            },
            other => Err(TErr(format!("TokenFormat cannot replay {other:?}"))),
        }
    }

    de_prim! {
        deserialize_bool "bool", Tok::Bool(x) => |v: V| v.visit_bool(*x);
        deserialize_i8 "i8", Tok::I8(x) => |v: V| v.visit_i8(*x);
        deserialize_i16 "i16", Tok::I16(x) => |v: V| v.visit_i16(*x);
        deserialize_i32 "i32", Tok::I32(x) => |v: V| v.visit_i32(*x);
        deserialize_i64 "i64", Tok::I64(x) => |v: V| v.visit_i64(*x);
        deserialize_i128 "i128", Tok::I128(x) => |v: V| v.visit_i128(*x);
        deserialize_u8 "u8", Tok::U8(x) => |v: V| v.visit_u8(*x);
        deserialize_u16 "u16", Tok::U16(x) => |v: V| v.visit_u16(*x);
        deserialize_u32 "u32", Tok::U32(x) => |v: V| v.visit_u32(*x);
        deserialize_u64 "u64", Tok::U64(x) => |v: V| v.visit_u64(*x);
        deserialize_u128 "u128", Tok::U128(x) => |v: V| v.visit_u128(*x);
        deserialize_f32 "f32", Tok::F32(x) => |v: V| v.visit_f32(f32::from_bits(*x));
        deserialize_f64 "f64", Tok::F64(x) => |v: V| v.visit_f64(f64::from_bits(*x));
        deserialize_char "char", Tok::Char(x) => |v: V| v.visit_char(*x);
        deserialize_str "str", Tok::Str(x) => |v: V| v.visit_borrowed_str(x.as_str());
        deserialize_string "string", Tok::Str(x) => |v: V| v.visit_borrowed_str(x.as_str());
        deserialize_bytes "bytes", Tok::Bytes(x) => |v: V| v.visit_borrowed_bytes(x.as_slice());
        deserialize_byte_buf "bytes", Tok::Bytes(x) => |v: V| v.visit_borrowed_bytes(x.as_slice());
        deserialize_unit "unit", Tok::Unit => |v: V| v.visit_unit();
    }

    fn deserialize_option<V: Visitor<'de>>(self, v: V) -> Result<V::Value, TErr> {
        match self.peek()? {
            Tok::None => {
                self.pos += 1;
                v.visit_none()
            }
            Tok::Some => {
                self.pos += 1;
                v.visit_some(self)
            }
            other if self.fixed() => self.mismatch("option", other),
            _ => v.visit_some(self),
        }
    }
    fn deserialize_unit_struct<V: Visitor<'de>>(self, _n: &'static str, v: V) -> Result<V::Value, TErr> {
        if !self.fixed() {
            return self.deserialize_any(v);
        }
        match self.next()? {
            Tok::UnitStruct(_) => v.visit_unit(),
            other => self.mismatch("unit struct", other),
        }
    }
    fn deserialize_newtype_struct<V: Visitor<'de>>(self, _n: &'static str, v: V) -> Result<V::Value, TErr> {
        if let Tok::NewtypeStruct(_) = self.peek()? {
            self.pos += 1;
        }
        v.visit_newtype_struct(self)
    }
    fn deserialize_seq<V: Visitor<'de>>(self, v: V) -> Result<V::Value, TErr> {
        if !self.fixed() {
            return self.deserialize_any(v);
        }
        match self.next()? {
            Tok::Seq(_) => self.seq(v, Tok::SeqEnd, None, false),
            other => self.mismatch("sequence", other),
        }
    }
    fn deserialize_tuple<V: Visitor<'de>>(self, len: usize, v: V) -> Result<V::Value, TErr> {
        if !self.fixed() {
            return self.deserialize_any(v);
        }
        self.fixed_product(v, len, "tuple")
    }
    fn deserialize_tuple_struct<V: Visitor<'de>>(self, _n: &'static str, len: usize, v: V) -> Result<V::Value, TErr> {
        if !self.fixed() {
            return self.deserialize_any(v);
        }
        self.fixed_product(v, len, "tuple struct")
    }
    fn deserialize_map<V: Visitor<'de>>(self, v: V) -> Result<V::Value, TErr> {
        if !self.fixed() {
            return self.deserialize_any(v);
        }
        match self.next()? {
            Tok::Map(_) => self.map(v, Tok::MapEnd, false),
            other => self.mismatch("map", other),
        }
    }
    fn deserialize_struct<V: Visitor<'de>>(self, _n: &'static str, fields: &'static [&'static str], v: V) -> Result<V::Value, TErr> {
        if !self.fixed() {
            return self.deserialize_any(v);
        }
        self.fixed_product(v, fields.len(), "struct")
    }
    fn deserialize_enum<V: Visitor<'de>>(self, _n: &'static str, _vs: &'static [&'static str], _v: V) -> Result<V::Value, TErr> {
        Err(TErr("TokenFormat does not replay enums".into()))
    }
    fn deserialize_identifier<V: Visitor<'de>>(self, v: V) -> Result<V::Value, TErr> {
        if self.fixed() {
            return Err(TErr("this format is not self-describing (deserialize_identifier)".into()));
        }
        self.deserialize_any(v)
    }
    fn deserialize_ignored_any<V: Visitor<'de>>(self, v: V) -> Result<V::Value, TErr> {
        if self.fixed() {
            return Err(TErr("this format is not self-describing (deserialize_ignored_any)".into()));
        }
        self.peek()?;
        self.pos = skip_value(self.toks, self.pos);
        v.visit_unit()
    }
    fn is_human_readable(&self) -> bool {
        self.structs == StructAs::Map
    }
}
