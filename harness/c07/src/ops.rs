//! operators, blend modes and colour differences on the boundary lattice (invariant: finite).
use pv::{json, Collector, Ctx, Value};

pub fn replay(c: &mut Collector, _rep: &Value) {
    // the operator families are cheap: a replay re-runs the whole family
    let ctx = Ctx::from_args("C07").0;
    run(&ctx, c);
}

fn unit<T: pv::fl::Fl>() -> Vec<T> {
    [0.0, 1e-9, 0.25, 0.5, 1.0 - 1e-9, 1.0].iter().map(|x| T::from64(*x)).collect()
}
fn hues<T: pv::fl::Fl>() -> Vec<T> {
    [0.0, 60.0, 120.0, 180.0, -180.0, 240.0, 300.0, 360.0, 720.0, 59.999999, 90.0].iter().map(|x| T::from64(*x)).collect()
}
fn factors<T: pv::fl::Fl>() -> Vec<T> {
    [-1.0, -0.5, -1e-9, 0.0, 1e-9, 0.5, 1.0, 1.5, 2.0].iter().map(|x| T::from64(*x)).collect()
}

macro_rules! finite3 {
    ($c:ident, $sig:expr, $case:expr, $r:expr) => {{
        match pv::catch(|| $r) {
            Err(msg) => $c.violation(&format!("{}/panic", $sig), 1.0, || json!({"sub": "ops", "what": $sig, "input": $case, "observed": {"panic": msg}, "expected": "no panic"})),
            Ok(arr) => {
                let a: Vec<f64> = arr.iter().map(|x| *x as f64).collect();
                if !a.iter().all(|x| x.is_finite()) {
                    $c.violation(&format!("{}/{}", $sig, if a.iter().any(|x| x.is_nan()) { "NaN" } else { "inf" }), 1.0, || json!({"sub": "ops", "what": $sig, "input": $case, "observed": a.iter().map(|x| format!("{x}")).collect::<Vec<_>>(), "expected": "finite"}));
                }
            }
        }
    }};
}

macro_rules! ops_for_float {
    ($T:ty, $c:ident, $n:ident) => {{
        use palette::blend::{Blend, Compose, PreAlpha};
        use palette::color_difference::{Ciede2000, DeltaE, EuclideanDistance, HyAb, ImprovedCiede2000, ImprovedDeltaE, Wcag21RelativeContrast};
        use palette::{Darken, Desaturate, Hsl, Hsv, Hwb, Lab, Lch, Lighten, LinSrgb, LinSrgba, Luv, Mix, Okhsl, Okhsv, Oklab, Saturate, ShiftHue, Srgb};
        type T = $T;
        let tn = stringify!($T);
        let u = unit::<T>();
        let h = hues::<T>();
        let f = factors::<T>();
        // cylindrical types: mix / lighten / darken / saturate / desaturate / shift_hue
        macro_rules! cyl {
            ($name:literal, $mk:expr, $arr:expr) => {{
                let mut cols = vec![];
                for &hh in &h {
                    for &a in &u {
                        for &b in &[u[0], u[1], u[3], u[5]] {
                            cols.push((hh, a, b));
                        }
                    }
                }
                for &(hh, a, b) in &cols {
                    let x = $mk(hh, a, b);
                    {
                        // clamp in both forms (plain and Alpha-wrapped)
                        use palette::{Alpha, Clamp, ClampAssign};
                        let case = json!({"type": $name, "float": tn, "color": [hh as f64, a as f64, b as f64]});
                        finite3!($c, format!("C07/ops/{}<{}>/clamp", $name, tn), case.clone(), $arr(x.clamp()));
                        finite3!($c, format!("C07/ops/{}<{}>/clamp_assign", $name, tn), case.clone(), { let mut y = x; y.clamp_assign(); $arr(y) });
                        finite3!($c, format!("C07/ops/{}<{}>/Alpha::clamp_assign", $name, tn), case.clone(), { let mut y = Alpha { color: x, alpha: a }; y.clamp_assign(); let z = $arr(y.color); [z[0], z[1], z[2], y.alpha] });
                        $n += 3;
                    }
                    for &ff in &f {
                        let case = json!({"type": $name, "float": tn, "color": [hh as f64, a as f64, b as f64], "factor": ff as f64});
                        {
                            use palette::{DarkenAssign, DesaturateAssign, LightenAssign, SaturateAssign, ShiftHueAssign};
                            finite3!($c, format!("C07/ops/{}<{}>/lighten_assign", $name, tn), case.clone(), { let mut y = x; y.lighten_assign(ff); $arr(y) });
                            finite3!($c, format!("C07/ops/{}<{}>/darken_fixed_assign", $name, tn), case.clone(), { let mut y = x; y.darken_fixed_assign(ff); $arr(y) });
                            finite3!($c, format!("C07/ops/{}<{}>/saturate_assign", $name, tn), case.clone(), { let mut y = x; y.saturate_assign(ff); $arr(y) });
                            finite3!($c, format!("C07/ops/{}<{}>/desaturate_fixed_assign", $name, tn), case.clone(), { let mut y = x; y.desaturate_fixed_assign(ff); $arr(y) });
                            finite3!($c, format!("C07/ops/{}<{}>/shift_hue_assign", $name, tn), case.clone(), { let mut y = x; y.shift_hue_assign(ff * (180.0 as T)); $arr(y) });
                            $n += 5;
                        }
                        finite3!($c, format!("C07/ops/{}<{}>/lighten", $name, tn), case.clone(), $arr(x.lighten(ff)));
                        finite3!($c, format!("C07/ops/{}<{}>/lighten_fixed", $name, tn), case.clone(), $arr(x.lighten_fixed(ff)));
                        finite3!($c, format!("C07/ops/{}<{}>/darken", $name, tn), case.clone(), $arr(x.darken(ff)));
                        finite3!($c, format!("C07/ops/{}<{}>/saturate", $name, tn), case.clone(), $arr(x.saturate(ff)));
                        finite3!($c, format!("C07/ops/{}<{}>/saturate_fixed", $name, tn), case.clone(), $arr(x.saturate_fixed(ff)));
                        finite3!($c, format!("C07/ops/{}<{}>/desaturate", $name, tn), case.clone(), $arr(x.desaturate(ff)));
                        finite3!($c, format!("C07/ops/{}<{}>/shift_hue", $name, tn), case.clone(), $arr(x.shift_hue(ff * (180.0 as T))));
                        $n += 7;
                    }
                    for &(h2, a2, b2) in cols.iter().step_by(cols.len() / 12 + 1) {
                        let y = $mk(h2, a2, b2);
                        for &ff in &[f[0], f[3], f[5], f[6], f[8]] {
                            let case = json!({"type": $name, "float": tn, "a": [hh as f64, a as f64, b as f64], "b": [h2 as f64, a2 as f64, b2 as f64], "factor": ff as f64});
                            finite3!($c, format!("C07/ops/{}<{}>/mix", $name, tn), case, $arr(x.mix(y, ff)));
                            $n += 1;
                        }
                    }
                }
            }};
        }
        cyl!("Hsv", |hh: T, a: T, b: T| Hsv::<palette::encoding::Srgb, T>::new(hh, a, b), |x: Hsv<palette::encoding::Srgb, T>| [x.hue.into_inner(), x.saturation, x.value]);
        cyl!("Hsl", |hh: T, a: T, b: T| Hsl::<palette::encoding::Srgb, T>::new(hh, a, b), |x: Hsl<palette::encoding::Srgb, T>| [x.hue.into_inner(), x.saturation, x.lightness]);
        cyl!("Okhsv", |hh: T, a: T, b: T| Okhsv::<T>::new(hh, a, b), |x: Okhsv<T>| [x.hue.into_inner(), x.saturation, x.value]);
        cyl!("Okhsl", |hh: T, a: T, b: T| Okhsl::<T>::new(hh, a, b), |x: Okhsl<T>| [x.hue.into_inner(), x.saturation, x.lightness]);
        cyl!("Lch", |hh: T, a: T, b: T| Lch::<palette::white_point::D65, T>::new(b * (100.0 as T), a * (128.0 as T), hh), |x: Lch<palette::white_point::D65, T>| [x.hue.into_inner(), x.chroma, x.l]);
        // HWB: whiteness + blackness <= 1
        {
            let mut cols = vec![];
            for &hh in &h {
                for &w in &u {
                    for &b in &u {
                        if (w as f64) + (b as f64) <= 1.0 {
                            cols.push((hh, w, b));
                        }
                    }
                }
            }
            for &(hh, w, b) in &cols {
                let x = Hwb::<palette::encoding::Srgb, T>::new(hh, w, b);
                let arr = |x: Hwb<palette::encoding::Srgb, T>| [x.hue.into_inner(), x.whiteness, x.blackness];
                {
                    use palette::{Alpha, Clamp, ClampAssign, Okhwb};
                    let case = json!({"type": "Hwb", "float": tn, "color": [hh as f64, w as f64, b as f64]});
                    finite3!($c, format!("C07/ops/Hwb<{}>/clamp", tn), case.clone(), arr(x.clamp()));
                    finite3!($c, format!("C07/ops/Hwb<{}>/clamp_assign", tn), case.clone(), { let mut y = x; y.clamp_assign(); arr(y) });
                    finite3!($c, format!("C07/ops/Hwb<{}>/Alpha::clamp_assign", tn), case.clone(), { let mut y = Alpha { color: x, alpha: w }; y.clamp_assign(); let z = arr(y.color); [z[0], z[1], z[2], y.alpha] });
                    finite3!($c, format!("C07/ops/Hwb<{}>/[_]::clamp_assign", tn), case.clone(), { let mut y = [x, x]; y[..].clamp_assign(); arr(y[1]) });
                    let o = Okhwb::<T>::new(hh, w, b);
                    let oarr = |x: Okhwb<T>| [x.hue.into_inner(), x.whiteness, x.blackness];
                    finite3!($c, format!("C07/ops/Okhwb<{}>/clamp", tn), case.clone(), oarr(o.clamp()));
                    finite3!($c, format!("C07/ops/Okhwb<{}>/clamp_assign", tn), case.clone(), { let mut y = o; y.clamp_assign(); oarr(y) });
                    $n += 6;
                }
                for &ff in &f {
                    let case = json!({"type": "Hwb", "float": tn, "color": [hh as f64, w as f64, b as f64], "factor": ff as f64});
                    finite3!($c, format!("C07/ops/Hwb<{}>/lighten", tn), case.clone(), arr(x.lighten(ff)));
                    finite3!($c, format!("C07/ops/Hwb<{}>/lighten_fixed", tn), case.clone(), arr(x.lighten_fixed(ff)));
                    finite3!($c, format!("C07/ops/Hwb<{}>/darken", tn), case.clone(), arr(x.darken(ff)));
                    finite3!($c, format!("C07/ops/Hwb<{}>/shift_hue", tn), case.clone(), arr(x.shift_hue(ff * (180.0 as T))));
                    $n += 4;
                }
            }
        }
        // rectangular types: mix, lighten; colour differences on all ordered pairs
        {
            let mut labs = vec![];
            for &l in &u {
                for &a in &[-128.0 as T, -1e-7, 0.0, 1e-7, 127.0] {
                    for &b in &[-128.0 as T, 0.0, 1e-7, 127.0] {
                        labs.push(Lab::<palette::white_point::D65, T>::new(l * (100.0 as T), a, b));
                    }
                }
            }
            for &x in &labs {
                for &y in &labs {
                    let case = json!({"type": "Lab", "float": tn, "a": [x.l as f64, x.a as f64, x.b as f64], "b": [y.l as f64, y.a as f64, y.b as f64]});
                    finite3!($c, format!("C07/diff/Lab<{}>/ciede2000", tn), case.clone(), [Ciede2000::difference(x, y)]);
                    finite3!($c, format!("C07/diff/Lab<{}>/improved_ciede2000", tn), case.clone(), [ImprovedCiede2000::improved_difference(x, y)]);
                    finite3!($c, format!("C07/diff/Lab<{}>/delta_e", tn), case.clone(), [DeltaE::delta_e(x, y)]);
                    finite3!($c, format!("C07/diff/Lab<{}>/improved_delta_e", tn), case.clone(), [ImprovedDeltaE::improved_delta_e(x, y)]);
                    finite3!($c, format!("C07/diff/Lab<{}>/hyab", tn), case.clone(), [HyAb::hybrid_distance(x, y)]);
                    finite3!($c, format!("C07/diff/Lab<{}>/euclid", tn), case.clone(), [EuclideanDistance::distance_squared(x, y)]);
                    let (xl, yl): (Lch<_, T>, Lch<_, T>) = (palette::convert::FromColorUnclamped::from_color_unclamped(x), palette::convert::FromColorUnclamped::from_color_unclamped(y));
                    finite3!($c, format!("C07/diff/Lch<{}>/ciede2000", tn), case.clone(), [Ciede2000::difference(xl, yl)]);
                    finite3!($c, format!("C07/diff/Lch<{}>/delta_e", tn), case.clone(), [DeltaE::delta_e(xl, yl)]);
                    let (xu, yu) = (Luv::<palette::white_point::D65, T>::new(x.l, x.a, x.b), Luv::<palette::white_point::D65, T>::new(y.l, y.a, y.b));
                    finite3!($c, format!("C07/diff/Luv<{}>/hyab", tn), case.clone(), [HyAb::hybrid_distance(xu, yu)]);
                    let (xo, yo) = (Oklab::<T>::new(x.l / (100.0 as T), x.a / (320.0 as T), x.b / (320.0 as T)), Oklab::<T>::new(y.l / (100.0 as T), y.a / (320.0 as T), y.b / (320.0 as T)));
                    finite3!($c, format!("C07/diff/Oklab<{}>/hyab", tn), case.clone(), [HyAb::hybrid_distance(xo, yo)]);
                    finite3!($c, format!("C07/diff/Oklab<{}>/euclid", tn), case.clone(), [EuclideanDistance::distance_squared(xo, yo)]);
                    $n += 11;
                    for &ff in &[f[0], f[3], f[5], f[6], f[8]] {
                        finite3!($c, format!("C07/ops/Lab<{}>/mix", tn), case.clone(), { let m = x.mix(y, ff); [m.l, m.a, m.b] });
                        $n += 1;
                    }
                }
                for &ff in &f {
                    let case = json!({"type": "Lab", "float": tn, "color": [x.l as f64, x.a as f64, x.b as f64], "factor": ff as f64});
                    finite3!($c, format!("C07/ops/Lab<{}>/lighten", tn), case.clone(), { let m = x.lighten(ff); [m.l, m.a, m.b] });
                    finite3!($c, format!("C07/ops/Lab<{}>/darken_fixed", tn), case.clone(), { let m = x.darken_fixed(ff); [m.l, m.a, m.b] });
                    $n += 2;
                }
            }
        }
        // nearly coincident pairs: a colour and the same colour with one component moved by a few
        // ulps / a relative 1e-7 (both are valid colours): differences computed through squares and
        // cancellations must not go (slightly) negative under a square root
        {
            use palette::cam16::{Cam16UcsJab, Cam16UcsJmh};
            use pv::fl::Fl;
            let nudges = |x: T| -> Vec<T> {
                let mut v = vec![x];
                let (mut up, mut dn) = (x, x);
                for k in 1..=40 {
                    up = up.up();
                    dn = dn.down();
                    if [1, 2, 3, 5, 8, 13, 21, 40].contains(&k) {
                        v.push(up);
                        v.push(dn);
                    }
                }
                v.push(x * (1.0 + 1e-7) as T);
                v.push(x * (1.0 - 1e-7) as T);
                v.push(x * (1.0 + 1e-5) as T);
                v
            };
            let ls: [T; 4] = [0.0, 50.0, 73.3, 100.0];
            let cs: [T; 6] = [0.0, 1e-7, 0.64, 30.0, 50.0, 128.0];
            let hs: [T; 6] = [0.0, 30.0, 90.0, 180.0, 271.3, 359.999];
            for &l in &ls {
                for &cc in &cs {
                    for &hh in &hs {
                        let x = Lch::<palette::white_point::D65, T>::new(l, cc, hh);
                        let xj = Cam16UcsJmh::<T>::new(l, cc * (0.4 as T), hh);
                        let mut partners: Vec<[T; 3]> = vec![];
                        for v in nudges(l) {
                            partners.push([v, cc, hh]);
                        }
                        for v in nudges(cc) {
                            partners.push([l, v, hh]);
                        }
                        for v in nudges(hh) {
                            partners.push([l, cc, v]);
                        }
                        for p in partners {
                            let y = Lch::<palette::white_point::D65, T>::new(p[0], p[1], p[2]);
                            let yj = Cam16UcsJmh::<T>::new(p[0], p[1] * (0.4 as T), p[2]);
                            let case = json!({"type": "Lch", "float": tn, "a": [l as f64, cc as f64, hh as f64], "b": [p[0] as f64, p[1] as f64, p[2] as f64], "a_bits": [format!("{:#x}", l.bits64()), format!("{:#x}", cc.bits64()), format!("{:#x}", hh.bits64())], "b_bits": [format!("{:#x}", p[0].bits64()), format!("{:#x}", p[1].bits64()), format!("{:#x}", p[2].bits64())]});
                            finite3!($c, format!("C07/diff-near/Lch<{}>/delta_e", tn), case.clone(), [DeltaE::delta_e(x, y), DeltaE::delta_e(y, x)]);
                            finite3!($c, format!("C07/diff-near/Lch<{}>/improved_delta_e", tn), case.clone(), [ImprovedDeltaE::improved_delta_e(x, y)]);
                            finite3!($c, format!("C07/diff-near/Lch<{}>/ciede2000", tn), case.clone(), [Ciede2000::difference(x, y), Ciede2000::difference(y, x)]);
                            finite3!($c, format!("C07/diff-near/Lch<{}>/improved_ciede2000", tn), case.clone(), [ImprovedCiede2000::improved_difference(x, y)]);
                            finite3!($c, format!("C07/diff-near/Cam16UcsJmh<{}>/delta_e", tn), case.clone(), [DeltaE::delta_e(xj, yj), ImprovedDeltaE::improved_delta_e(xj, yj)]);
                            // the same pair in rectangular coordinates
                            let (xa, ya): (Lab<_, T>, Lab<_, T>) = (palette::convert::FromColorUnclamped::from_color_unclamped(x), palette::convert::FromColorUnclamped::from_color_unclamped(y));
                            finite3!($c, format!("C07/diff-near/Lab<{}>/delta_e", tn), case.clone(), [DeltaE::delta_e(xa, ya), ImprovedDeltaE::improved_delta_e(xa, ya), Ciede2000::difference(xa, ya), HyAb::hybrid_distance(xa, ya), EuclideanDistance::distance_squared(xa, ya)]);
                            let (xb, yb): (Cam16UcsJab<T>, Cam16UcsJab<T>) = (palette::convert::FromColorUnclamped::from_color_unclamped(xj), palette::convert::FromColorUnclamped::from_color_unclamped(yj));
                            finite3!($c, format!("C07/diff-near/Cam16UcsJab<{}>/delta_e", tn), case.clone(), [DeltaE::delta_e(xb, yb), ImprovedDeltaE::improved_delta_e(xb, yb), HyAb::hybrid_distance(xb, yb)]);
                            $n += 13;
                        }
                    }
                }
            }
        }
        // RGB: contrast, blend modes and compositing with alpha on boundary pairs
        {
            let al = [u[0], u[1], u[3], u[5]];
            let mut cols = vec![];
            for &r in &u {
                for &g in &[u[0], u[3], u[5]] {
                    for &a in &al {
                        cols.push((r, g, (1.0 as T) - r, a));
                    }
                }
            }
            for &(r, g, b, a) in &cols {
                for &(r2, g2, b2, a2) in &cols {
                    let case = json!({"type": "LinSrgba", "float": tn, "a": [r as f64, g as f64, b as f64, a as f64], "b": [r2 as f64, g2 as f64, b2 as f64, a2 as f64]});
                    let x = LinSrgba::<T>::new(r, g, b, a);
                    let y = LinSrgba::<T>::new(r2, g2, b2, a2);
                    let arr = |m: LinSrgba<T>| [m.red, m.green, m.blue, m.alpha];
                    finite3!($c, format!("C07/blend/LinSrgba<{}>/multiply", tn), case.clone(), arr(x.multiply(y)));
                    finite3!($c, format!("C07/blend/LinSrgba<{}>/screen", tn), case.clone(), arr(x.screen(y)));
                    finite3!($c, format!("C07/blend/LinSrgba<{}>/overlay", tn), case.clone(), arr(x.overlay(y)));
                    finite3!($c, format!("C07/blend/LinSrgba<{}>/darken", tn), case.clone(), arr(Blend::darken(x, y)));
                    finite3!($c, format!("C07/blend/LinSrgba<{}>/lighten", tn), case.clone(), arr(Blend::lighten(x, y)));
                    finite3!($c, format!("C07/blend/LinSrgba<{}>/dodge", tn), case.clone(), arr(x.dodge(y)));
                    finite3!($c, format!("C07/blend/LinSrgba<{}>/burn", tn), case.clone(), arr(x.burn(y)));
                    finite3!($c, format!("C07/blend/LinSrgba<{}>/hard_light", tn), case.clone(), arr(x.hard_light(y)));
                    finite3!($c, format!("C07/blend/LinSrgba<{}>/soft_light", tn), case.clone(), arr(x.soft_light(y)));
                    finite3!($c, format!("C07/blend/LinSrgba<{}>/difference", tn), case.clone(), arr(x.difference(y)));
                    finite3!($c, format!("C07/blend/LinSrgba<{}>/exclusion", tn), case.clone(), arr(x.exclusion(y)));
                    finite3!($c, format!("C07/compose/LinSrgba<{}>/over", tn), case.clone(), arr(x.over(y)));
                    finite3!($c, format!("C07/compose/LinSrgba<{}>/inside", tn), case.clone(), arr(x.inside(y)));
                    finite3!($c, format!("C07/compose/LinSrgba<{}>/outside", tn), case.clone(), arr(x.outside(y)));
                    finite3!($c, format!("C07/compose/LinSrgba<{}>/atop", tn), case.clone(), arr(x.atop(y)));
                    finite3!($c, format!("C07/compose/LinSrgba<{}>/xor", tn), case.clone(), arr(x.xor(y)));
                    finite3!($c, format!("C07/compose/LinSrgba<{}>/plus", tn), case.clone(), arr(x.plus(y)));
                    $n += 17;
                    let (sx, sy) = (Srgb::<T>::new(r, g, b), Srgb::<T>::new(r2, g2, b2));
                    finite3!($c, format!("C07/diff/Srgb<{}>/relative_contrast", tn), case.clone(), [sx.relative_contrast(sy)]);
                    $n += 1;
                }
                // premultiply / unpremultiply
                let case = json!({"type": "LinSrgba", "float": tn, "a": [r as f64, g as f64, b as f64, a as f64]});
                finite3!($c, format!("C07/blend/LinSrgba<{}>/premultiply-unpremultiply", tn), case, {
                    let p: PreAlpha<LinSrgb<T>> = LinSrgba::<T>::new(r, g, b, a).premultiply();
                    let q = p.unpremultiply();
                    [p.color.red, p.color.green, p.color.blue, p.alpha, q.color.red, q.color.green, q.color.blue, q.alpha]
                });
                $n += 1;
                // every other way out of the premultiplied form (zero alpha is a boundary of the property)
                let case = json!({"type": "LinSrgba", "float": tn, "a": [r as f64, g as f64, b as f64, a as f64]});
                finite3!($c, format!("C07/blend/LinSrgba<{}>/unpremultiply-routes", tn), case.clone(), {
                    use palette::blend::Premultiply;
                    let p: PreAlpha<LinSrgb<T>> = LinSrgba::<T>::new(r, g, b, a).premultiply();
                    let plain: LinSrgb<T> = LinSrgb::<T>::from(p);
                    let viaalpha: LinSrgba<T> = LinSrgba::<T>::from(p);
                    let (c2, a2) = <LinSrgb<T> as Premultiply>::unpremultiply(p);
                    let p2: PreAlpha<LinSrgb<T>> = PreAlpha::new(LinSrgb::<T>::new(r, g, b), a);
                    let p3: PreAlpha<LinSrgb<T>> = PreAlpha::from(LinSrgba::<T>::new(r, g, b, a));
                    let back3: LinSrgb<T> = p3.into();
                    [plain.red, plain.green, plain.blue, viaalpha.red, viaalpha.green, viaalpha.blue, viaalpha.alpha, c2.red, c2.green, c2.blue, a2, p2.color.red, p2.alpha, back3.red, back3.green, back3.blue]
                });
                finite3!($c, format!("C07/blend/Laba<{}>/unpremultiply-routes", tn), case, {
                    use palette::blend::Premultiply;
                    type L<T> = palette::Lab<palette::white_point::D65, T>;
                    let lab: L<T> = palette::Lab::new(r * (100.0 as T), (g - (0.5 as T)) * (255.0 as T), (b - (0.5 as T)) * (255.0 as T));
                    let p: PreAlpha<L<T>> = lab.premultiply(a);
                    let plain: L<T> = L::<T>::from(p);
                    let q = p.unpremultiply();
                    [p.color.l, p.color.a, p.color.b, p.alpha, plain.l, plain.a, plain.b, q.color.l, q.color.a, q.color.b, q.alpha]
                });
                $n += 2;
            }
        }
    }};
}

pub fn run(ctx: &Ctx, total: &mut Collector) {
    let sub = "operators-blend-difference";
    if !ctx.wants(sub) {
        return;
    }
    let mut c = Collector::new();
    let mut n = 0u64;
    ops_for_float!(f32, c, n);
    ops_for_float!(f64, c, n);
    c.add(sub, n, n, n, n);
    c.exhaustive(sub, true, "boundary colours of Hsv/Hsl/Hwb/Okhwb/Okhsv/Okhsl/Lch/Oklch/Lab x 9 factors (lighten, darken, saturate, desaturate, _fixed forms, shift_hue; by value and assigning) and clamp / clamp_assign (plain, Alpha, slice) and mix partners; all ordered pairs of 120 Lab boundary colours through 11 difference measures; nearly coincident pairs (144 Lch colours x each component moved by 1..40 ulps and by a relative 1e-7 / 1e-5) through the difference measures of Lch, Lab, Cam16UcsJmh, Cam16UcsJab; all ordered pairs of 72 LinSrgba boundary colours through 11 blend modes, 6 Porter-Duff operators, WCAG contrast; premultiply/unpremultiply through every public route out of the premultiplied form (unpremultiply, From<PreAlpha<C>> for C and for Alpha<C>, Premultiply::unpremultiply; LinSrgb and Lab); f32 and f64");
    total.merge(c);
}
