//! The public hue API under test, abstracted over the five hue types × {f32, f64} by one macro.
use palette::hues::{Cam16Hue, LabHue, LuvHue, OklabHue, RgbHue};
use pv::fl::Fl;

pub trait HueOps: Copy + Send + Sync + 'static {
    type T: Fl;
    const HUE: &'static str;
    fn name() -> String {
        format!("{}<{}>", Self::HUE, <Self::T as Fl>::NAME)
    }
    fn deg(x: Self::T) -> Self::T;
    fn pos(x: Self::T) -> Self::T;
    fn raw(x: Self::T) -> Self::T;
    fn inner(x: Self::T) -> Self::T;
    fn rad(x: Self::T) -> Self::T;
    fn pos_rad(x: Self::T) -> Self::T;
    fn raw_rad(x: Self::T) -> Self::T;
    /// from_radians(y).into_raw_degrees()
    fn from_rad(y: Self::T) -> Self::T;
    fn eq(x: Self::T, y: Self::T) -> bool;
    fn ne(x: Self::T, y: Self::T) -> bool;
    /// [abs_diff_eq, !abs_diff_ne, relative_eq, !relative_ne, ulps_eq, !ulps_ne] with default tolerances
    fn eq_approx(x: Self::T, y: Self::T) -> [bool; 6];
    /// every approx spelling says "different" (only asked for hues >= 0.25 degrees apart on the circle)
    fn ne_approx(x: Self::T, y: Self::T) -> bool;
    /// PartialEq<T>: hue(x) == y
    fn eq_t(x: Self::T, y: Self::T) -> bool;
    fn to_u8(x: Self::T) -> u8;
    fn to_u8_from_format(x: Self::T) -> u8;
    fn from_u8(c: u8) -> Self::T;
    fn u8_id(c: u8) -> u8;
    fn u8_eq(a: u8, b: u8) -> bool;
    fn u8_prim(c: u8) -> u8;
    fn from_cart(a: Self::T, b: Self::T) -> Self::T;
    fn into_cart(x: Self::T) -> (Self::T, Self::T);
    /// [h+h, h+t, t+h, h-h, h-t, t-h, h+=h, h+=t, t+=h, h-=h, h-=t, t-=h] as raw values
    fn arith(x: Self::T, y: Self::T) -> [Self::T; 12];
    fn tadd(x: Self::T, y: Self::T) -> Self::T;
    fn tsub(x: Self::T, y: Self::T) -> Self::T;
    /// (f32::from(hue), f64::from(hue))
    fn prim(x: Self::T) -> (f32, f64);
    /// hue.into_format::<other float>() as f64, and From<T> for Hue
    fn cross_format(x: Self::T) -> (f64, Self::T);
}

macro_rules! hue_ops {
    ($id:ident, $hue:ident, $t:ident, $other:ident) => {
        #[derive(Clone, Copy)]
        pub struct $id;
        impl HueOps for $id {
            type T = $t;
            const HUE: &'static str = stringify!($hue);
            #[inline(always)]
            fn deg(x: $t) -> $t {
                $hue::<$t>::new(x).into_degrees()
            }
            #[inline(always)]
            fn pos(x: $t) -> $t {
                $hue::<$t>::from_degrees(x).into_positive_degrees()
            }
            #[inline(always)]
            fn raw(x: $t) -> $t {
                $hue::<$t>::new(x).into_raw_degrees()
            }
            #[inline(always)]
            fn inner(x: $t) -> $t {
                $hue::<$t>::new(x).into_inner()
            }
            #[inline(always)]
            fn rad(x: $t) -> $t {
                $hue::<$t>::new(x).into_radians()
            }
            #[inline(always)]
            fn pos_rad(x: $t) -> $t {
                $hue::<$t>::new(x).into_positive_radians()
            }
            #[inline(always)]
            fn raw_rad(x: $t) -> $t {
                $hue::<$t>::new(x).into_raw_radians()
            }
            #[inline(always)]
            fn from_rad(y: $t) -> $t {
                $hue::<$t>::from_radians(y).into_raw_degrees()
            }
            #[inline(always)]
            fn eq(x: $t, y: $t) -> bool {
                $hue::<$t>::new(x) == $hue::<$t>::new(y)
            }
            // every approx spelling of equality (default tolerances: eps absolute / relative, 4 ulps) on hues that
            // are the same angle (exact whole-turn shifts): all *_eq true, all *_ne false
            fn eq_approx(x: $t, y: $t) -> [bool; 6] {
                use approx::{AbsDiffEq, RelativeEq, UlpsEq};
                let (a, b) = ($hue::<$t>::new(x), $hue::<$t>::new(y));
                let e = <$t as AbsDiffEq>::default_epsilon();
                [a.abs_diff_eq(&b, e), !a.abs_diff_ne(&b, e),
                 a.relative_eq(&b, e, <$t as RelativeEq>::default_max_relative()), !a.relative_ne(&b, e, <$t as RelativeEq>::default_max_relative()),
                 a.ulps_eq(&b, e, <$t as UlpsEq>::default_max_ulps()), !a.ulps_ne(&b, e, <$t as UlpsEq>::default_max_ulps())]
            }
            #[inline(always)]
            fn ne(x: $t, y: $t) -> bool {
                $hue::<$t>::new(x) != $hue::<$t>::new(y)
            }
            fn ne_approx(x: $t, y: $t) -> bool {
                use approx::{AbsDiffEq, RelativeEq, UlpsEq};
                let (a, b) = ($hue::<$t>::new(x), $hue::<$t>::new(y));
                let e = <$t as AbsDiffEq>::default_epsilon();
                a.abs_diff_ne(&b, e) && !a.abs_diff_eq(&b, e)
                    && a.relative_ne(&b, e, <$t as RelativeEq>::default_max_relative()) && !a.relative_eq(&b, e, <$t as RelativeEq>::default_max_relative())
                    && a.ulps_ne(&b, e, <$t as UlpsEq>::default_max_ulps()) && !a.ulps_eq(&b, e, <$t as UlpsEq>::default_max_ulps())
            }
            #[inline(always)]
            fn eq_t(x: $t, y: $t) -> bool {
                $hue::<$t>::new(x) == y
            }
            #[inline(always)]
            fn to_u8(x: $t) -> u8 {
                $hue::<$t>::new(x).into_format::<u8>().into_inner()
            }
            fn to_u8_from_format(x: $t) -> u8 {
                $hue::<u8>::from_format($hue::<$t>::new(x)).into_inner()
            }
            fn from_u8(c: u8) -> $t {
                $hue::<u8>::new(c).into_format::<$t>().into_inner()
            }
            fn u8_id(c: u8) -> u8 {
                $hue::<u8>::new(c).into_format::<u8>().into_inner()
            }
            fn u8_eq(a: u8, b: u8) -> bool {
                $hue::<u8>::new(a) == $hue::<u8>::new(b)
            }
            fn u8_prim(c: u8) -> u8 {
                u8::from($hue::<u8>::new(c))
            }
            fn from_cart(a: $t, b: $t) -> $t {
                $hue::<$t>::from_cartesian(a, b).into_raw_degrees()
            }
            fn into_cart(x: $t) -> ($t, $t) {
                $hue::<$t>::new(x).into_cartesian()
            }
            fn arith(x: $t, y: $t) -> [$t; 12] {
                let h = |v: $t| $hue::<$t>::new(v);
                let mut a1 = h(x);
                a1 += h(y);
                let mut a2 = h(x);
                a2 += y;
                let mut a3: $t = x;
                a3 += h(y);
                let mut s1 = h(x);
                s1 -= h(y);
                let mut s2 = h(x);
                s2 -= y;
                let mut s3: $t = x;
                s3 -= h(y);
                [
                    (h(x) + h(y)).into_raw_degrees(),
                    (h(x) + y).into_raw_degrees(),
                    <$t as core::ops::Add<$hue<$t>>>::add(x, h(y)).into_raw_degrees(),
                    (h(x) - h(y)).into_raw_degrees(),
                    (h(x) - y).into_raw_degrees(),
                    <$t as core::ops::Sub<$hue<$t>>>::sub(x, h(y)).into_raw_degrees(),
                    a1.into_raw_degrees(),
                    a2.into_raw_degrees(),
                    a3,
                    s1.into_raw_degrees(),
                    s2.into_raw_degrees(),
                    s3,
                ]
            }
            #[inline(always)]
            fn tadd(x: $t, y: $t) -> $t {
                x + y
            }
            #[inline(always)]
            fn tsub(x: $t, y: $t) -> $t {
                x - y
            }
            fn prim(x: $t) -> (f32, f64) {
                (f32::from($hue::<$t>::new(x)), f64::from($hue::<$t>::new(x)))
            }
            fn cross_format(x: $t) -> (f64, $t) {
                let o: $other = $hue::<$t>::new(x).into_format::<$other>().into_inner();
                let f: $hue<$t> = x.into();
                (o as f64, f.into_inner())
            }
        }
    };
}

hue_ops!(LabF32, LabHue, f32, f64);
hue_ops!(LabF64, LabHue, f64, f32);
hue_ops!(LuvF32, LuvHue, f32, f64);
hue_ops!(LuvF64, LuvHue, f64, f32);
hue_ops!(RgbF32, RgbHue, f32, f64);
hue_ops!(RgbF64, RgbHue, f64, f32);
hue_ops!(OklabF32, OklabHue, f32, f64);
hue_ops!(OklabF64, OklabHue, f64, f32);
hue_ops!(Cam16F32, Cam16Hue, f32, f64);
hue_ops!(Cam16F64, Cam16Hue, f64, f32);

/// run `$body` with `$H` bound to the ops type named by (hue, ty) strings
#[macro_export]
macro_rules! with_hue {
    ($hue:expr, $ty:expr, $H:ident => $body:expr) => {
        match ($hue, $ty) {
            ("LabHue", "f32") => { type $H = $crate::ops::LabF32; $body }
            ("LabHue", "f64") => { type $H = $crate::ops::LabF64; $body }
            ("LuvHue", "f32") => { type $H = $crate::ops::LuvF32; $body }
            ("LuvHue", "f64") => { type $H = $crate::ops::LuvF64; $body }
            ("RgbHue", "f32") => { type $H = $crate::ops::RgbF32; $body }
            ("RgbHue", "f64") => { type $H = $crate::ops::RgbF64; $body }
            ("OklabHue", "f32") => { type $H = $crate::ops::OklabF32; $body }
            ("OklabHue", "f64") => { type $H = $crate::ops::OklabF64; $body }
            ("Cam16Hue", "f32") => { type $H = $crate::ops::Cam16F32; $body }
            ("Cam16Hue", "f64") => { type $H = $crate::ops::Cam16F64; $body }
            (h, t) => {
                eprintln!("unknown hue type {h}<{t}>");
                std::process::exit(3)
            }
        }
    };
}

pub const HUES: [&str; 5] = ["RgbHue", "LabHue", "LuvHue", "OklabHue", "Cam16Hue"];
