//! Reference models in plain f64, written from the published definitions (DESIGN.md §3.3).
pub mod cie;
pub mod hexcone;
pub mod hsluv;
pub mod ok;
pub mod rgb;
pub mod tf;

pub type V3 = [f64; 3];
pub type M3 = [[f64; 3]; 3];

pub fn mat_vec(m: &M3, v: V3) -> V3 {
    [
        m[0][0] * v[0] + m[0][1] * v[1] + m[0][2] * v[2],
        m[1][0] * v[0] + m[1][1] * v[1] + m[1][2] * v[2],
        m[2][0] * v[0] + m[2][1] * v[1] + m[2][2] * v[2],
    ]
}
pub fn mat_mul(a: &M3, b: &M3) -> M3 {
    let mut r = [[0.0; 3]; 3];
    for i in 0..3 {
        for j in 0..3 {
            r[i][j] = a[i][0] * b[0][j] + a[i][1] * b[1][j] + a[i][2] * b[2][j];
        }
    }
    r
}
pub fn invert(m: &M3) -> M3 {
    let det = m[0][0] * (m[1][1] * m[2][2] - m[1][2] * m[2][1]) - m[0][1] * (m[1][0] * m[2][2] - m[1][2] * m[2][0])
        + m[0][2] * (m[1][0] * m[2][1] - m[1][1] * m[2][0]);
    let d = 1.0 / det;
    [
        [
            (m[1][1] * m[2][2] - m[1][2] * m[2][1]) * d,
            (m[0][2] * m[2][1] - m[0][1] * m[2][2]) * d,
            (m[0][1] * m[1][2] - m[0][2] * m[1][1]) * d,
        ],
        [
            (m[1][2] * m[2][0] - m[1][0] * m[2][2]) * d,
            (m[0][0] * m[2][2] - m[0][2] * m[2][0]) * d,
            (m[0][2] * m[1][0] - m[0][0] * m[1][2]) * d,
        ],
        [
            (m[1][0] * m[2][1] - m[1][1] * m[2][0]) * d,
            (m[0][1] * m[2][0] - m[0][0] * m[2][1]) * d,
            (m[0][0] * m[1][1] - m[0][1] * m[1][0]) * d,
        ],
    ]
}
pub const IDENT: M3 = [[1.0, 0.0, 0.0], [0.0, 1.0, 0.0], [0.0, 0.0, 1.0]];

pub fn max_abs_diff(a: V3, b: V3) -> f64 {
    let mut m: f64 = 0.0;
    for i in 0..3 {
        let d = (a[i] - b[i]).abs();
        if d.is_nan() {
            return f64::NAN;
        }
        m = m.max(d);
    }
    m
}

/// difference of two angles in degrees on the circle, in [0, 180]
pub fn hue_dist(a: f64, b: f64) -> f64 {
    let d = (a - b).rem_euclid(360.0);
    d.min(360.0 - d)
}
