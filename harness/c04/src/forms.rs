//! Generic executors of the cast forms (tables in meta.rs). This file is compiled as several
//! modules (`#[path]` in main.rs) only to spread the monomorphised code over more codegen units.
use crate::kinds::*;
use crate::meta::{by_k, kind_str};
use crate::subjects::{Prim, Subject};
use core::slice::{from_mut, from_ref};
use palette::cast::{
    self, ArraysAs, ArraysAsMut, ArraysFrom, ArraysInto, AsArrays, AsArraysMut, AsComponents, AsComponentsMut, BoxedSliceCastError, ComponentsAs,
    ComponentsAsMut, ComponentsFrom, ComponentsInto, FromArrays, FromComponents, IntoArrays, IntoComponents, SliceCastError, TryComponentsAs,
    TryComponentsAsMut, TryComponentsInto, TryFromComponents, VecCastError,
};

/// Execute one core form. `None` = unknown form name / shape not instantiated.
pub fn run_core<C, T, const N: usize>(name: &str, p: &P) -> Option<Obs>
where
    C: Subject<T, N>,
    T: Prim,
{
    macro_rules! k {
        (C) => { KC<C, T, N> };
        (A) => { KA<C, T, N> };
        (T) => { KT<C, T, N> };
    }
    Some(match name {
        "fn/into_array" => run_val::<k!(C), k!(A), _, 1, 1>(p, |[c]| [cast::into_array(c)]),
        "fn/from_array" => run_val::<k!(A), k!(C), _, 1, 1>(p, |[a]| [cast::from_array::<C>(a)]),
        "fn/into_array_ref" => run_ref::<Sl<C>, k!(C), k!(A), _>(p, |s| Some(from_ref(cast::into_array_ref(&s[0])))),
        "fn/from_array_ref" => run_ref::<Sl<[T; N]>, k!(A), k!(C), _>(p, |s| Some(from_ref(cast::from_array_ref::<C>(&s[0])))),
        "fn/into_array_mut" => run_mut::<Sl<C>, k!(C), k!(A), _>(p, |s| Some(from_mut(cast::into_array_mut(&mut s[0])))),
        "fn/from_array_mut" => run_mut::<Sl<[T; N]>, k!(A), k!(C), _>(p, |s| Some(from_mut(cast::from_array_mut::<C>(&mut s[0])))),
        "fn/into_array_box" => run_box1::<k!(C), k!(A), _>(p, |b| cast::into_array_box(b)),
        "fn/from_array_box" => run_box1::<k!(A), k!(C), _>(p, |b| cast::from_array_box::<C>(b)),
        "fn/into_array_array" => by_k!(p.len, 3, K, run_val::<k!(C), k!(A), _, K, K>(p, |a| cast::into_array_array(a))),
        "fn/from_array_array" => by_k!(p.len, 3, K, run_val::<k!(A), k!(C), _, K, K>(p, |a| cast::from_array_array::<C, K>(a))),
        "fn/into_array_slice" => run_ref::<Sl<C>, k!(C), k!(A), _>(p, |s| Some(cast::into_array_slice(s))),
        "fn/into_component_slice" => run_ref::<Sl<C>, k!(C), k!(T), _>(p, |s| Some(cast::into_component_slice(s))),
        "fn/from_array_slice" => run_ref::<Sl<[T; N]>, k!(A), k!(C), _>(p, |s| Some(cast::from_array_slice::<C>(s))),
        "fn/from_component_slice" => run_ref::<Sl<T>, k!(T), k!(C), _>(p, |s| Some(cast::from_component_slice::<C>(s))),
        "fn/try_from_component_slice" => run_ref::<Sl<T>, k!(T), k!(C), _>(p, |s| cast::try_from_component_slice::<C>(s).ok()),
        "fn/into_array_slice_mut" => run_mut::<Sl<C>, k!(C), k!(A), _>(p, |s| Some(cast::into_array_slice_mut(s))),
        "fn/into_component_slice_mut" => run_mut::<Sl<C>, k!(C), k!(T), _>(p, |s| Some(cast::into_component_slice_mut(s))),
        "fn/from_array_slice_mut" => run_mut::<Sl<[T; N]>, k!(A), k!(C), _>(p, |s| Some(cast::from_array_slice_mut::<C>(s))),
        "fn/from_component_slice_mut" => run_mut::<Sl<T>, k!(T), k!(C), _>(p, |s| Some(cast::from_component_slice_mut::<C>(s))),
        "fn/try_from_component_slice_mut" => run_mut::<Sl<T>, k!(T), k!(C), _>(p, |s| cast::try_from_component_slice_mut::<C>(s).ok()),
        "fn/into_array_slice_box" => run_box::<k!(C), k!(A), _>(p, |b| Ok(cast::into_array_slice_box(b))),
        "fn/into_component_slice_box" => run_box::<k!(C), k!(T), _>(p, |b| Ok(cast::into_component_slice_box(b))),
        "fn/from_array_slice_box" => run_box::<k!(A), k!(C), _>(p, |b| Ok(cast::from_array_slice_box::<C>(b))),
        "fn/from_component_slice_box" => run_box::<k!(T), k!(C), _>(p, |b| Ok(cast::from_component_slice_box::<C>(b))),
        "fn/try_from_component_slice_box" => run_box::<k!(T), k!(C), _>(p, |b| cast::try_from_component_slice_box::<C>(b).map_err(|e| e.values)),
        "fn/into_array_vec" => run_vec::<k!(C), k!(A), _>(p, |v| Ok(cast::into_array_vec(v))),
        "fn/into_component_vec" => run_vec::<k!(C), k!(T), _>(p, |v| Ok(cast::into_component_vec(v))),
        "fn/from_array_vec" => run_vec::<k!(A), k!(C), _>(p, |v| Ok(cast::from_array_vec::<C>(v))),
        "fn/from_component_vec" => run_vec::<k!(T), k!(C), _>(p, |v| Ok(cast::from_component_vec::<C>(v))),
        "fn/try_from_component_vec" => run_vec::<k!(T), k!(C), _>(p, |v| cast::try_from_component_vec::<C>(v).map_err(|e| (kind_str(e.kind), e.values))),
        "fn/map_vec_in_place(identity)" => run_vec::<k!(C), k!(C), _>(p, |v| Ok(cast::map_vec_in_place(v, |c: C| c))),
        "fn/map_slice_box_in_place(identity)" => run_box::<k!(C), k!(C), _>(p, |b| Ok(cast::map_slice_box_in_place(b, |c: C| c))),
        "rt/value(into_array,from_array)" => {
            let mut o = run_val::<k!(C), k!(C), _, 1, 1>(p, |[c]| [cast::from_array::<C>(cast::into_array(c))]);
            o.ops = 2;
            o
        }
        "rt/slice_mut(arrays)" => {
            let mut o = run_mut::<Sl<C>, k!(C), k!(C), _>(p, |s| Some(cast::from_array_slice_mut::<C>(cast::into_array_slice_mut(s))));
            o.ops = 2;
            o
        }
        "rt/slice_mut(components)" => {
            let mut o = run_mut::<Sl<C>, k!(C), k!(C), _>(p, |s| Some(cast::from_component_slice_mut::<C>(cast::into_component_slice_mut(s))));
            o.ops = 2;
            o
        }
        "rt/box(arrays)" => {
            let mut o = run_box::<k!(C), k!(C), _>(p, |b| Ok(cast::from_array_slice_box::<C>(cast::into_array_slice_box(b))));
            o.ops = 2;
            o
        }
        "rt/box(components)" => {
            let mut o = run_box::<k!(C), k!(C), _>(p, |b| Ok(cast::from_component_slice_box::<C>(cast::into_component_slice_box(b))));
            o.ops = 2;
            o
        }
        "rt/vec(arrays)" => {
            let mut o = run_vec::<k!(C), k!(C), _>(p, |v| Ok(cast::from_array_vec::<C>(cast::into_array_vec(v))));
            o.ops = 2;
            o
        }
        "rt/vec(components)" => {
            let mut o = run_vec::<k!(C), k!(C), _>(p, |v| Ok(cast::from_component_vec::<C>(cast::into_component_vec(v))));
            o.ops = 2;
            o
        }
        // components -> colours -> components on acceptance; the rejected vector otherwise
        "rt/vec(components->try_from)" => {
            let mut o = run_vec::<k!(T), k!(T), _>(p, |v| {
                cast::try_from_component_vec::<C>(v).map(|cv| cast::into_component_vec(cv)).map_err(|e| (kind_str(e.kind), e.values))
            });
            o.ops = 2;
            o
        }
        "std/C:AsRef<[T;N]>" => run_ref::<Sl<C>, k!(C), k!(A), _>(p, |s| Some(from_ref(s[0].s_as_ref_arr()))),
        "std/C:AsRef<[T]>" => run_ref::<Sl<C>, k!(C), k!(T), _>(p, |s| Some(s[0].s_as_ref_slice())),
        "std/C:AsMut<[T;N]>" => run_mut::<Sl<C>, k!(C), k!(A), _>(p, |s| Some(from_mut(s[0].s_as_mut_arr()))),
        "std/C:AsMut<[T]>" => run_mut::<Sl<C>, k!(C), k!(T), _>(p, |s| Some(s[0].s_as_mut_slice())),
        "std/[T;N]:AsRef<C>" => run_ref::<Sl<[T; N]>, k!(A), k!(C), _>(p, |s| Some(from_ref(C::s_arr_as_ref(&s[0])))),
        "std/[T;N]:AsMut<C>" => run_mut::<Sl<[T; N]>, k!(A), k!(C), _>(p, |s| Some(from_mut(C::s_arr_as_mut(&mut s[0])))),
        "std/[T;N]:From<C>" => run_val::<k!(C), k!(A), _, 1, 1>(p, |[c]| [c.s_into_arr()]),
        "std/C:From<[T;N]>" => run_val::<k!(A), k!(C), _, 1, 1>(p, |[a]| [C::s_from_arr(a)]),
        "std/&[T;N]:From<&C>" => run_ref::<Sl<C>, k!(C), k!(A), _>(p, |s| Some(from_ref(s[0].s_ref_into_arr()))),
        "std/&C:From<&[T;N]>" => run_ref::<Sl<[T; N]>, k!(A), k!(C), _>(p, |s| Some(from_ref(C::s_arr_ref_into(&s[0])))),
        "std/&[T]:From<&C>" => run_ref::<Sl<C>, k!(C), k!(T), _>(p, |s| Some(s[0].s_ref_into_slice())),
        "std/&C:TryFrom<&[T]>" => run_ref::<Sl<T>, k!(T), k!(C), _>(p, |s| C::s_try_from_slice(s).map(from_ref)),
        "std/&mut[T;N]:From<&mut C>" => run_mut::<Sl<C>, k!(C), k!(A), _>(p, |s| Some(from_mut(s[0].s_mut_into_arr()))),
        "std/&mut C:From<&mut[T;N]>" => run_mut::<Sl<[T; N]>, k!(A), k!(C), _>(p, |s| Some(from_mut(C::s_arr_mut_into(&mut s[0])))),
        "std/&mut[T]:From<&mut C>" => run_mut::<Sl<C>, k!(C), k!(T), _>(p, |s| Some(s[0].s_mut_into_slice())),
        "std/&mut C:TryFrom<&mut[T]>" => run_mut::<Sl<T>, k!(T), k!(C), _>(p, |s| C::s_try_from_slice_mut(s).map(from_mut)),
        "std/Box<[T;N]>:From<Box<C>>" => run_box1::<k!(C), k!(A), _>(p, |b| C::s_box_into_arr(b)),
        "std/Box<C>:From<Box<[T;N]>>" => run_box1::<k!(A), k!(C), _>(p, |b| C::s_box_from_arr(b)),
        _ => return None,
    })
}

pub fn pair_fn<C, T, const N: usize, const K: usize, const M: usize>(name: &str, p: &P) -> Option<Obs>
where
    C: Subject<T, N>,
    T: Prim,
{
    Some(match name {
        "fn/into_component_array" => run_val::<KC<C, T, N>, KT<C, T, N>, _, K, M>(p, |a| cast::into_component_array::<C, K, M>(a)),
        "fn/from_component_array" => run_val::<KT<C, T, N>, KC<C, T, N>, _, M, K>(p, |a| cast::from_component_array::<C, M, K>(a)),
        _ => return None,
    })
}
/// the cast traits on by-value component arrays for one (K, M) pair
pub fn pair_trait<C, T, const N: usize, const K: usize, const M: usize>(name: &str, p: &P) -> Option<Obs>
where
    C: Subject<T, N>,
    T: Prim,
{
    Some(match name {
        "trait/IntoComponents::into_components" => run_val::<KC<C, T, N>, KT<C, T, N>, _, K, M>(p, |a| <[C; K] as IntoComponents<[T; M]>>::into_components(a)),
        "trait/ComponentsFrom::components_from" => run_val::<KC<C, T, N>, KT<C, T, N>, _, K, M>(p, |a| <[T; M] as ComponentsFrom<[C; K]>>::components_from(a)),
        "trait/TryFromComponents::try_from_components" => {
            run_val::<KT<C, T, N>, KC<C, T, N>, _, M, K>(p, |a| match <[C; K] as TryFromComponents<[T; M]>>::try_from_components(a) {
                Ok(x) => x,
                Err(e) => match e {},
            })
        }
        "trait/FromComponents::from_components" => run_val::<KT<C, T, N>, KC<C, T, N>, _, M, K>(p, |a| <[C; K] as FromComponents<[T; M]>>::from_components(a)),
        "trait/TryComponentsInto::try_components_into" => {
            run_val::<KT<C, T, N>, KC<C, T, N>, _, M, K>(p, |a| match <[T; M] as TryComponentsInto<[C; K]>>::try_components_into(a) {
                Ok(x) => x,
                Err(e) => match e {},
            })
        }
        "trait/ComponentsInto::components_into" => run_val::<KT<C, T, N>, KC<C, T, N>, _, M, K>(p, |a| <[T; M] as ComponentsInto<[C; K]>>::components_into(a)),
        _ => return None,
    })
}

// -----------------------------------------------------------------------------------------
// cast traits × owners (representative subset of types)

macro_rules! tref {
    ($fname:ident, $I:ident -> $O:ident, $E:ty, [$($bound:tt)*], |$w:ident| $body:expr) => {
        fn $fname<W, C, T, const N: usize>(p: &P) -> Obs
        where
            C: Subject<T, N>,
            T: Prim,
            W: Own<$E>,
            $($bound)*
        {
            run_ref::<W, $I<C, T, N>, $O<C, T, N>, _>(p, |$w| $body)
        }
    };
}
macro_rules! tmut {
    ($fname:ident, $I:ident -> $O:ident, $E:ty, [$($bound:tt)*], |$w:ident| $body:expr) => {
        fn $fname<W, C, T, const N: usize>(p: &P) -> Obs
        where
            C: Subject<T, N>,
            T: Prim,
            W: Own<$E>,
            $($bound)*
        {
            run_mut::<W, $I<C, T, N>, $O<C, T, N>, _>(p, |$w| $body)
        }
    };
}

// as_arrays_traits.rs
tref!(t_as_arrays, KC -> KA, C, [W::View: AsArrays<[[T; N]]>], |w| Some(w.as_arrays()));
tmut!(t_as_arrays_mut, KC -> KA, C, [W::View: AsArraysMut<[[T; N]]>], |w| Some(w.as_arrays_mut()));
tref!(t_arrays_as, KA -> KC, [T; N], [W::View: ArraysAs<[C]>], |w| Some(w.arrays_as()));
tmut!(t_arrays_as_mut, KA -> KC, [T; N], [W::View: ArraysAsMut<[C]>], |w| Some(w.arrays_as_mut()));
// as_components_traits.rs
tref!(t_as_components, KC -> KT, C, [W::View: AsComponents<[T]>], |w| Some(w.as_components()));
tmut!(t_as_components_mut, KC -> KT, C, [W::View: AsComponentsMut<[T]>], |w| Some(w.as_components_mut()));
tref!(t_try_components_as, KT -> KC, T, [W::View: TryComponentsAs<[C], Error = SliceCastError>], |w| w.try_components_as().ok());
tmut!(t_try_components_as_mut, KT -> KC, T, [W::View: TryComponentsAsMut<[C], Error = SliceCastError>], |w| w.try_components_as_mut().ok());
tref!(t_components_as, KT -> KC, T, [W::View: ComponentsAs<[C]>], |w| Some(w.components_as()));
tmut!(t_components_as_mut, KT -> KC, T, [W::View: ComponentsAsMut<[C]>], |w| Some(w.components_as_mut()));
// from_into_arrays_traits.rs (borrowed)
tref!(t_from_arrays, KA -> KC, [T; N], [for<'a> &'a [C]: FromArrays<&'a W::View>], |w| Some(<&[C] as FromArrays<&W::View>>::from_arrays(w)));
tmut!(t_from_arrays_mut, KA -> KC, [T; N], [for<'a> &'a mut [C]: FromArrays<&'a mut W::View>], |w| Some(<&mut [C] as FromArrays<&mut W::View>>::from_arrays(w)));
tref!(t_arrays_into, KA -> KC, [T; N], [for<'a> &'a W::View: ArraysInto<&'a [C]>], |w| Some(ArraysInto::<&[C]>::arrays_into(w)));
tmut!(t_arrays_into_mut, KA -> KC, [T; N], [for<'a> &'a mut W::View: ArraysInto<&'a mut [C]>], |w| Some(ArraysInto::<&mut [C]>::arrays_into(w)));
tref!(t_into_arrays, KC -> KA, C, [for<'a> &'a W::View: IntoArrays<&'a [[T; N]]>], |w| Some(IntoArrays::<&[[T; N]]>::into_arrays(w)));
tmut!(t_into_arrays_mut, KC -> KA, C, [for<'a> &'a mut W::View: IntoArrays<&'a mut [[T; N]]>], |w| Some(IntoArrays::<&mut [[T; N]]>::into_arrays(w)));
tref!(t_arrays_from, KC -> KA, C, [for<'a> &'a [[T; N]]: ArraysFrom<&'a W::View>], |w| Some(<&[[T; N]] as ArraysFrom<&W::View>>::arrays_from(w)));
tmut!(t_arrays_from_mut, KC -> KA, C, [for<'a> &'a mut [[T; N]]: ArraysFrom<&'a mut W::View>], |w| Some(<&mut [[T; N]] as ArraysFrom<&mut W::View>>::arrays_from(w)));
// from_into_components_traits.rs (borrowed)
tref!(t_try_from_components, KT -> KC, T, [for<'a> &'a [C]: TryFromComponents<&'a W::View, Error = SliceCastError>], |w| <&[C] as TryFromComponents<&W::View>>::try_from_components(w).ok());
tmut!(t_try_from_components_mut, KT -> KC, T, [for<'a> &'a mut [C]: TryFromComponents<&'a mut W::View, Error = SliceCastError>], |w| <&mut [C] as TryFromComponents<&mut W::View>>::try_from_components(w).ok());
tref!(t_from_components, KT -> KC, T, [for<'a> &'a [C]: FromComponents<&'a W::View>], |w| Some(<&[C] as FromComponents<&W::View>>::from_components(w)));
tmut!(t_from_components_mut, KT -> KC, T, [for<'a> &'a mut [C]: FromComponents<&'a mut W::View>], |w| Some(<&mut [C] as FromComponents<&mut W::View>>::from_components(w)));
tref!(t_try_components_into, KT -> KC, T, [for<'a> &'a W::View: TryComponentsInto<&'a [C], Error = SliceCastError>], |w| TryComponentsInto::<&[C]>::try_components_into(w).ok());
tmut!(t_try_components_into_mut, KT -> KC, T, [for<'a> &'a mut W::View: TryComponentsInto<&'a mut [C], Error = SliceCastError>], |w| TryComponentsInto::<&mut [C]>::try_components_into(w).ok());
tref!(t_components_into, KT -> KC, T, [for<'a> &'a W::View: ComponentsInto<&'a [C]>], |w| Some(ComponentsInto::<&[C]>::components_into(w)));
tmut!(t_components_into_mut, KT -> KC, T, [for<'a> &'a mut W::View: ComponentsInto<&'a mut [C]>], |w| Some(ComponentsInto::<&mut [C]>::components_into(w)));
tref!(t_into_components, KC -> KT, C, [for<'a> &'a W::View: IntoComponents<&'a [T]>], |w| Some(IntoComponents::<&[T]>::into_components(w)));
tmut!(t_into_components_mut, KC -> KT, C, [for<'a> &'a mut W::View: IntoComponents<&'a mut [T]>], |w| Some(IntoComponents::<&mut [T]>::into_components(w)));
tref!(t_components_from, KC -> KT, C, [for<'a> &'a [T]: ComponentsFrom<&'a W::View>], |w| Some(<&[T] as ComponentsFrom<&W::View>>::components_from(w)));
tmut!(t_components_from_mut, KC -> KT, C, [for<'a> &'a mut [T]: ComponentsFrom<&'a mut W::View>], |w| Some(<&mut [T] as ComponentsFrom<&mut W::View>>::components_from(w)));

macro_rules! owners4 {
    ($p:ident, $f:ident, $E:ty, $kmax:tt) => {
        match $p.owner {
            Owner::Slice => $f::<Sl<$E>, C, T, N>($p),
            Owner::Array => by_k!($p.len, $kmax, K, $f::<[$E; K], C, T, N>($p)),
            Owner::Box => $f::<Box<[$E]>, C, T, N>($p),
            Owner::Vec => $f::<Vec<$E>, C, T, N>($p),
            Owner::Value => return None,
        }
    };
}

fn box_err<T>(e: BoxedSliceCastError<T>) -> Box<[T]> {
    e.values
}
fn vec_err<T>(e: VecCastError<T>) -> (&'static str, Vec<T>) {
    (kind_str(e.kind), e.values)
}

pub fn run_traits<C, T, const N: usize>(name: &str, p: &P) -> Option<Obs>
where
    C: Subject<T, N>,
    T: Prim,
{
    type A<T, const N: usize> = [T; N];
    Some(match name {
        "trait/AsArrays::as_arrays" => owners4!(p, t_as_arrays, C, 3),
        "trait/AsArraysMut::as_arrays_mut" => owners4!(p, t_as_arrays_mut, C, 3),
        "trait/ArraysAs::arrays_as" => owners4!(p, t_arrays_as, A<T, N>, 3),
        "trait/ArraysAsMut::arrays_as_mut" => owners4!(p, t_arrays_as_mut, A<T, N>, 3),
        "trait/AsComponents::as_components" => owners4!(p, t_as_components, C, 3),
        "trait/AsComponentsMut::as_components_mut" => owners4!(p, t_as_components_mut, C, 3),
        "trait/TryComponentsAs::try_components_as" => owners4!(p, t_try_components_as, T, 9),
        "trait/TryComponentsAsMut::try_components_as_mut" => owners4!(p, t_try_components_as_mut, T, 9),
        "trait/ComponentsAs::components_as" => owners4!(p, t_components_as, T, 9),
        "trait/ComponentsAsMut::components_as_mut" => owners4!(p, t_components_as_mut, T, 9),
        "trait/FromArrays::from_arrays(&)" => owners4!(p, t_from_arrays, A<T, N>, 3),
        "trait/FromArrays::from_arrays(&mut)" => owners4!(p, t_from_arrays_mut, A<T, N>, 3),
        "trait/ArraysInto::arrays_into(&)" => owners4!(p, t_arrays_into, A<T, N>, 3),
        "trait/ArraysInto::arrays_into(&mut)" => owners4!(p, t_arrays_into_mut, A<T, N>, 3),
        "trait/IntoArrays::into_arrays(&)" => owners4!(p, t_into_arrays, C, 3),
        "trait/IntoArrays::into_arrays(&mut)" => owners4!(p, t_into_arrays_mut, C, 3),
        "trait/ArraysFrom::arrays_from(&)" => owners4!(p, t_arrays_from, C, 3),
        "trait/ArraysFrom::arrays_from(&mut)" => owners4!(p, t_arrays_from_mut, C, 3),
        "trait/TryFromComponents::try_from_components(&)" => owners4!(p, t_try_from_components, T, 9),
        "trait/TryFromComponents::try_from_components(&mut)" => owners4!(p, t_try_from_components_mut, T, 9),
        "trait/FromComponents::from_components(&)" => owners4!(p, t_from_components, T, 9),
        "trait/FromComponents::from_components(&mut)" => owners4!(p, t_from_components_mut, T, 9),
        "trait/TryComponentsInto::try_components_into(&)" => owners4!(p, t_try_components_into, T, 9),
        "trait/TryComponentsInto::try_components_into(&mut)" => owners4!(p, t_try_components_into_mut, T, 9),
        "trait/ComponentsInto::components_into(&)" => owners4!(p, t_components_into, T, 9),
        "trait/ComponentsInto::components_into(&mut)" => owners4!(p, t_components_into_mut, T, 9),
        "trait/IntoComponents::into_components(&)" => owners4!(p, t_into_components, C, 3),
        "trait/IntoComponents::into_components(&mut)" => owners4!(p, t_into_components_mut, C, 3),
        "trait/ComponentsFrom::components_from(&)" => owners4!(p, t_components_from, C, 3),
        "trait/ComponentsFrom::components_from(&mut)" => owners4!(p, t_components_from_mut, C, 3),
        "trait/FromArrays::from_arrays" => match p.owner {
            Owner::Box => run_box::<KA<C, T, N>, KC<C, T, N>, _>(p, |b| Ok(<Box<[C]> as FromArrays<Box<[[T; N]]>>>::from_arrays(b))),
            Owner::Vec => run_vec::<KA<C, T, N>, KC<C, T, N>, _>(p, |v| Ok(<Vec<C> as FromArrays<Vec<[T; N]>>>::from_arrays(v))),
            Owner::Value => by_k!(p.len, 3, K, run_val::<KA<C, T, N>, KC<C, T, N>, _, K, K>(p, |a| <[C; K] as FromArrays<[[T; N]; K]>>::from_arrays(a))),
            _ => return None,
        },
        "trait/ArraysInto::arrays_into" => match p.owner {
            Owner::Box => run_box::<KA<C, T, N>, KC<C, T, N>, _>(p, |b| Ok(ArraysInto::<Box<[C]>>::arrays_into(b))),
            Owner::Vec => run_vec::<KA<C, T, N>, KC<C, T, N>, _>(p, |v| Ok(ArraysInto::<Vec<C>>::arrays_into(v))),
            Owner::Value => by_k!(p.len, 3, K, run_val::<KA<C, T, N>, KC<C, T, N>, _, K, K>(p, |a| ArraysInto::<[C; K]>::arrays_into(a))),
            _ => return None,
        },
        "trait/IntoArrays::into_arrays" => match p.owner {
            Owner::Box => run_box::<KC<C, T, N>, KA<C, T, N>, _>(p, |b| Ok(IntoArrays::<Box<[[T; N]]>>::into_arrays(b))),
            Owner::Vec => run_vec::<KC<C, T, N>, KA<C, T, N>, _>(p, |v| Ok(IntoArrays::<Vec<[T; N]>>::into_arrays(v))),
            Owner::Value => by_k!(p.len, 3, K, run_val::<KC<C, T, N>, KA<C, T, N>, _, K, K>(p, |a| IntoArrays::<[[T; N]; K]>::into_arrays(a))),
            _ => return None,
        },
        "trait/ArraysFrom::arrays_from" => match p.owner {
            Owner::Box => run_box::<KC<C, T, N>, KA<C, T, N>, _>(p, |b| Ok(<Box<[[T; N]]> as ArraysFrom<Box<[C]>>>::arrays_from(b))),
            Owner::Vec => run_vec::<KC<C, T, N>, KA<C, T, N>, _>(p, |v| Ok(<Vec<[T; N]> as ArraysFrom<Vec<C>>>::arrays_from(v))),
            Owner::Value => by_k!(p.len, 3, K, run_val::<KC<C, T, N>, KA<C, T, N>, _, K, K>(p, |a| <[[T; N]; K] as ArraysFrom<[C; K]>>::arrays_from(a))),
            _ => return None,
        },
        "trait/TryFromComponents::try_from_components" => match p.owner {
            Owner::Box => run_box::<KT<C, T, N>, KC<C, T, N>, _>(p, |b| <Box<[C]> as TryFromComponents<Box<[T]>>>::try_from_components(b).map_err(box_err)),
            Owner::Vec => run_vec::<KT<C, T, N>, KC<C, T, N>, _>(p, |v| <Vec<C> as TryFromComponents<Vec<T>>>::try_from_components(v).map_err(vec_err)),
            _ => return None,
        },
        "trait/FromComponents::from_components" => match p.owner {
            Owner::Box => run_box::<KT<C, T, N>, KC<C, T, N>, _>(p, |b| Ok(<Box<[C]> as FromComponents<Box<[T]>>>::from_components(b))),
            Owner::Vec => run_vec::<KT<C, T, N>, KC<C, T, N>, _>(p, |v| Ok(<Vec<C> as FromComponents<Vec<T>>>::from_components(v))),
            _ => return None,
        },
        "trait/TryComponentsInto::try_components_into" => match p.owner {
            Owner::Box => run_box::<KT<C, T, N>, KC<C, T, N>, _>(p, |b| TryComponentsInto::<Box<[C]>>::try_components_into(b).map_err(box_err)),
            Owner::Vec => run_vec::<KT<C, T, N>, KC<C, T, N>, _>(p, |v| TryComponentsInto::<Vec<C>>::try_components_into(v).map_err(vec_err)),
            _ => return None,
        },
        "trait/ComponentsInto::components_into" => match p.owner {
            Owner::Box => run_box::<KT<C, T, N>, KC<C, T, N>, _>(p, |b| Ok(ComponentsInto::<Box<[C]>>::components_into(b))),
            Owner::Vec => run_vec::<KT<C, T, N>, KC<C, T, N>, _>(p, |v| Ok(ComponentsInto::<Vec<C>>::components_into(v))),
            _ => return None,
        },
        "trait/IntoComponents::into_components" => match p.owner {
            Owner::Box => run_box::<KC<C, T, N>, KT<C, T, N>, _>(p, |b| Ok(IntoComponents::<Box<[T]>>::into_components(b))),
            Owner::Vec => run_vec::<KC<C, T, N>, KT<C, T, N>, _>(p, |v| Ok(IntoComponents::<Vec<T>>::into_components(v))),
            _ => return None,
        },
        "trait/ComponentsFrom::components_from" => match p.owner {
            Owner::Box => run_box::<KC<C, T, N>, KT<C, T, N>, _>(p, |b| Ok(<Box<[T]> as ComponentsFrom<Box<[C]>>>::components_from(b))),
            Owner::Vec => run_vec::<KC<C, T, N>, KT<C, T, N>, _>(p, |v| Ok(<Vec<T> as ComponentsFrom<Vec<C>>>::components_from(v))),
            _ => return None,
        },
        _ => return None,
    })
}

