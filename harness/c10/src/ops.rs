//! Runtime description of one colour type for C10: which operator traits it implements, each
//! operator form (by value / assigning / on Alpha / on PreAlpha / on slices) as a plain function
//! on component arrays. Built by macros from explicit per-type trait lists (types.rs).
use palette::blend::{PreAlpha, Premultiply};
use palette::cast::ArrayCast;
use palette::Alpha;
use pv::fl::Fl;

/// components 0..N of the colour in slots 0..N, alpha (when a form carries one) in slot 3
pub type V<T> = [T; 4];

pub type F1<T> = fn(&V<T>) -> V<T>;
pub type F2<T> = fn(&V<T>, T) -> V<T>;
pub type FB<T> = fn(&V<T>, &V<T>) -> V<T>;
pub type F3<T> = fn(&V<T>, &V<T>, T) -> V<T>;
pub type FS<T> = fn(&[V<T>], T) -> Vec<V<T>>;
pub type FS0<T> = fn(&[V<T>]) -> Vec<V<T>>;
pub type FM<T> = fn(&V<T>) -> Vec<V<T>>;

/// local arithmetic on the component type (reference for the alpha channel of Alpha/PreAlpha arithmetic)
pub trait Ar: Fl {
    fn ar(self, o: Self, op: usize) -> Self;
}
impl Ar for f32 {
    fn ar(self, o: f32, op: usize) -> f32 {
        match op {
            0 => self + o,
            1 => self - o,
            2 => self * o,
            _ => self / o,
        }
    }
}
impl Ar for f64 {
    fn ar(self, o: f64, op: usize) -> f64 {
        match op {
            0 => self + o,
            1 => self - o,
            2 => self * o,
            _ => self / o,
        }
    }
}

#[inline]
pub fn fr<C: ArrayCast<Array = [T; N]>, T: Copy, const N: usize>(v: &V<T>) -> C {
    let mut a = [v[0]; N];
    a.copy_from_slice(&v[..N]);
    palette::cast::from_array(a)
}
#[inline]
pub fn to<C: ArrayCast<Array = [T; N]>, T: Fl, const N: usize>(c: C) -> V<T> {
    let a: [T; N] = palette::cast::into_array(c);
    let mut v = [T::from64(0.0); 4];
    v[..N].copy_from_slice(&a);
    v
}
#[inline]
pub fn fra<C: ArrayCast<Array = [T; N]>, T: Copy, const N: usize>(v: &V<T>) -> Alpha<C, T> {
    Alpha { color: fr::<C, T, N>(v), alpha: v[3] }
}
#[inline]
pub fn toa<C: ArrayCast<Array = [T; N]>, T: Fl, const N: usize>(c: Alpha<C, T>) -> V<T> {
    let mut v = to::<C, T, N>(c.color);
    v[3] = c.alpha;
    v
}
#[inline]
pub fn frp<C: ArrayCast<Array = [T; N]> + Premultiply<Scalar = T>, T: Copy, const N: usize>(v: &V<T>) -> PreAlpha<C> {
    PreAlpha { color: fr::<C, T, N>(v), alpha: v[3] }
}
#[inline]
pub fn top<C: ArrayCast<Array = [T; N]> + Premultiply<Scalar = T>, T: Fl, const N: usize>(c: PreAlpha<C>) -> V<T> {
    let mut v = to::<C, T, N>(c.color);
    v[3] = c.alpha;
    v
}

pub enum Kind<T> {
    /// lattice range [lo, hi] (accessor bounds, or a practical envelope for unbounded components)
    R(T, T),
    /// hue in degrees
    Hu,
}
pub struct Comp<T> {
    pub name: &'static str,
    pub kind: Kind<T>,
}
pub fn r<T>(name: &'static str, lo: T, hi: T) -> Comp<T> {
    Comp { name, kind: Kind::R(lo, hi) }
}
pub fn hu<T>(name: &'static str) -> Comp<T> {
    Comp { name, kind: Kind::Hu }
}

pub struct MixOps<T> {
    pub mix: F3<T>,
    pub mix_as: F3<T>,
    pub amix: F3<T>,
    pub amix_as: F3<T>,
    pub pmix: Option<F3<T>>,
    pub pmix_as: Option<F3<T>>,
}

/// one component moved by lighten / saturate: index, accessor min, accessor max, direction (+1: towards max)
#[derive(Clone, Copy)]
pub struct Aff<T> {
    pub idx: usize,
    pub min: T,
    pub max: T,
    pub dir: i32,
}
pub fn aff<T>(idx: usize, min: T, max: T, dir: i32) -> Aff<T> {
    Aff { idx, min, max, dir }
}

/// forms: 0 rel, 1 fixed, 2 rel_assign, 3 fixed_assign, 4 neg rel (darken/desaturate), 5 neg fixed,
/// 6 neg rel_assign, 7 neg fixed_assign; slice forms: 0 rel_assign, 1 fixed_assign, 2 neg rel_assign, 3 neg fixed_assign
pub struct IncOps<T> {
    pub names: [&'static str; 8],
    pub affected: Vec<Aff<T>>,
    pub plain: [F2<T>; 8],
    pub alpha: [F2<T>; 8],
    pub slice: [FS<T>; 4],
    pub aslice: [FS<T>; 4],
}

pub struct HueOps<T> {
    pub idx: usize,
    /// 0 shift_hue, 1 shift_hue_assign, 2 with_hue, 3 set_hue
    pub plain: [F2<T>; 4],
    pub alpha: [F2<T>; 4],
    /// 0 shift_hue_assign, 1 set_hue
    pub slice: [FS<T>; 2],
    pub aslice: [FS<T>; 2],
}

pub struct SchemeOps<T> {
    /// documented rotation (degrees) of each returned colour, in the order `all` returns them
    pub angles: &'static [f64],
    pub labels: &'static [&'static str],
    pub all: FM<T>,
    pub aall: FM<T>,
    /// Lab-like types: indices of the two opponent axes; the same helpers through the polar sibling type
    pub lab: Option<(usize, usize)>,
    pub polar: Option<FM<T>>,
}
pub const HUE_ANGLES: &[f64] = &[180.0, 150.0, 210.0, -30.0, 30.0, -60.0, 60.0, 120.0, 240.0, 90.0, 180.0, 270.0];
pub const HUE_LABELS: &[&str] = &["complementary", "split_complementary.0", "split_complementary.1", "analogous.0", "analogous.1", "analogous_secondary.0", "analogous_secondary.1", "triadic.0", "triadic.1", "tetradic.0", "tetradic.1", "tetradic.2"];
pub const LAB_ANGLES: &[f64] = &[180.0, 90.0, 180.0, 270.0];
pub const LAB_LABELS: &[&str] = &["complementary", "tetradic.0", "tetradic.1", "tetradic.2"];

pub struct ArithOp<T> {
    pub name: &'static str,
    /// 0 add, 1 sub, 2 mul, 3 div
    pub code: usize,
    pub cc: FB<T>,
    pub cc_as: FB<T>,
    pub cs: F2<T>,
    pub cs_as: F2<T>,
    pub acc: FB<T>,
    pub acc_as: FB<T>,
    pub acs: F2<T>,
    pub acs_as: F2<T>,
    pub pcc: Option<FB<T>>,
    pub pcc_as: Option<FB<T>>,
    pub pcs: Option<F2<T>>,
    pub pcs_as: Option<F2<T>>,
}

pub struct ClampOps<T> {
    pub clamp: F1<T>,
    pub clamp_as: F1<T>,
    pub aclamp: F1<T>,
    pub aclamp_as: F1<T>,
    pub slice: FS0<T>,
    pub aslice: FS0<T>,
}

pub struct Spec<T: Fl> {
    pub name: &'static str,
    pub n: usize,
    pub comps: Vec<Comp<T>>,
    /// whiteness + blackness <= 1 (HWB family)
    pub coupled: bool,
    pub mix: Option<MixOps<T>>,
    pub lighten: Option<IncOps<T>>,
    pub saturate: Option<IncOps<T>>,
    pub hue: Option<HueOps<T>>,
    pub schemes: Option<SchemeOps<T>>,
    pub arith: Vec<ArithOp<T>>,
    pub clamp: Option<ClampOps<T>>,
}
impl<T: Fl> Spec<T> {
    pub fn new(name: &'static str, n: usize, comps: Vec<Comp<T>>) -> Self {
        Spec { name, n, comps, coupled: false, mix: None, lighten: None, saturate: None, hue: None, schemes: None, arith: vec![], clamp: None }
    }
    pub fn hue_idx(&self) -> Option<usize> {
        self.comps.iter().position(|c| matches!(c.kind, Kind::Hu))
    }
    /// magnitude that rounding errors of component i scale with
    pub fn scale(&self, i: usize) -> f64 {
        match self.comps[i].kind {
            Kind::Hu => 360.0,
            Kind::R(lo, hi) => (hi.to64() - lo.to64()).abs().max(lo.to64().abs()).max(hi.to64().abs()),
        }
    }
}

// ------------------------------------------------------------------------------------------
// form builders: $fr/$to select plain (fr/to), Alpha (fra/toa) or PreAlpha (frp/top)

macro_rules! byv2 {
    ($fr:ident, $to:ident, $C:ty, $T:ty, $N:literal, $Tr:ident :: $m:ident) => {
        (|a: &V<$T>, f: $T| -> V<$T> { $to::<$C, $T, $N>($Tr::$m($fr::<$C, $T, $N>(a), f)) }) as F2<$T>
    };
}
macro_rules! asg2 {
    ($fr:ident, $to:ident, $C:ty, $T:ty, $N:literal, $Tr:ident :: $m:ident) => {
        (|a: &V<$T>, f: $T| -> V<$T> {
            let mut x = $fr::<$C, $T, $N>(a);
            $Tr::$m(&mut x, f);
            $to::<$C, $T, $N>(x)
        }) as F2<$T>
    };
}
macro_rules! slc2 {
    ($fr:ident, $to:ident, $C:ty, $T:ty, $N:literal, $Tr:ident :: $m:ident) => {
        (|s: &[V<$T>], f: $T| -> Vec<V<$T>> {
            let mut xs: Vec<_> = s.iter().map(|a| $fr::<$C, $T, $N>(a)).collect();
            $Tr::$m(&mut xs[..], f);
            xs.into_iter().map(|x| $to::<$C, $T, $N>(x)).collect()
        }) as FS<$T>
    };
}
macro_rules! byvb {
    ($fr:ident, $to:ident, $C:ty, $T:ty, $N:literal, $Tr:ident :: $m:ident) => {
        (|a: &V<$T>, b: &V<$T>| -> V<$T> { $to::<$C, $T, $N>($Tr::$m($fr::<$C, $T, $N>(a), $fr::<$C, $T, $N>(b))) }) as FB<$T>
    };
}
macro_rules! asgb {
    ($fr:ident, $to:ident, $C:ty, $T:ty, $N:literal, $Tr:ident :: $m:ident) => {
        (|a: &V<$T>, b: &V<$T>| -> V<$T> {
            let mut x = $fr::<$C, $T, $N>(a);
            $Tr::$m(&mut x, $fr::<$C, $T, $N>(b));
            $to::<$C, $T, $N>(x)
        }) as FB<$T>
    };
}
macro_rules! byv3 {
    ($fr:ident, $to:ident, $C:ty, $T:ty, $N:literal, $Tr:ident :: $m:ident) => {
        (|a: &V<$T>, b: &V<$T>, f: $T| -> V<$T> { $to::<$C, $T, $N>($Tr::$m($fr::<$C, $T, $N>(a), $fr::<$C, $T, $N>(b), f)) }) as F3<$T>
    };
}
macro_rules! asg3 {
    ($fr:ident, $to:ident, $C:ty, $T:ty, $N:literal, $Tr:ident :: $m:ident) => {
        (|a: &V<$T>, b: &V<$T>, f: $T| -> V<$T> {
            let mut x = $fr::<$C, $T, $N>(a);
            $Tr::$m(&mut x, $fr::<$C, $T, $N>(b), f);
            $to::<$C, $T, $N>(x)
        }) as F3<$T>
    };
}

macro_rules! mix_ops {
    ($C:ty, $T:ty, $N:literal) => {
        MixOps::<$T> {
            mix: byv3!(fr, to, $C, $T, $N, Mix::mix),
            mix_as: asg3!(fr, to, $C, $T, $N, MixAssign::mix_assign),
            amix: byv3!(fra, toa, $C, $T, $N, Mix::mix),
            amix_as: asg3!(fra, toa, $C, $T, $N, MixAssign::mix_assign),
            pmix: None,
            pmix_as: None,
        }
    };
}
macro_rules! mix_pre {
    ($m:expr, $C:ty, $T:ty, $N:literal) => {
        $m.pmix = Some(byv3!(frp, top, $C, $T, $N, Mix::mix));
        $m.pmix_as = Some(asg3!(frp, top, $C, $T, $N, MixAssign::mix_assign));
    };
}

macro_rules! inc_forms {
    ($fr:ident, $to:ident, $C:ty, $T:ty, $N:literal, $Tr:ident :: $m:ident / $mf:ident, $TrA:ident :: $ma:ident / $mfa:ident, $Ng:ident :: $n:ident / $nf:ident, $NgA:ident :: $na:ident / $nfa:ident) => {
        [
            byv2!($fr, $to, $C, $T, $N, $Tr::$m),
            byv2!($fr, $to, $C, $T, $N, $Tr::$mf),
            asg2!($fr, $to, $C, $T, $N, $TrA::$ma),
            asg2!($fr, $to, $C, $T, $N, $TrA::$mfa),
            byv2!($fr, $to, $C, $T, $N, $Ng::$n),
            byv2!($fr, $to, $C, $T, $N, $Ng::$nf),
            asg2!($fr, $to, $C, $T, $N, $NgA::$na),
            asg2!($fr, $to, $C, $T, $N, $NgA::$nfa),
        ]
    };
}
macro_rules! inc_slices {
    ($fr:ident, $to:ident, $C:ty, $T:ty, $N:literal, $TrA:ident :: $ma:ident / $mfa:ident, $NgA:ident :: $na:ident / $nfa:ident) => {
        [slc2!($fr, $to, $C, $T, $N, $TrA::$ma), slc2!($fr, $to, $C, $T, $N, $TrA::$mfa), slc2!($fr, $to, $C, $T, $N, $NgA::$na), slc2!($fr, $to, $C, $T, $N, $NgA::$nfa)]
    };
}
macro_rules! lighten_ops {
    ($C:ty, $T:ty, $N:literal, $aff:expr) => {
        IncOps::<$T> {
            names: ["lighten", "lighten_fixed", "lighten_assign", "lighten_fixed_assign", "darken", "darken_fixed", "darken_assign", "darken_fixed_assign"],
            affected: $aff,
            plain: inc_forms!(fr, to, $C, $T, $N, Lighten::lighten / lighten_fixed, LightenAssign::lighten_assign / lighten_fixed_assign, Darken::darken / darken_fixed, DarkenAssign::darken_assign / darken_fixed_assign),
            alpha: inc_forms!(fra, toa, $C, $T, $N, Lighten::lighten / lighten_fixed, LightenAssign::lighten_assign / lighten_fixed_assign, Darken::darken / darken_fixed, DarkenAssign::darken_assign / darken_fixed_assign),
            slice: inc_slices!(fr, to, $C, $T, $N, LightenAssign::lighten_assign / lighten_fixed_assign, DarkenAssign::darken_assign / darken_fixed_assign),
            aslice: inc_slices!(fra, toa, $C, $T, $N, LightenAssign::lighten_assign / lighten_fixed_assign, DarkenAssign::darken_assign / darken_fixed_assign),
        }
    };
}
macro_rules! saturate_ops {
    ($C:ty, $T:ty, $N:literal, $aff:expr) => {
        IncOps::<$T> {
            names: ["saturate", "saturate_fixed", "saturate_assign", "saturate_fixed_assign", "desaturate", "desaturate_fixed", "desaturate_assign", "desaturate_fixed_assign"],
            affected: $aff,
            plain: inc_forms!(fr, to, $C, $T, $N, Saturate::saturate / saturate_fixed, SaturateAssign::saturate_assign / saturate_fixed_assign, Desaturate::desaturate / desaturate_fixed, DesaturateAssign::desaturate_assign / desaturate_fixed_assign),
            alpha: inc_forms!(fra, toa, $C, $T, $N, Saturate::saturate / saturate_fixed, SaturateAssign::saturate_assign / saturate_fixed_assign, Desaturate::desaturate / desaturate_fixed, DesaturateAssign::desaturate_assign / desaturate_fixed_assign),
            slice: inc_slices!(fr, to, $C, $T, $N, SaturateAssign::saturate_assign / saturate_fixed_assign, DesaturateAssign::desaturate_assign / desaturate_fixed_assign),
            aslice: inc_slices!(fra, toa, $C, $T, $N, SaturateAssign::saturate_assign / saturate_fixed_assign, DesaturateAssign::desaturate_assign / desaturate_fixed_assign),
        }
    };
}

macro_rules! hue_ops {
    ($C:ty, $T:ty, $N:literal, $idx:expr) => {
        HueOps::<$T> {
            idx: $idx,
            plain: [byv2!(fr, to, $C, $T, $N, ShiftHue::shift_hue), asg2!(fr, to, $C, $T, $N, ShiftHueAssign::shift_hue_assign), byv2!(fr, to, $C, $T, $N, WithHue::with_hue), asg2!(fr, to, $C, $T, $N, SetHue::set_hue)],
            alpha: [byv2!(fra, toa, $C, $T, $N, ShiftHue::shift_hue), asg2!(fra, toa, $C, $T, $N, ShiftHueAssign::shift_hue_assign), byv2!(fra, toa, $C, $T, $N, WithHue::with_hue), asg2!(fra, toa, $C, $T, $N, SetHue::set_hue)],
            slice: [slc2!(fr, to, $C, $T, $N, ShiftHueAssign::shift_hue_assign), slc2!(fr, to, $C, $T, $N, SetHue::set_hue)],
            aslice: [slc2!(fra, toa, $C, $T, $N, ShiftHueAssign::shift_hue_assign), slc2!(fra, toa, $C, $T, $N, SetHue::set_hue)],
        }
    };
}

macro_rules! hue_scheme_fn {
    ($fr:ident, $to:ident, $C:ty, $T:ty, $N:literal) => {
        (|a: &V<$T>| -> Vec<V<$T>> {
            let x = $fr::<$C, $T, $N>(a);
            let c0 = Complementary::complementary(x);
            let (s0, s1) = SplitComplementary::split_complementary(x);
            let (a0, a1) = Analogous::analogous(x);
            let (b0, b1) = Analogous::analogous_secondary(x);
            let (t0, t1) = Triadic::triadic(x);
            let (q0, q1, q2) = Tetradic::tetradic(x);
            vec![c0, s0, s1, a0, a1, b0, b1, t0, t1, q0, q1, q2].into_iter().map(|y| $to::<$C, $T, $N>(y)).collect()
        }) as FM<$T>
    };
}
macro_rules! hue_schemes {
    ($C:ty, $T:ty, $N:literal) => {
        SchemeOps::<$T> { angles: HUE_ANGLES, labels: HUE_LABELS, all: hue_scheme_fn!(fr, to, $C, $T, $N), aall: hue_scheme_fn!(fra, toa, $C, $T, $N), lab: None, polar: None }
    };
}
macro_rules! lab_scheme_fn {
    ($fr:ident, $to:ident, $C:ty, $T:ty, $N:literal) => {
        (|a: &V<$T>| -> Vec<V<$T>> {
            let x = $fr::<$C, $T, $N>(a);
            let c0 = Complementary::complementary(x);
            let (q0, q1, q2) = Tetradic::tetradic(x);
            vec![c0, q0, q1, q2].into_iter().map(|y| $to::<$C, $T, $N>(y)).collect()
        }) as FM<$T>
    };
}
macro_rules! lab_schemes {
    ($C:ty, $P:ty, $T:ty, $N:literal, $ia:expr, $ib:expr) => {
        SchemeOps::<$T> {
            angles: LAB_ANGLES,
            labels: LAB_LABELS,
            all: lab_scheme_fn!(fr, to, $C, $T, $N),
            aall: lab_scheme_fn!(fra, toa, $C, $T, $N),
            lab: Some(($ia, $ib)),
            polar: Some((|a: &V<$T>| -> Vec<V<$T>> {
                let p = <$P as FromColorUnclamped<$C>>::from_color_unclamped(fr::<$C, $T, $N>(a));
                let c0 = Complementary::complementary(p);
                let (q0, q1, q2) = Tetradic::tetradic(p);
                vec![c0, q0, q1, q2].into_iter().map(|y| to::<$C, $T, $N>(<$C as FromColorUnclamped<$P>>::from_color_unclamped(y))).collect()
            }) as FM<$T>),
        }
    };
}

macro_rules! arith_op {
    ($C:ty, $T:ty, $N:literal, $name:literal, $code:literal, $Op:ident :: $op:ident, $OpA:ident :: $opa:ident) => {
        ArithOp::<$T> {
            name: $name,
            code: $code,
            cc: byvb!(fr, to, $C, $T, $N, $Op::$op),
            cc_as: asgb!(fr, to, $C, $T, $N, $OpA::$opa),
            cs: byv2!(fr, to, $C, $T, $N, $Op::$op),
            cs_as: asg2!(fr, to, $C, $T, $N, $OpA::$opa),
            acc: byvb!(fra, toa, $C, $T, $N, $Op::$op),
            acc_as: asgb!(fra, toa, $C, $T, $N, $OpA::$opa),
            acs: byv2!(fra, toa, $C, $T, $N, $Op::$op),
            acs_as: asg2!(fra, toa, $C, $T, $N, $OpA::$opa),
            pcc: None,
            pcc_as: None,
            pcs: None,
            pcs_as: None,
        }
    };
}
macro_rules! arith_pre {
    ($o:expr, $C:ty, $T:ty, $N:literal, $Op:ident :: $op:ident, $OpA:ident :: $opa:ident) => {{
        let mut o = $o;
        o.pcc = Some(byvb!(frp, top, $C, $T, $N, $Op::$op));
        o.pcc_as = Some(asgb!(frp, top, $C, $T, $N, $OpA::$opa));
        o.pcs = Some(byv2!(frp, top, $C, $T, $N, $Op::$op));
        o.pcs_as = Some(asg2!(frp, top, $C, $T, $N, $OpA::$opa));
        o
    }};
}

macro_rules! clamp_forms {
    ($fr:ident, $to:ident, $C:ty, $T:ty, $N:literal) => {
        (
            (|a: &V<$T>| -> V<$T> { $to::<$C, $T, $N>(Clamp::clamp($fr::<$C, $T, $N>(a))) }) as F1<$T>,
            (|a: &V<$T>| -> V<$T> {
                let mut x = $fr::<$C, $T, $N>(a);
                ClampAssign::clamp_assign(&mut x);
                $to::<$C, $T, $N>(x)
            }) as F1<$T>,
            (|s: &[V<$T>]| -> Vec<V<$T>> {
                let mut xs: Vec<_> = s.iter().map(|a| $fr::<$C, $T, $N>(a)).collect();
                ClampAssign::clamp_assign(&mut xs[..]);
                xs.into_iter().map(|x| $to::<$C, $T, $N>(x)).collect()
            }) as FS0<$T>,
        )
    };
}
macro_rules! clamp_ops {
    ($C:ty, $T:ty, $N:literal) => {{
        let p = clamp_forms!(fr, to, $C, $T, $N);
        let a = clamp_forms!(fra, toa, $C, $T, $N);
        ClampOps::<$T> { clamp: p.0, clamp_as: p.1, slice: p.2, aclamp: a.0, aclamp_as: a.1, aslice: a.2 }
    }};
}
