//! Range sub-checks: Standard ⇒ within the bounds of the space; Uniform(low, high) ⇒ every component
//! between the ends (HWB forms: equivalent HSV saturation and value), hue on the arc low → high.
use crate::geom::{end_bounds, Cdf};
use crate::rng::{ScriptRng, MAX_SCRIPT};
use crate::spec::{Sampler, Shape, Spec, A4};
use pv::fl::Fl;
use pv::{json, Collector, Value};
use rand::distributions::uniform::SampleUniform;
use rand::distributions::{Distribution, Uniform};

pub fn hexs<T: Fl>(v: &A4<T>, n: usize) -> Vec<String> {
    v[..n].iter().map(|x| format!("{:#x}", x.bits64())).collect()
}
pub fn f64s<T: Fl>(v: &A4<T>, n: usize) -> Vec<f64> {
    v[..n].iter().map(|x| x.to64()).collect()
}
pub fn words_hex(w: &[u64]) -> Vec<String> {
    w.iter().map(|x| format!("{:#x}", x)).collect()
}
pub fn parse_hex(v: &Value) -> Vec<u64> {
    v.as_array().map(|a| a.iter().map(|x| u64::from_str_radix(x.as_str().unwrap_or("0").trim_start_matches("0x"), 16).unwrap_or(0)).collect()).unwrap_or_default()
}
pub fn min_pos<T: Fl>() -> f64 {
    if T::NAME == "f32" {
        f32::MIN_POSITIVE as f64
    } else {
        f64::MIN_POSITIVE
    }
}
pub fn word_bits<T: Fl>() -> u32 {
    if T::NAME == "f32" {
        32
    } else {
        64
    }
}

/// What the RNG was asked during one sample; compared with the first observation of the type.
#[derive(Clone, Copy, PartialEq, Debug)]
pub struct Draws {
    pub n: usize,
    pub c32: u32,
    pub c64: u32,
    pub bytes: u32,
}

pub fn machinery(msg: String) -> ! {
    eprintln!("MACHINERY-FAILURE: {msg}");
    std::process::exit(3)
}

/// Measure how many words one sample draws (long script of distinct non-trivial words).
pub fn probe_draws<T: Fl>(f: &dyn Fn(&mut ScriptRng) -> A4<T>, who: &str) -> Draws {
    let probe: Vec<u64> = (0..MAX_SCRIPT as u64).map(|i| pv::splitmix(i + 17) >> (64 - word_bits::<T>())).collect();
    let mut rng = ScriptRng::new(&probe);
    let _ = f(&mut rng);
    if rng.overdrawn {
        machinery(format!("{who}: one sample drew more than {MAX_SCRIPT} words"));
    }
    let d = Draws { n: rng.drawn(), c32: rng.calls32, c64: rng.calls64, bytes: rng.calls_bytes };
    let want32 = T::NAME == "f32";
    if d.bytes != 0 || (want32 && d.c64 != 0) || (!want32 && d.c32 != 0) {
        machinery(format!("{who}: unexpected RNG request kinds {d:?} (the word lattice assumes next_u32 for f32 and next_u64 for f64 samplers)"));
    }
    d
}

#[inline]
pub fn run_sample<T: Fl>(f: &dyn Fn(&mut ScriptRng) -> A4<T>, script: &[u64], want: Draws, who: &str) -> A4<T> {
    let mut rng = ScriptRng::new(script);
    let x = f(&mut rng);
    if rng.overdrawn || rng.drawn() != want.n || rng.calls32 != want.c32 || rng.calls64 != want.c64 || rng.calls_bytes != want.bytes {
        machinery(format!("{who}: draw count not constant: first observation {want:?}, now n={} u32={} u64={} bytes={} overdrawn={} on script {:?}", rng.drawn(), rng.calls32, rng.calls64, rng.calls_bytes, rng.overdrawn, words_hex(script)));
    }
    x
}

/// Enumerate W^d in odometer order (first word slowest), calling `f(script)`.
pub fn for_scripts(w: &[u64], d: usize, first: Option<usize>, mut f: impl FnMut(&[u64])) {
    if d == 0 {
        f(&[]);
        return;
    }
    let mut idx = vec![0usize; d];
    let mut script = vec![w[0]; d];
    if let Some(i) = first {
        idx[0] = i;
        script[0] = w[i];
    }
    loop {
        f(&script);
        let mut k = d;
        loop {
            if k == 0 || (first.is_some() && k == 1) {
                return;
            }
            k -= 1;
            idx[k] += 1;
            if idx[k] < w.len() {
                script[k] = w[idx[k]];
                break;
            }
            idx[k] = 0;
            script[k] = w[0];
        }
    }
}

// ------------------------------------------------------------------------------------------
// Standard

pub fn check_standard<T: Fl>(sp: &Spec<T>, script: &[u64], x: &A4<T>, c: &mut Collector, traces: &mut u64) {
    let case = |what: &str, obs: Value, exp: Value| json!({"sub": "standard", "type": sp.name, "float": T::NAME, "dist": "Standard", "script": words_hex(script), "what": what, "input": words_hex(script), "sample": f64s(x, sp.n), "sample_bits": hexs(x, sp.n), "observed": obs, "expected": exp});
    let sig = |what: &str| format!("C19/standard/{}/{}/{}", sp.name, T::NAME, what);
    *traces += 1;
    if !(sp.within)(x) {
        c.violation(&sig("is_within_bounds"), 1.0, || case("is_within_bounds()", json!(false), json!(true)));
    }
    for (i, cp) in sp.comps.iter().enumerate() {
        let v = x[i].to64();
        *traces += 1;
        if !v.is_finite() {
            c.violation(&sig(&format!("{}/non-finite", cp.name)), 1.0, || case(cp.name, json!(format!("{v}")), json!("finite")));
            continue;
        }
        if let Some(mn) = cp.bmin {
            if v < mn.to64() {
                c.violation(&sig(&format!("{}/below-min", cp.name)), mn.to64() - v, || case(cp.name, json!(v), json!({"min": mn.to64()})));
            }
        }
        if let Some(mx) = cp.bmax {
            if v > mx.to64() {
                c.violation(&sig(&format!("{}/above-max", cp.name)), v - mx.to64(), || case(cp.name, json!(v), json!({"max": mx.to64()})));
            }
        }
    }
}

// ------------------------------------------------------------------------------------------
// Uniform

pub fn arc_class(a: f64, b: f64) -> &'static str {
    let span = b - a;
    if span == 0.0 {
        "equal-ends"
    } else if span >= 360.0 {
        "full-circle"
    } else if (a / 360.0).floor() != (b / 360.0).floor() && b % 360.0 != 0.0 {
        "wraps-through-0"
    } else if a < 0.0 || a >= 360.0 {
        "other-turn"
    } else {
        "plain"
    }
}

/// distance (degrees) by which `h` misses the arc that starts at `a` and runs `span` degrees
/// counter-clockwise; 0 if on it
pub fn off_arc(h: f64, a: f64, span: f64) -> f64 {
    let d = (h - a).rem_euclid(360.0);
    if d <= span {
        0.0
    } else {
        (d - span).min(360.0 - d)
    }
}

pub struct UniCase<'a, T: Fl> {
    pub sp: &'a Spec<T>,
    pub lo: A4<T>,
    pub hi: A4<T>,
    pub inclusive: bool,
    /// HWB forms: equivalent HSV of the two ends
    pub ends_hsv: Option<(A4<T>, A4<T>)>,
}

/// How a non-hue component comes about, hence how exactly "between the ends" can be demanded.
fn comp_cdf<T: Fl>(sp: &Spec<T>, i: usize) -> Option<Cdf> {
    if sp.alpha && i == sp.n - 1 {
        return None;
    }
    match sp.shape {
        Shape::Cartesian | Shape::Hue => None,
        Shape::Cylinder { radius, .. } => (i == radius).then_some(Cdf::Square { scale: 1.0 }),
        Shape::Cone { s, v } => {
            if i == s {
                Some(Cdf::Square { scale: 1.0 })
            } else if i == v {
                Some(Cdf::Cube)
            } else {
                None
            }
        }
        Shape::Bicone { s, l, scale } => {
            if i == s {
                Some(Cdf::Square { scale })
            } else if i == l {
                Some(Cdf::Bicone { scale })
            } else {
                None
            }
        }
        Shape::HwbCone { .. } => None,
    }
}

fn plain_new_reaches_high<T: Fl + SampleUniform>(lo: T, hi: T) -> bool {
    // rand documents that rounding may let Uniform::new return the upper bound; ask rand itself with
    // the all-ones word (its sample is monotone in the word)
    let r = pv::catch(|| {
        let u = Uniform::<T>::new(lo, hi);
        let mut rng = ScriptRng::new(&[u64::MAX >> (64 - word_bits::<T>())]);
        u.sample(&mut rng)
    });
    match r {
        Ok(v) => v.to64() >= hi.to64(),
        Err(_) => true,
    }
}

pub fn check_uniform<T: Fl + SampleUniform>(uc: &UniCase<T>, script: &[u64], x: &A4<T>, c: &mut Collector, traces: &mut u64) {
    let sp = uc.sp;
    let ctor = if uc.inclusive { "new_inclusive" } else { "new" };
    let case = |what: &str, obs: Value, exp: Value| {
        json!({"sub": "uniform", "type": sp.name, "float": T::NAME, "dist": ctor, "low_bits": hexs(&uc.lo, sp.n), "high_bits": hexs(&uc.hi, sp.n), "script": words_hex(script),
            "input": {"low": f64s(&uc.lo, sp.n), "high": f64s(&uc.hi, sp.n), "script": words_hex(script)}, "what": what, "sample": f64s(x, sp.n), "sample_bits": hexs(x, sp.n), "observed": obs, "expected": exp})
    };
    let sig = |comp: &str, what: &str| format!("C19/uniform/{}/{}/{}/{}", sp.name, T::NAME, comp, what);
    let eps = T::EPS;
    // hue
    if let Some(hi_) = sp.hue_index() {
        *traces += 1;
        let (a, b, h) = (uc.lo[hi_].to64(), uc.hi[hi_].to64(), x[hi_].to64());
        let span = b - a;
        // allowance: the ends are normalised into [0, 360) in the component type (one rounding of a
        // value ≤ 360 + the end's own magnitude) and the draw rounds once more
        let tol = 8.0 * eps * (360.0 + a.abs() + b.abs());
        let off = if h.is_finite() { off_arc(h, a, span) } else { f64::INFINITY };
        if !(off <= tol) {
            let hs = format!("C19/uniform/hue-arc/{}/{}", sp.hue_ty.unwrap_or("?"), T::NAME);
            c.violation(&hs, off, || case("hue", json!({"hue": h, "degrees_from_low_mod_360": (h - a).rem_euclid(360.0), "off_arc_by": off}), json!({"arc_from": a, "arc_to": b, "span": span, "arc_class": arc_class(a, b)})));
        }
    }
    if let (Shape::HwbCone { .. }, Some((elo, ehi)), Some(to_hsv)) = (sp.shape, uc.ends_hsv.as_ref(), sp.to_hsv) {
        // equivalent HSV: saturation index 1, value index 2
        let xs = to_hsv(x);
        let (s, v) = (xs[1].to64(), xs[2].to64());
        let (s0, s1) = (elo[1].to64().min(ehi[1].to64()), elo[1].to64().max(ehi[1].to64()));
        let (v0, v1) = (elo[2].to64().min(ehi[2].to64()), elo[2].to64().max(ehi[2].to64()));
        let mp = min_pos::<T>();
        // value: cone height allowance + the HSV→HWB→HSV round trip (b = 1−v, v' = 1−b: ≤ eps/2 absolute)
        let (vl, vh) = end_bounds(Cdf::Cube, v0, v1, eps, mp);
        let (vl, vh) = (vl - 16.0 * eps, vh + 16.0 * eps);
        *traces += 1;
        let used = if v < v0 { (v0 - v) / (v0 - vl) } else if v > v1 { (v - v1) / (vh - v1) } else { 0.0 };
        if used > 0.0 {
            c.ratio(&format!("uniform/{}", T::NAME), used, || case("equivalent HSV value", json!({"hsv": [xs[0].to64(), s, v]}), json!({"value_of_ends": [v0, v1], "with_rounding_allowance": [vl, vh]})));
        }
        if !(v >= vl && v <= vh) {
            let (what, mag) = if v < vl { ("below-low", v0 - v) } else if v > vh { ("above-high", v - v1) } else { ("NaN", f64::NAN) };
            c.violation(&sig("hsv-value", what), mag, || case("equivalent HSV value", json!({"hsv": [xs[0].to64(), s, v]}), json!({"value_of_ends": [v0, v1]})));
        }
        // saturation: undefined at black (v = 0: every saturation is the same colour); otherwise
        // s' = 1 − w/v' with w = fl((1−s)·v): |s' − s| ≤ eps·(2 + 1/(4v)) — allowed 8× that
        if v > 0.0 {
            let (sl, sh) = end_bounds(Cdf::Square { scale: 1.0 }, s0, s1, eps, mp);
            let t = eps * (16.0 + 2.0 / v);
            let (sl, sh) = (sl - t, sh + t);
            *traces += 1;
            let used = if s < s0 { (s0 - s) / (s0 - sl) } else if s > s1 { (s - s1) / (sh - s1) } else { 0.0 };
            if used > 0.0 {
                c.ratio(&format!("uniform/{}", T::NAME), used, || case("equivalent HSV saturation", json!({"hsv": [xs[0].to64(), s, v]}), json!({"saturation_of_ends": [s0, s1], "with_rounding_allowance": [sl, sh]})));
            }
            if !(s >= sl && s <= sh) {
                let (what, mag) = if s < sl { ("below-low", s0 - s) } else if s > sh { ("above-high", s - s1) } else { ("NaN", f64::NAN) };
                c.violation(&sig("hsv-saturation", what), mag, || case("equivalent HSV saturation", json!({"hsv": [xs[0].to64(), s, v]}), json!({"saturation_of_ends": [s0, s1]})));
            }
        }
    }
    for (i, cp) in sp.comps.iter().enumerate() {
        if cp.hue {
            continue;
        }
        if matches!(sp.shape, Shape::HwbCone { .. }) && !(sp.alpha && i == sp.n - 1) {
            continue;
        }
        let (lo, hi, v) = (uc.lo[i].to64(), uc.hi[i].to64(), x[i].to64());
        *traces += 1;
        match comp_cdf(sp, i) {
            None => {
                // drawn directly from the component sampler: exact
                if !(v >= lo && v <= hi) {
                    let (what, mag) = if v < lo { ("below-low", lo - v) } else if v > hi { ("above-high", v - hi) } else { ("NaN", f64::NAN) };
                    c.violation(&sig(cp.name, what), mag, || case(cp.name, json!(v), json!({"between": [lo, hi]})));
                } else if !uc.inclusive && v == hi && lo < hi && !plain_new_reaches_high(uc.lo[i], uc.hi[i]) {
                    c.violation(&sig(cp.name, "half-open-end-reached"), 1.0, || case(cp.name, json!(v), json!({"half_open": [lo, hi], "note": "rand's own Uniform::new(low, high) for this component never returns high"})));
                }
            }
            Some(cdf) => {
                let (l, h) = end_bounds(cdf, lo, hi, eps, min_pos::<T>());
                // how much of the rounding allowance is used (0 = inside [low, high])
                let used = if v < lo { (lo - v) / (lo - l) } else if v > hi { (v - hi) / (h - hi) } else { 0.0 };
                if used > 0.0 {
                    c.ratio(&format!("uniform/{}", T::NAME), used, || case(cp.name, json!(v), json!({"between": [lo, hi], "with_rounding_allowance": [l, h]})));
                }
                if !(v >= l && v <= h) {
                    let (what, mag) = if v < l { ("below-low", lo - v) } else if v > h { ("above-high", v - hi) } else { ("NaN", f64::NAN) };
                    c.violation(&sig(cp.name, what), mag, || case(cp.name, json!(v), json!({"between": [lo, hi], "with_rounding_allowance": [l, h]})));
                }
            }
        }
    }
}

/// Build the sampler for an end-point pair; a panic of the constructor is an observation.
pub fn build<T: Fl>(sp: &Spec<T>, lo: &A4<T>, hi: &A4<T>, inclusive: bool) -> Result<Sampler<T>, String> {
    pv::catch(|| (sp.uni)(lo, hi, inclusive))
}

// ------------------------------------------------------------------------------------------
// End-point lattices

/// (low, high, inclusive_only) pairs of one plain component over its range [a, b], simplest first.
///
/// Adjacent floats are offered to `new_inclusive` only: rand 0.8's `UniformFloat::new` shrinks its
/// scale one ulp at a time until `low + scale·max_rand < high`, which for ends k ulps apart takes
/// about 2^(p−1)/k iterations (p = 24 / 53) — for f64 ends a few ulps apart that never finishes. That
/// is rand's constructor, not a colour; `new` gets a narrow range of 2^-20 of the range instead.
pub fn comp_pairs<T: Fl>(a: f64, b: f64, thorough: bool, reversed_too: bool) -> Vec<(T, T, bool)> {
    let r = b - a;
    let t = |x: f64| T::from64(x);
    let m = t(a + 0.3 * r);
    let narrow = r / (1u64 << 20) as f64;
    let mut v = vec![(t(a), t(b), false), (t(a + 0.25 * r), t(a + 0.75 * r), false), (m, m, false), (m, m.up(), true), (m, t(m.to64() + narrow), false)];
    if thorough {
        v.extend([(t(a), t(a + 0.1 * r), false), (t(a + 0.9 * r), t(b), false), (t(a), t(a), false), (t(b).down(), t(b), true), (t(b), t(b), false), (t(b - narrow), t(b), false)]);
    }
    if reversed_too {
        v.extend([(t(b), t(a), false), (t(a + 0.75 * r), t(a + 0.25 * r), false)]);
    }
    v
}

/// raw hue ends low < high ≤ low + 360 (plus equal ends), arcs that do and do not wrap through 0
pub fn hue_pairs<T: Fl>(thorough: bool) -> Vec<(T, T, bool)> {
    let t = |x: f64| T::from64(x);
    let mut v = vec![(t(10.0), t(20.0), false), (t(350.0), t(370.0), false), (t(-10.0), t(10.0), false), (t(0.0), t(360.0), false), (t(720.0), t(730.0), false), (t(30.0), t(30.0), false), (t(30.0), t(30.0).up(), true)];
    if thorough {
        v.extend([(359.0, 361.0), (-370.0, -350.0), (180.0, 540.0), (5.0, 365.0), (350.0, 360.0), (-720.0, -710.0), (90.0, 270.0), (270.0, 450.0), (30.0, 30.0 + 360.0 / (1u64 << 20) as f64)].map(|(x, y)| (t(x), t(y), false)));
        v.push((t(0.0), t(0.0), false));
    }
    v
}

pub struct Ends<T: Fl> {
    pub lo: A4<T>,
    pub hi: A4<T>,
    /// some component's ends are adjacent floats: offered to `new_inclusive` only (see comp_pairs)
    pub inclusive_only: bool,
    /// some component's ends are equal: `new` is still called — rand documents a panic for an empty
    /// range, which is observed and recorded
    pub has_equal: bool,
}

pub fn end_pairs<T: Fl>(sp: &Spec<T>, thorough: bool) -> Vec<Ends<T>> {
    let hwb = matches!(sp.shape, Shape::HwbCone { .. });
    let lists: Vec<Vec<(T, T, bool)>> = sp
        .comps
        .iter()
        .enumerate()
        .map(|(i, cp)| {
            if cp.hue {
                hue_pairs::<T>(thorough)
            } else if hwb && !(sp.alpha && i == sp.n - 1) {
                // whiteness, blackness ∈ [0, ½] keeps w + b ≤ 1; HWB ends may come in either order
                comp_pairs::<T>(0.0, 0.5, thorough, true)
            } else {
                comp_pairs::<T>(cp.range.0, cp.range.1, thorough, false)
            }
        })
        .collect();
    let z = T::from64(0.0);
    let mut out: Vec<Ends<T>> = vec![];
    if sp.alpha {
        // colour part: the k-th pair of every component together (diagonal) × every alpha pair
        let nb = sp.n - 1;
        let kmax = lists[..nb].iter().map(|l| l.len()).max().unwrap_or(1);
        for k in 0..kmax {
            for &(al, ah, aio) in &lists[nb] {
                let (mut lo, mut hi, mut io) = ([z; 4], [z; 4], aio);
                for i in 0..nb {
                    let p = lists[i][k % lists[i].len()];
                    lo[i] = p.0;
                    hi[i] = p.1;
                    io |= p.2;
                }
                lo[nb] = al;
                hi[nb] = ah;
                out.push(Ends { lo, hi, inclusive_only: io, has_equal: (0..sp.n).any(|i| lo[i].bits64() == hi[i].bits64()) });
            }
        }
    } else {
        // full product over the components
        let mut idx = vec![0usize; sp.n];
        loop {
            let (mut lo, mut hi, mut io) = ([z; 4], [z; 4], false);
            for i in 0..sp.n {
                let p = lists[i][idx[i]];
                lo[i] = p.0;
                hi[i] = p.1;
                io |= p.2;
            }
            out.push(Ends { lo, hi, inclusive_only: io, has_equal: (0..sp.n).any(|i| lo[i].bits64() == hi[i].bits64()) });
            let mut k = sp.n;
            loop {
                if k == 0 {
                    return out;
                }
                k -= 1;
                idx[k] += 1;
                if idx[k] < lists[k].len() {
                    break;
                }
                idx[k] = 0;
            }
        }
    }
    out
}
