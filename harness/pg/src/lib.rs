//! pg — palette's conversion graph, discovered by the compiler (DESIGN.md §4 C01).
//! For a list of colour types ("nodes") the `graph!` macro builds tables of function
//! pointers, one cell per ordered pair, each cell an autoref-specialisation probe that is
//! `Some` exactly when rustc finds the `FromColorUnclamped` (resp. `FromColor`,
//! `TryFromColor`, `Alpha`) impl. The edge set is therefore never typed in by hand.
use core::marker::PhantomData;
use palette::cast::ArrayCast;
use palette::convert::{FromColor, FromColorUnclamped, TryFromColor};
use palette::{Alpha, Clamp, IsWithinBounds, WithAlpha};
pub use palette;
pub use pv;
pub use pv::colorkind::Kind;
use pv::refmodel::cie::Wp;
use pv::refmodel::rgb;

pub type F3<T> = fn([T; 3]) -> [T; 3];
pub type F4<T> = fn([T; 4]) -> [T; 4];
pub type F34<T> = fn([T; 3]) -> [T; 4];
pub type F43<T> = fn([T; 4]) -> [T; 3];
pub type FTry<T> = fn([T; 3]) -> Result<[T; 3], [T; 3]>;

/// padded array view of a colour: 3 components (luma: 1 + two zeros)
pub trait Arr<T>: Sized {
    fn to3(self) -> [T; 3];
    fn from3(v: [T; 3]) -> Self;
}
impl<T: Copy> Arr<T> for [T; 3] {
    fn to3(self) -> [T; 3] {
        self
    }
    fn from3(v: [T; 3]) -> Self {
        v
    }
}
impl<T: Copy + Default> Arr<T> for [T; 1] {
    fn to3(self) -> [T; 3] {
        [self[0], T::default(), T::default()]
    }
    fn from3(v: [T; 3]) -> Self {
        [v[0]]
    }
}
pub trait Node<T>: Sized {
    fn to3(self) -> [T; 3];
    fn from3(v: [T; 3]) -> Self;
}
impl<T, C> Node<T> for C
where
    C: ArrayCast,
    C::Array: Arr<T>,
{
    fn to3(self) -> [T; 3] {
        palette::cast::into_array(self).to3()
    }
    fn from3(v: [T; 3]) -> Self {
        palette::cast::from_array(<C::Array as Arr<T>>::from3(v))
    }
}

pub struct Probe<A, B, T>(pub PhantomData<(A, B, T)>);

macro_rules! probe_pair {
    ($yes:ident, $no:ident, $get:ident, $ret:ty, [$($bound:tt)*], |$v:ident| $body:expr) => {
        pub trait $yes<T> {
            fn $get(&self) -> Option<$ret>;
        }
        pub trait $no<T> {
            fn $get(&self) -> Option<$ret>;
        }
        impl<A, B, T> $yes<T> for Probe<A, B, T>
        where
            A: Node<T>,
            B: Node<T>,
            T: Copy,
            $($bound)*
        {
            fn $get(&self) -> Option<$ret> {
                Some(|$v| $body)
            }
        }
        impl<A, B, T> $no<T> for &Probe<A, B, T> {
            fn $get(&self) -> Option<$ret> {
                None
            }
        }
    };
}

probe_pair!(UncYes, UncNo, get_unc, F3<T>, [B: FromColorUnclamped<A>,], |v| B::from_color_unclamped(A::from3(v)).to3());
probe_pair!(ClampedYes, ClampedNo, get_clamped, F3<T>, [B: FromColor<A>,], |v| B::from_color(A::from3(v)).to3());
probe_pair!(TryYes, TryNo, get_try, FTry<T>, [B: TryFromColor<A>,], |v| match B::try_from_color(A::from3(v)) {
    Ok(b) => Ok(b.to3()),
    Err(e) => Err(e.color().to3()),
});
probe_pair!(AaYes, AaNo, get_aa, F4<T>, [Alpha<B, T>: FromColorUnclamped<Alpha<A, T>>,], |v| {
    let r = <Alpha<B, T>>::from_color_unclamped(Alpha { color: A::from3([v[0], v[1], v[2]]), alpha: v[3] });
    let c = r.color.to3();
    [c[0], c[1], c[2], r.alpha]
});
probe_pair!(PaYes, PaNo, get_pa, F34<T>, [Alpha<B, T>: FromColorUnclamped<A>,], |v| {
    let r = <Alpha<B, T>>::from_color_unclamped(A::from3(v));
    let c = r.color.to3();
    [c[0], c[1], c[2], r.alpha]
});
probe_pair!(ApYes, ApNo, get_ap, F43<T>, [B: FromColorUnclamped<Alpha<A, T>>,], |v| {
    B::from_color_unclamped(Alpha { color: A::from3([v[0], v[1], v[2]]), alpha: v[3] }).to3()
});
/// buffer forms of an edge: `Vec<B>::from_color(Vec<A>)`, `Box<[B]>::from_color(Box<[A]>)` and the
/// two unclamped forms, element values as `[T; 3]`
pub type FBuf<T> = fn(&[[T; 3]]) -> [Vec<[T; 3]>; 4];
probe_pair!(BufYes, BufNo, get_buf, FBuf<T>, [A: Clone, Vec<B>: FromColor<Vec<A>> + FromColorUnclamped<Vec<A>>, Box<[B]>: FromColor<Box<[A]>> + FromColorUnclamped<Box<[A]>>,], |v| {
    let src: Vec<A> = v.iter().map(|x| A::from3(*x)).collect();
    let out = |r: Vec<B>| -> Vec<[T; 3]> { r.into_iter().map(|b| b.to3()).collect() };
    [
        out(<Vec<B>>::from_color(src.clone())),
        out(<Box<[B]>>::from_color(src.clone().into_boxed_slice()).into_vec()),
        out(<Vec<B>>::from_color_unclamped(src.clone())),
        out(<Box<[B]>>::from_color_unclamped(src.into_boxed_slice()).into_vec()),
    ]
});

/// per-node probes (clamp, is_within_bounds)
pub struct Probe1<A, T>(pub PhantomData<(A, T)>);
pub trait ClampYes<T> {
    fn get_clamp(&self) -> Option<(F3<T>, fn([T; 3]) -> bool)>;
}
pub trait ClampNo<T> {
    fn get_clamp(&self) -> Option<(F3<T>, fn([T; 3]) -> bool)>;
}
impl<A, T> ClampYes<T> for Probe1<A, T>
where
    A: Node<T> + Clamp + IsWithinBounds<Mask = bool>,
{
    fn get_clamp(&self) -> Option<(F3<T>, fn([T; 3]) -> bool)> {
        Some((|v| A::from3(v).clamp().to3(), |v| A::from3(v).is_within_bounds()))
    }
}
impl<A, T> ClampNo<T> for &Probe1<A, T> {
    fn get_clamp(&self) -> Option<(F3<T>, fn([T; 3]) -> bool)> {
        None
    }
}

/// WithAlpha::{with_alpha, without_alpha, split, opaque, transparent} on a node type:
/// rows [c.., alpha] of: with_alpha(a).split(), with_alpha(a).without_alpha() (alpha slot = a),
/// opaque().split(), transparent().split(), with_alpha(a).with_alpha(b).split(), and the untouched colour (alpha slot = b)
pub type FWa<T> = fn([T; 3], T, T) -> [[T; 4]; 6];
pub trait WaYes<T> {
    fn get_wa(&self) -> Option<FWa<T>>;
}
pub trait WaNo<T> {
    fn get_wa(&self) -> Option<FWa<T>>;
}
impl<A, T> WaYes<T> for Probe1<A, T>
where
    T: Copy + palette::stimulus::Stimulus,
    A: Node<T> + WithAlpha<T, Color = A> + Clone,
    <A as WithAlpha<T>>::WithAlpha: WithAlpha<T, Color = A, WithAlpha = <A as WithAlpha<T>>::WithAlpha> + Clone,
{
    fn get_wa(&self) -> Option<FWa<T>> {
        Some(|v, a, b| {
            let row = |c: A, al: T| {
                let k = c.to3();
                [k[0], k[1], k[2], al]
            };
            let x = A::from3(v);
            let (c1, a1) = x.clone().with_alpha(a).split();
            let c2 = x.clone().with_alpha(a).without_alpha();
            let (c3, a3) = x.clone().opaque().split();
            let (c4, a4) = x.clone().transparent().split();
            let (c5, a5) = x.clone().with_alpha(a).with_alpha(b).split();
            [row(c1, a1), row(c2, a), row(c3, a3), row(c4, a4), row(c5, a5), row(x, b)]
        })
    }
}
impl<A, T> WaNo<T> for &Probe1<A, T> {
    fn get_wa(&self) -> Option<FWa<T>> {
        None
    }
}

pub struct NodeInfo {
    pub name: &'static str,
    pub kind: Kind,
}

pub struct Graph<T: 'static> {
    pub name: &'static str,
    pub float: &'static str,
    pub nodes: Vec<NodeInfo>,
    pub unc: Vec<Vec<Option<F3<T>>>>,
    pub clamped: Vec<Vec<Option<F3<T>>>>,
    pub buf: Vec<Vec<Option<FBuf<T>>>>,
    pub tryc: Vec<Vec<Option<FTry<T>>>>,
    pub aa: Vec<Vec<Option<F4<T>>>>,
    pub pa: Vec<Vec<Option<F34<T>>>>,
    pub ap: Vec<Vec<Option<F43<T>>>>,
    pub clamp: Vec<Option<(F3<T>, fn([T; 3]) -> bool)>>,
    pub wa: Vec<Option<FWa<T>>>,
}
impl<T> Graph<T> {
    pub fn n(&self) -> usize {
        self.nodes.len()
    }
    pub fn index(&self, name: &str) -> Option<usize> {
        self.nodes.iter().position(|n| n.name == name)
    }
    pub fn edge_count(&self) -> usize {
        self.unc.iter().map(|r| r.iter().filter(|c| c.is_some()).count()).sum()
    }
    /// adjacency matrix as text, one row per source node ('1' = edge exists)
    pub fn adjacency_text(&self) -> String {
        let mut s = String::new();
        for (i, r) in self.unc.iter().enumerate() {
            s.push_str(&format!("{:<24} ", self.nodes[i].name));
            for c in r {
                s.push(if c.is_some() { '1' } else { '.' });
            }
            s.push('\n');
        }
        s
    }
}

#[macro_export]
macro_rules! graph {
    ($fname:ident, $gname:literal, $T:ty, [ $( ($tag:literal, $ty:ty, $kind:expr) ),* $(,)? ]) => {
        pub fn $fname() -> $crate::Graph<$T> {
            #[allow(unused_imports)]
            use $crate::{UncYes, UncNo, ClampedYes, ClampedNo, TryYes, TryNo, AaYes, AaNo, PaYes, PaNo, ApYes, ApNo, ClampYes, ClampNo, WaYes, WaNo, BufYes, BufNo};
            let nodes = vec![$( $crate::NodeInfo { name: $tag, kind: $kind } ),*];
            let mut unc = vec![]; let mut clamped = vec![]; let mut tryc = vec![];
            let mut aa = vec![]; let mut pa = vec![]; let mut ap = vec![]; let mut buf = vec![];
            $crate::graph!(@rows $T, unc, clamped, tryc, aa, pa, ap, buf, [ $( $ty ),* ], [ $( $ty ),* ]);
            let clamp = vec![ $( (&$crate::Probe1::<$ty, $T>(core::marker::PhantomData)).get_clamp() ),* ];
            let wa = vec![ $( (&$crate::Probe1::<$ty, $T>(core::marker::PhantomData)).get_wa() ),* ];
            $crate::Graph { name: $gname, float: stringify!($T), nodes, unc, clamped, tryc, aa, pa, ap, clamp, wa, buf }
        }
    };
    (@rows $T:ty, $unc:ident, $clamped:ident, $tryc:ident, $aa:ident, $pa:ident, $ap:ident, $buf:ident, [ $( $from:ty ),* ], $tos:tt) => {
        $( $crate::graph!(@row $T, $unc, $clamped, $tryc, $aa, $pa, $ap, $buf, $from, $tos); )*
    };
    (@row $T:ty, $unc:ident, $clamped:ident, $tryc:ident, $aa:ident, $pa:ident, $ap:ident, $buf:ident, $from:ty, [ $( $to:ty ),* ]) => {
        $unc.push(vec![ $( (&$crate::Probe::<$from, $to, $T>(core::marker::PhantomData)).get_unc() ),* ]);
        $clamped.push(vec![ $( (&$crate::Probe::<$from, $to, $T>(core::marker::PhantomData)).get_clamped() ),* ]);
        $tryc.push(vec![ $( (&$crate::Probe::<$from, $to, $T>(core::marker::PhantomData)).get_try() ),* ]);
        $aa.push(vec![ $( (&$crate::Probe::<$from, $to, $T>(core::marker::PhantomData)).get_aa() ),* ]);
        $pa.push(vec![ $( (&$crate::Probe::<$from, $to, $T>(core::marker::PhantomData)).get_pa() ),* ]);
        $ap.push(vec![ $( (&$crate::Probe::<$from, $to, $T>(core::marker::PhantomData)).get_ap() ),* ]);
        $buf.push(vec![ $( (&$crate::Probe::<$from, $to, $T>(core::marker::PhantomData)).get_buf() ),* ]);
    };
}

pub mod groups;
