//! Lane view of the four `wide` vector types palette implements its numeric traits for.
use pv::fl::Fl;
use wide::{f32x4, f32x8, f64x2, f64x4};

pub const MAXN: usize = 8;

pub trait Vect: Copy + Default + Send + Sync + 'static {
    type S: Fl + Default;
    const N: usize;
    const NAME: &'static str;
    /// `l.len() == N`
    fn from_lanes(l: &[Self::S]) -> Self;
    /// lanes 0..N, padded with zeros up to MAXN
    fn lanes(self) -> [Self::S; MAXN];
    fn splat1(s: Self::S) -> Self {
        let l = [s; MAXN];
        Self::from_lanes(&l[..Self::N])
    }
}

macro_rules! impl_vect {
    ($($v:ident, $s:ident, $n:expr);+) => {$(
        impl Vect for $v {
            type S = $s;
            const N: usize = $n;
            const NAME: &'static str = stringify!($v);
            #[inline]
            fn from_lanes(l: &[$s]) -> Self {
                let mut a = [0.0 as $s; $n];
                a.copy_from_slice(&l[..$n]);
                <$v>::from(a)
            }
            #[inline]
            fn lanes(self) -> [$s; MAXN] {
                let a: [$s; $n] = self.into();
                let mut o = [0.0 as $s; MAXN];
                o[..$n].copy_from_slice(&a);
                o
            }
        }
    )+};
}
impl_vect!(f32x4, f32, 4; f32x8, f32, 8; f64x2, f64, 2; f64x4, f64, 4);

/// lane `i` of a 3-vector of vectors
#[inline]
pub fn lane3<V: Vect>(v: [V; 3], i: usize) -> [V::S; 3] {
    [v[0].lanes()[i], v[1].lanes()[i], v[2].lanes()[i]]
}
/// all lanes of a 3-vector of vectors
#[inline]
pub fn unpack3<V: Vect>(v: [V; 3]) -> [[V::S; 3]; MAXN] {
    let (a, b, c) = (v[0].lanes(), v[1].lanes(), v[2].lanes());
    core::array::from_fn(|i| [a[i], b[i], c[i]])
}
/// `cols[i]` goes to lane `i`
#[inline]
pub fn pack3<V: Vect>(cols: &[[V::S; 3]]) -> [V; 3] {
    let mut l = [[V::S::default(); MAXN]; 3];
    for (i, c) in cols.iter().enumerate().take(V::N) {
        l[0][i] = c[0];
        l[1][i] = c[1];
        l[2][i] = c[2];
    }
    [V::from_lanes(&l[0][..V::N]), V::from_lanes(&l[1][..V::N]), V::from_lanes(&l[2][..V::N])]
}
#[inline]
pub fn splat3<V: Vect>(c: [V::S; 3]) -> [V; 3] {
    [V::splat1(c[0]), V::splat1(c[1]), V::splat1(c[2])]
}
