//! A user-defined white point whose luminance is NOT 1 (an ICC media white: every built-in white point has
//! Y = 1, so code that silently assumes Yn = 1 is invisible with them). CIE 15 defines L*a*b* and L*u*v*
//! through the ratios X/Xn, Y/Yn, Z/Zn and the chromaticity of the reference white: Xyz<MediaWhite> ->
//! Lab / Luv / Lch / Lchuv -> Xyz is held to those formulas and to the round trip, f32 and f64.
use palette::convert::FromColorUnclamped;
use palette::white_point::{Any, WhitePoint};
use palette::{Lab, Lch, Lchuv, Luv, Xyz};
use pv::refmodel::cie::{EPS, KAPPA};
use pv::{json, Collector, Ctx};

pub struct MediaWhite;
const W: [f64; 3] = [0.8589, 0.8920, 0.7290];
impl WhitePoint<f64> for MediaWhite {
    fn get_xyz() -> Xyz<Any, f64> {
        Xyz::new(W[0], W[1], W[2])
    }
}
impl WhitePoint<f32> for MediaWhite {
    fn get_xyz() -> Xyz<Any, f32> {
        Xyz::new(W[0] as f32, W[1] as f32, W[2] as f32)
    }
}

fn f(t: f64) -> f64 {
    if t > EPS { t.cbrt() } else { (KAPPA * t + 16.0) / 116.0 }
}
fn ref_lab(x: [f64; 3]) -> [f64; 3] {
    let (fx, fy, fz) = (f(x[0] / W[0]), f(x[1] / W[1]), f(x[2] / W[2]));
    [116.0 * fy - 16.0, 500.0 * (fx - fy), 200.0 * (fy - fz)]
}
fn ref_luv(x: [f64; 3]) -> [f64; 3] {
    let up = |v: [f64; 3]| { let d = v[0] + 15.0 * v[1] + 3.0 * v[2]; if d == 0.0 { (0.0, 0.0) } else { (4.0 * v[0] / d, 9.0 * v[1] / d) } };
    let yr = x[1] / W[1];
    let l = if yr > EPS { 116.0 * yr.cbrt() - 16.0 } else { KAPPA * yr };
    let ((u, v), (un, vn)) = (up(x), up(W));
    [l, 13.0 * l * (u - un), 13.0 * l * (v - vn)]
}

macro_rules! run_t {
    ($c:expr, $n:expr, $T:ty, $tol:expr) => {{
        let tn = stringify!($T);
        let k = [0.0, 0.004, 0.05, 0.3, 0.7, 1.0];
        let mut pts: Vec<[f64; 3]> = vec![];
        for a in k { for b in k { for d in k { pts.push([a * W[0], b * W[1], d * W[2]]); } } }
        pts.push(W);
        for p in pts {
            $n += 1;
            let x: Xyz<MediaWhite, $T> = Xyz::new(p[0] as $T, p[1] as $T, p[2] as $T);
            let pin = [x.x as f64, x.y as f64, x.z as f64];
            let case = |what: &str, obs: Vec<f64>, exp: Vec<f64>| json!({"sub": "custom-white", "float": tn, "what": what, "input": pin, "white": W, "observed": obs, "expected": exp});
            let r = pv::catch(|| {
                let lab: Lab<MediaWhite, $T> = Lab::from_color_unclamped(x);
                let luv: Luv<MediaWhite, $T> = Luv::from_color_unclamped(x);
                let lch: Lch<MediaWhite, $T> = Lch::from_color_unclamped(x);
                let lchuv: Lchuv<MediaWhite, $T> = Lchuv::from_color_unclamped(x);
                let backs: [Xyz<MediaWhite, $T>; 4] = [Xyz::from_color_unclamped(lab), Xyz::from_color_unclamped(luv), Xyz::from_color_unclamped(lch), Xyz::from_color_unclamped(lchuv)];
                ([lab.l as f64, lab.a as f64, lab.b as f64], [luv.l as f64, luv.u as f64, luv.v as f64], [lch.l as f64, lch.chroma as f64], [lchuv.l as f64, lchuv.chroma as f64], backs.map(|b| [b.x as f64, b.y as f64, b.z as f64]))
            });
            let Ok((lab, luv, lch, lchuv, backs)) = r else {
                $c.violation(&format!("C02/custom-white/{}/panic", tn), 1.0, || case("panic", vec![], vec![]));
                continue;
            };
            let tol: f64 = $tol;
            let (wl, wu) = (ref_lab(pin), ref_luv(pin));
            // components on the scale of L* (0..100)
            let d = (0..3).map(|i| (lab[i] - wl[i]).abs()).fold(0.0, f64::max);
            if !(d <= 100.0 * tol) {
                $c.violation(&format!("C02/custom-white/{}/Xyz->Lab", tn), d, || case("Xyz -> Lab vs CIE 15 with the ratios X/Xn, Y/Yn, Z/Zn", lab.to_vec(), wl.to_vec()));
            }
            let d = (0..3).map(|i| (luv[i] - wu[i]).abs()).fold(0.0, f64::max);
            if !(d <= 100.0 * tol) {
                $c.violation(&format!("C02/custom-white/{}/Xyz->Luv", tn), d, || case("Xyz -> Luv vs CIE 15", luv.to_vec(), wu.to_vec()));
            }
            let d = (lch[0] - wl[0]).abs().max((lch[1] - wl[1].hypot(wl[2])).abs()).max((lchuv[0] - wu[0]).abs()).max((lchuv[1] - wu[1].hypot(wu[2])).abs());
            if !(d <= 100.0 * tol) {
                $c.violation(&format!("C02/custom-white/{}/Xyz->Lch|Lchuv", tn), d, || case("Xyz -> Lch / Lchuv: L and chroma", vec![lch[0], lch[1], lchuv[0], lchuv[1]], vec![wl[0], wl[1].hypot(wl[2]), wu[0], wu[1].hypot(wu[2])]));
            }
            for (name, b) in ["Lab", "Luv", "Lch", "Lchuv"].iter().zip(backs.iter()) {
                // (the CIELUV code treats L* < 1e-5 as black and u', v' are undefined for X + 15Y + 3Z = 0)
                // and, as in the edge check, stimuli of chromaticity y < 0.01 are left out for the CIELUV family (v' -> 0)
                let sum = pin[0] + pin[1] + pin[2];
                if name.contains("uv") && (wu[0] < 1e-3 || sum == 0.0 || pin[1] / sum < 0.01) {
                    continue;
                }
                let d = (0..3).map(|i| (b[i] - pin[i]).abs()).fold(0.0, f64::max);
                if !(d <= 4.0 * tol) {
                    $c.violation(&format!("C02/custom-white/{}/roundtrip-{}", tn, name), d, || case(&format!("Xyz -> {name} -> Xyz"), b.to_vec(), pin.to_vec()));
                }
            }
            $c.outcome(pv::splitmix(lab[0].to_bits() ^ luv[1].to_bits().rotate_left(17)));
        }
    }};
}

pub fn run(ctx: &Ctx, total: &mut Collector) {
    let sub = "custom-white";
    if !ctx.wants(sub) {
        return;
    }
    let mut c = Collector::new();
    let mut n = 0u64;
    run_t!(c, n, f64, 1e-11);
    run_t!(c, n, f32, 2e-6);
    c.add(sub, n, 8 * n, 8 * n, n);
    total.merge(c);
    total.exhaustive(sub, true, "a user-defined white point with Yn = 0.892 (ICC media white): 6^3 XYZ lattice (fractions of the white incl. both sides of the L* knee) + the white itself, f32 and f64: Xyz -> Lab / Luv / Lch / Lchuv against CIE 15 written with the ratios to the reference white, and the round trips");
}
