//! Float tools: total order on bit patterns, ulp neighbours, exact dyadic arithmetic helpers.

/// Map an order index (0 ..= 2^32-1) to an f32 such that the mapping is monotone over all
/// non-NaN floats: index 0 is the most negative NaN-region pattern, increasing to +NaN.
/// Layout: idx < 2^31  -> negative floats, from 0xFFFF_FFFF (−NaN) down to 0x8000_0000 (−0.0)
///         idx >= 2^31 -> positive floats from +0.0 up to 0x7FFF_FFFF (+NaN)
#[inline]
pub fn f32_from_ord(idx: u32) -> f32 {
    if idx < 0x8000_0000 {
        f32::from_bits(!idx)
    } else {
        f32::from_bits(idx & 0x7FFF_FFFF)
    }
}
#[inline]
pub fn f32_to_ord(x: f32) -> u32 {
    let b = x.to_bits();
    if b & 0x8000_0000 != 0 {
        !b
    } else {
        b | 0x8000_0000
    }
}
#[inline]
pub fn f64_from_ord(idx: u64) -> f64 {
    if idx < 0x8000_0000_0000_0000 {
        f64::from_bits(!idx)
    } else {
        f64::from_bits(idx & 0x7FFF_FFFF_FFFF_FFFF)
    }
}
#[inline]
pub fn f64_to_ord(x: f64) -> u64 {
    let b = x.to_bits();
    if b & 0x8000_0000_0000_0000 != 0 {
        !b
    } else {
        b | 0x8000_0000_0000_0000
    }
}

pub fn ulp32(x: f32) -> f64 {
    let a = x.abs();
    if !a.is_finite() {
        return f64::INFINITY;
    }
    (a.next_up() as f64) - (a as f64)
}
pub fn ulp64(x: f64) -> f64 {
    let a = x.abs();
    if !a.is_finite() {
        return f64::INFINITY;
    }
    a.next_up() - a
}

/// A float as an exact dyadic rational m·2^e (m signed, 64 bit is enough for f64's 53 bits).
#[derive(Clone, Copy, Debug, PartialEq)]
pub struct Dyadic {
    pub m: i128,
    pub e: i32,
}
pub fn dyadic64(x: f64) -> Option<Dyadic> {
    if !x.is_finite() {
        return None;
    }
    let b = x.to_bits();
    let sign = if b >> 63 != 0 { -1i128 } else { 1 };
    let exp = ((b >> 52) & 0x7ff) as i32;
    let frac = (b & ((1u64 << 52) - 1)) as i128;
    let (m, e) = if exp == 0 { (frac, -1074) } else { (frac | (1i128 << 52), exp - 1075) };
    Some(Dyadic { m: sign * m, e })
}
pub fn dyadic32(x: f32) -> Option<Dyadic> {
    dyadic64(x as f64)
}

/// Generic scalar abstraction over f32/f64 for lattices and bit-exact comparison.
pub trait Fl: Copy + PartialOrd + core::fmt::Debug + Send + Sync + 'static {
    const NAME: &'static str;
    const EPS: f64;
    fn from64(x: f64) -> Self;
    fn to64(self) -> f64;
    fn up(self) -> Self;
    fn down(self) -> Self;
    fn bits64(self) -> u64;
    fn from_bits64(b: u64) -> Self;
    fn finite(self) -> bool;
}
impl Fl for f32 {
    const NAME: &'static str = "f32";
    const EPS: f64 = f32::EPSILON as f64;
    fn from64(x: f64) -> Self {
        x as f32
    }
    fn to64(self) -> f64 {
        self as f64
    }
    fn up(self) -> Self {
        self.next_up()
    }
    fn down(self) -> Self {
        self.next_down()
    }
    fn bits64(self) -> u64 {
        self.to_bits() as u64
    }
    fn from_bits64(b: u64) -> Self {
        f32::from_bits(b as u32)
    }
    fn finite(self) -> bool {
        self.is_finite()
    }
}
impl Fl for f64 {
    const NAME: &'static str = "f64";
    const EPS: f64 = f64::EPSILON;
    fn from64(x: f64) -> Self {
        x
    }
    fn to64(self) -> f64 {
        self
    }
    fn up(self) -> Self {
        self.next_up()
    }
    fn down(self) -> Self {
        self.next_down()
    }
    fn bits64(self) -> u64 {
        self.to_bits()
    }
    fn from_bits64(b: u64) -> Self {
        f64::from_bits(b)
    }
    fn finite(self) -> bool {
        self.is_finite()
    }
}

pub fn hex32(x: f32) -> String {
    format!("{:#010x}", x.to_bits())
}
pub fn hex64(x: f64) -> String {
    format!("{:#018x}", x.to_bits())
}
