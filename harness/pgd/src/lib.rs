//! compiler-discovered conversion graph tables (see pg)
pg::group_prelude!();
pg::d50_group!(d50_f32, f32);
pg::d50_group!(d50_f64, f64);
pg::dci_group!(dci_f32, f32);
pg::dci_group!(dci_f64, f64);
pg::cie_group!(a_f32, "A", wp::A, Wp::A, f32);
pg::cie_group!(a_f64, "A", wp::A, Wp::A, f64);
pg::cie_group!(e_f32, "E", wp::E, Wp::E, f32);
pg::cie_group!(e_f64, "E", wp::E, Wp::E, f64);
pg::cie_group!(d55_f64, "D55", wp::D55, Wp::D55, f64);
pg::cie_group!(d75_f64, "D75", wp::D75, Wp::D75, f64);
pg::cie_group!(c_f64, "C", wp::C, Wp::C, f64);
pg::cie_group!(b_f64, "B", wp::B, Wp::B, f64);
pg::cie_group!(f2_f64, "F2", wp::F2, Wp::F2, f64);
pg::cie_group!(f7_f64, "F7", wp::F7, Wp::F7, f64);
pg::cie_group!(f11_f64, "F11", wp::F11, Wp::F11, f64);
