//! Scalar lattices closed under the case splits visible in the code (DESIGN.md §3.2).
use crate::fl::Fl;

/// Sort + dedup by bit pattern order (total, NaN-free inputs expected).
pub fn dedup<T: Fl>(mut v: Vec<T>) -> Vec<T> {
    v.sort_by(|a, b| a.partial_cmp(b).unwrap_or(core::cmp::Ordering::Equal).then(a.bits64().cmp(&b.bits64())));
    v.dedup_by(|a, b| a.bits64() == b.bits64());
    v
}

/// Each point with its one-ulp neighbours.
pub fn with_ulps<T: Fl>(pts: &[T]) -> Vec<T> {
    let mut v = Vec::with_capacity(pts.len() * 3);
    for &p in pts {
        v.push(p.down());
        v.push(p);
        v.push(p.up());
    }
    v
}

/// In-range lattice for [lo, hi]: ends, inner ulp neighbours, 1e-9·range offsets, 0 if inside,
/// `inner` equally spaced interior points, plus thresholds (with ulp neighbours) inside the range.
pub fn in_range<T: Fl>(lo: f64, hi: f64, inner: usize, thresholds: &[f64]) -> Vec<T> {
    let r = hi - lo;
    let mut v: Vec<T> = vec![];
    let l = T::from64(lo);
    let h = T::from64(hi);
    v.push(l);
    v.push(h);
    v.push(l.up());
    v.push(h.down());
    v.push(T::from64(lo + 1e-9 * r));
    v.push(T::from64(hi - 1e-9 * r));
    if lo < 0.0 && hi > 0.0 {
        v.push(T::from64(0.0));
        v.push(T::from64(1e-9 * r));
        v.push(T::from64(-1e-9 * r));
    }
    for i in 1..=inner {
        v.push(T::from64(lo + r * (i as f64) / (inner as f64 + 1.0)));
    }
    for &t in thresholds {
        let tt = T::from64(t);
        for x in [tt.down(), tt, tt.up()] {
            if x.to64() >= lo && x.to64() <= hi {
                v.push(x);
            }
        }
    }
    let v: Vec<T> = v.into_iter().filter(|x| x.to64() >= lo && x.to64() <= hi).collect();
    dedup(v)
}

/// Class lattice including out-of-range classes (C03): far below, just below, min−ulp, min,
/// min+ulp, inside…, max−ulp, max, max+ulp, just above, far above.
pub fn with_outside<T: Fl>(lo: f64, hi: f64, inner: usize) -> Vec<T> {
    let r = hi - lo;
    let mut v = in_range::<T>(lo, hi, inner, &[]);
    let l = T::from64(lo);
    let h = T::from64(hi);
    v.push(l.down());
    v.push(h.up());
    v.push(T::from64(lo - 1e-3 * r));
    v.push(T::from64(hi + 1e-3 * r));
    v.push(T::from64(lo - 10.0 * r));
    v.push(T::from64(hi + 10.0 * r));
    dedup(v)
}

/// Hue lattice in degrees: sector edges k·30 ± ulp, 0/360/−360/720/±180, and a uniform step.
pub fn hues<T: Fl>(step: f64) -> Vec<T> {
    let mut v: Vec<T> = vec![];
    let mut k = -360.0;
    while k <= 720.0 {
        let t = T::from64(k);
        v.push(t);
        v.push(t.up());
        v.push(t.down());
        k += 30.0;
    }
    let mut a = 0.0;
    while a < 360.0 {
        v.push(T::from64(a));
        a += step;
    }
    dedup(v)
}

/// Hue lattice restricted to [0, 360).
pub fn hues_unit<T: Fl>(step: f64) -> Vec<T> {
    let mut v: Vec<T> = vec![];
    let mut k = 0.0;
    while k < 360.0 {
        let t = T::from64(k);
        v.push(t);
        v.push(t.up());
        if k > 0.0 {
            v.push(t.down());
        }
        k += 30.0;
    }
    v.push(T::from64(360.0).down());
    let mut a = 0.0;
    while a < 360.0 {
        v.push(T::from64(a));
        a += step;
    }
    dedup(v)
}
