//! RGB standards: primaries, white points, transfer functions; RGB<->XYZ matrices *derived*
//! from the primaries and the white point (Lindbloom's construction), not copied.
use super::cie::Wp;
use super::tf::Tf;
use super::{invert, mat_vec, M3, V3};

#[derive(Clone, Copy, Debug, PartialEq)]
pub struct RgbSpec {
    pub name: &'static str,
    pub prim: [[f64; 2]; 3], // xy of R, G, B
    pub wp: Wp,
    pub tf: Tf,
}

const P_SRGB: [[f64; 2]; 3] = [[0.64, 0.33], [0.30, 0.60], [0.15, 0.06]]; // IEC 61966-2-1 / BT.709
const P_ADOBE: [[f64; 2]; 3] = [[0.64, 0.33], [0.21, 0.71], [0.15, 0.06]]; // Adobe RGB (1998)
const P_2020: [[f64; 2]; 3] = [[0.708, 0.292], [0.170, 0.797], [0.131, 0.046]]; // BT.2020
const P_P3: [[f64; 2]; 3] = [[0.680, 0.320], [0.265, 0.690], [0.150, 0.060]]; // SMPTE RP 431-2 / EG 432-1
const P_P3PLUS: [[f64; 2]; 3] = [[0.740, 0.270], [0.220, 0.780], [0.090, -0.090]]; // DCI-P3+
const P_ROMM: [[f64; 2]; 3] = [[0.7347, 0.2653], [0.1596, 0.8404], [0.0366, 0.0001]]; // ISO 22028-2

/// the luma "standard" `Linear<Wp>`: only the white point and the (identity) transfer function matter
pub const fn lin_luma(wp: Wp) -> RgbSpec {
    RgbSpec { name: "LinLuma", prim: P_SRGB, wp, tf: Tf::Linear }
}
pub const SRGB: RgbSpec = RgbSpec { name: "Srgb", prim: P_SRGB, wp: Wp::D65, tf: Tf::Srgb };
pub const LIN_SRGB: RgbSpec = RgbSpec { name: "LinSrgb", prim: P_SRGB, wp: Wp::D65, tf: Tf::Linear };
pub const REC709: RgbSpec = RgbSpec { name: "Rec709", prim: P_SRGB, wp: Wp::D65, tf: Tf::RecOetf };
pub const ADOBE: RgbSpec = RgbSpec { name: "AdobeRgb", prim: P_ADOBE, wp: Wp::D65, tf: Tf::Adobe };
pub const LIN_ADOBE: RgbSpec = RgbSpec { name: "LinAdobeRgb", prim: P_ADOBE, wp: Wp::D65, tf: Tf::Linear };
pub const REC2020: RgbSpec = RgbSpec { name: "Rec2020", prim: P_2020, wp: Wp::D65, tf: Tf::RecOetf };
pub const LIN_REC2020: RgbSpec = RgbSpec { name: "LinRec2020", prim: P_2020, wp: Wp::D65, tf: Tf::Linear };
pub const DISPLAY_P3: RgbSpec = RgbSpec { name: "DisplayP3", prim: P_P3, wp: Wp::D65, tf: Tf::Srgb };
pub const LIN_DISPLAY_P3: RgbSpec = RgbSpec { name: "LinDisplayP3", prim: P_P3, wp: Wp::D65, tf: Tf::Linear };
pub const DCI_P3: RgbSpec = RgbSpec { name: "DciP3", prim: P_P3, wp: Wp::Dci, tf: Tf::P3Gamma };
pub const LIN_DCI_P3: RgbSpec = RgbSpec { name: "LinDciP3", prim: P_P3, wp: Wp::Dci, tf: Tf::Linear };
pub const DCI_P3_PLUS: RgbSpec = RgbSpec { name: "DciP3Plus", prim: P_P3PLUS, wp: Wp::Dci, tf: Tf::P3Gamma };
pub const PROPHOTO: RgbSpec = RgbSpec { name: "ProPhotoRgb", prim: P_ROMM, wp: Wp::D50, tf: Tf::ProPhoto };
pub const LIN_PROPHOTO: RgbSpec = RgbSpec { name: "LinProPhotoRgb", prim: P_ROMM, wp: Wp::D50, tf: Tf::Linear };

impl RgbSpec {
    /// linear RGB -> XYZ, from primaries and white point.
    pub fn rgb_to_xyz(&self) -> M3 {
        let mut p = [[0.0; 3]; 3];
        for (i, xy) in self.prim.iter().enumerate() {
            p[0][i] = xy[0] / xy[1];
            p[1][i] = 1.0;
            p[2][i] = (1.0 - xy[0] - xy[1]) / xy[1];
        }
        let s = mat_vec(&invert(&p), self.wp.xyz());
        let mut m = [[0.0; 3]; 3];
        for r in 0..3 {
            for c in 0..3 {
                m[r][c] = p[r][c] * s[c];
            }
        }
        m
    }
    pub fn xyz_to_rgb(&self) -> M3 {
        invert(&self.rgb_to_xyz())
    }
    pub fn decode(&self, rgb: V3) -> V3 {
        [self.tf.decode(rgb[0]), self.tf.decode(rgb[1]), self.tf.decode(rgb[2])]
    }
    pub fn encode(&self, lin: V3) -> V3 {
        [self.tf.encode(lin[0]), self.tf.encode(lin[1]), self.tf.encode(lin[2])]
    }
    /// encoded RGB -> XYZ (relative to this space's white point)
    pub fn to_xyz(&self, rgb: V3) -> V3 {
        mat_vec(&self.rgb_to_xyz(), self.decode(rgb))
    }
    pub fn from_xyz(&self, xyz: V3) -> V3 {
        self.encode(mat_vec(&self.xyz_to_rgb(), xyz))
    }
    /// luminance Y of an encoded colour
    pub fn luminance(&self, rgb: V3) -> f64 {
        let m = self.rgb_to_xyz();
        let l = self.decode(rgb);
        m[1][0] * l[0] + m[1][1] * l[1] + m[1][2] * l[2]
    }
}
