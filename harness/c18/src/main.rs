fn main() {
    eprintln!("C18: check not built yet");
    std::process::exit(3);
}
