//! C20 — serialized colours deserialize to the same colour in a stable shape.
//!
//! The serde *format* is the environment and the harness owns it: serde_json, ron 0.8 and a
//! TokenFormat (tok.rs) that records the exact data-model calls and replays them the ways real
//! formats do (visit_map with str/bytes/index keys, visit_seq delimited by the data, visit_seq
//! with a fixed requested length). Every serializable palette type and a family of mock colour
//! types of every serde shape are pushed through every format for a lattice of component
//! values; the map form is additionally fed in every field order, with the alpha entry
//! missing, duplicated and with unknown extra entries.
mod cases;
mod checks;
mod fmt;
mod mocks;
mod registry;
mod tok;

use pv::{Collector, Ctx, Mode, Tier};
use std::collections::BTreeMap;

pub struct Cfg {
    pub tier: Tier,
    pub seed: u64,
}

/// outcome tallies (aggregated outside the collectors: notes do not add up on merge)
#[derive(Default, Clone)]
pub struct Stats(pub BTreeMap<String, u64>);
impl Stats {
    pub fn bump(&mut self, k: &str) {
        *self.0.entry(k.to_string()).or_insert(0) += 1;
    }
    pub fn merge(&mut self, o: Stats) {
        for (k, v) in o.0 {
            *self.0.entry(k).or_insert(0) += v;
        }
    }
}

fn main() {
    pv::main_guard(real_main)
}

fn real_main() -> i32 {
    tok_selftest();
    let (ctx, mode) = Ctx::from_args("C20");
    let items = registry::items();
    if let Mode::Replay(rep) = mode {
        let mut c = Collector::new();
        let case = &rep["case"];
        let name = case["item"].as_str().unwrap_or("");
        match items.iter().find(|i| i.name == name) {
            Some(it) => (it.replay)(&mut c, case),
            None => {
                eprintln!("MACHINERY-FAILURE: replay names unknown item {name:?}");
                return 3;
            }
        }
        return ctx.finish_replay(c);
    }
    let cfg = Cfg { tier: ctx.tier, seed: ctx.seed };
    let wanted: Vec<&registry::Item> = items.iter().filter(|i| ctx.wants(i.sub) || ctx.wants(&i.name)).collect();
    let outs = pv::par::map_chunks(wanted.len(), |i| {
        let mut c = Collector::new();
        let mut st = Stats::default();
        (wanted[i].run)(&cfg, &mut c, &mut st);
        (c, st)
    });
    let mut total = Collector::new();
    let mut stats = Stats::default();
    for (c, st) in outs {
        total.merge(c);
        stats.merge(st);
    }
    checks::describe_bounds(&mut total, &cfg);
    if ctx.only.is_none() {
        checks::probes(&mut total);
    }
    total.note("outcome_tallies", pv::json!(stats.0));
    total.note("items", pv::json!(wanted.len()));
    total.note(
        "types_not_serializable",
        pv::json!("Cam16, Cam16Jch/Jmh/Jsh/Qch/Qmh/Qsh (partial CAM16) and cast::Packed do not implement Serialize/Deserialize in the pinned tree; of the CAM16 family only Cam16UcsJab and Cam16UcsJmh do"),
    );
    ctx.finish(
        total,
        "model_checking",
        "a state is (type, component lattice indices, format, input variant); every state of the stated product is executed on the real Serialize/Deserialize impls. Non-trivial = states whose control passed (every part of the value survives the format on its own) so that the outcome was compared bitwise with the input / the predicted token stream",
        &[
            "serde_json 1.x, ron 0.8.0 and the harness' TokenFormat are the environment; a value that a format cannot carry on its own (NaN/inf in JSON, NaN payloads and u128 in RON, flattened structs in RON and in positional formats) is skipped for that format and counted under outcome_tallies",
            "'bare number' for a hue is judged in the serde data model: one float, optionally inside serialize_newtype_struct (which serde documents as an insignificant wrapper); JSON text must be a number literal",
            "documented limitation, not flagged: AlphaDeserializer::deserialize_struct cannot extend the expected field list ('we just hope it works anyway'), so positional formats that hand out exactly fields.len() elements (tok-fixed, bincode-like) and serde's own flatten buffer do not see the alpha of a struct-shaped colour; outcomes there must be an error or the right value, and are tallied",
            "for inputs the statement is silent about (duplicate alpha, unknown extra field, colour types with their own `alpha` field, nested Alpha, Vec, primitives, enums) the oracle is: an error, the documented unimplemented! panic, or the right value — never a wrong value",
        ],
    )
}

/// TokenFormat must be faithful before it can judge anything (machinery failure otherwise)
fn tok_selftest() {
    use crate::tok::*;
    let m = mocks::MMixed {
        id: 3,
        name: "x\"y".into(),
        v: 0.5,
        opt: Some(1.5),
        none: None,
        arr: [1.0, 2.0],
        inner: mocks::MStruct { a: 0.1, b: -0.0, c: f32::MAX },
        list: vec![3.0],
        unit: (),
        t: (4.0, 7),
    };
    let fail = |what: &str| -> ! {
        eprintln!("MACHINERY-FAILURE: TokenFormat self-test: {what}");
        std::process::exit(3)
    };
    let t = to_toks(&m, true).unwrap_or_else(|e| fail(&e.0));
    // replaying the tokens into the recorder reproduces them
    let t2 = to_toks(&Node(&t, 0), true).unwrap_or_else(|e| fail(&e.0));
    if t != t2 {
        fail("Node replay is not the identity");
    }
    // replaying them into serde_json gives what serde_json gives for the value
    if serde_json::to_string(&Node(&t, 0)).unwrap() != serde_json::to_string(&m).unwrap() {
        fail("Node replay into serde_json differs from direct serialization");
    }
    if ron::to_string(&Node(&t, 0)).unwrap() != ron::to_string(&m).unwrap() {
        fail("Node replay into ron differs from direct serialization");
    }
    for (s, k) in [(StructAs::Map, Key::Str), (StructAs::Map, Key::Index), (StructAs::Map, Key::Bytes), (StructAs::Seq, Key::Str), (StructAs::Fixed, Key::Str)] {
        match from_toks::<mocks::MMixed>(&t, s, k) {
            Ok(y) if to_toks(&y, true).unwrap() == t => {}
            Ok(_) => fail(&format!("{s:?}/{k:?} replay changed the value")),
            Err(e) => fail(&format!("{s:?}/{k:?} replay failed: {e}")),
        }
    }
    // the fixed mode hands out exactly the requested number of elements and is strictly typed
    let three = to_toks(&(1.0f32, 2.0f32, 3.0f32), false).unwrap();
    if from_toks::<(f32, f32)>(&three, StructAs::Fixed, Key::Str).is_ok() {
        fail("fixed mode accepted unread elements");
    }
    if from_toks::<(f32, f32, f32, f32)>(&three, StructAs::Fixed, Key::Str).is_ok() {
        fail("fixed mode read past the value");
    }
    if from_toks::<(f32, f32, u32)>(&three, StructAs::Fixed, Key::Str).is_ok() {
        fail("fixed mode is not strictly typed");
    }
    if !matches!(from_toks::<Vec<f32>>(&three, StructAs::Seq, Key::Str), Ok(v) if v.len() == 3) {
        fail("delimited mode does not deliver all elements");
    }
}
