//! Build script of the C12 check.
//!
//! * locates the palette checkout the harness is built against (the `palette = { path = ... }`
//!   line of the workspace manifest — `tools/mutant_run.sh` rewrites that line for scratch copies),
//! * exports the path of `codegen/res/svg_colors.txt` (the repository's source of truth for the
//!   named colours) so that the check embeds exactly the file that belongs to the tree under test,
//! * generates a table of **every** `pub const NAME: ...Srgb<u8>` found in
//!   `palette/src/named/codegen.rs`, so that the check can look at each constant that really
//!   exists in the tree (a constant that is missing from the lookup map, or an extra one, is
//!   found without a hand-written list).
use std::{env, fs, path::PathBuf};

fn main() {
    let manifest_dir = PathBuf::from(env::var("CARGO_MANIFEST_DIR").unwrap());
    let ws = manifest_dir.join("../Cargo.toml");
    println!("cargo:rerun-if-changed={}", ws.display());
    println!("cargo:rerun-if-changed=build.rs");
    let ws_txt = fs::read_to_string(&ws).expect("read workspace Cargo.toml");
    let mut palette_dir: Option<PathBuf> = None;
    for line in ws_txt.lines() {
        let l = line.trim_start();
        if l.starts_with("palette") && l.contains("path") {
            if let Some(i) = l.find("path") {
                let rest = &l[i..];
                let mut it = rest.split('"');
                it.next();
                if let Some(p) = it.next() {
                    palette_dir = Some(PathBuf::from(p));
                }
            }
        }
    }
    let palette_dir = palette_dir.expect("palette path dependency not found in workspace Cargo.toml");
    let palette_dir = if palette_dir.is_absolute() { palette_dir } else { manifest_dir.join("..").join(palette_dir) };
    let repo = palette_dir.parent().expect("palette dir has a parent").to_path_buf();
    let svg = repo.join("codegen/res/svg_colors.txt");
    let gen = palette_dir.join("src/named/codegen.rs");
    println!("cargo:rerun-if-changed={}", svg.display());
    println!("cargo:rerun-if-changed={}", gen.display());
    println!("cargo:rustc-env=C12_SVG_COLORS={}", svg.display());
    println!("cargo:rustc-env=C12_REPO={}", repo.display());

    let src = fs::read_to_string(&gen).expect("read palette/src/named/codegen.rs");
    let mut consts: Vec<String> = vec![];
    // the file is token-stream output: constants may be on their own line or share a line
    let mut rest = src.as_str();
    while let Some(i) = rest.find("pub const ") {
        let after = &rest[i + "pub const ".len()..];
        let end = after.find(|ch: char| !(ch.is_ascii_alphanumeric() || ch == '_')).unwrap_or(after.len());
        let name = &after[..end];
        let tail = after[end..].trim_start();
        if !name.is_empty() && tail.starts_with(':') {
            consts.push(name.to_string());
        }
        rest = &after[end..];
    }
    let mut out = String::from("pub static NAMED_CONSTS: &[(&str, palette::Srgb<u8>)] = &[\n");
    for n in &consts {
        out.push_str(&format!("    (\"{n}\", palette::named::{n}),\n"));
    }
    out.push_str("];\n");
    let out_dir = PathBuf::from(env::var("OUT_DIR").unwrap());
    fs::write(out_dir.join("named_consts.rs"), out).expect("write named_consts.rs");
}
