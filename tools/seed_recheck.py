#!/usr/bin/env python3
"""tools/seed_recheck.py <name> [checks,comma] [tier] — re-run checks against the stored seeded change
/verif/seeded/<name>/patch.diff (isolated copy, tools/mutant_run.sh) and update meta.json's detection."""
import json, subprocess, sys, time
name = sys.argv[1]
out = f"/verif/seeded/{name}"
meta = json.load(open(f"{out}/meta.json"))
checks = sys.argv[2].split(",") if len(sys.argv) > 2 else [meta.get("property", name[:3])]
tier = sys.argv[3] if len(sys.argv) > 3 else "quick"
det = meta.get("detection", {})
for c in checks:
    t0 = time.time()
    r = subprocess.run(f"MUT_TAIL=3000 /verif/tools/mutant_run.sh {c} {out}/patch.diff {tier}", shell=True, capture_output=True, text=True)
    o = r.stdout + r.stderr
    viol = [l for l in o.splitlines() if l.startswith("VIOLATION")]
    sigs = [l.strip()[:240] for l in o.splitlines() if l.strip().startswith("signature=")]
    det[c] = {"tier": tier, "exit": r.returncode, "detected": r.returncode == 1 and bool(viol), "violation_lines": len(viol), "example": (sigs[0] if sigs else ""), "wall_s": round(time.time() - t0)}
    print(name, c, det[c]["exit"], det[c]["detected"], det[c]["example"][:160])
    meta.setdefault("what_i_ran", []).append(f"tools/mutant_run.sh {c} seeded/{name}/patch.diff {tier} -> exit {r.returncode}, {len(viol)} VIOLATION lines (re-check)")
meta["detection"] = det
meta["detected_by"] = [c for c, d in det.items() if d["detected"]]
json.dump(meta, open(f"{out}/meta.json", "w"), indent=1)
