//! Lattices of C10: in-range colours per type, partner colours, factors, hue amounts.
use crate::ops::*;
use pv::fl::Fl;
use pv::Tier;

pub fn z<T: Fl>() -> T {
    T::from64(0.0)
}

/// factor lattice: a superset of [-1, 2]'s case splits (sign, 0, 1, beyond)
pub fn factors<T: Fl>(tier: Tier) -> Vec<T> {
    let one = T::from64(1.0);
    let mut v = vec![T::from64(-1.0), T::from64(-0.5), T::from64(-1e-9), T::from64(-0.0), T::from64(0.0), T::from64(1e-9), T::from64(0.25), T::from64(0.5), T::from64(0.75), one.down(), one, one.up(), T::from64(1.5), T::from64(2.0)];
    if tier == Tier::Thorough {
        v.extend([-2.0, -1.0 - 1e-9, -0.75, -0.25, 1e-3, 0.125, 1.0 / 3.0, 0.9, 1.0 - 1e-9, 1.0 + 1e-9, 1.25, 10.0].iter().map(|&x| T::from64(x)));
        v.push(T::from64(-1.0).up());
        v.push(T::from64(-1.0).down());
        v.push(z::<T>().up()); // smallest subnormal
        v.push(T::from64(-(z::<T>().up().to64())));
    }
    sort_dedup(v)
}

/// numeric order; -0 before +0
pub fn sort_dedup<T: Fl>(mut v: Vec<T>) -> Vec<T> {
    v.sort_by(|a, b| a.partial_cmp(b).unwrap_or(core::cmp::Ordering::Equal).then_with(|| {
        // -0 (sign bit set) first
        let sa = a.bits64() != 0 && a.to64() == 0.0;
        let sb = b.bits64() != 0 && b.to64() == 0.0;
        sb.cmp(&sa)
    }));
    v.dedup_by(|a, b| a.bits64() == b.bits64());
    v
}

/// hue shift / set amounts (degrees): the factor lattice plus the colour-wheel angles
pub fn hue_amounts<T: Fl>(tier: Tier) -> Vec<T> {
    let mut v = factors::<T>(tier);
    for x in [-720.0, -360.0, -180.0, -30.0, 30.0, 60.0, 90.0, 120.0, 150.0, 180.0, 210.0, 240.0, 270.0, 300.0, 330.0, 360.0, 720.0] {
        v.push(T::from64(x));
    }
    v.push(T::from64(180.0).up());
    v.push(T::from64(180.0).down());
    v.push(T::from64(360.0).down());
    sort_dedup(v)
}

pub fn hue_lattice<T: Fl>(tier: Tier) -> Vec<T> {
    if tier == Tier::Thorough {
        return pv::lattice::hues::<T>(15.0);
    }
    let mut v = vec![];
    for b in [0.0, 60.0, 120.0, 180.0, 240.0, 300.0, 360.0, -180.0] {
        let t = T::from64(b);
        v.push(t.down());
        v.push(t);
        v.push(t.up());
    }
    for x in [-360.0, 720.0, 10.0, 350.0, 45.5] {
        v.push(T::from64(x));
    }
    sort_dedup(v)
}

pub fn range_lattice<T: Fl>(lo: T, hi: T, tier: Tier, dense: bool) -> Vec<T> {
    let (l, h) = (lo.to64(), hi.to64());
    if tier == Tier::Thorough || dense {
        return pv::lattice::in_range::<T>(l, h, if dense && tier == Tier::Thorough { 31 } else if dense { 15 } else { 7 }, &[]);
    }
    let rg = h - l;
    let mut v = vec![lo, lo.up(), T::from64(l + 0.25 * rg), T::from64(l + 0.5 * rg), T::from64(l + 0.75 * rg), hi.down(), hi];
    if l < 0.0 && h > 0.0 {
        v.push(z::<T>());
    }
    v.retain(|x| x.to64() >= l && x.to64() <= h);
    sort_dedup(v)
}

/// in-range colours: product of the component lattices, filtered by the nominal range predicate
pub fn colours<T: Fl>(sp: &Spec<T>, tier: Tier) -> Vec<V<T>> {
    let dense = sp.n == 1;
    let mut lats: Vec<Vec<T>> = sp.comps.iter().map(|c| match c.kind { Kind::Hu => hue_lattice::<T>(tier), Kind::R(lo, hi) => range_lattice(lo, hi, tier, dense) }).collect();
    // soft limits: `Lch::max_chroma()` (128) and `Cam16UcsJmh::max_srgb_colorfulness()` (50) are the limits
    // Saturate moves towards, but not bounds of the type (is_within_bounds has no upper chroma limit;
    // Lch documents max_extended_chroma() = 181.02): colours above the soft limit are in range too
    let soft: &[f64] = match sp.name {
        "Lch" => &[150.0, 181.0],
        "Cam16UcsJmh" => &[70.0, 100.0],
        _ => &[],
    };
    if !soft.is_empty() {
        if let Kind::R(_, hi) = sp.comps[1].kind {
            lats[1].push(hi.up());
            lats[1].extend(soft.iter().map(|&x| T::from64(x)));
        }
    }
    product(sp, &lats)
}

fn product<T: Fl>(sp: &Spec<T>, lats: &[Vec<T>]) -> Vec<V<T>> {
    let mut out: Vec<V<T>> = vec![[z::<T>(); 4]];
    for (i, l) in lats.iter().enumerate() {
        let mut next = Vec::with_capacity(out.len() * l.len());
        for p in &out {
            for &x in l {
                let mut q = *p;
                q[i] = x;
                next.push(q);
            }
        }
        out = next;
    }
    out.retain(|v| valid(sp, v));
    out
}

pub fn valid<T: Fl>(sp: &Spec<T>, v: &V<T>) -> bool {
    if sp.coupled {
        // whiteness + blackness <= 1, with the sum rounded to the component type like the library's own test
        T::from64(v[1].to64() + v[2].to64()).to64() <= 1.0
    } else {
        true
    }
}

/// partner colours for the binary operators (independent of the first colour)
pub fn partners<T: Fl>(sp: &Spec<T>, tier: Tier) -> Vec<V<T>> {
    let th = tier == Tier::Thorough;
    if sp.n == 1 {
        return colours(sp, Tier::Quick).into_iter().step_by(if th { 1 } else { 2 }).collect();
    }
    let hue_list: Vec<T> = {
        let mut h = vec![T::from64(0.0), T::from64(10.0), T::from64(350.0), T::from64(360.0).down(), T::from64(180.0), T::from64(180.0).up(), T::from64(180.0).down(), T::from64(-180.0), T::from64(90.0), T::from64(270.5), T::from64(720.0), T::from64(-360.0)];
        if th {
            h.extend([360.0, 30.0, 60.0, 120.0, 240.0, 300.0, 359.0, 1.0, -90.0, 540.0, 179.0, 181.0].iter().map(|&x| T::from64(x)));
        }
        h
    };
    let has_hue = sp.hue_idx().is_some();
    let fr: &[f64] = if has_hue { if th { &[0.0, 0.3, 1.0] } else { &[0.3, 1.0] } } else if th { &[0.0, 0.3, 0.6, 1.0] } else { &[0.0, 0.3, 1.0] };
    let lats: Vec<Vec<T>> = sp
        .comps
        .iter()
        .map(|c| match c.kind {
            Kind::Hu => hue_list.clone(),
            Kind::R(lo, hi) => fr.iter().map(|&t| if t == 0.0 { lo } else if t == 1.0 { hi } else { T::from64(lo.to64() + t * (hi.to64() - lo.to64())) }).collect(),
        })
        .collect();
    let mut p = product(sp, &lats);
    if sp.coupled {
        // the product above keeps few HWB colours; add some more valid ones
        for (h, w, b) in [(10.0, 0.2, 0.3), (350.0, 0.5, 0.5), (180.0, 0.0, 0.0), (181.0, 0.1, 0.9), (-180.0, 0.25, 0.25), (90.0, 0.6, 0.1), (270.5, 0.0, 1.0), (720.0, 1.0, 0.0)] {
            p.push([T::from64(h), T::from64(w), T::from64(b), z::<T>()]);
        }
    }
    p
}

/// partners whose hue is exactly opposite to `a`'s (± one ulp), taken from a base partner
pub fn opposite_partners<T: Fl>(sp: &Spec<T>, a: &V<T>, base: &V<T>) -> Vec<V<T>> {
    let Some(h) = sp.hue_idx() else { return vec![] };
    let ah = a[h].to64();
    let mut out = vec![];
    for x in [T::from64(ah + 180.0), T::from64(ah + 180.0).up(), T::from64(ah + 180.0).down(), T::from64(ah - 180.0)] {
        let mut p = *base;
        p[h] = x;
        out.push(p);
    }
    out
}

pub fn alpha_pairs<T: Fl>() -> Vec<(T, T)> {
    vec![(T::from64(0.25), T::from64(0.75)), (T::from64(1.0), T::from64(0.0)), (T::from64(0.5), T::from64(0.5))]
}
pub fn alphas<T: Fl>() -> Vec<T> {
    vec![T::from64(0.0), T::from64(0.25), T::from64(1.0)]
}
