fn main() {
    eprintln!("C03: check not built yet");
    std::process::exit(3);
}
