//! Check functions: one per kind of case, used by the explorer and by --replay alike.
use crate::oracle::{self, De00, HueCase};
use crate::subject::{Meas, OType, Sc, Space, WObs, WType};
use pv::fl::Fl;
use pv::{json, Collector, Value};

/// Tolerances (per component type). Calibration on the pinned tree is in `TOL_NOTE`.
pub struct Tols {
    /// closed forms (Euclid, HyAB, power functions): relative
    pub rel: f64,
    /// CIEDE2000: A·(1 + ΔE) + B·sqrt(C1'·C2')
    pub de_a: f64,
    pub de_b: f64,
    /// polar types: K·eps·Σ C_i·(1 + |h_i| in radians), the rounding of C·cos h / C·sin h
    pub polar_k: f64,
    /// exclusion zone | |Δh'| − 180° | < thr180 (degrees); also "within rounding of h1'+h2' = 360°"
    pub thr180: f64,
    /// relative luminance, absolute
    pub lum: f64,
    /// contrast ratio against the reference, relative (on top of the luminance tolerance)
    pub ratio_rel: f64,
}
pub fn tols<T: Fl>() -> Tols {
    if T::NAME == "f32" {
        Tols { rel: 4e-6, de_a: 3e-5, de_b: 8e-6, polar_k: 16.0, thr180: 2e-3, lum: 2e-6, ratio_rel: 4e-6 }
    } else {
        Tols { rel: 2e-14, de_a: 1e-9, de_b: 1e-13, polar_k: 16.0, thr180: 1e-9, lum: 5e-7, ratio_rel: 2e-14 }
    }
}
pub const TOL_NOTE: &str = "closed forms (Euclid, HyAB, a·ΔE^b): relative 4e-6 (f32) / 2e-14 (f64) — ≤ ~6 roundings + powf; worst observed 0.10·tol (f32, powf of a 2e-11 ΔE00). \
CIEDE2000: A·(1+ΔE) + B·sqrt(C1'·C2') [+ 6e-6·ΔE next to Σh' = 360°, the formula's own jump], A = 3e-5, B = 8e-6 (f32: h' is held in degrees in T, so Δh' carries ≈ 3 half-ulps of 360° = 4.6e-5° = 8e-7 rad, which ΔH' = 2·sqrt(C1'C2')·sin(Δh'/2) scales by the chroma) and A = 1e-9, B = 1e-13 (f64). Worst rounding error observed on the pinned tree: 0.12·tol in f32 (8.6× slack), 5.6e-5·tol in f64; the ±4-ulp input envelope was never needed for a passing pair on the lattice. The seeded changes move lattice results by ≥ 1e-2 (≥ 5× the largest f32 tol of 2e-3 at ΔE = 60, C = 150; ≥ 1e5× the f64 tol). \
polar types: 16·eps·Σ C_i·(1+|h_i| rad) for forming C·cos h, C·sin h in T (observed ≤ 0.115·tol; through a·ΔE^b the ΔE tolerance is propagated, the power function not being Lipschitz at 0). \
WCAG: luminance 2e-6 (f32: 3 powf + 3-term dot product, observed 0.044·tol) / 5e-7 (f64: the 7-digit matrix row 0.2126729 vs 0.21267285 derived, observed 0.097·tol) outside the interval spanned by the 4-digit WCAG row and the primaries-derived row; ratio vs own luminances 16 eps (observed 1.4 eps); upper bound 21·(1+16 eps) clamped / 21·(1+1e-6) unclamped deprecated trait (Y row sums to 1.0000001) / 21·(1+2e-3) for types reached through conversions; a coefficient or threshold change of 1e-4 moves a grid luminance by ≥ 1e-4 = 50–200× tol.";

pub fn hex<T: Fl>(v: &[T]) -> Vec<String> {
    v.iter().map(|x| format!("{:#x}", x.bits64())).collect()
}
pub fn fnum(x: f64) -> Value {
    if x.is_finite() {
        json!(x)
    } else {
        json!(format!("{x}"))
    }
}
pub fn to64<T: Fl>(x: [T; 3]) -> [f64; 3] {
    [x[0].to64(), x[1].to64(), x[2].to64()]
}
fn ulp<T: Fl>(x: T) -> f64 {
    let a = x.to64().abs();
    (T::from64(a).up().to64() - a).abs()
}
fn mix(h: u64, x: u64) -> u64 {
    pv::splitmix(h ^ x)
}

/// Per-chunk accumulators that are cheaper than the string-keyed collector.
#[derive(Default, Clone)]
pub struct Local {
    pub states: u64,
    pub trans: u64,
    pub traces: u64,
    pub nontrivial: u64,
    pub best: f64,
    pub k: u64,
    /// CIEDE2000 bookkeeping
    pub case_pairs: [u64; 6],
    pub excluded: u64,
    pub excluded_1e3: u64,
    pub near_sum360: u64,
    pub exact_mirror: u64,
    pub needed_envelope: u64,
    pub asym_bits: u64,
    /// largest err/tol in the sum ≥ 360 branches of CIEDE2000 (kept apart from `best`)
    pub best_ge360: f64,
    /// largest |ΔE(mean-hue variant (sum+360)/2) − ΔE(Sharma)| over pairs with sum ≥ 360
    pub variant_dev: f64,
    pub variant_case: Option<Value>,
}
impl Local {
    pub fn merge(&mut self, o: &Local) {
        self.states += o.states;
        self.trans += o.trans;
        self.traces += o.traces;
        self.nontrivial += o.nontrivial;
        self.best = self.best.max(o.best);
        self.k += o.k;
        for i in 0..6 {
            self.case_pairs[i] += o.case_pairs[i];
        }
        self.excluded += o.excluded;
        self.excluded_1e3 += o.excluded_1e3;
        self.near_sum360 += o.near_sum360;
        self.exact_mirror += o.exact_mirror;
        self.needed_envelope += o.needed_envelope;
        self.asym_bits += o.asym_bits;
        self.best_ge360 = self.best_ge360.max(o.best_ge360);
        if o.variant_dev > self.variant_dev {
            self.variant_dev = o.variant_dev;
            self.variant_case = o.variant_case.clone();
        }
    }
}

/// Rectangular f64 coordinates of a colour of `space` (exact-degree trigonometry for polar types).
pub fn rect64<T: Fl>(space: Space, x: [T; 3]) -> [f64; 3] {
    if space.polar() {
        oracle::polar_to_rect(to64(x))
    } else {
        to64(x)
    }
}

/// Expected interval [lo, hi] and tolerance for one (space, measure, pair); None = the pair is
/// in the excluded zone around |Δh'| = 180°.
pub struct Expect {
    pub lo: f64,
    pub hi: f64,
    pub tol: f64,
    pub class: &'static str,
    pub used_envelope: bool,
    /// false: the error of this pair is not rounding (mean-hue finding, the formula's own jump
    /// at Σ = 360°) and is kept out of the max err/tol calibration figure
    pub calib: bool,
}

fn n_of(space: Space, v: [f64; 3]) -> [f64; 3] {
    if space.n() == 1 {
        [v[0], 0.0, 0.0]
    } else {
        v
    }
}

/// Closed-form expectation (everything except the CIEDE2000 family).
pub fn expect_closed<T: Fl>(space: Space, m: Meas, x: [T; 3], y: [T; 3]) -> Expect {
    let t = tols::<T>();
    let same = (0..3).all(|i| x[i].bits64() == y[i].bits64());
    let class = if same { "identical" } else { "distinct" };
    let (x64, y64) = (n_of(space, to64(x)), n_of(space, to64(y)));
    let huang = if space.rect() == Space::Jab { oracle::HUANG_CAM16UCS } else { oracle::HUANG_CIELAB };
    if space.polar() {
        // the implementation has to form C·cos h and C·sin h in T
        let d = oracle::euclid_polar(x64, y64);
        let abs = if same { 0.0 } else { t.polar_k * T::EPS * (x64[1].abs() * (1.0 + x64[2].abs().to_radians()) + y64[1].abs() * (1.0 + y64[2].abs().to_radians())) };
        return match m {
            Meas::DeltaE => Expect { lo: d, hi: d, tol: t.rel * d + abs, class, used_envelope: false, calib: true },
            _ => {
                // a·ΔE^b is not Lipschitz at 0: the ΔE tolerance is propagated through the power function
                let v = oracle::improved(huang.0, huang.1, d);
                let w = oracle::improved(huang.0, huang.1, d + abs) - oracle::improved(huang.0, huang.1, (d - abs).max(0.0));
                Expect { lo: v, hi: v, tol: t.rel * v + w, class, used_envelope: false, calib: true }
            }
        };
    }
    let r = match m {
        Meas::Distance | Meas::DeltaE => oracle::euclid(x64, y64),
        Meas::DistanceSquared => oracle::euclid_sq(x64, y64),
        Meas::HyAb => oracle::hyab(x64, y64),
        Meas::ImprovedDeltaE => oracle::improved(huang.0, huang.1, oracle::euclid(x64, y64)),
        _ => f64::NAN,
    };
    let rel = if m == Meas::DistanceSquared { 2.0 * t.rel } else { t.rel };
    Expect { lo: r, hi: r, tol: rel * r, class, used_envelope: false, calib: true }
}

pub fn de_tol<T: Fl>(r: &De00) -> f64 {
    let t = tols::<T>();
    t.de_a * (1.0 + r.de) + t.de_b * (r.c1p * r.c2p).sqrt() + sum360_jump::<T>(r)
}

/// Sharma's formula has a second, tiny jump of its own: for |Δh'| > 180° the mean hue is
/// (Σ + 360)/2 below Σ = h1' + h2' = 360° and (Σ − 360)/2 from there on, i.e. h̄' jumps from 360°
/// to 0°. T is 360°-periodic, Δθ = 30·exp(−((h̄' − 275)/25)²) is not: it drops from 2.89e-4° to
/// ~0, R_T changes by ≤ 2·sin(2·2.89e-4°) = 2.02e-5, the radicand by ≤ 2.02e-5·ΔE²/2 and ΔE by
/// ≤ 5.05e-6·ΔE. A pair within rounding of Σ = 360° may land on either side.
pub fn sum360_jump<T: Fl>(r: &De00) -> f64 {
    let gt180 = !matches!(r.case, HueCase::ZeroChroma | HueCase::Le180);
    if gt180 && (r.h1 + r.h2 - 360.0).abs() < tols::<T>().thr180 {
        6e-6 * r.de
    } else {
        0.0
    }
}

/// a2 = 2^k·a1 > 0, b2 = −2^k·b1 ≠ 0 (exactly), different chroma (k ≠ 0): hues mirrored about +a*.
pub fn exact_mirror(x: [f64; 3], y: [f64; 3]) -> bool {
    if !(x[1] > 0.0 && y[1] > 0.0 && x[2] != 0.0) {
        return false;
    }
    let k = y[1] / x[1];
    let pow2 = k.is_normal() && (k.to_bits() & ((1u64 << 52) - 1)) == 0;
    pow2 && k != 1.0 && x[1] * k == y[1] && -(x[2] * k) == y[2]
}

/// CIEDE2000 expectation for a Lab or Lch pair: Sharma's formula on the T-rounded inputs; when
/// `obs` is not within tol of that, the hull over the ±4-ulp box around the inputs.
pub fn expect_ciede<T: Fl>(space: Space, x: [T; 3], y: [T; 3], obs: [f64; 2], l: &mut Local) -> (De00, Option<Expect>) {
    let t = tols::<T>();
    let polar = space.polar();
    let (xr, yr) = (rect64(space, x), rect64(space, y));
    let r = oracle::ciede2000(xr, yr);
    l.case_pairs[r.case.index()] += 1;
    if r.dist180 < 1e-3 {
        l.excluded_1e3 += 1;
    }
    if r.dist180 < t.thr180 {
        l.excluded += 1;
        return (r, None);
    }
    if matches!(r.case, HueCase::Gt180H2LeH1SumGe360 | HueCase::Gt180H2GtH1SumGe360) {
        let v = oracle::ciede2000_ex(xr, yr, true);
        let dev = (v.de - r.de).abs();
        if dev > l.variant_dev {
            l.variant_dev = dev;
            l.variant_case = Some(json!({"space": space.name(), "float": T::NAME, "input": hex(&[x[0], x[1], x[2], y[0], y[1], y[2]]), "x": to64(x), "y": to64(y), "sharma": r.de, "variant_mean_hue_sum_plus_360_over_2": v.de, "h1'": r.h1, "h2'": r.h2}));
        }
    }
    // Exact mirror pairs (a2 = 2^k·a1 > 0, b2 = −2^k·b1): Σ = h1' + h2' is 360° *exactly* — a' = a(1+G)
    // scales both a by the same factor and the power of two exactly, atan2 is odd in its first
    // argument, so every implementation that forms h' by atan2 gets h2' = 360 − h1' and the sum
    // rounds to 360. The formula's value is unambiguous there (Sharma eq. 14: Σ ≥ 360 → (Σ − 360)/2)
    // and the allowance for "within rounding of Σ = 360°" does not apply.
    // polar inputs: the library forms a, b from the hue in radians, so only hues h and −h (cos even,
    // sin odd: exact) with chromas in a power-of-two ratio give exactly mirrored a, b in T
    let mirror = if polar {
        let (p, q) = (to64(x), to64(y));
        p[2] == -q[2] && p[2] != 0.0 && exact_mirror(xr, yr) && exact_mirror([p[0], p[1], 1.0], [q[0], q[1], -q[1] / p[1]])
    } else {
        exact_mirror(xr, yr)
    };
    let jump = if mirror { 0.0 } else { sum360_jump::<T>(&r) };
    let tol = de_tol::<T>(&r) - sum360_jump::<T>(&r) + jump;
    if mirror {
        l.exact_mirror += 1;
    }
    if jump > 0.0 {
        l.near_sum360 += 1;
    }
    let class = if mirror { "mirror-sum=360" } else { r.case.name() };
    if obs.iter().all(|o| (o - r.de).abs() <= tol) {
        // a polar hue that is a multiple of 360° is h' = 0 for the reference and 360 − ε after
        // rounding: such a pair can sit in a sum ≥ 360 branch without the reference saying so
        let wraps = polar && r.case != HueCase::ZeroChroma && [r.h1, r.h2].iter().any(|h| h.min(360.0 - h) < 1e-6);
        return (r, Some(Expect { lo: r.de, hi: r.de, tol, class, used_envelope: false, calib: !class.ends_with("sum>=360") && jump == 0.0 && !mirror && !wraps }));
    }
    if mirror {
        // no envelope: the ±4-ulp box straddles Σ = 360° and would readmit the other branch
        return (r, Some(Expect { lo: r.de, hi: r.de, tol, class, used_envelope: false, calib: false }));
    }
    // backward-error envelope (DESIGN §3.4)
    l.needed_envelope += 1;
    let centre = [x[0].to64(), x[1].to64(), x[2].to64(), y[0].to64(), y[1].to64(), y[2].to64()];
    let half = [4.0 * ulp(x[0]), 4.0 * ulp(x[1]), 4.0 * ulp(x[2]), 4.0 * ulp(y[0]), 4.0 * ulp(y[1]), 4.0 * ulp(y[2])];
    // the input class of a pair whose box reaches into another branch of the case analysis
    // (e.g. a polar hue of exactly 360°, which is h' = 0 for the reference and 360 − ε after
    // rounding) is the highest-numbered branch its box touches
    let touched = std::cell::Cell::new(r.case.index());
    let (lo, hi) = oracle::hull6(&centre, &half, |p| {
        let (a, b) = oracle::split6(p);
        let v = if polar { oracle::ciede2000(oracle::polar_to_rect(a), oracle::polar_to_rect(b)) } else { oracle::ciede2000(a, b) };
        touched.set(touched.get().max(v.case.index()));
        v.de
    });
    (r, Some(Expect { lo, hi, tol, class: oracle::HUE_CASES[touched.get()].name(), used_envelope: true, calib: false }))
}

pub fn pair_case<T: Fl>(group: &str, space: Space, m: Meas, x: [T; 3], y: [T; 3], what: &str, obs: [f64; 2], e: Option<&Expect>) -> Value {
    json!({"sub": "pair", "group": group, "space": space.name(), "measure": m.name(), "float": T::NAME,
        "input": hex(&[x[0], x[1], x[2], y[0], y[1], y[2]]), "x": to64(x), "y": to64(y), "what": what,
        "observed": {"d(x,y)": fnum(obs[0]), "d(y,x)": fnum(obs[1])},
        "expected": e.map(|e| json!({"lo": fnum(e.lo), "hi": fnum(e.hi), "tol": e.tol, "class": e.class, "envelope": e.used_envelope}))})
}

/// One unordered pair {x, y} of one space through one measure, both orders: no panic, finite,
/// non-negative, d(x,x) = 0 exactly, symmetric, equal to the reference.
///
/// `own`: what `Ciede2000::difference` returned for (x, y) and (y, x) when the caller already has
/// it (the improved and the deprecated variants are defined through it). Returns the two
/// observed values.
pub fn check_pair<T: Sc>(group: &str, space: Space, m: Meas, x: [T; 3], y: [T; 3], own: Option<[f64; 2]>, c: &mut Collector, l: &mut Local, seed: u64) -> Option<[f64; 2]> {
    let sig = |class: &str, kind: &str| format!("C09/{}/{}/{}<{}>/{}/{}", group, m.name(), space.name(), T::NAME, class, kind);
    let same = x[0].bits64() == y[0].bits64() && x[1].bits64() == y[1].bits64() && x[2].bits64() == y[2].bits64();
    l.trans += 2;
    let run = pv::catch(|| (T::dist(space, m, x, y), T::dist(space, m, y, x)));
    let (oxy, oyx) = match run {
        Ok((Some(a), Some(b))) => (a, b),
        Ok(_) => return None,
        Err(msg) => {
            c.violation(&sig("any", "panic"), 1.0, || json!({"sub": "pair", "group": group, "space": space.name(), "measure": m.name(), "float": T::NAME, "input": hex(&[x[0], x[1], x[2], y[0], y[1], y[2]]), "observed": {"panic": msg}, "expected": "no panic"}));
            return None;
        }
    };
    let obs = [oxy.to64(), oyx.to64()];
    // reference
    let exp: Option<Expect> = if m.is_ciede() {
        if m == Meas::Ciede2000 {
            expect_ciede::<T>(space, x, y, obs, l).1
        } else {
            // the deprecated trait and the improved variant are defined through Ciede2000::difference:
            // they are compared with what that returned (which is itself checked against Sharma)
            let own = own.or_else(|| {
                l.trans += 2;
                match pv::catch(|| (T::dist(space, Meas::Ciede2000, x, y), T::dist(space, Meas::Ciede2000, y, x))) {
                    Ok((Some(a), Some(b))) => Some([a.to64(), b.to64()]),
                    _ => None,
                }
            });
            match own {
                Some(d) if d.iter().all(|v| v.is_finite() && *v >= 0.0) => {
                    let t = tols::<T>();
                    let f = |d: f64| if m == Meas::ColorDifference { d } else { oracle::improved(oracle::HUANG_CIEDE2000.0, oracle::HUANG_CIEDE2000.1, d) };
                    let (a, b) = (f(d[0]), f(d[1]));
                    Some(Expect { lo: a.min(b), hi: a.max(b), tol: t.rel * a.max(b), class: "vs-own-ciede2000", used_envelope: false, calib: true })
                }
                _ => None, // already reported under Ciede2000::difference
            }
        }
    } else {
        Some(expect_closed::<T>(space, m, x, y))
    };
    let class = exp.as_ref().map(|e| e.class).unwrap_or("dh=180±rounding");
    let what = |w: &str| pair_case::<T>(group, space, m, x, y, w, obs, exp.as_ref());
    let mut worst = 0.0f64;
    let mut ok = true;
    for o in obs {
        l.traces += 1;
        if o.is_nan() || o.is_infinite() {
            c.violation(&sig(class, if o.is_nan() { "NaN" } else { "inf" }), f64::INFINITY, || what("non-finite difference"));
            ok = false;
        } else if !(o >= 0.0) {
            c.violation(&sig(class, "negative"), -o, || what("negative difference"));
            ok = false;
        } else if same && o != 0.0 {
            c.violation(&sig(class, "identical-nonzero"), o, || what("d(x, x) must be exactly 0"));
            ok = false;
        }
    }
    if ok {
        if let Some(e) = &exp {
            for o in obs {
                l.traces += 1;
                let excess = (e.lo - o).max(o - e.hi).max(0.0);
                if excess <= e.tol {
                    if e.tol > 0.0 {
                        worst = worst.max(excess / e.tol);
                    }
                } else {
                    c.violation(&sig(class, "value"), excess, || what("difference is not the value of the defining formula"));
                    ok = false;
                }
            }
            // symmetry: to the same tolerance as the value (and counted when not bit-exact)
            let stol = e.tol + (e.hi - e.lo).max(0.0);
            let asym = (obs[0] - obs[1]).abs();
            l.traces += 1;
            if oxy.bits64() != oyx.bits64() && asym != 0.0 {
                l.asym_bits += 1;
            }
            if asym > stol {
                c.violation(&sig(class, "asymmetric"), asym, || what("d(x, y) differs from d(y, x)"));
                ok = false;
            }
        } else {
            // excluded zone: the value is unconstrained, the metric laws still hold on each side
            // of the jump only up to the jump itself — nothing more to compare
        }
    }
    if ok && exp.as_ref().is_some_and(|e| !e.calib) {
        // kept apart: in these branches the error is dominated by the mean-hue deviation
        // (a recorded finding), which would hide the rounding calibration of the other branches
        l.best_ge360 = l.best_ge360.max(worst);
    } else if ok && worst > l.best {
        l.best = worst;
        c.ratio(&format!("{}/{}", group, T::NAME), worst, || what("largest error/tolerance so far"));
    }
    l.k += 1;
    let h = mix(mix(oxy.bits64(), oyx.bits64().rotate_left(23)), (m as u64) << 8 | space as u64);
    if l.k % 8 == 0 {
        c.outcome(h);
    }
    if l.k % 257 == 0 {
        c.sample(mix(mix(h, seed), pv::fnv(group.as_bytes())), || json!({"sub": group, "space": space.name(), "measure": m.name(), "float": T::NAME, "x": to64(x), "y": to64(y), "d(x,y)": fnum(obs[0]), "d(y,x)": fnum(obs[1]), "reference": exp.as_ref().map(|e| json!([fnum(e.lo), fnum(e.hi)])), "class": class}));
    }
    Some(obs)
}

/// Measures compared between a polar type and its rectangular sibling (the deprecated
/// ColorDifference is the same function as Ciede2000::difference and is covered in the pair loop).
pub fn polar_measures(space: Space) -> &'static [Meas] {
    match space {
        Space::Lch => &[Meas::Ciede2000, Meas::ImprovedCiede2000, Meas::DeltaE, Meas::ImprovedDeltaE],
        _ => &[Meas::DeltaE, Meas::ImprovedDeltaE],
    }
}

/// Polar type against its rectangular sibling on corresponding colours. `p`, `q` are polar
/// (Lch / Jmh), `pr`, `qr` the corresponding rectangular colours, where the correspondence is
/// palette's own conversion (in the direction given by `dir`). `only`: restrict to one measure.
#[allow(clippy::too_many_arguments)]
pub fn check_polar_rect<T: Sc>(space: Space, only: Option<Meas>, dir: &'static str, p: [T; 3], q: [T; 3], pr: [T; 3], qr: [T; 3], c: &mut Collector, l: &mut Local, seed: u64) {
    let group = "polar-vs-rect";
    let t = tols::<T>();
    let rect = space.rect();
    // tolerance: the rounding of the conversion between the two forms
    let (p64, q64) = (to64(p), to64(q));
    let conv = t.polar_k * T::EPS * (p64[1].abs() * (1.0 + p64[2].abs().to_radians()) + q64[1].abs() * (1.0 + q64[2].abs().to_radians()));
    let mut de: Option<De00> = None;
    let d = oracle::euclid(to64(pr), to64(qr));
    let input = || hex(&if dir == "from-polar" { [p[0], p[1], p[2], q[0], q[1], q[2]] } else { [pr[0], pr[1], pr[2], qr[0], qr[1], qr[2]] });
    for &m in polar_measures(space) {
        if only.is_some_and(|o| o != m) {
            continue;
        }
        let sig = |class: &str, kind: &str| format!("C09/{}/{}/{}<{}>-vs-{}/{}/{}/{}", group, m.name(), space.name(), T::NAME, rect.name(), dir, class, kind);
        let mut calib = true;
        let (tol, class): (f64, &'static str) = if m.is_ciede() {
            let r = *de.get_or_insert_with(|| oracle::ciede2000(to64(pr), to64(qr)));
            calib = sum360_jump::<T>(&r) == 0.0;
            if m == Meas::Ciede2000 {
                l.case_pairs[r.case.index()] += 1;
            }
            if r.dist180 < t.thr180 {
                if m == Meas::Ciede2000 {
                    l.excluded += 1;
                }
                continue;
            }
            let base = de_tol::<T>(&r) + conv;
            if m == Meas::ImprovedCiede2000 {
                // a·ΔE^b is not Lipschitz at 0: propagate the ΔE tolerance through the power function
                let (a, b) = oracle::HUANG_CIEDE2000;
                let w = (oracle::improved(a, b, r.de + base) - oracle::improved(a, b, (r.de - base).max(0.0))).abs();
                (w + t.rel * oracle::improved(a, b, r.de), r.case.name())
            } else {
                (base, r.case.name())
            }
        } else if m == Meas::ImprovedDeltaE {
            let (a, b) = if rect == Space::Jab { oracle::HUANG_CAM16UCS } else { oracle::HUANG_CIELAB };
            let w = (oracle::improved(a, b, d + conv) - oracle::improved(a, b, (d - conv).max(0.0))).abs();
            (w + t.rel * oracle::improved(a, b, d), "any")
        } else {
            (conv + t.rel * d, "any")
        };
        l.trans += 2;
        let (op, or) = match pv::catch(|| (T::dist(space, m, p, q), T::dist(rect, m, pr, qr))) {
            Ok((Some(a), Some(b))) => (a.to64(), b.to64()),
            Ok(_) => continue,
            Err(msg) => {
                c.violation(&sig("any", "panic"), 1.0, || json!({"sub": group, "space": space.name(), "measure": m.name(), "float": T::NAME, "direction": dir, "input": input(), "observed": {"panic": msg}}));
                continue;
            }
        };
        l.traces += 1;
        let err = (op - or).abs();
        let case = || json!({"sub": group, "space": space.name(), "measure": m.name(), "float": T::NAME, "direction": dir, "input": input(), "polar": [p64, q64], "rect": [to64(pr), to64(qr)], "observed": {"polar": fnum(op), "rect": fnum(or)}, "tol": tol, "class": class});
        if !(err <= tol) {
            c.violation(&sig(class, if err.is_nan() { "NaN" } else { "value" }), if err.is_nan() { f64::INFINITY } else { err }, case);
        } else if !calib {
            l.best_ge360 = l.best_ge360.max(err / tol);
        } else if tol > 0.0 && err / tol > l.best {
            l.best = err / tol;
            c.ratio(&format!("{}/{}", group, T::NAME), err / tol, case);
        }
        l.k += 1;
        let h = mix(op.to_bits(), or.to_bits().rotate_left(29) ^ (m as u64) << 3);
        if l.k % 8 == 0 {
            c.outcome(h);
        }
        if l.k % 509 == 0 {
            c.sample(mix(h, seed ^ 0x9e37), case);
        }
    }
}

// ---- WCAG -------------------------------------------------------------------------------------

/// Reference interval of the relative luminance of one input of a Wcag21 type.
pub fn lum_ref(ty: WType, x64: [f64; 3], yrow: &[f64; 3]) -> (f64, f64) {
    let enc = if ty.grey() { [x64[0]; 3] } else { x64 };
    let (lo, hi) = if ty.linear() { (enc, enc) } else { oracle::decode_hull(enc) };
    if ty.grey() {
        // a Luma *is* the luminance (Y of the grey with that value)
        (lo[0].clamp(0.0, 1.0), hi[0].clamp(0.0, 1.0))
    } else {
        oracle::luminance_hull(lo, hi, yrow)
    }
}

pub fn wcag_input_json<T: Fl>(x: [T; 3], y: [T; 3]) -> Value {
    json!(hex(&[x[0], x[1], x[2], y[0], y[1], y[2]]))
}

/// Shared verdicts on one observation of a contrast trait (both orders).
/// `reference`: interval of the luminances of x and y, when the type's luminance is defined by
/// the statement (sRGB / luma types); `range_tol`: relative slack on the upper bound 21.
#[allow(clippy::too_many_arguments)]
pub fn judge_contrast<T: Fl>(trait_name: &'static str, ty: &'static str, o: &WObs<T>, reference: Option<[(f64, f64); 2]>, range_tol: f64, case: &dyn Fn(&str) -> Value, c: &mut Collector, l: &mut Local, sub: &str) {
    let t = tols::<T>();
    let sig = |kind: &str| format!("C09/wcag/{}/{}<{}>/{}", trait_name, ty, T::NAME, kind);
    let r = [o.r[0].to64(), o.r[1].to64()];
    let mut worst = 0.0f64;
    l.traces += 1;
    if o.r[0].bits64() != o.r[1].bits64() {
        c.violation(&sig("asymmetric"), (r[0] - r[1]).abs().max(f64::MIN_POSITIVE), || case("relative contrast of (x, y) and (y, x) differ"));
    }
    for (k, rv) in r.into_iter().enumerate() {
        l.traces += 1;
        if !rv.is_finite() {
            c.violation(&sig("non-finite"), f64::INFINITY, || case("contrast ratio is not finite"));
            continue;
        }
        if rv < 1.0 {
            c.violation(&sig("range/below-1"), 1.0 - rv, || case("contrast ratio below 1"));
        }
        if rv > 21.0 * (1.0 + range_tol) {
            c.violation(&sig("range/above-21"), rv - 21.0, || case("contrast ratio above 21 for in-gamut colours"));
        } else if rv > 21.0 {
            worst = worst.max((rv / 21.0 - 1.0) / range_tol);
        }
        // the ratio against the luminances the same trait returned
        if let Some(lum) = o.lum {
            let (a, b) = (lum[0].to64(), lum[1].to64());
            let want = oracle::contrast(a, b);
            let err = (rv - want).abs() / want;
            l.traces += 1;
            if !(err <= 16.0 * T::EPS) {
                c.violation(&sig("ratio-vs-own-luminance"), err, || case("relative_contrast is not (L1 + 0.05) / (L2 + 0.05) of the relative_luminance values"));
            } else {
                worst = worst.max(err / (16.0 * T::EPS));
            }
        }
        if let Some(rf) = reference {
            // monotone: increasing in the lighter, decreasing in the darker luminance
            let (xl, xh) = (rf[0].0 - t.lum, rf[0].1 + t.lum);
            let (yl, yh) = (rf[1].0 - t.lum, rf[1].1 + t.lum);
            let cands = [oracle::contrast(xl, yh), oracle::contrast(xh, yl), oracle::contrast(xl, yl), oracle::contrast(xh, yh)];
            let overlap = xl <= yh && yl <= xh;
            let lo = if overlap { 1.0 } else { cands.iter().cloned().fold(f64::INFINITY, f64::min) };
            let hi = cands.iter().cloned().fold(0.0, f64::max);
            let excess = (lo * (1.0 - t.ratio_rel) - rv).max(rv - hi * (1.0 + t.ratio_rel)).max(0.0);
            l.traces += 1;
            if excess > 0.0 {
                c.violation(&sig("ratio-value"), excess, || case(&format!("contrast ratio outside the WCAG formula's interval [{lo}, {hi}]")));
            }
        }
        for (i, (name, thr)) in oracle::THRESHOLDS.iter().enumerate() {
            l.traces += 1;
            if o.p[k][i] != (rv >= *thr) {
                // the predicates are provided methods of the trait, shared by every implementing
                // type (no impl overrides them): the call site is the trait, not the colour type
                c.violation(&format!("C09/wcag/{}/predicate/{}/{}", trait_name, name, T::NAME), (rv - thr).abs().max(f64::MIN_POSITIVE), || case(&format!("{name} returned {} but the ratio is {rv} (threshold {thr})", o.p[k][i])));
            }
        }
    }
    if let (Some(lum), Some(rf)) = (o.lum, reference) {
        for k in 0..2 {
            let v = lum[k].to64();
            l.traces += 1;
            if !(0.0..=1.0).contains(&v) {
                c.violation(&sig("luminance-range"), if v.is_nan() { f64::INFINITY } else { (-v).max(v - 1.0) }, || case("relative luminance outside [0, 1]"));
                continue;
            }
            let excess = (rf[k].0 - v).max(v - rf[k].1).max(0.0);
            if excess > t.lum {
                c.violation(&sig("luminance-value"), excess, || case(&format!("relative luminance {v} outside [{}, {}] ± {}", rf[k].0, rf[k].1, t.lum)));
            } else {
                worst = worst.max(excess / t.lum);
            }
        }
    }
    if worst > l.best {
        l.best = worst;
        c.ratio(sub, worst, || case("largest error/tolerance so far"));
    }
    c.outcome(mix(mix(o.r[0].bits64(), o.p[0].iter().fold(0u64, |a, b| a << 1 | *b as u64)), pv::fnv(ty.as_bytes())));
}

/// Wcag21RelativeContrast on one unordered pair of a type.
pub fn check_wcag<T: Sc>(sub: &str, ty: WType, x: [T; 3], y: [T; 3], yrow: &[f64; 3], c: &mut Collector, l: &mut Local, seed: u64) {
    l.trans += 14;
    let case = |w: &str, o: Option<&WObs<T>>| json!({"sub": "wcag", "trait": "Wcag21RelativeContrast", "type": ty.name(), "float": T::NAME, "input": wcag_input_json(x, y), "x": to64(x), "y": to64(y), "what": w, "observed": o.map(|o| json!({"luminance": o.lum.map(|l| [l[0].to64(), l[1].to64()]), "ratio": [fnum(o.r[0].to64()), fnum(o.r[1].to64())], "predicates": o.p}))});
    let o = match pv::catch(|| T::wcag(ty, x, y)) {
        Ok(o) => o,
        Err(msg) => {
            c.violation(&format!("C09/wcag/Wcag21RelativeContrast/{}<{}>/panic", ty.name(), T::NAME), 1.0, || case(&format!("panic: {msg}"), None));
            return;
        }
    };
    let rf = [lum_ref(ty, to64(x), yrow), lum_ref(ty, to64(y), yrow)];
    judge_contrast::<T>("Wcag21RelativeContrast", ty.name(), &o, Some(rf), 8.0 * T::EPS, &|w| case(w, Some(&o)), c, l, sub);
    l.k += 1;
    if l.k % 1021 == 0 {
        c.sample(mix(mix(o.r[0].bits64(), seed), x[0].bits64() ^ y[1].bits64().rotate_left(11)), || case("sample", Some(&o)));
    }
}

/// The deprecated RelativeContrast trait on one unordered pair. For the four sRGB/luma types
/// the inputs are used directly; for the other types x and y are sRGB colours converted with
/// palette's `FromColor` (their luminance is then subject to conversion rounding: only
/// symmetry, range and predicate agreement are judged).
pub fn check_wcag_old<T: Sc>(sub: &str, ty: OType, x: [T; 3], y: [T; 3], yrow: &[f64; 3], c: &mut Collector, l: &mut Local, seed: u64) {
    l.trans += 12;
    let case = |w: &str, o: Option<&WObs<T>>| json!({"sub": "wcag", "trait": "RelativeContrast", "type": ty.name(), "float": T::NAME, "input": wcag_input_json(x, y), "x": to64(x), "y": to64(y), "input_is": if ty.as_wtype().is_some() { "the colour itself" } else { "sRGB colour converted with FromColor" }, "what": w, "observed": o.map(|o| json!({"ratio": [fnum(o.r[0].to64()), fnum(o.r[1].to64())], "predicates": o.p}))});
    let o = match pv::catch(|| T::wcag_old(ty, x, y)) {
        Ok(o) => o,
        Err(msg) => {
            c.violation(&format!("C09/wcag/RelativeContrast/{}<{}>/panic", ty.name(), T::NAME), 1.0, || case(&format!("panic: {msg}"), None));
            return;
        }
    };
    let (rf, range_tol) = match ty.as_wtype() {
        // not clamped: Y of white is the (rounded) sum of the matrix row
        Some(w) => (Some([lum_ref(w, to64(x), yrow), lum_ref(w, to64(y), yrow)]), 1e-6),
        None => (None, 2e-3),
    };
    judge_contrast::<T>("RelativeContrast", ty.name(), &o, rf, range_tol, &|w| case(w, Some(&o)), c, l, sub);
    l.k += 1;
    if l.k % 4093 == 0 {
        c.sample(mix(mix(o.r[0].bits64(), seed), pv::fnv(ty.name().as_bytes())), || case("sample", Some(&o)));
    }
}
