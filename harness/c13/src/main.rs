//! C13 — in-place conversion equals out-of-place conversion and guards restore on drop.
//!
//! E2 operation-sequence search on the *real* guards (DESIGN.md §3.1, §4 C13):
//!
//! * `guard-slice`, `guard-single`: every buffer of length 0..=3 over a 4-colour set (in range,
//!   boundary, out of gamut, grey) resp. every single colour of the set (`FromColorMut for C` on
//!   `&mut C`); original type U in {Srgb<f32>, Hsl<f32>, Lab<f32>, Srgba<f32>, Srgb<f64>}; five
//!   layout-compatible target types per U that form a clique of conversions with U. ALL sequences
//!   of operations {into_color_mut<T>, into_color_unclamped_mut<T>, deref, mutate(i) through
//!   DerefMut, then_into_color_mut<C>, then_into_color_unclamped_mut<C>, into_unclamped_guard /
//!   into_clamped_guard, restore, drop, mem::forget} up to depth D (5 quick / 6 thorough) are
//!   explored breadth first. A sequence is executed by rebuilding the buffer (with a sentinel
//!   element on either side) and replaying it on the real `FromColorMutGuard` /
//!   `FromColorUnclampedMutGuard`, held in a macro-generated enum because every step changes the
//!   guard's type. After restore/drop/forget the buffer is an ordinary `[U]` again (after forget:
//!   with the bits of the converted colours) and the sequence may go on.
//!   Merged mode: canonical state = (typestate, buffer bits) as OBSERVED on the real code; a
//!   state already reached at a smaller-or-equal depth is not expanded again (sound: the guards
//!   are `repr(transparent)` over `Option<&mut T>`, they hold nothing but the borrow). For every
//!   edge the replay must pass through the parent state again bit for bit, and the state after
//!   the new operation must be what the reference model predicts from the parent state.
//!   Unmerged mode: every sequence up to a smaller depth (3 quick / 4 thorough), no dedup, every
//!   step of every sequence compared; its set of reachable canonical states must equal the
//!   merged one (otherwise: machinery failure).
//! * `vec`, `box`: the one-shot owning forms `Vec<T>::from_color(Vec<U>)`, `from_color_unclamped`,
//!   `into_color`, `cast::map_vec_in_place` / `map_slice_box_in_place` (with a call-counting
//!   closure), every (len 0..=4, capacity len..=len+3 read back from the real Vec) shape, every
//!   chain of up to 3 (thorough 4) of them over U and its five targets: same pointer, length and
//!   capacity after every step, elements equal to the ordinary per-element conversion.
//! * `miri` (thorough only; `C13_NO_MIRI=1` skips it with a coverage warning): the same executor
//!   at a smaller bound under `cargo +nightly miri run --offline`, 15 processes in parallel.
//!
//! Reference model: a plain list of component arrays (as bit patterns) + a type tag. Every
//! converting operation maps each element with the ORDINARY out-of-place conversion
//! (`T::from_color` for the clamping API / guards, `T::from_color_unclamped` for the unclamped
//! ones); restore/drop convert back to U in one step; forget changes nothing.
//!
//! Which flavour restores how is the documented behaviour of the guard types:
//! `FromColorMutGuard` — "restores the guarded colors to their original type" using the clamping
//! `FromColorMut` (= `U::from_color`); `FromColorUnclampedMutGuard` — "restores ... without
//! clamping" (= `U::from_color_unclamped`); `into_unclamped_guard` — "a guard that does not clamp
//! the colors after restoring"; `into_clamped_guard` — "a guard that clamps the colors after
//! restoring"; `then_into_color_mut` gives a clamping guard, `then_into_color_unclamped_mut` an
//! unclamped one, whatever the flavour of the guard they are called on. The property only says
//! "equal to converting the current contents back in a single step"; the flavour of that step is
//! the guard's.
//!
//! Comparison is bit for bit, except that every NaN counts as the same value and -0.0 == +0.0
//! (see `same_values`: `f32::max`/`min`, which palette's clamps use, are documented as not
//! deterministic regarding signed zeros, so two call sites of the same conversion may differ in
//! the sign of a zero — observed once at depth 6, Hsl -> Hwb with whiteness -0.0). The model
//! therefore always predicts the next state from the state observed on the real code.
use palette::cast::{self, ArrayCast};
use palette::convert::{FromColor, FromColorMutGuard, FromColorUnclamped, FromColorUnclampedMutGuard, IntoColor, IntoColorMut, IntoColorUnclampedMut};
use palette::encoding::Srgb as S;
use palette::white_point::D65;
use palette::{Alpha, Hsl, Hsv, Hwb, Lab, Lch, Luv, Oklab, Oklch, Srgb, Xyz, Yxy};
use pv::{json, Collector, Ctx, Mode, Tier, Value};
use std::collections::{HashMap, HashSet};
use std::hash::{BuildHasherDefault, Hasher};

// ---------------------------------------------------------------------------------------
// bits

trait Comp: Copy + 'static {
    fn bits(self) -> u64;
    fn from_bits64(b: u64) -> Self;
}
impl Comp for f32 {
    #[inline]
    fn bits(self) -> u64 {
        if self.is_nan() {
            0x7fc0_0000
        } else {
            self.to_bits() as u64
        }
    }
    #[inline]
    fn from_bits64(b: u64) -> Self {
        f32::from_bits(b as u32)
    }
}
impl Comp for f64 {
    #[inline]
    fn bits(self) -> u64 {
        if self.is_nan() {
            0x7ff8_0000_0000_0000
        } else {
            self.to_bits()
        }
    }
    #[inline]
    fn from_bits64(b: u64) -> Self {
        f64::from_bits(b)
    }
}

trait Arr: Copy + 'static {
    const N: usize;
    fn put(&self, out: &mut [u64]);
    fn get(b: &[u64]) -> Self;
}
impl<F: Comp, const N: usize> Arr for [F; N] {
    const N: usize = N;
    #[inline]
    fn put(&self, out: &mut [u64]) {
        for i in 0..N {
            out[i] = self[i].bits();
        }
    }
    #[inline]
    fn get(b: &[u64]) -> Self {
        core::array::from_fn(|i| F::from_bits64(b[i]))
    }
}

/// A borrowed colour container seen as a slice of component arrays (through palette::cast).
trait View {
    type A: Arr;
    fn arrays(&self) -> &[Self::A];
    fn arrays_mut(&mut self) -> &mut [Self::A];
}
impl<T> View for [T]
where
    T: ArrayCast,
    T::Array: Arr,
{
    type A = T::Array;
    #[inline]
    fn arrays(&self) -> &[T::Array] {
        cast::into_array_slice(self)
    }
    #[inline]
    fn arrays_mut(&mut self) -> &mut [T::Array] {
        cast::into_array_slice_mut(self)
    }
}
impl<T> View for T
where
    T: ArrayCast,
    T::Array: Arr,
{
    type A = T::Array;
    #[inline]
    fn arrays(&self) -> &[T::Array] {
        core::slice::from_ref(cast::into_array_ref(self))
    }
    #[inline]
    fn arrays_mut(&mut self) -> &mut [T::Array] {
        core::slice::from_mut(cast::into_array_mut(self))
    }
}

// ---------------------------------------------------------------------------------------
// operations, observations

/// Type indices: 0 = the original type U, 1..=nt = the target types of the family.
#[derive(Clone, Copy, PartialEq, Eq, Debug, Hash)]
enum Op {
    /// `buf.into_color_mut::<T>()` (false) / `buf.into_color_unclamped_mut::<T>()` (true)
    Start(u8, bool),
    /// observe through `Deref`
    Deref,
    /// `guard[i] = FIXED` through `DerefMut`
    Mutate(u8),
    /// `guard.then_into_color_mut::<C>()` (false) / `then_into_color_unclamped_mut::<C>()` (true)
    Then(u8, bool),
    /// `into_unclamped_guard()` on a clamping guard, `into_clamped_guard()` on an unclamped one
    Switch,
    Restore,
    Drop,
    Forget,
}

const OWNED: u8 = 0;
const CLAMPED: u8 = 1;
const UNCLAMPED: u8 = 2;
const MAXB: usize = 12; // 3 elements x 4 components
const MAXD: usize = 8;

/// Canonical state = model state: typestate + buffer contents as bit patterns.
#[derive(Clone, Copy, PartialEq, Eq, Hash, Debug)]
struct Key {
    tag: u8,
    flav: u8,
    n: u8,
    bits: [u64; MAXB],
}
impl Key {
    fn bits(&self) -> &[u64] {
        &self.bits[..self.n as usize]
    }
}

#[derive(Clone, Copy)]
struct Path {
    n: u8,
    ops: [Op; MAXD],
}
impl Path {
    fn new() -> Self {
        Path { n: 0, ops: [Op::Deref; MAXD] }
    }
    fn push(&self, op: Op) -> Self {
        let mut p = *self;
        p.ops[p.n as usize] = op;
        p.n += 1;
        p
    }
    fn ops(&self) -> &[Op] {
        &self.ops[..self.n as usize]
    }
}

#[derive(Clone, Copy, Debug)]
struct Step {
    tag: u8,
    flav: u8,
    addr_ok: bool,
    len_ok: bool,
    sent_ok: bool,
    ret_ok: bool,
    off: usize,
    n: usize,
}

/// What an execution of a sequence on the real code exposes: one `Step` for the initial buffer
/// and one after every operation.
#[derive(Default)]
struct Sink {
    steps: Vec<Step>,
    bits: Vec<u64>,
    err: Option<&'static str>,
    ret_pending: Option<bool>,
    ret_bits: Vec<u64>,
    /// steps that agreed with the model only up to the sign of a zero (not cleared by `clear`)
    zero_sign: u64,
}
impl Sink {
    fn clear(&mut self) {
        self.steps.clear();
        self.bits.clear();
        self.err = None;
        self.ret_pending = None;
        self.ret_bits.clear();
    }
    fn push<A: Arr>(&mut self, tag: u8, flav: u8, arrs: &[A], addr_ok: bool, len_ok: bool, sent_ok: bool) {
        let off = self.bits.len();
        let n = arrs.len() * A::N;
        self.bits.resize(off + n, 0);
        for (i, a) in arrs.iter().enumerate() {
            a.put(&mut self.bits[off + i * A::N..off + (i + 1) * A::N]);
        }
        let mut ret_ok = true;
        if let Some(ok) = self.ret_pending.take() {
            ret_ok = ok && self.ret_bits[..] == self.bits[off..off + n];
        }
        self.steps.push(Step { tag, flav, addr_ok, len_ok, sent_ok, ret_ok, off, n });
    }
    fn step_bits(&self, k: usize) -> &[u64] {
        let s = &self.steps[k];
        &self.bits[s.off..s.off + s.n]
    }
}

/// Observation of the owning forms: after every operation the container's raw parts.
#[derive(Clone, Copy, Debug)]
struct OStep {
    tag: u8,
    ptr: usize,
    len: usize,
    cap: usize,
    calls: usize,
    off: usize,
    n: usize,
}
#[derive(Default)]
struct OSink {
    steps: Vec<OStep>,
    bits: Vec<u64>,
}
impl OSink {
    fn clear(&mut self) {
        self.steps.clear();
        self.bits.clear();
    }
    fn push<A: Arr>(&mut self, tag: u8, ptr: usize, len: usize, cap: usize, calls: usize, arrs: &[A]) {
        let off = self.bits.len();
        let n = arrs.len() * A::N;
        self.bits.resize(off + n, 0);
        for (i, a) in arrs.iter().enumerate() {
            a.put(&mut self.bits[off + i * A::N..off + (i + 1) * A::N]);
        }
        self.steps.push(OStep { tag, ptr, len, cap, calls, off, n });
    }
    fn step_bits(&self, k: usize) -> &[u64] {
        let s = &self.steps[k];
        &self.bits[s.off..s.off + s.n]
    }
}

type ConvFn = fn(&[u64], &mut [u64]);
type ExecFn = fn(&[u64], &[u64], &[Op], &mut Sink);
/// (initial elements, extra capacity, ops as (target type, how), sink)
type OExecFn = fn(&[u64], usize, &[(u8, u8)], &mut OSink);

// how an owning conversion is spelled
const HOW_NAMES: [&str; 4] = ["from_color", "from_color_unclamped", "into_color", "map_in_place"];
const HOW_UNCL: [bool; 4] = [false, true, false, true];

// ---------------------------------------------------------------------------------------
// the typed part: macro-generated per family

macro_rules! w {
    (slice, $t:ty) => { [$t] };
    (single, $t:ty) => { $t };
}
macro_rules! mid {
    (slice, $s:expr) => { $s };
    (single, $s:expr) => { &mut $s[0] };
}

/// The guard a chaining method returns must be of the documented type (current colour type, ORIGINAL colour
/// type): the state enum below holds exactly those types. `fit` lets the harness type-check whatever the
/// method returns and turns a different guard type into an oracle panic (reported as a violation of the step),
/// instead of a harness build failure under a change of the public return type.
fn fit<X, E>(x: X, method: &str) -> E {
    let (got, want) = (core::any::type_name::<X>(), core::any::type_name::<E>());
    if got != want || core::mem::size_of::<X>() != core::mem::size_of::<E>() {
        // the guard is dropped here (restoring whatever it restores); the explorer sees the panic
        drop(x);
        panic!("C13-ORACLE: {method} returned a guard of type {got}, documented {want}");
    }
    // same type: a plain move, spelled through a pointer cast because X and E are distinct type variables
    // (read out of a ManuallyDrop through a raw pointer: the source is never touched again, so the `&mut` inside
    // the guard is moved, not duplicated — transmute_copy + forget is flagged by Miri's borrow tracking)
    let x = core::mem::ManuallyDrop::new(x);
    unsafe { core::ptr::read(&*x as *const X as *const E) }
}

macro_rules! then_impl {
    ($kind:ident, $u:ty, $t:ty, [$(($ctag:ident, $c:ty)),*]) => {
        impl<'a> Then<'a> for FromColorMutGuard<'a, w!($kind, $t), w!($kind, $u)> {
            #[inline(never)]
            fn then(self, c: u8, uncl: bool) -> G<'a> {
                let mut k = 0u8;
                $(
                    k += 1;
                    if c == k {
                        return if uncl {
                            G::U(GU::$ctag(fit(self.then_into_color_unclamped_mut::<w!($kind, $c)>(), "then_into_color_unclamped_mut")))
                        } else {
                            G::C(GC::$ctag(fit(self.then_into_color_mut::<w!($kind, $c)>(), "then_into_color_mut")))
                        };
                    }
                )*
                let _ = k;
                unreachable!("then: bad type index")
            }
        }
        impl<'a> Then<'a> for FromColorUnclampedMutGuard<'a, w!($kind, $t), w!($kind, $u)> {
            #[inline(never)]
            fn then(self, c: u8, uncl: bool) -> G<'a> {
                let mut k = 0u8;
                $(
                    k += 1;
                    if c == k {
                        return if uncl {
                            G::U(GU::$ctag(fit(self.then_into_color_unclamped_mut::<w!($kind, $c)>(), "then_into_color_unclamped_mut")))
                        } else {
                            G::C(GC::$ctag(fit(self.then_into_color_mut::<w!($kind, $c)>(), "then_into_color_mut")))
                        };
                    }
                )*
                let _ = k;
                unreachable!("then: bad type index")
            }
        }
    };
}

/// Guards over `w!(kind, U)` for every target type, and the executor of an operation sequence.
macro_rules! family {
    ($m:ident, $kind:ident, $arr:ty, $u:ty, $targets:tt) => {
        family!(@go $m, $kind, $arr, $u, $targets, $targets);
    };
    (@go $m:ident, $kind:ident, $arr:ty, $u:ty, [$(($tag:ident, $t:ty)),*], $all:tt) => {
        pub mod $m {
            use super::*;
            type U = $u;
            type A = $arr;
            type Cont = w!($kind, $u);

            pub enum GC<'a> { $( $tag(FromColorMutGuard<'a, w!($kind, $t), Cont>), )* }
            pub enum GU<'a> { $( $tag(FromColorUnclampedMutGuard<'a, w!($kind, $t), Cont>), )* }
            /// A live guard of either flavour over any of the target types.
            pub enum G<'a> { C(GC<'a>), U(GU<'a>) }

            pub trait Then<'a> { fn then(self, c: u8, uncl: bool) -> G<'a>; }
            $( then_impl!($kind, $u, $t, $all); )*

            #[inline(never)]
            fn start<'a>(buf: &'a mut Cont, t: u8, uncl: bool) -> G<'a> {
                let mut k = 0u8;
                $(
                    k += 1;
                    if t == k {
                        return if uncl {
                            G::U(GU::$tag(IntoColorUnclampedMut::<w!($kind, $t)>::into_color_unclamped_mut(buf)))
                        } else {
                            G::C(GC::$tag(IntoColorMut::<w!($kind, $t)>::into_color_mut(buf)))
                        };
                    }
                )*
                let _ = k;
                unreachable!("start: bad type index")
            }
            fn typestate(g: &G) -> (u8, u8) {
                let mut k = 0u8;
                match g {
                    G::C(x) => { $( k += 1; if let GC::$tag(_) = x { return (k, CLAMPED); } )* }
                    G::U(x) => { $( k += 1; if let GU::$tag(_) = x { return (k, UNCLAMPED); } )* }
                }
                let _ = k;
                unreachable!()
            }
            /// What the guard derefs to, as component arrays.
            fn view<'g>(g: &'g G<'_>) -> &'g [A] {
                match g {
                    $( G::C(GC::$tag(x)) => View::arrays(&**x), )*
                    $( G::U(GU::$tag(x)) => View::arrays(&**x), )*
                }
            }
            /// `guard[i] = value` through DerefMut.
            fn mutate(g: &mut G<'_>, i: usize, v: A) {
                match g {
                    $( G::C(GC::$tag(x)) => View::arrays_mut(&mut **x)[i] = v, )*
                    $( G::U(GU::$tag(x)) => View::arrays_mut(&mut **x)[i] = v, )*
                }
            }
            fn then<'a>(g: G<'a>, c: u8, uncl: bool) -> G<'a> {
                match g {
                    $( G::C(GC::$tag(x)) => Then::then(x, c, uncl), )*
                    $( G::U(GU::$tag(x)) => Then::then(x, c, uncl), )*
                }
            }
            fn switch<'a>(g: G<'a>) -> G<'a> {
                match g {
                    $( G::C(GC::$tag(x)) => G::U(GU::$tag(fit(x.into_unclamped_guard(), "into_unclamped_guard"))), )*
                    $( G::U(GU::$tag(x)) => G::C(GC::$tag(fit(x.into_clamped_guard(), "into_clamped_guard"))), )*
                }
            }
            fn restore<'a>(g: G<'a>) -> &'a mut Cont {
                match g {
                    $( G::C(GC::$tag(x)) => x.restore(), )*
                    $( G::U(GU::$tag(x)) => x.restore(), )*
                }
            }
            fn drop_guard(g: G<'_>) {
                match g {
                    $( G::C(GC::$tag(x)) => drop(x), )*
                    $( G::U(GU::$tag(x)) => drop(x), )*
                }
            }
            fn forget_guard(g: G<'_>) {
                match g {
                    $( G::C(GC::$tag(x)) => core::mem::forget(x), )*
                    $( G::U(GU::$tag(x)) => core::mem::forget(x), )*
                }
            }

            struct Env<'e> { base: usize, len: usize, head: &'e [U], tail: &'e [U], sent: [u64; 4], fixed: A }
            impl Env<'_> {
                fn sent_ok(&self) -> bool {
                    let mut b = [0u64; 4];
                    for s in self.head.iter().chain(self.tail.iter()) {
                        cast::into_array_ref(s).put(&mut b[..A::N]);
                        if b[..A::N] != self.sent[..A::N] { return false; }
                    }
                    self.head.len() == 1 && self.tail.len() == 1
                }
            }
            fn observe_guard(g: &G<'_>, env: &Env, sink: &mut Sink) {
                let v = view(g);
                let (tag, flav) = typestate(g);
                sink.push(tag, flav, v, v.as_ptr() as usize == env.base, v.len() == env.len, env.sent_ok());
            }
            fn observe_owned(mid: &Cont, env: &Env, sink: &mut Sink) {
                let v = View::arrays(mid);
                sink.push(0, OWNED, v, v.as_ptr() as usize == env.base, v.len() == env.len, env.sent_ok());
            }
            /// Runs guard operations until the guard is gone; returns the remaining operations
            /// and whether the guard ended (restore/drop/forget) or the sequence ran out.
            fn run_guard<'a, 'o>(mut g: G<'a>, mut ops: &'o [Op], env: &Env, sink: &mut Sink) -> (&'o [Op], bool) {
                loop {
                    let Some((&op, rest)) = ops.split_first() else {
                        // end of the sequence with a live guard: nothing more is observed
                        forget_guard(g);
                        return (ops, false);
                    };
                    ops = rest;
                    match op {
                        Op::Deref => observe_guard(&g, env, sink),
                        Op::Mutate(i) => {
                            mutate(&mut g, i as usize, env.fixed);
                            observe_guard(&g, env, sink);
                        }
                        Op::Then(c, uncl) => {
                            g = then(g, c, uncl);
                            observe_guard(&g, env, sink);
                        }
                        Op::Switch => {
                            g = switch(g);
                            observe_guard(&g, env, sink);
                        }
                        Op::Restore => {
                            let r: &mut Cont = restore(g);
                            let v = View::arrays(&*r);
                            let ok = v.as_ptr() as usize == env.base && v.len() == env.len;
                            sink.ret_bits.clear();
                            sink.ret_bits.resize(v.len() * A::N, 0);
                            for (i, a) in v.iter().enumerate() {
                                a.put(&mut sink.ret_bits[i * A::N..(i + 1) * A::N]);
                            }
                            sink.ret_pending = Some(ok);
                            return (ops, true);
                        }
                        Op::Drop => {
                            drop_guard(g);
                            return (ops, true);
                        }
                        Op::Forget => {
                            forget_guard(g);
                            return (ops, true);
                        }
                        Op::Start(..) => {
                            sink.err = Some("into_color_mut is not applicable while a guard is alive");
                            forget_guard(g);
                            return (&[], false);
                        }
                    }
                }
            }

            /// Rebuild the buffer `[sentinel, init.., sentinel]`, run `ops` on the middle part.
            pub fn exec(init: &[u64], fixed: &[u64], ops: &[Op], sink: &mut Sink) {
                sink.clear();
                let n = <A as Arr>::N;
                let len = init.len() / n;
                let mut sent = [0u64; 4];
                sent.copy_from_slice(&SENTINEL_BITS[if core::mem::size_of::<A>() / n == 8 { 1 } else { 0 }]);
                let sent_arr: A = Arr::get(&sent[..n]);
                let mut buf: Vec<U> = Vec::with_capacity(len + 2);
                buf.push(cast::from_array(sent_arr));
                for e in init.chunks(n) {
                    buf.push(cast::from_array(<A as Arr>::get(e)));
                }
                buf.push(cast::from_array(sent_arr));
                let (head, rest) = buf.split_at_mut(1);
                let (mid, tail) = rest.split_at_mut(len);
                let mid: &mut Cont = mid!($kind, mid);
                let env = Env { base: View::arrays(&*mid).as_ptr() as usize, len, head, tail, sent, fixed: Arr::get(fixed) };
                observe_owned(&*mid, &env, sink);
                let mut ops = ops;
                while let Some((&op, rest)) = ops.split_first() {
                    match op {
                        Op::Start(t, uncl) => {
                            let g = start(&mut *mid, t, uncl);
                            observe_guard(&g, &env, sink);
                            let (rest, ended) = run_guard(g, rest, &env, sink);
                            ops = rest;
                            if ended {
                                // the guard is gone: read the buffer back through its own type
                                observe_owned(&*mid, &env, sink);
                            }
                        }
                        _ => {
                            sink.err = Some("guard operation without a live guard");
                            return;
                        }
                    }
                }
            }
        }
    };
}

macro_rules! owned_impl {
    ($t:ty, [$(($ctag:ident, $c:ty)),*]) => {
        impl VConv for Vec<$t> {
            #[inline(never)]
            fn vconv(self, to: u8, how: u8, calls: &mut usize) -> V {
                let mut k = 0u8;
                $(
                    if to == k {
                        return V::$ctag(match how {
                            0 => <Vec<$c> as FromColor<Vec<$t>>>::from_color(self),
                            1 => <Vec<$c> as FromColorUnclamped<Vec<$t>>>::from_color_unclamped(self),
                            2 => IntoColor::<Vec<$c>>::into_color(self),
                            _ => cast::map_vec_in_place(self, |x: $t| { *calls += 1; <$c as FromColorUnclamped<$t>>::from_color_unclamped(x) }),
                        });
                    }
                    k += 1;
                )*
                let _ = k;
                unreachable!("vconv: bad type index")
            }
        }
        impl BConv for Box<[$t]> {
            #[inline(never)]
            fn bconv(self, to: u8, how: u8, calls: &mut usize) -> B {
                let mut k = 0u8;
                $(
                    if to == k {
                        return B::$ctag(match how {
                            0 => <Box<[$c]> as FromColor<Box<[$t]>>>::from_color(self),
                            1 => <Box<[$c]> as FromColorUnclamped<Box<[$t]>>>::from_color_unclamped(self),
                            2 => IntoColor::<Box<[$c]>>::into_color(self),
                            _ => cast::map_slice_box_in_place(self, |x: $t| { *calls += 1; <$c as FromColorUnclamped<$t>>::from_color_unclamped(x) }),
                        });
                    }
                    k += 1;
                )*
                let _ = k;
                unreachable!("bconv: bad type index")
            }
        }
    };
}

/// Owning one-shot forms and the reference conversion table of a family. `$all` lists U first.
macro_rules! owned {
    ($m:ident, $arr:ty, ($utag:ident, $u:ty), $all:tt) => {
        owned!(@go $m, $arr, ($utag, $u), $all, $all);
    };
    (@go $m:ident, $arr:ty, ($utag:ident, $u:ty), [$(($tag:ident, $t:ty)),*], $all:tt) => {
        pub mod $m {
            use super::*;
            type A = $arr;
            pub enum V { $( $tag(Vec<$t>), )* }
            pub enum B { $( $tag(Box<[$t]>), )* }
            pub trait VConv { fn vconv(self, to: u8, how: u8, calls: &mut usize) -> V; }
            pub trait BConv { fn bconv(self, to: u8, how: u8, calls: &mut usize) -> B; }
            $( owned_impl!($t, $all); )*

            /// The ordinary out-of-place conversion of one element, on bit patterns.
            fn conv_one<X, Y, const UNCL: bool>(inp: &[u64], out: &mut [u64])
            where
                X: ArrayCast<Array = A>,
                Y: ArrayCast<Array = A> + FromColor<X> + FromColorUnclamped<X>,
            {
                let x: X = cast::from_array(<A as Arr>::get(inp));
                let y: Y = if UNCL { Y::from_color_unclamped(x) } else { Y::from_color(x) };
                cast::into_array(y).put(out);
            }
            fn row<X>() -> Vec<[ConvFn; 2]>
            where
                X: ArrayCast<Array = A>,
                $( $t: FromColor<X> + FromColorUnclamped<X>, )*
            {
                vec![ $( [conv_one::<X, $t, false> as ConvFn, conv_one::<X, $t, true> as ConvFn], )* ]
            }
            /// conv[from][to][unclamped]
            pub fn conv_table() -> Vec<Vec<[ConvFn; 2]>> {
                vec![ $( row::<$t>(), )* ]
            }
            pub fn type_names() -> Vec<&'static str> {
                vec![ $( stringify!($tag), )* ]
            }

            fn vobs(v: &V, calls: usize, sink: &mut OSink) {
                let mut k = 0u8;
                $(
                    if let V::$tag(x) = v {
                        sink.push(k, x.as_ptr() as usize, x.len(), x.capacity(), calls, cast::into_array_slice(&x[..]));
                        return;
                    }
                    k += 1;
                )*
                let _ = k;
            }
            fn bobs(v: &B, calls: usize, sink: &mut OSink) {
                let mut k = 0u8;
                $(
                    if let B::$tag(x) = v {
                        sink.push(k, x.as_ptr() as usize, x.len(), x.len(), calls, cast::into_array_slice(&x[..]));
                        return;
                    }
                    k += 1;
                )*
                let _ = k;
            }
            fn build(init: &[u64], extra: usize) -> Vec<$u> {
                let n = <A as Arr>::N;
                let len = init.len() / n;
                let mut v: Vec<$u> = Vec::with_capacity(len + extra);
                for e in init.chunks(n) {
                    v.push(cast::from_array(<A as Arr>::get(e)));
                }
                v
            }
            pub fn exec_vec(init: &[u64], extra: usize, ops: &[(u8, u8)], sink: &mut OSink) {
                sink.clear();
                let mut v = V::$utag(build(init, extra));
                vobs(&v, 0, sink);
                for &(to, how) in ops {
                    let mut calls = 0usize;
                    v = match v { $( V::$tag(x) => x.vconv(to, how, &mut calls), )* };
                    vobs(&v, calls, sink);
                }
            }
            pub fn exec_box(init: &[u64], _extra: usize, ops: &[(u8, u8)], sink: &mut OSink) {
                sink.clear();
                let mut v = B::$utag(build(init, 0).into_boxed_slice());
                bobs(&v, 0, sink);
                for &(to, how) in ops {
                    let mut calls = 0usize;
                    v = match v { $( B::$tag(x) => x.bconv(to, how, &mut calls), )* };
                    bobs(&v, calls, sink);
                }
            }
        }
    };
}

// sentinel elements around the converted part of the buffer; [f32 bits, f64 bits]
static SENTINEL_BITS: [[u64; 4]; 2] = [
    [0x4640_e400, 0xc5d4_2800, 0x3c80_0000, 0x4228_0000], // 12345.0, -6789.0, 0.015625, 42.0 (f32)
    [0x40c8_1c80_0000_0000, 0xc0ba_8500_0000_0000, 0x3f90_0000_0000_0000, 0x4045_0000_0000_0000],
];

// ----- the five families (tags must not shadow type names) -----
type Srgba32 = Alpha<Srgb<f32>, f32>;

family!(srgb32_slice, slice, [f32; 3], Srgb<f32>, [(NHsl, Hsl<S, f32>), (NHsv, Hsv<S, f32>), (NLab, Lab<D65, f32>), (NOklab, Oklab<f32>), (NXyz, Xyz<D65, f32>)]);
family!(srgb32_single, single, [f32; 3], Srgb<f32>, [(NHsl, Hsl<S, f32>), (NHsv, Hsv<S, f32>), (NLab, Lab<D65, f32>), (NOklab, Oklab<f32>), (NXyz, Xyz<D65, f32>)]);
owned!(srgb32_owned, [f32; 3], (NSrgb, Srgb<f32>), [(NSrgb, Srgb<f32>), (NHsl, Hsl<S, f32>), (NHsv, Hsv<S, f32>), (NLab, Lab<D65, f32>), (NOklab, Oklab<f32>), (NXyz, Xyz<D65, f32>)]);

family!(hsl32_slice, slice, [f32; 3], Hsl<S, f32>, [(NSrgb, Srgb<f32>), (NHwb, Hwb<S, f32>), (NLch, Lch<D65, f32>), (NXyz, Xyz<D65, f32>), (NHsv, Hsv<S, f32>)]);
family!(hsl32_single, single, [f32; 3], Hsl<S, f32>, [(NSrgb, Srgb<f32>), (NHwb, Hwb<S, f32>), (NLch, Lch<D65, f32>), (NXyz, Xyz<D65, f32>), (NHsv, Hsv<S, f32>)]);
owned!(hsl32_owned, [f32; 3], (NHsl, Hsl<S, f32>), [(NHsl, Hsl<S, f32>), (NSrgb, Srgb<f32>), (NHwb, Hwb<S, f32>), (NLch, Lch<D65, f32>), (NXyz, Xyz<D65, f32>), (NHsv, Hsv<S, f32>)]);

family!(lab32_slice, slice, [f32; 3], Lab<D65, f32>, [(NLch, Lch<D65, f32>), (NLuv, Luv<D65, f32>), (NYxy, Yxy<D65, f32>), (NSrgb, Srgb<f32>), (NOklch, Oklch<f32>)]);
family!(lab32_single, single, [f32; 3], Lab<D65, f32>, [(NLch, Lch<D65, f32>), (NLuv, Luv<D65, f32>), (NYxy, Yxy<D65, f32>), (NSrgb, Srgb<f32>), (NOklch, Oklch<f32>)]);
owned!(lab32_owned, [f32; 3], (NLab, Lab<D65, f32>), [(NLab, Lab<D65, f32>), (NLch, Lch<D65, f32>), (NLuv, Luv<D65, f32>), (NYxy, Yxy<D65, f32>), (NSrgb, Srgb<f32>), (NOklch, Oklch<f32>)]);

family!(srgba32_slice, slice, [f32; 4], Srgba32, [(NHsla, Alpha<Hsl<S, f32>, f32>), (NHsva, Alpha<Hsv<S, f32>, f32>), (NLaba, Alpha<Lab<D65, f32>, f32>), (NOklaba, Alpha<Oklab<f32>, f32>), (NXyza, Alpha<Xyz<D65, f32>, f32>)]);
family!(srgba32_single, single, [f32; 4], Srgba32, [(NHsla, Alpha<Hsl<S, f32>, f32>), (NHsva, Alpha<Hsv<S, f32>, f32>), (NLaba, Alpha<Lab<D65, f32>, f32>), (NOklaba, Alpha<Oklab<f32>, f32>), (NXyza, Alpha<Xyz<D65, f32>, f32>)]);
owned!(srgba32_owned, [f32; 4], (NSrgba, Srgba32), [(NSrgba, Srgba32), (NHsla, Alpha<Hsl<S, f32>, f32>), (NHsva, Alpha<Hsv<S, f32>, f32>), (NLaba, Alpha<Lab<D65, f32>, f32>), (NOklaba, Alpha<Oklab<f32>, f32>), (NXyza, Alpha<Xyz<D65, f32>, f32>)]);

family!(srgb64_slice, slice, [f64; 3], Srgb<f64>, [(NHsl, Hsl<S, f64>), (NLab, Lab<D65, f64>), (NOklch, Oklch<f64>), (NXyz, Xyz<D65, f64>), (NHwb, Hwb<S, f64>)]);
family!(srgb64_single, single, [f64; 3], Srgb<f64>, [(NHsl, Hsl<S, f64>), (NLab, Lab<D65, f64>), (NOklch, Oklch<f64>), (NXyz, Xyz<D65, f64>), (NHwb, Hwb<S, f64>)]);
owned!(srgb64_owned, [f64; 3], (NSrgb, Srgb<f64>), [(NSrgb, Srgb<f64>), (NHsl, Hsl<S, f64>), (NLab, Lab<D65, f64>), (NOklch, Oklch<f64>), (NXyz, Xyz<D65, f64>), (NHwb, Hwb<S, f64>)]);

// ---------------------------------------------------------------------------------------
// untyped description of a family

struct Fam {
    /// name of U, e.g. "Srgb<f32>"
    name: &'static str,
    /// "slice" | "single"
    kind: &'static str,
    /// type names, index 0 = U (tags without the leading N)
    types: Vec<&'static str>,
    ncomp: usize,
    f64bits: bool,
    conv: Vec<Vec<[ConvFn; 2]>>,
    /// the 4-colour set (in-range, boundary, out-of-gamut, grey) as bits
    colours: Vec<Vec<u64>>,
    /// the colour written by `Mutate`, in whatever type the guard currently has
    fixed: Vec<u64>,
    exec: ExecFn,
    exec_vec: OExecFn,
    exec_box: OExecFn,
}
impl Fam {
    fn nt(&self) -> u8 {
        (self.types.len() - 1) as u8
    }
}

fn mkbits(f64bits: bool, vals: &[f64]) -> Vec<u64> {
    // black_box: the colours are runtime data for the optimiser (no compile-time folding of
    // libm calls on either side of the comparison)
    vals.iter().map(|&x| std::hint::black_box(if f64bits { x.to_bits() } else { (x as f32).to_bits() as u64 })).collect()
}

fn families() -> Vec<Fam> {
    let strip = |v: Vec<&'static str>| -> Vec<&'static str> { v.into_iter().map(|s| s.strip_prefix('N').unwrap_or(s)).collect() };
    let fixed4 = [0.3, 1.25, -0.125, 0.5];
    let rgb = [[0.8, 0.3, 0.1], [1.0, 0.0, 1.0], [1.2, -0.1, 0.5], [0.5, 0.5, 0.5]];
    let hsl = [[35.0, 0.6, 0.4], [360.0, 1.0, 0.5], [-30.0, 1.3, 0.5], [0.0, 0.0, 0.5]];
    let lab = [[50.0, 20.0, -30.0], [100.0, -128.0, 127.0], [120.0, 150.0, -150.0], [50.0, 0.0, 0.0]];
    let rgba = [[0.8, 0.3, 0.1, 0.5], [1.0, 0.0, 1.0, 1.0], [1.2, -0.1, 0.5, 1.5], [0.5, 0.5, 0.5, 0.0]];
    let mut out = vec![];
    macro_rules! fam {
        ($name:literal, $f64:expr, $nc:expr, $cols:expr, $sl:ident, $si:ident, $ow:ident) => {
            for (kind, exec) in [("slice", $sl::exec as ExecFn), ("single", $si::exec as ExecFn)] {
                out.push(Fam {
                    name: $name,
                    kind,
                    types: strip($ow::type_names()),
                    ncomp: $nc,
                    f64bits: $f64,
                    conv: $ow::conv_table(),
                    colours: $cols.iter().map(|c| mkbits($f64, &c[..])).collect(),
                    fixed: mkbits($f64, &fixed4[..$nc]),
                    exec,
                    exec_vec: $ow::exec_vec as OExecFn,
                    exec_box: $ow::exec_box as OExecFn,
                });
            }
        };
    }
    fam!("Srgb<f32>", false, 3, rgb, srgb32_slice, srgb32_single, srgb32_owned);
    fam!("Hsl<f32>", false, 3, hsl, hsl32_slice, hsl32_single, hsl32_owned);
    fam!("Lab<f32>", false, 3, lab, lab32_slice, lab32_single, lab32_owned);
    fam!("Srgba<f32>", false, 4, rgba, srgba32_slice, srgba32_single, srgba32_owned);
    fam!("Srgb<f64>", true, 3, rgb, srgb64_slice, srgb64_single, srgb64_owned);
    out
}

// ---------------------------------------------------------------------------------------
// reference model

fn map_all(f: &Fam, s: &Key, from: u8, to: u8, uncl: bool) -> [u64; MAXB] {
    let nc = f.ncomp;
    let cf = f.conv[from as usize][to as usize][uncl as usize];
    let mut out = [0u64; MAXB];
    let n = s.n as usize;
    let mut i = 0;
    while i < n {
        cf(&s.bits[i..i + nc], &mut out[i..i + nc]);
        i += nc;
    }
    out
}

/// The reference model: what the property says the state is after `op`.
fn model_apply(f: &Fam, s: &Key, op: Op) -> Key {
    let mut r = *s;
    match op {
        Op::Start(t, uncl) => {
            r.bits = map_all(f, s, 0, t, uncl);
            r.tag = t;
            r.flav = if uncl { UNCLAMPED } else { CLAMPED };
        }
        Op::Deref => {}
        Op::Mutate(i) => {
            let nc = f.ncomp;
            r.bits[i as usize * nc..(i as usize + 1) * nc].copy_from_slice(&f.fixed);
        }
        Op::Then(c, uncl) => {
            r.bits = map_all(f, s, s.tag, c, uncl);
            r.tag = c;
            r.flav = if uncl { UNCLAMPED } else { CLAMPED };
        }
        Op::Switch => r.flav = if s.flav == CLAMPED { UNCLAMPED } else { CLAMPED },
        Op::Restore | Op::Drop => {
            // one step back to U, with the guard's flavour
            r.bits = map_all(f, s, s.tag, 0, s.flav == UNCLAMPED);
            r.tag = 0;
            r.flav = OWNED;
        }
        Op::Forget => {
            // nothing is converted: the [U] buffer keeps the bits of the converted colours
            r.tag = 0;
            r.flav = OWNED;
        }
    }
    r
}

fn ops_for(flav: u8, len: usize, nt: u8, out: &mut Vec<Op>) {
    out.clear();
    if flav == OWNED {
        for uncl in [false, true] {
            for t in 1..=nt {
                out.push(Op::Start(t, uncl));
            }
        }
    } else {
        out.push(Op::Deref);
        for i in 0..len {
            out.push(Op::Mutate(i as u8));
        }
        for uncl in [false, true] {
            for c in 1..=nt {
                out.push(Op::Then(c, uncl));
            }
        }
        out.push(Op::Switch);
        out.push(Op::Restore);
        out.push(Op::Drop);
        out.push(Op::Forget);
    }
}

fn flav_name(f: u8) -> &'static str {
    match f {
        OWNED => "owned",
        CLAMPED => "clamped",
        _ => "unclamped",
    }
}

/// Name of the operation as a call site (for signatures): guard flavour + method.
fn op_site(op: Op, flav_before: u8) -> String {
    let fl = flav_name(flav_before);
    match op {
        Op::Start(_, false) => "into_color_mut".into(),
        Op::Start(_, true) => "into_color_unclamped_mut".into(),
        Op::Deref => format!("{fl}.deref"),
        Op::Mutate(_) => format!("{fl}.deref_mut"),
        Op::Then(_, false) => format!("{fl}.then_into_color_mut"),
        Op::Then(_, true) => format!("{fl}.then_into_color_unclamped_mut"),
        Op::Switch => {
            if flav_before == CLAMPED {
                "clamped.into_unclamped_guard".into()
            } else {
                "unclamped.into_clamped_guard".into()
            }
        }
        Op::Restore => format!("{fl}.restore"),
        Op::Drop => format!("{fl}.drop"),
        Op::Forget => format!("{fl}.forget"),
    }
}

fn render_ops(f: &Fam, ops: &[Op]) -> Vec<String> {
    let mut flav = OWNED;
    let mut out = vec![];
    for &op in ops {
        out.push(match op {
            Op::Start(t, false) => format!("into_color_mut:{}", f.types[t as usize]),
            Op::Start(t, true) => format!("into_color_unclamped_mut:{}", f.types[t as usize]),
            Op::Deref => "deref".into(),
            Op::Mutate(i) => format!("mutate:{i}"),
            Op::Then(c, false) => format!("then_into_color_mut:{}", f.types[c as usize]),
            Op::Then(c, true) => format!("then_into_color_unclamped_mut:{}", f.types[c as usize]),
            Op::Switch => (if flav == CLAMPED { "into_unclamped_guard" } else { "into_clamped_guard" }).into(),
            Op::Restore => "restore".into(),
            Op::Drop => "drop".into(),
            Op::Forget => "forget".into(),
        });
        flav = match op {
            Op::Start(_, u) | Op::Then(_, u) => {
                if u {
                    UNCLAMPED
                } else {
                    CLAMPED
                }
            }
            Op::Switch => {
                if flav == CLAMPED {
                    UNCLAMPED
                } else {
                    CLAMPED
                }
            }
            Op::Restore | Op::Drop | Op::Forget => OWNED,
            _ => flav,
        };
    }
    out
}

fn parse_op(f: &Fam, s: &str) -> Option<Op> {
    let (name, arg) = match s.split_once(':') {
        Some((a, b)) => (a, Some(b)),
        None => (s, None),
    };
    let ty = |a: Option<&str>| -> Option<u8> { f.types.iter().position(|t| Some(*t) == a).map(|i| i as u8) };
    Some(match name {
        "into_color_mut" => Op::Start(ty(arg)?, false),
        "into_color_unclamped_mut" => Op::Start(ty(arg)?, true),
        "deref" => Op::Deref,
        "mutate" => Op::Mutate(arg?.parse().ok()?),
        "then_into_color_mut" => Op::Then(ty(arg)?, false),
        "then_into_color_unclamped_mut" => Op::Then(ty(arg)?, true),
        "into_unclamped_guard" | "into_clamped_guard" => Op::Switch,
        "restore" => Op::Restore,
        "drop" => Op::Drop,
        "forget" => Op::Forget,
        _ => return None,
    })
}

fn hexbits(f: &Fam, b: &[u64]) -> Vec<String> {
    b.iter().map(|&x| if f.f64bits { format!("0x{x:016x}") } else { format!("0x{x:08x}") }).collect()
}
fn floats(f: &Fam, b: &[u64]) -> Vec<String> {
    b.iter().map(|&x| if f.f64bits { format!("{:?}", f64::from_bits(x)) } else { format!("{:?}", f32::from_bits(x as u32)) }).collect()
}
fn state_json(f: &Fam, tag: u8, flav: u8, bits: &[u64]) -> Value {
    json!({"type": f.types[tag as usize], "guard": flav_name(flav), "bits": hexbits(f, bits), "values": floats(f, bits)})
}

fn init_key(f: &Fam, buf: &[u8]) -> Key {
    let mut k = Key { tag: 0, flav: OWNED, n: (buf.len() * f.ncomp) as u8, bits: [0; MAXB] };
    for (i, &ci) in buf.iter().enumerate() {
        k.bits[i * f.ncomp..(i + 1) * f.ncomp].copy_from_slice(&f.colours[ci as usize]);
    }
    k
}

/// `-0.0` and `+0.0` are the same value: `f32::max`/`min` (used by palette's `clamp_min` /
/// `clamp_max`, e.g. `Hwb::clamp` on a whiteness of -0.0) are documented as not deterministic
/// regarding signed zeros, so two call sites of the very same conversion may legitimately
/// disagree on the sign of a zero (seen: in place -0.0, out of place +0.0 at depth 6).
fn same_values(f64bits: bool, a: &[u64], b: &[u64], zero_sign: &mut u64) -> bool {
    if a == b {
        return true;
    }
    let neg0: u64 = if f64bits { 1 << 63 } else { 1 << 31 };
    let ok = a.len() == b.len() && a.iter().zip(b).all(|(&x, &y)| x == y || ((x == 0 || x == neg0) && (y == 0 || y == neg0)));
    if ok {
        *zero_sign += 1;
    }
    ok
}

/// Compare one observed step with the model's prediction; `None` = agrees.
fn diff(step: &Step, sbits: &[u64], m: &Key, f64bits: bool, zero_sign: &mut u64) -> Option<&'static str> {
    if step.tag != m.tag || step.flav != m.flav {
        Some("typestate")
    } else if !step.addr_ok {
        Some("address")
    } else if !step.len_ok {
        Some("length")
    } else if !step.sent_ok {
        Some("neighbours")
    } else if !step.ret_ok {
        Some("restore-return")
    } else if !same_values(f64bits, sbits, m.bits(), zero_sign) {
        Some("values")
    } else {
        None
    }
}

/// The observed state after step k as a canonical state.
fn observed_key(sink: &Sink, k: usize) -> Key {
    let st = &sink.steps[k];
    let mut key = Key { tag: st.tag, flav: st.flav, n: st.n as u8, bits: [0; MAXB] };
    key.bits[..st.n].copy_from_slice(sink.step_bits(k));
    key
}

fn guard_violation(c: &mut Collector, f: &Fam, buf: &[u8], ops: &[Op], k: usize, what: &str, flav_before: u8, step: Option<(&Step, &[u64])>, m: Option<&Key>, mode: &str, extra: Option<String>) {
    let site = if k == 0 { "initial-buffer".to_string() } else { op_site(ops[k - 1], flav_before) };
    // The in-place API is blanket-generic over the colour types (no per-type code: anything
    // type-specific is the ordinary conversion, which is the oracle here), so the original
    // type is not part of the signature - one defect would otherwise give 5x the signatures.
    // The family is in the case.
    let sig = format!("C13/guard-{}/{}/{}", f.kind, site, what);
    c.violation(&sig, 1.0, || {
        json!({
            "sub": "guard", "family": f.name, "kind": f.kind, "mode": mode,
            "buffer": buf, "ops": render_ops(f, ops), "step": k, "what": what,
            "observed": match step { Some((s, b)) => json!({"state": state_json(f, s.tag, s.flav, b), "same_address": s.addr_ok, "same_length": s.len_ok, "neighbours_untouched": s.sent_ok, "restore_returned_same_buffer": s.ret_ok}), None => json!(extra) },
            "expected": m.map(|m| state_json(f, m.tag, m.flav, m.bits())),
        })
    });
}

/// Execute `ops` on the real code and compare EVERY step: the state observed after operation k
/// must be what the reference model predicts from the state observed after operation k-1.
/// Returns the last observed state, or Err(step) after recording a violation.
fn check_all_steps(c: &mut Collector, f: &Fam, buf: &[u8], init: &Key, ops: &[Op], sink: &mut Sink, mode: &str, verbose: bool) -> Result<Key, usize> {
    let exec = f.exec;
    let r = pv::catch(|| exec(init.bits(), &f.fixed, ops, sink));
    if let Err(msg) = r {
        guard_violation(c, f, buf, ops, ops.len(), "panic", OWNED, None, None, mode, Some(format!("panic: {msg}")));
        return Err(ops.len());
    }
    if let Some(e) = sink.err {
        eprintln!("MACHINERY-FAILURE: C13 executor: {e} (ops {:?})", render_ops(f, ops));
        std::process::exit(3);
    }
    if sink.steps.len() != ops.len() + 1 {
        eprintln!("MACHINERY-FAILURE: C13 executor produced {} observations for {} ops ({:?})", sink.steps.len(), ops.len(), render_ops(f, ops));
        std::process::exit(3);
    }
    let mut prev = *init;
    let mut zs = 0u64;
    for k in 0..=ops.len() {
        let expected = if k == 0 { *init } else { model_apply(f, &prev, ops[k - 1]) };
        let st = sink.steps[k];
        let sb = sink.step_bits(k);
        if verbose {
            println!("  step {k}: {}", if k == 0 { "initial".to_string() } else { render_ops(f, ops)[k - 1].clone() });
            println!("    observed: {} addr_ok={} len_ok={} neighbours_ok={} restore_ref_ok={}", state_json(f, st.tag, st.flav, sb), st.addr_ok, st.len_ok, st.sent_ok, st.ret_ok);
            println!("    expected: {}", state_json(f, expected.tag, expected.flav, expected.bits()));
        }
        if let Some(what) = diff(&st, sb, &expected, f.f64bits, &mut zs) {
            guard_violation(c, f, buf, ops, k, what, prev.flav, Some((&st, sb)), Some(&expected), mode, None);
            return Err(k);
        }
        prev = observed_key(sink, k);
    }
    sink.zero_sign += zs;
    Ok(prev)
}

// ---------------------------------------------------------------------------------------
// fast hashing of canonical states

#[derive(Default, Clone, Copy)]
struct Fx(u64);
impl Hasher for Fx {
    fn finish(&self) -> u64 {
        self.0
    }
    fn write(&mut self, bytes: &[u8]) {
        for ch in bytes.chunks(8) {
            let mut b = [0u8; 8];
            b[..ch.len()].copy_from_slice(ch);
            self.write_u64(u64::from_le_bytes(b));
        }
    }
    fn write_u8(&mut self, i: u8) {
        self.write_u64(i as u64)
    }
    fn write_u64(&mut self, i: u64) {
        self.0 = (self.0.rotate_left(5) ^ i).wrapping_mul(0x517c_c1b7_2722_0a95);
    }
    fn write_usize(&mut self, i: usize) {
        self.write_u64(i as u64)
    }
}
type FxBuild = BuildHasherDefault<Fx>;

fn key_hash(k: &Key) -> u64 {
    let mut h = 0xcbf2_9ce4_8422_2325u64 ^ ((k.tag as u64) << 8 | k.flav as u64 | (k.n as u64) << 16);
    for &b in k.bits() {
        h = pv::splitmix(h ^ b);
    }
    pv::splitmix(h)
}

// ---------------------------------------------------------------------------------------
// the explorer

struct TaskOut {
    states: u64,
    edges: u64,
    real_ops: u64,
    nontrivial: u64,
    max_depth_new_state: usize,
    states_by_depth: Vec<u64>,
    zero_sign: u64,
}

/// Merged breadth-first exploration of all operation sequences up to `depth` from one buffer.
/// A node is the canonical state OBSERVED on the real code (typestate, buffer bits); an edge
/// (node, op) is executed by rebuilding the buffer and replaying path(node) + op; the replay must
/// pass through the node's state again, and the state after `op` must be what the reference
/// model predicts from the node's state. Returns the canonical states first reached at depth
/// <= `keep_depth` (for the differential with the unmerged run).
fn explore_merged(c: &mut Collector, ctx: &Ctx, f: &Fam, buf: &[u8], depth: usize, keep_depth: usize, sub: &str) -> (TaskOut, HashMap<Key, u8, FxBuild>) {
    let init = init_key(f, buf);
    let len = buf.len();
    let mut visited: HashMap<Key, u8, FxBuild> = HashMap::default();
    visited.insert(init, 0);
    let mut level: Vec<(Key, Path)> = vec![(init, Path::new())];
    let mut last_hashes: Vec<u64> = vec![];
    let mut sink = Sink::default();
    let mut ops = vec![];
    let mut out = TaskOut { states: 0, edges: 0, real_ops: 0, nontrivial: 0, max_depth_new_state: 0, states_by_depth: vec![0; depth + 1], zero_sign: 0 };
    out.states_by_depth[0] = 1;
    let mut exact = 0u64;
    for d in 0..depth {
        let mut next: Vec<(Key, Path)> = vec![];
        for (node, path) in &level {
            ops_for(node.flav, len, f.nt(), &mut ops);
            for &op in &ops {
                let m = model_apply(f, node, op);
                let p2 = path.push(op);
                out.edges += 1;
                out.real_ops += p2.n as u64;
                let exec = f.exec;
                let r = pv::catch(|| exec(init.bits(), &f.fixed, p2.ops(), &mut sink));
                if let Err(msg) = r {
                    guard_violation(c, f, buf, p2.ops(), p2.n as usize, "panic", node.flav, None, Some(&m), "merged", Some(format!("panic: {msg}")));
                    continue;
                }
                if sink.err.is_some() || sink.steps.len() != p2.n as usize + 1 {
                    eprintln!("MACHINERY-FAILURE: C13 executor: {:?} / {} observations for {:?}", sink.err, sink.steps.len(), render_ops(f, p2.ops()));
                    std::process::exit(3);
                }
                // the replayed prefix must reproduce the parent state exactly (bit for bit): it
                // was validated step by step when it was explored
                let kp = d;
                if observed_key(&sink, kp) != *node {
                    let sp = sink.steps[kp];
                    let sig = format!("C13/guard-{}/replay-not-reproducible", f.kind);
                    c.violation(&sig, 1.0, || json!({"sub": "guard", "family": f.name, "kind": f.kind, "mode": "merged", "buffer": buf, "ops": render_ops(f, p2.ops()), "step": kp, "what": "replay-not-reproducible", "observed": state_json(f, sp.tag, sp.flav, sink.step_bits(kp)), "expected": state_json(f, node.tag, node.flav, node.bits())}));
                    continue;
                }
                let k = d + 1;
                let st = sink.steps[k];
                let sb = sink.step_bits(k);
                if let Some(what) = diff(&st, sb, &m, f.f64bits, &mut out.zero_sign) {
                    guard_violation(c, f, buf, p2.ops(), k, what, node.flav, Some((&st, sb)), Some(&m), "merged", None);
                    continue; // do not explore beyond a violation (no cascades)
                }
                exact += 1;
                let o = observed_key(&sink, k);
                if d + 1 < depth {
                    if !visited.contains_key(&o) {
                        visited.insert(o, (d + 1) as u8);
                        next.push((o, p2));
                        new_state(c, ctx, f, buf, &init, &o, &p2, d + 1, &mut out);
                    }
                } else if !visited.contains_key(&o) {
                    let h = key_hash(&o);
                    last_hashes.push(h);
                    if h % 4096 == 0 {
                        c.sample(h ^ ctx.seed, || json!({"sub": sub, "family": f.name, "kind": f.kind, "buffer": buf, "ops": render_ops(f, p2.ops()), "state": state_json(f, o.tag, o.flav, o.bits())}));
                    }
                }
            }
        }
        level = next;
    }
    let _ = exact;
    // states first seen at the last level (64-bit hashes; only counted, never expanded)
    last_hashes.sort_unstable();
    last_hashes.dedup();
    for h in &last_hashes {
        c.outcome(*h);
    }
    out.states_by_depth[depth] = last_hashes.len() as u64;
    if !last_hashes.is_empty() {
        out.max_depth_new_state = depth;
        // non-trivial by the stated rule: anything at depth >= 1 of a non-empty buffer
        if len > 0 {
            out.nontrivial += last_hashes.len() as u64;
        }
    }
    out.states = visited.len() as u64 + last_hashes.len() as u64;
    visited.retain(|_, d| (*d as usize) <= keep_depth);
    (out, visited)
}

fn new_state(c: &mut Collector, ctx: &Ctx, f: &Fam, buf: &[u8], init: &Key, m: &Key, p: &Path, d: usize, out: &mut TaskOut) {
    let h = key_hash(m);
    c.outcome(h);
    out.states_by_depth[d] += 1;
    out.max_depth_new_state = out.max_depth_new_state.max(d);
    if m.n > 0 && (m.flav != OWNED || m.bits != init.bits) {
        out.nontrivial += 1;
    }
    if h % 1024 == 0 {
        c.sample(h ^ ctx.seed, || json!({"sub": format!("guard-{}/merged", f.kind), "family": f.name, "kind": f.kind, "buffer": buf, "ops": render_ops(f, p.ops()), "state": state_json(f, m.tag, m.flav, m.bits())}));
    }
}

struct UOut {
    sequences: u64,
    real_ops: u64,
    steps_compared: u64,
    zero_sign: u64,
}

/// Unmerged: every sequence up to `depth`, no dedup; every sequence is executed from scratch and
/// EVERY one of its steps is compared with the model (`check_all_steps`).
fn explore_unmerged(c: &mut Collector, f: &Fam, buf: &[u8], depth: usize, set: &mut HashSet<Key, FxBuild>) -> UOut {
    let init = init_key(f, buf);
    let mut out = UOut { sequences: 0, real_ops: 0, steps_compared: 0, zero_sign: 0 };
    let mut path: Vec<Op> = vec![];
    let mut sink = Sink::default();
    set.insert(init);
    fn rec(c: &mut Collector, f: &Fam, buf: &[u8], init: &Key, last: Key, depth: usize, path: &mut Vec<Op>, sink: &mut Sink, set: &mut HashSet<Key, FxBuild>, out: &mut UOut) {
        if path.len() == depth {
            return;
        }
        let mut ops = vec![];
        ops_for(last.flav, buf.len(), f.nt(), &mut ops);
        for op in ops {
            path.push(op);
            out.sequences += 1;
            out.real_ops += path.len() as u64;
            out.steps_compared += path.len() as u64 + 1;
            if let Ok(o) = check_all_steps(c, f, buf, init, path, sink, "unmerged", false) {
                set.insert(o);
                rec(c, f, buf, init, o, depth, path, sink, set, out);
            }
            path.pop();
        }
    }
    rec(c, f, buf, &init, init, depth, &mut path, &mut sink, set, &mut out);
    out.zero_sign = sink.zero_sign;
    out
}

/// All buffers of length 0..=maxlen over the 4-colour set, shortest first.
fn all_buffers(maxlen: usize) -> Vec<Vec<u8>> {
    let mut out = vec![vec![]];
    let mut prev: Vec<Vec<u8>> = vec![vec![]];
    for _ in 0..maxlen {
        let mut next = vec![];
        for p in &prev {
            for ci in 0..4u8 {
                let mut q = p.clone();
                q.push(ci);
                next.push(q);
            }
        }
        out.extend(next.iter().cloned());
        prev = next;
    }
    out
}

fn guard_checks(ctx: &Ctx, total: &mut Collector, fams: &[Fam], depth: usize, udepth: usize, maxlen: usize) {
    // tasks: (family, buffer)
    let mut tasks: Vec<(usize, Vec<u8>)> = vec![];
    for (fi, f) in fams.iter().enumerate() {
        let sub = format!("guard-{}", f.kind);
        if !ctx.wants(&sub) {
            continue;
        }
        if f.kind == "slice" {
            for b in all_buffers(maxlen) {
                tasks.push((fi, b));
            }
        } else {
            for ci in 0..4u8 {
                tasks.push((fi, vec![ci]));
            }
        }
    }
    // big tasks first (better balance); results are merged in task order, so the outcome does
    // not depend on scheduling
    tasks.sort_by_key(|(fi, b)| (std::cmp::Reverse(b.len()), *fi));
    let outs = pv::par::map_chunks(tasks.len(), |ti| {
        let (fi, buf) = &tasks[ti];
        let f = &fams[*fi];
        let mut c = Collector::new();
        let subm = format!("guard-{}/merged", f.kind);
        let subu = format!("guard-{}/unmerged", f.kind);
        let (mo, mset) = explore_merged(&mut c, ctx, f, buf, depth, udepth, &subm);
        c.add(&subm, mo.states, mo.edges, mo.edges, mo.nontrivial);
        let mut uset: HashSet<Key, FxBuild> = HashSet::default();
        let uo = explore_unmerged(&mut c, f, buf, udepth, &mut uset);
        c.add(&subu, uset.len() as u64, uo.real_ops, uo.steps_compared, uset.iter().filter(|k| k.n > 0 && k.flav != OWNED).count() as u64);
        // differential: same set of reachable canonical states up to the unmerged depth
        // (only meaningful when neither run was cut short by a violation)
        if c.viol.is_empty() {
            let same = uset.len() == mset.len() && uset.iter().all(|k| mset.contains_key(k));
            if !same {
                eprintln!("MACHINERY-FAILURE: C13 merged and unmerged exploration disagree on the reachable states ({} vs {}) for {} {} buffer {:?}", mset.len(), uset.len(), f.name, f.kind, buf);
                std::process::exit(3);
            }
        }
        (c, mo, uo, *fi, buf.len())
    });
    // merge in simplest-first order (shortest buffer first), whatever the execution order was:
    // the first case kept per signature is then the smallest one
    let mut order: Vec<usize> = (0..tasks.len()).collect();
    order.sort_by_key(|&i| (tasks[i].1.len(), tasks[i].0, tasks[i].1.clone()));
    let mut outs: Vec<Option<_>> = outs.into_iter().map(Some).collect();
    let outs: Vec<_> = order.into_iter().map(|i| outs[i].take().unwrap()).collect();
    let mut seq_merged = 0u64;
    let mut real_ops_merged = 0u64;
    let mut seq_unmerged = 0u64;
    let mut by_depth = vec![0u64; depth + 1];
    let mut maxd = 0usize;
    let mut zero_sign = 0u64;
    let mut per_family: std::collections::BTreeMap<String, [u64; 2]> = Default::default();
    for (c, mo, uo, fi, _len) in outs {
        total.merge(c);
        seq_merged += mo.edges;
        real_ops_merged += mo.real_ops;
        seq_unmerged += uo.sequences;
        zero_sign += mo.zero_sign + uo.zero_sign;
        maxd = maxd.max(mo.max_depth_new_state);
        for (i, n) in mo.states_by_depth.iter().enumerate() {
            by_depth[i] += n;
        }
        let e = per_family.entry(format!("{}/{}", fams[fi].name, fams[fi].kind)).or_insert([0, 0]);
        e[0] += mo.states;
        e[1] += mo.edges;
    }
    let nt = fams[0].nt();
    for kind in ["slice", "single"] {
        let subm = format!("guard-{kind}/merged");
        let subu = format!("guard-{kind}/unmerged");
        if !ctx.wants(&format!("guard-{kind}")) {
            continue;
        }
        let space = if kind == "slice" { format!("every buffer of length 0..={maxlen} over the 4-colour set (1+4+16+64)") } else { "every single colour of the 4-colour set (through `FromColorMut for C` on `&mut C`)".to_string() };
        total.exhaustive(&subm, true, &format!("{space} x 5 original types x {nt} target types each; every sequence of guard operations (into_color_mut, into_color_unclamped_mut, deref, mutate(i), then_into_color_mut<C>, then_into_color_unclamped_mut<C>, into_unclamped_guard/into_clamped_guard, restore, drop, forget) up to depth {depth}, canonical states merged; each explored edge = rebuild + replay of the whole sequence on the real guards"));
        total.exhaustive(&subu, true, &format!("{space} x 5 original types: every sequence up to depth {udepth} without merging, every step compared; reachable state set equal to the merged run's"));
    }
    total.note("guard/sequences_replayed_merged", json!(seq_merged));
    total.note("guard/real_guard_operations_executed_incl_replayed_prefixes_merged", json!(real_ops_merged));
    total.note("guard/sequences_unmerged", json!(seq_unmerged));
    total.note("guard/depth", json!({"merged": depth, "unmerged": udepth, "deepest_level_with_new_states": maxd}));
    total.note("guard/new_canonical_states_by_depth", json!(by_depth));
    total.note("guard/states_and_edges_per_family", json!(per_family));
    total.note("guard/steps_equal_to_the_model_only_up_to_the_sign_of_a_zero", json!(zero_sign));
    total.note("guard/families", json!(fams.iter().filter(|f| f.kind == "slice").map(|f| json!({"U": f.name, "targets": f.types[1..]})).collect::<Vec<_>>()));
    total.note("guard/merged_vs_unmerged_reachable_sets", json!("equal for every (family, buffer)"));
}

// ---------------------------------------------------------------------------------------
// owning one-shot forms

fn owned_buffers() -> Vec<Vec<u8>> {
    // all contents for len <= 2; the four rotations of the colour set for len 3 and 4
    let mut out = all_buffers(2);
    for len in 3..=4usize {
        for r in 0..4u8 {
            out.push((0..len as u8).map(|i| (i + r) % 4).collect());
        }
    }
    out
}

fn owned_violation(c: &mut Collector, f: &Fam, cont: &str, buf: &[u8], extra: usize, ops: &[(u8, u8)], k: usize, what: &str, observed: Value, expected: Value) {
    let site = if k == 0 { "build".to_string() } else { format!("{}::{}", cont, HOW_NAMES[ops[k - 1].1 as usize]) };
    let sig = format!("C13/{}/{}/{}", cont, site, what);
    c.violation(&sig, 1.0, || {
        json!({"sub": cont, "family": f.name, "buffer": buf, "extra_capacity": extra,
               "ops": ops.iter().map(|&(t, h)| format!("{}:{}", HOW_NAMES[h as usize], f.types[t as usize])).collect::<Vec<_>>(),
               "step": k, "what": what, "observed": observed, "expected": expected})
    });
}

/// Execute one chain of owning conversions and compare every step. Returns false on violation.
fn owned_run(c: &mut Collector, f: &Fam, cont: &str, buf: &[u8], extra: usize, ops: &[(u8, u8)], sink: &mut OSink, verbose: bool) -> bool {
    let nc = f.ncomp;
    let mut init: Vec<u64> = vec![];
    for &ci in buf {
        init.extend_from_slice(&f.colours[ci as usize]);
    }
    let exec = if cont == "vec" { f.exec_vec } else { f.exec_box };
    if let Err(msg) = pv::catch(|| exec(&init, extra, ops, sink)) {
        owned_violation(c, f, cont, buf, extra, ops, ops.len(), "panic", json!({"panic": msg}), json!("no panic"));
        return false;
    }
    if sink.steps.len() != ops.len() + 1 {
        eprintln!("MACHINERY-FAILURE: C13 owned executor produced {} observations for {} ops", sink.steps.len(), ops.len());
        std::process::exit(3);
    }
    // model: the state after operation k is predicted from the state OBSERVED after k-1
    let mut tag = 0u8;
    let mut bits = init.clone();
    let s0 = sink.steps[0];
    let mut zs = 0u64;
    for k in 0..=ops.len() {
        if k > 0 {
            let (to, how) = ops[k - 1];
            let prev_tag = sink.steps[k - 1].tag;
            let prev = sink.step_bits(k - 1);
            let cf = f.conv[prev_tag as usize][to as usize][HOW_UNCL[how as usize] as usize];
            let mut nb = vec![0u64; prev.len()];
            for i in (0..prev.len()).step_by(nc) {
                cf(&prev[i..i + nc], &mut nb[i..i + nc]);
            }
            bits = nb;
            tag = to;
        }
        let st = sink.steps[k];
        let sb = sink.step_bits(k);
        if verbose {
            println!("  step {k}: type={} ptr={:#x} len={} cap={} calls={} values={:?}", f.types[st.tag as usize], st.ptr, st.len, st.cap, st.calls, floats(f, sb));
            println!("    expected: type={} ptr={:#x} len={} cap={} values={:?}", f.types[tag as usize], s0.ptr, s0.len, s0.cap, floats(f, &bits));
        }
        let what = if st.tag != tag {
            Some("type")
        } else if st.ptr != s0.ptr {
            Some("address")
        } else if st.len != s0.len || st.len != buf.len() {
            Some("length")
        } else if st.cap != s0.cap {
            Some("capacity")
        } else if !same_values(f.f64bits, sb, &bits, &mut zs) {
            Some("values")
        } else if k > 0 && ops[k - 1].1 == 3 && st.calls != buf.len() {
            Some("closure-calls")
        } else {
            None
        };
        if let Some(what) = what {
            owned_violation(
                c, f, cont, buf, extra, ops, k, what,
                json!({"type": f.types[st.tag as usize], "address": if st.ptr == s0.ptr { "the initial allocation" } else if st.ptr <= 64 { "a different one (dangling)" } else { "a different allocation" }, "len": st.len, "capacity": st.cap, "closure_calls": st.calls, "bits": hexbits(f, sb), "values": floats(f, sb)}),
                json!({"type": f.types[tag as usize], "address": "the initial allocation", "len": s0.len, "capacity": s0.cap, "bits": hexbits(f, &bits), "values": floats(f, &bits)}),
            );
            return false;
        }
    }
    true
}

fn owned_checks(ctx: &Ctx, total: &mut Collector, fams: &[Fam], chain: usize) {
    let bufs = owned_buffers();
    let fam_idx: Vec<usize> = fams.iter().enumerate().filter(|(_, f)| f.kind == "slice").map(|(i, _)| i).collect();
    for cont in ["vec", "box"] {
        if !ctx.wants(cont) {
            continue;
        }
        // tasks: (family, buffer, extra capacity)
        let mut tasks = vec![];
        for &fi in &fam_idx {
            for b in &bufs {
                for extra in 0..(if cont == "vec" { 4 } else { 1 }) {
                    tasks.push((fi, b.clone(), extra));
                }
            }
        }
        let seq_total = std::sync::atomic::AtomicU64::new(0);
        let c = pv::par::run_chunks(tasks.len(), |ti, c| {
            let (fi, buf, extra) = &tasks[ti];
            let f = &fams[*fi];
            let ntypes = f.types.len() as u8;
            let mut alphabet = vec![];
            for how in 0..4u8 {
                for to in 0..ntypes {
                    alphabet.push((to, how));
                }
            }
            let mut sink = OSink::default();
            let mut seqs = 0u64;
            let mut opsn = 0u64;
            let mut steps = 0u64;
            let mut shapes: HashSet<(usize, usize)> = HashSet::new();
            let mut seen: HashSet<u64, FxBuild> = HashSet::default();
            // every chain of length 1..=chain (odometer over the alphabet)
            for l in 1..=chain {
                let mut idx = vec![0usize; l];
                'odo: loop {
                    let ops: Vec<(u8, u8)> = idx.iter().map(|&i| alphabet[i]).collect();
                    seqs += 1;
                    opsn += l as u64;
                    steps += l as u64 + 1;
                    owned_run(c, f, cont, buf, *extra, &ops, &mut sink, false);
                    if let Some(s0) = sink.steps.first() {
                        shapes.insert((s0.len, s0.cap));
                    }
                    if let Some(last) = sink.steps.last() {
                        let h = pv::fnv(&[last.tag]) ^ sink.step_bits(sink.steps.len() - 1).iter().fold(0u64, |a, &b| pv::splitmix(a ^ b));
                        if seen.insert(h) {
                            c.outcome(h);
                        }
                        if h % 8192 == 0 {
                            c.sample(h ^ ctx.seed, || json!({"sub": cont, "family": f.name, "buffer": buf, "extra_capacity": extra, "real_capacity": sink.steps[0].cap, "ops": ops.iter().map(|&(t, h)| format!("{}:{}", HOW_NAMES[h as usize], f.types[t as usize])).collect::<Vec<_>>(), "result": floats(f, sink.step_bits(sink.steps.len() - 1))}));
                        }
                    }
                    let mut p = l;
                    loop {
                        if p == 0 {
                            break 'odo;
                        }
                        p -= 1;
                        idx[p] += 1;
                        if idx[p] < alphabet.len() {
                            break;
                        }
                        idx[p] = 0;
                    }
                }
            }
            // states = distinct (element type, contents) reached from this (contents, shape), plus
            // the initial one; non-trivial = non-empty containers
            c.add(cont, seen.len() as u64 + 1, opsn, steps, if buf.is_empty() { 0 } else { seen.len() as u64 });
            seq_total.fetch_add(seqs, std::sync::atomic::Ordering::Relaxed);
            for (l, cp) in shapes {
                c.note(&format!("{cont}/shape/len{l}-cap{cp}"), json!(true));
            }
        });
        total.merge(c);
        total.note(&format!("{cont}/chains_executed"), json!(seq_total.load(std::sync::atomic::Ordering::Relaxed)));
        total.exhaustive(cont, true, &format!(
            "5 original types x 29 contents (all for len<=2, the 4 rotations of the colour set for len 3 and 4){} x every chain of 1..={chain} operations from {{from_color, from_color_unclamped, into_color, {}}} x 6 target types (U, its 5 targets; incl. the current type); pointer, length{} and every element compared after every operation",
            if cont == "vec" { " x capacity len..=len+3 (read back from the real Vec)" } else { "" },
            if cont == "vec" { "cast::map_vec_in_place" } else { "cast::map_slice_box_in_place" },
            if cont == "vec" { ", capacity" } else { "" }
        ));
    }
}


// ---------------------------------------------------------------------------------------
// Miri oracle (thorough tier): the same executor, a smaller bound, run under
// `cargo +nightly miri run` (several processes in parallel, one slice of the work each); only
// memory safety / aliasing is the question there, so the enumeration is by typestate (all
// sequences, unmerged) and the flags (address, length, neighbours, restore's return value,
// typestate) are checked, not the values.

const MIRI_MAXLEN: usize = 2;
/// (number of target types, depth): the union of both spaces is enumerated
const MIRI_CONFIGS: [(usize, usize); 2] = [(1, 4), (2, 3)];
const MIRI_OCHAIN: usize = 2;
const MIRI_OTARGETS: usize = 1;
/// one family per element layout ([f32; 3], [f32; 4], [f64; 3]): the guard and cast code is
/// generic, only size and alignment differ between the families
const MIRI_FAMILIES: [&str; 3] = ["Srgb<f32>", "Srgba<f32>", "Srgb<f64>"];

static QUIET: std::sync::atomic::AtomicBool = std::sync::atomic::AtomicBool::new(false);

fn miri_buffers(f: &Fam, maxlen: usize) -> Vec<Vec<u8>> {
    if f.kind == "slice" {
        (0..=maxlen).map(|l| (0..l).map(|i| [2u8, 0, 1, 3][i % 4]).collect()).collect()
    } else {
        vec![vec![2]]
    }
}

fn miri_case(f: &Fam, buf: &[u8], ops: &[Op], sink: &mut Sink) -> Result<(), String> {
    let init = init_key(f, buf);
    (f.exec)(init.bits(), &f.fixed, ops, sink);
    if sink.err.is_some() || sink.steps.len() != ops.len() + 1 {
        return Err(format!("executor: {:?}, {} observations", sink.err, sink.steps.len()));
    }
    for (k, st) in sink.steps.iter().enumerate() {
        if !(st.addr_ok && st.len_ok && st.sent_ok && st.ret_ok) {
            return Err(format!("step {k}: {st:?}"));
        }
    }
    Ok(())
}

/// Compact case line (formatting through serde/fmt costs 0.2 s per line under Miri):
/// `CASE g <family index> <buffer digits>- <op tokens>` / `CASE v|b <family index> <buffer>- <extra> <to><how>..`
fn case_line_guard(fi: usize, buf: &[u8], ops: &[Op]) -> Vec<u8> {
    let mut l: Vec<u8> = b"CASE g ".to_vec();
    l.push(b'0' + fi as u8 / 10);
    l.push(b'0' + fi as u8 % 10);
    l.push(b' ');
    for &b in buf {
        l.push(b'0' + b);
    }
    l.push(b'-');
    for &op in ops {
        l.push(b' ');
        let fl = |u: bool| if u { b'u' } else { b'c' };
        match op {
            Op::Start(t, u) => l.extend_from_slice(&[b'S', b'0' + t, fl(u)]),
            Op::Deref => l.push(b'D'),
            Op::Mutate(i) => l.extend_from_slice(&[b'M', b'0' + i]),
            Op::Then(t, u) => l.extend_from_slice(&[b'T', b'0' + t, fl(u)]),
            Op::Switch => l.push(b'W'),
            Op::Restore => l.push(b'R'),
            Op::Drop => l.push(b'X'),
            Op::Forget => l.push(b'F'),
        }
    }
    l.push(b'\n');
    l
}
fn parse_case_line(fams: &[Fam], line: &str) -> Option<Value> {
    let mut it = line.strip_prefix("CASE ")?.split(' ');
    let which = it.next()?;
    let fi: usize = it.next()?.parse().ok()?;
    let f = fams.get(fi)?;
    let buf: Vec<u8> = it.next()?.trim_end_matches('-').bytes().map(|b| b - b'0').collect();
    if which == "g" {
        let mut ops = vec![];
        for t in it {
            let b = t.as_bytes();
            ops.push(match b[0] {
                b'S' => Op::Start(b[1] - b'0', b[2] == b'u'),
                b'D' => Op::Deref,
                b'M' => Op::Mutate(b[1] - b'0'),
                b'T' => Op::Then(b[1] - b'0', b[2] == b'u'),
                b'W' => Op::Switch,
                b'R' => Op::Restore,
                b'X' => Op::Drop,
                b'F' => Op::Forget,
                _ => return None,
            });
        }
        Some(json!({"sub": "guard", "miri": true, "family": f.name, "kind": f.kind, "buffer": buf, "ops": render_ops(f, &ops)}))
    } else {
        let extra: usize = it.next()?.parse().ok()?;
        let ops: Vec<String> = it.map(|t| { let b = t.as_bytes(); format!("{}:{}", HOW_NAMES[(b[1] - b'0') as usize], f.types[(b[0] - b'0') as usize]) }).collect();
        Some(json!({"sub": if which == "v" { "vec" } else { "box" }, "miri": true, "family": f.name, "buffer": buf, "extra_capacity": extra, "ops": ops}))
    }
}

/// `c13 miri-inner <job> <njobs>`: the part `job` of the Miri enumeration; prints the case
/// before running it, so that the last line names the case in which Miri aborted.
fn miri_inner(args: &[String]) -> i32 {
    use std::io::Write;
    let num = |i: usize, d: usize| args.get(i).and_then(|s| s.parse::<usize>().ok()).unwrap_or(d);
    let (job, njobs) = (num(0, 0), num(1, 1).max(1));
    let (maxlen, ochain, ntargets) = (MIRI_MAXLEN, MIRI_OCHAIN, MIRI_OTARGETS);
    QUIET.store(num(2, 0) == 1, std::sync::atomic::Ordering::Relaxed);
    let fams = families();
    let mut seqs = 0u64;
    let mut opsn = 0u64;
    let mut sink = Sink::default();
    let mut unit = 0usize;
    let out = std::io::stdout();
    // guard units: (family, buffer), the expensive ones (longest buffers) first
    let mut units: Vec<(usize, Vec<u8>, usize, usize)> = vec![];
    for (fi, f) in fams.iter().enumerate().filter(|(_, f)| MIRI_FAMILIES.contains(&f.name)) {
        for buf in miri_buffers(f, maxlen) {
            for (nt, depth) in MIRI_CONFIGS {
                units.push((fi, buf.clone(), nt, depth));
            }
        }
    }
    units.sort_by_key(|(fi, b, _, d)| (std::cmp::Reverse(*d), std::cmp::Reverse(b.len()), *fi));
    // snake order over the jobs: units are sorted by cost, so the loads are about equal
    let owner = |unit: usize| -> usize {
        let (r, p) = (unit / njobs, unit % njobs);
        if r % 2 == 0 { p } else { njobs - 1 - p }
    };
    for (fi, buf, ntargets, depth) in &units {
        let (ntargets, depth) = (*ntargets, *depth);
        unit += 1;
        if owner(unit - 1) != job {
            continue;
        }
        let f = &fams[*fi];
        fn rec(out: &std::io::Stdout, fi: usize, f: &Fam, buf: &[u8], flav: u8, nt: u8, depth: usize, path: &mut Vec<Op>, sink: &mut Sink, seqs: &mut u64, opsn: &mut u64) -> Result<(), String> {
            if path.len() == depth {
                return Ok(());
            }
            let mut ops = vec![];
            ops_for(flav, buf.len(), nt, &mut ops);
            for op in ops {
                path.push(op);
                if !QUIET.load(std::sync::atomic::Ordering::Relaxed) {
                    let _ = out.lock().write_all(&case_line_guard(fi, buf, path));
                }
                miri_case(f, buf, path, sink)?;
                *seqs += 1;
                *opsn += path.len() as u64;
                let st = sink.steps.last().unwrap();
                rec(out, fi, f, buf, st.flav, nt, depth, path, sink, seqs, opsn)?;
                path.pop();
            }
            Ok(())
        }
        let mut path = vec![];
        if let Err(e) = rec(&out, *fi, f, buf, OWNED, (ntargets as u8).min(f.nt()), depth, &mut path, &mut sink, &mut seqs, &mut opsn) {
            println!("MIRI-INNER-MISMATCH {e}");
            return 1;
        }
    }
    // owning forms: every shape len 0..=maxlen x extra capacity 0..=1, chains up to `ochain`
    let mut osink = OSink::default();
    let mut oseqs = 0u64;
    for (fi, f) in fams.iter().enumerate().filter(|(_, f)| f.kind == "slice" && MIRI_FAMILIES.contains(&f.name)) {
        let mut alphabet = vec![];
        for how in 0..4u8 {
            for to in 0..=(ntargets as u8).min(f.nt()) {
                alphabet.push((to, how));
            }
        }
        for cont in ["vec", "box"] {
            unit += 1;
            if owner(unit - 1) != job {
                continue;
            }
            for buf in miri_buffers(f, maxlen) {
                for extra in 0..(if cont == "vec" { 2 } else { 1 }) {
                    for l in 1..=ochain {
                        let total = alphabet.len().pow(l as u32);
                        for mut n in 0..total {
                            let mut ops = vec![];
                            for _ in 0..l {
                                ops.push(alphabet[n % alphabet.len()]);
                                n /= alphabet.len();
                            }
                            let mut line: Vec<u8> = vec![b'C', b'A', b'S', b'E', b' ', if cont == "vec" { b'v' } else { b'b' }, b' ', b'0' + fi as u8 / 10, b'0' + fi as u8 % 10, b' '];
                            for &b in &buf {
                                line.push(b'0' + b);
                            }
                            line.extend_from_slice(&[b'-', b' ', b'0' + extra as u8]);
                            for &(t, h) in &ops {
                                line.extend_from_slice(&[b' ', b'0' + t, b'0' + h]);
                            }
                            line.push(b'\n');
                            let _ = out.lock().write_all(&line);
                            let mut init: Vec<u64> = vec![];
                            for &ci in &buf {
                                init.extend_from_slice(&f.colours[ci as usize]);
                            }
                            (if cont == "vec" { f.exec_vec } else { f.exec_box })(&init, extra, &ops, &mut osink);
                            let s0 = osink.steps[0];
                            if osink.steps.iter().any(|s| s.ptr != s0.ptr || s.len != s0.len || s.cap != s0.cap) {
                                println!("MIRI-INNER-MISMATCH raw parts changed: {:?}", osink.steps);
                                return 1;
                            }
                            oseqs += 1;
                            opsn += l as u64;
                        }
                    }
                }
            }
        }
    }
    println!("MIRI-INNER-OK guard_sequences={seqs} owned_chains={oseqs} ops={opsn}");
    0
}

/// `c13 miri-case <json>`: one case under Miri, for replays.
fn miri_single(arg: &str) -> i32 {
    let Some(mut case) = pv_json(arg) else { return 3 };
    case["miri"] = json!(false);
    let fams = families();
    let mut c = Collector::new();
    replay(&mut c, &json!({"case": case}), &fams);
    if c.viol.is_empty() {
        println!("MIRI-INNER-OK single case");
        0
    } else {
        1
    }
}

fn pv_json(s: &str) -> Option<Value> {
    s.parse::<Value>().ok()
}

fn run_miri(root: &std::path::Path, args: &[String]) -> Result<(bool, String, String), String> {
    use std::process::{Command, Stdio};
    let mut cmd = Command::new("cargo");
    cmd.args(["+nightly", "miri", "run", "--offline", "-q", "-p", "c13", "--"]).args(args);
    cmd.current_dir(root.join("harness")).env_remove("RUSTUP_TOOLCHAIN").env_remove("RUSTFLAGS").env("MIRIFLAGS", "");
    cmd.stdin(Stdio::null()).stdout(Stdio::piped()).stderr(Stdio::piped());
    let out = cmd.output().map_err(|e| format!("cannot start cargo miri: {e}"))?;
    Ok((out.status.success(), String::from_utf8_lossy(&out.stdout).into_owned(), String::from_utf8_lossy(&out.stderr).into_owned()))
}

fn scrub(s: &str) -> String {
    // remove allocation ids, tags and addresses so that one defect gives one signature
    let mut out = String::new();
    let mut it = s.chars().peekable();
    while let Some(ch) = it.next() {
        if ch.is_ascii_digit() {
            while it.peek().map_or(false, |c| c.is_ascii_alphanumeric()) {
                it.next();
            }
            out.push('#');
        } else {
            out.push(ch);
        }
    }
    out.chars().take(160).collect()
}

/// Turn a failed Miri process into a violation. Returns false if Miri itself could not be run.
fn miri_report(c: &mut Collector, fams: &[Fam], stdout: &str, stderr: &str) -> bool {
    let last_case = stdout.lines().rev().find(|l| l.starts_with("CASE ")).and_then(|l| parse_case_line(fams, l));
    let ub = stderr.lines().find(|l| l.starts_with("error")).unwrap_or("");
    let mism = stdout.lines().find(|l| l.starts_with("MIRI-INNER-MISMATCH"));
    match (last_case, ub.is_empty() && mism.is_none()) {
        (Some(mut case), false) => {
            let kind = case["sub"].as_str().unwrap_or("?").to_string();
            let fam = case["family"].as_str().unwrap_or("?").to_string();
            let what = if mism.is_some() { "flags".to_string() } else { scrub(ub.trim_start_matches("error: ")).chars().take(100).collect() };
            case["observed"] = json!({"miri": ub, "mismatch": mism, "stderr_tail": stderr.lines().rev().take(25).collect::<Vec<_>>().into_iter().rev().collect::<Vec<_>>()});
            case["expected"] = json!("no undefined behaviour, same address/length, neighbours untouched");
            let _ = fam;
            c.violation(&format!("C13/miri/{kind}/{what}"), 1.0, || case);
            true
        }
        _ => false,
    }
}

fn miri_check(ctx: &Ctx, total: &mut Collector, fams: &[Fam]) {
    if ctx.tier != Tier::Thorough || !ctx.wants("miri") {
        return;
    }
    if std::env::var("C13_NO_MIRI").is_ok() {
        total.warn("miri: skipped because C13_NO_MIRI is set".to_string());
        return;
    }
    let njobs = pv::par::threads().clamp(1, 15);
    // the first job builds the Miri artefacts; the others wait on cargo's lock, then run in parallel
    let outs = pv::par::map_chunks(njobs, |job| run_miri(&ctx.root, &["miri-inner".to_string(), job.to_string(), njobs.to_string()]));
    let mut c = Collector::new();
    let (mut cases, mut opsn, mut ok_jobs) = (0u64, 0u64, 0usize);
    // report failing jobs simplest case first (shortest buffer, then fewest operations)
    let mut outs = outs;
    outs.sort_by_key(|o| match o {
        Ok((false, stdout, _)) => stdout.lines().rev().find(|l| l.starts_with("CASE ")).and_then(|l| parse_case_line(fams, l)).map(|c| (c["buffer"].as_array().map_or(0, |a| a.len()), c["ops"].as_array().map_or(0, |a| a.len()))).unwrap_or((0, 0)),
        _ => (0, 0),
    });
    for o in outs {
        match o {
            Err(e) => {
                total.warn(format!("miri: not run ({e})"));
                return;
            }
            Ok((ok, stdout, stderr)) => {
                if !ok && !miri_report(&mut c, fams, &stdout, &stderr) {
                    total.warn(format!("miri: could not be run: {}", stderr.lines().rev().take(6).collect::<Vec<_>>().join(" | ")));
                    return;
                }
                cases += stdout.lines().filter(|l| l.starts_with("CASE ")).count() as u64;
                if let Some(l) = stdout.lines().find(|l| l.starts_with("MIRI-INNER-OK")) {
                    opsn += l.split("ops=").nth(1).and_then(|s| s.trim().parse::<u64>().ok()).unwrap_or(0);
                    ok_jobs += 1;
                }
            }
        }
    }
    c.note("miri/jobs", json!({"jobs": njobs, "completed_without_error": ok_jobs, "cases": cases, "operations": opsn}));
    c.add("miri", cases, opsn.max(cases), cases, cases);
    c.exhaustive("miri", ok_jobs == njobs, &format!("under Miri (Stacked Borrows, default flags): 3 original types (one per element layout: Srgb<f32>, Srgba<f32>, Srgb<f64>) x {{slice of length 0..={MIRI_MAXLEN}; single value}} x ALL guard operation sequences (by typestate, unmerged) up to depth 4 with the first target type and up to depth 3 with the first two target types, and Vec / Box<[T]> owning chains up to {MIRI_OCHAIN} over 2 element types x 4 spellings and every shape len 0..={MIRI_MAXLEN} x extra capacity 0..=1; flags (address, length, neighbours, restore's reference) checked, any undefined behaviour aborts the job and is reported with the case being executed"));
    total.merge(c);
}

// ---------------------------------------------------------------------------------------
// replay

fn replay(c: &mut Collector, rep: &Value, fams: &[Fam]) {
    let case = &rep["case"];
    let sub = case["sub"].as_str().unwrap_or("");
    let fname = case["family"].as_str().unwrap_or("");
    let buf: Vec<u8> = case["buffer"].as_array().map(|a| a.iter().map(|v| v.as_u64().unwrap_or(0) as u8).collect()).unwrap_or_default();
    let ops_s: Vec<String> = case["ops"].as_array().map(|a| a.iter().map(|v| v.as_str().unwrap_or("").to_string()).collect()).unwrap_or_default();
    if case["miri"] == json!(true) {
        // re-run this one case under Miri
        let mut small = case.clone();
        if let Some(o) = small.as_object_mut() {
            o.remove("observed");
            o.remove("expected");
        }
        let arg = small.to_string();
        let root = std::path::PathBuf::from(std::env::var("VERIF_ROOT").unwrap_or_else(|_| "/verif".into()));
        match run_miri(&root, &["miri-case".to_string(), arg]) {
            Err(e) => {
                eprintln!("replay: {e}");
                std::process::exit(3)
            }
            Ok((ok, stdout, stderr)) => {
                println!("{}", stdout.lines().rev().take(12).collect::<Vec<_>>().into_iter().rev().collect::<Vec<_>>().join("\n"));
                if !ok {
                    println!("{}", stderr.lines().rev().take(30).collect::<Vec<_>>().into_iter().rev().collect::<Vec<_>>().join("\n"));
                    let sig = rep["signature"].as_str().unwrap_or("C13/miri").to_string();
                    c.violation(&sig, 1.0, || case.clone());
                }
            }
        }
        return;
    }
    match sub {
        "guard" => {
            let kind = case["kind"].as_str().unwrap_or("slice");
            let Some(f) = fams.iter().find(|f| f.name == fname && f.kind == kind) else {
                eprintln!("replay: unknown family {fname}/{kind}");
                std::process::exit(3)
            };
            let ops: Vec<Op> = ops_s
                .iter()
                .map(|s| {
                    parse_op(f, s).unwrap_or_else(|| {
                        eprintln!("replay: bad op {s}");
                        std::process::exit(3)
                    })
                })
                .collect();
            let init = init_key(f, &buf);
            // applicability of every operation (typestate only; the values do not matter)
            let mut flav = OWNED;
            for &op in &ops {
                let applicable = match op {
                    Op::Start(..) => flav == OWNED,
                    Op::Mutate(i) => flav != OWNED && (i as usize) < buf.len(),
                    _ => flav != OWNED,
                };
                if !applicable {
                    eprintln!("replay: op {op:?} not applicable in state {}", flav_name(flav));
                    std::process::exit(3);
                }
                flav = match op {
                    Op::Start(_, u) | Op::Then(_, u) => if u { UNCLAMPED } else { CLAMPED },
                    Op::Switch => if flav == CLAMPED { UNCLAMPED } else { CLAMPED },
                    Op::Restore | Op::Drop | Op::Forget => OWNED,
                    _ => flav,
                };
            }
            println!("replaying {} {} buffer {:?} ops {:?}", f.name, f.kind, buf, render_ops(f, &ops));
            let mut sink = Sink::default();
            let _ = check_all_steps(c, f, &buf, &init, &ops, &mut sink, "replay", true);
        }
        "vec" | "box" => {
            let Some(f) = fams.iter().find(|f| f.name == fname && f.kind == "slice") else {
                eprintln!("replay: unknown family {fname}");
                std::process::exit(3)
            };
            let extra = case["extra_capacity"].as_u64().unwrap_or(0) as usize;
            let ops: Vec<(u8, u8)> = ops_s
                .iter()
                .map(|s| {
                    let (h, t) = s.split_once(':').unwrap_or((s, ""));
                    let how = HOW_NAMES.iter().position(|n| *n == h);
                    let to = f.types.iter().position(|n| *n == t);
                    match (to, how) {
                        (Some(t), Some(h)) => (t as u8, h as u8),
                        _ => {
                            eprintln!("replay: bad op {s}");
                            std::process::exit(3)
                        }
                    }
                })
                .collect();
            println!("replaying {} {} buffer {:?} extra capacity {} ops {:?}", f.name, sub, buf, extra, ops_s);
            let mut sink = OSink::default();
            owned_run(c, f, sub, &buf, extra, &ops, &mut sink, true);
        }
        other => {
            eprintln!("replay: unknown sub-check {other}");
            std::process::exit(3);
        }
    }
}

// ---------------------------------------------------------------------------------------

/// Self-test of the machinery on hand-checked facts (a wrong executor/model is a machinery failure).
fn selftest(fams: &[Fam]) {
    let f = &fams[0]; // Srgb<f32> slice
    let fail = |m: String| -> ! {
        eprintln!("MACHINERY-FAILURE: C13 self-test: {m}");
        std::process::exit(3)
    };
    // the executor yields one observation for the initial buffer and one per operation, with
    // the typestates the operations imply (nothing here depends on the values the subject
    // computes: a defect of the subject must surface as a VIOLATION, not as a self-test failure)
    let red = mkbits(false, &[1.0, 0.0, 0.0]);
    let mut sink = Sink::default();
    let hsv = f.types.iter().position(|t| *t == "Hsv").unwrap() as u8;
    (f.exec)(&red, &f.fixed, &[Op::Start(hsv, false), Op::Deref, Op::Switch, Op::Drop], &mut sink);
    let ts: Vec<(u8, u8)> = sink.steps.iter().map(|s| (s.tag, s.flav)).collect();
    if ts != vec![(0, OWNED), (hsv, CLAMPED), (hsv, CLAMPED), (hsv, UNCLAMPED), (0, OWNED)] {
        fail(format!("executor typestates {ts:?}"));
    }
    if sink.step_bits(0) != &red[..] {
        fail(format!("initial buffer read back as {:?}", floats(f, sink.step_bits(0))));
    }
    // red -> Hsv is (0, 1, 1) and back (hand-checked), in the reference model
    let want_hsv = mkbits(false, &[0.0, 1.0, 1.0]);
    // the model agrees with this hand-checked trace
    let mut k = Key { tag: 0, flav: OWNED, n: 3, bits: [0; MAXB] };
    k.bits[..3].copy_from_slice(&red);
    let k1 = model_apply(f, &k, Op::Start(hsv, false));
    if k1.bits() != &want_hsv[..] || model_apply(f, &k1, Op::Drop).bits() != &red[..] {
        fail("model disagrees with red -> Hsv -> red".into());
    }
    // clamped and unclamped restore differ on an out-of-range mutation (the model separates them)
    let a = model_apply(f, &model_apply(f, &k1, Op::Mutate(0)), Op::Drop);
    let b = model_apply(f, &model_apply(f, &model_apply(f, &k1, Op::Switch), Op::Mutate(0)), Op::Drop);
    if a.bits() == b.bits() {
        fail("clamped and unclamped restore of an out-of-range colour do not differ in the model".into());
    }
}

fn main() {
    pv::main_guard(real_main)
}

fn real_main() -> i32 {
    let args: Vec<String> = std::env::args().skip(1).collect();
    if args.first().map(|s| s.as_str()) == Some("miri-inner") {
        return miri_inner(&args[1..]);
    }
    if args.first().map(|s| s.as_str()) == Some("miri-case") {
        return miri_single(args.get(1).map(|s| s.as_str()).unwrap_or(""));
    }
    let (ctx, mode) = Ctx::from_args("C13");
    let fams = families();
    selftest(&fams);
    if let Mode::Replay(rep) = mode {
        let mut c = Collector::new();
        replay(&mut c, &rep, &fams);
        return ctx.finish_replay(c);
    }
    let depth = ctx.tier.pick(5, 6);
    let udepth = ctx.tier.pick(3, 4);
    let chain = ctx.tier.pick(3, 4);
    let mut total = Collector::new();
    guard_checks(&ctx, &mut total, &fams, depth, udepth, 3);
    owned_checks(&ctx, &mut total, &fams, chain);
    miri_check(&ctx, &mut total, &fams);
    ctx.finish(
        total,
        "model_checking",
        "guard-*: a state is a canonical (typestate, buffer bit pattern) pair = (Owned | clamping guard over T | unclamped guard over T, contents); enumerated breadth first over ALL operation sequences to the stated depth from every initial buffer, each edge executed by rebuilding the buffer and replaying the whole sequence on the real palette guards and compared with a reference model built from the ordinary out-of-place conversions; vec/box: a state is (shape, contents, chain of owning conversions). Non-trivial = non-empty buffer and (a guard is alive or the contents differ from the initial buffer), resp. non-empty container",
        &[
            "the ordinary out-of-place conversions (T::from_color / T::from_color_unclamped) are the oracle here; their own correctness is C01-C03's subject",
            "merging is sound because the guards are repr(transparent) wrappers of Option<&mut T>: (guard type, buffer contents) determines every future; cross-checked by the unmerged run (equal reachable state sets)",
            "values are compared bit for bit, all NaNs being identified",
            "a clamping guard (FromColorMutGuard) restores with U::from_color, an unclamped guard with U::from_color_unclamped, as their documentation says; the property only fixes 'one step back from the current contents'",
        ],
    )
}
