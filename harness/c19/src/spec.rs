//! Runtime descriptions of every colour type with sampling support: how to draw from `Standard`,
//! how to build `Uniform::new / new_inclusive` between two colours, the bounds the type's own
//! accessors state, and the geometric shape the property attributes to the space.
use crate::rng::ScriptRng;
use palette::cast::ArrayCast;
use palette::{Alpha, IsWithinBounds};
use pv::fl::Fl;
use rand::distributions::uniform::SampleUniform;
use rand::distributions::{Distribution, Standard, Uniform};

pub type A4<T> = [T; 4];
pub type Sampler<T> = Box<dyn Fn(&mut ScriptRng) -> A4<T>>;

#[derive(Clone, Debug)]
pub struct Comp<T> {
    pub name: &'static str,
    pub hue: bool,
    /// bounds stated by the type's min_*/max_* accessors (None = unbounded on that side)
    pub bmin: Option<T>,
    pub bmax: Option<T>,
    /// the range the end-point lattice of the Uniform sub-check is laid over
    pub range: (f64, f64),
}

#[derive(Clone, Copy, PartialEq, Debug)]
pub enum Shape {
    /// every component is drawn directly from a component sampler
    Cartesian,
    /// hue + directly drawn height + radius drawn as sqrt of a uniform square
    Cylinder { height: usize, radius: usize },
    /// HSV-like cone: radius ∝ s·v, height v
    Cone { s: usize, v: usize },
    /// HSL-like bicone: radius ∝ s·(1−|2l−1|), height l; components scaled by `scale`
    Bicone { s: usize, l: usize, scale: f64 },
    /// HWB form of a cone: whiteness, blackness; judged through its equivalent HSV
    HwbCone { w: usize, b: usize },
    /// a bare hue type
    Hue,
}

pub struct Spec<T: Fl> {
    pub name: String,
    pub n: usize,
    pub shape: Shape,
    pub comps: Vec<Comp<T>>,
    /// name of the hue type whose Uniform sampler serves this colour (signature key for arc findings)
    pub hue_ty: Option<&'static str>,
    pub alpha: bool,
    /// the property's volume claim names this space (HSV, HSL, HWB and their Ok counterparts)
    pub volume: bool,
    pub std: Box<dyn Fn(&mut ScriptRng) -> A4<T> + Sync + Send>,
    pub uni: Box<dyn Fn(&A4<T>, &A4<T>, bool) -> Sampler<T> + Sync + Send>,
    pub within: Box<dyn Fn(&A4<T>) -> bool + Sync + Send>,
    /// HWB forms: the equivalent HSV colour (palette's own conversion), [hue, saturation, value, alpha]
    pub to_hsv: Option<fn(&A4<T>) -> A4<T>>,
}

impl<T: Fl> Spec<T> {
    pub fn hue_index(&self) -> Option<usize> {
        self.comps.iter().position(|c| c.hue)
    }
}

fn to4<T: Fl, const N: usize>(a: [T; N]) -> A4<T> {
    let mut o = [T::from64(0.0); 4];
    o[..N].copy_from_slice(&a);
    o
}
fn from4<T: Fl, const N: usize>(a: &A4<T>) -> [T; N] {
    let mut o = [T::from64(0.0); N];
    o.copy_from_slice(&a[..N]);
    o
}

pub struct Meta<T> {
    pub name: &'static str,
    pub shape: Shape,
    pub comps: Vec<Comp<T>>,
    pub hue_ty: Option<&'static str>,
    pub volume: bool,
    pub to_hsv: Option<fn(&A4<T>) -> A4<T>>,
}

pub fn mk<C, T, const N: usize>(m: &Meta<T>) -> Spec<T>
where
    T: Fl + SampleUniform,
    C: ArrayCast<Array = [T; N]> + Copy + SampleUniform + IsWithinBounds<Mask = bool> + 'static,
    Standard: Distribution<C>,
    C::Sampler: 'static,
{
    Spec {
        name: m.name.to_string(),
        n: N,
        shape: m.shape,
        comps: m.comps.clone(),
        hue_ty: m.hue_ty,
        alpha: false,
        volume: m.volume,
        std: Box::new(|rng| {
            let c: C = Standard.sample(rng);
            to4(palette::cast::into_array(c))
        }),
        uni: Box::new(|lo, hi, inclusive| {
            let (lo, hi): (C, C) = (palette::cast::from_array(from4::<T, N>(lo)), palette::cast::from_array(from4::<T, N>(hi)));
            let s = if inclusive { Uniform::<C>::new_inclusive(lo, hi) } else { Uniform::<C>::new(lo, hi) };
            Box::new(move |rng| to4(palette::cast::into_array(s.sample(rng))))
        }),
        within: Box::new(|v| {
            let c: C = palette::cast::from_array(from4::<T, N>(v));
            c.is_within_bounds()
        }),
        to_hsv: m.to_hsv,
    }
}

/// `Alpha<C, T>`: the colour's components followed by alpha. `is_within_bounds` is composed here
/// from the colour's own answer and alpha ∈ [0, 1] (the accessor bounds of alpha).
pub fn mk_alpha<C, T, const N: usize, const M: usize>(m: &Meta<T>) -> Spec<T>
where
    T: Fl + SampleUniform + palette::stimulus::Stimulus,
    C: ArrayCast<Array = [T; N]> + Copy + SampleUniform + IsWithinBounds<Mask = bool> + 'static,
    Alpha<C, T>: ArrayCast<Array = [T; M]> + Copy,
    Standard: Distribution<C> + Distribution<T>,
    C::Sampler: 'static,
    T::Sampler: 'static,
{
    let mut comps = m.comps.clone();
    comps.push(Comp { name: "alpha", hue: false, bmin: Some(T::from64(0.0)), bmax: Some(T::from64(1.0)), range: (0.0, 1.0) });
    Spec {
        name: format!("Alpha<{}>", m.name),
        n: M,
        shape: m.shape,
        comps,
        hue_ty: m.hue_ty,
        alpha: true,
        volume: false,
        std: Box::new(|rng| {
            let c: Alpha<C, T> = Standard.sample(rng);
            to4(palette::cast::into_array(c))
        }),
        uni: Box::new(|lo, hi, inclusive| {
            let (lo, hi): (Alpha<C, T>, Alpha<C, T>) = (palette::cast::from_array(from4::<T, M>(lo)), palette::cast::from_array(from4::<T, M>(hi)));
            let s = if inclusive { Uniform::<Alpha<C, T>>::new_inclusive(lo, hi) } else { Uniform::<Alpha<C, T>>::new(lo, hi) };
            Box::new(move |rng| to4(palette::cast::into_array(s.sample(rng))))
        }),
        within: Box::new(|v| {
            let c: C = palette::cast::from_array(from4::<T, N>(v));
            let a = v[N].to64();
            c.is_within_bounds() && a >= 0.0 && a <= 1.0
        }),
        to_hsv: m.to_hsv,
    }
}

pub fn mk_hue<H, T>(name: &'static str, from: fn(T) -> H, into: fn(H) -> T) -> Spec<T>
where
    T: Fl + SampleUniform,
    H: Copy + SampleUniform + 'static,
    Standard: Distribution<H>,
    H::Sampler: 'static,
{
    Spec {
        name: name.to_string(),
        n: 1,
        shape: Shape::Hue,
        comps: vec![Comp { name: "hue", hue: true, bmin: None, bmax: None, range: (0.0, 360.0) }],
        hue_ty: Some(name),
        alpha: false,
        volume: false,
        std: Box::new(move |rng| {
            let h: H = Standard.sample(rng);
            to4([into(h)])
        }),
        uni: Box::new(move |lo, hi, inclusive| {
            let (lo, hi) = (from(lo[0]), from(hi[0]));
            let s = if inclusive { Uniform::<H>::new_inclusive(lo, hi) } else { Uniform::<H>::new(lo, hi) };
            Box::new(move |rng| to4([into(s.sample(rng))]))
        }),
        within: Box::new(|_| true),
        to_hsv: None,
    }
}

#[macro_export]
macro_rules! specs_for {
    ($T:ty) => {{
        use palette::cam16::{Cam16UcsJab, Cam16UcsJmh};
        use palette::convert::FromColorUnclamped;
        use palette::encoding::{self, Linear};
        use palette::lms::VonKriesLms;
        use palette::luma::Luma;
        use palette::rgb::Rgb;
        use palette::white_point::{WhitePoint, D65};
        use palette::hues::Cam16Hue;
        use palette::{Hsl, Hsluv, Hsv, Hwb, Lab, LabHue, Lch, Lchuv, Luv, LuvHue, Okhsl, Okhsv, Okhwb, Oklab, OklabHue, Oklch, RgbHue, Xyz, Yxy};
        use $crate::spec::{mk, mk_alpha, mk_hue, Comp, Meta, Shape, Spec, A4};
        type T = $T;
        type S = encoding::Srgb;
        // bounded on both sides by the type's accessors
        let pb = |name: &'static str, mn: T, mx: T| Comp { name, hue: false, bmin: Some(mn), bmax: Some(mx), range: (mn as f64, mx as f64) };
        // accessor lower bound only; `hi` is the top of the range Standard draws from
        let pmin = |name: &'static str, mn: T, hi: f64| Comp::<T> { name, hue: false, bmin: Some(mn), bmax: None, range: (mn as f64, hi) };
        // no bounds stated by the type; [lo, hi] is the range Standard draws from
        let pfree = |name: &'static str, lo: f64, hi: f64| Comp::<T> { name, hue: false, bmin: None, bmax: None, range: (lo, hi) };
        let ph = || Comp::<T> { name: "hue", hue: true, bmin: None, bmax: None, range: (0.0, 360.0) };
        let mut v: Vec<Spec<T>> = vec![];
        // bare hue types first (simplest cases first)
        v.push(mk_hue::<RgbHue<T>, T>("RgbHue", RgbHue::new, RgbHue::into_inner));
        v.push(mk_hue::<LabHue<T>, T>("LabHue", LabHue::new, LabHue::into_inner));
        v.push(mk_hue::<LuvHue<T>, T>("LuvHue", LuvHue::new, LuvHue::into_inner));
        v.push(mk_hue::<OklabHue<T>, T>("OklabHue", OklabHue::new, OklabHue::into_inner));
        v.push(mk_hue::<Cam16Hue<T>, T>("Cam16Hue", Cam16Hue::new, Cam16Hue::into_inner));
        macro_rules! both {
            ($C:ty, $N:literal, $M:literal, $meta:expr) => {{
                let m: Meta<T> = $meta;
                v.push(mk::<$C, T, $N>(&m));
                v.push(mk_alpha::<$C, T, $N, $M>(&m));
            }};
        }
        let meta = |name: &'static str, shape: Shape, comps: Vec<Comp<T>>, hue_ty: Option<&'static str>, volume: bool, to_hsv: Option<fn(&A4<T>) -> A4<T>>| Meta { name, shape, comps, hue_ty, volume, to_hsv };
        both!(Rgb<S, T>, 3, 4, meta("Srgb", Shape::Cartesian, vec![pb("red", Rgb::<S, T>::min_red(), Rgb::<S, T>::max_red()), pb("green", Rgb::<S, T>::min_green(), Rgb::<S, T>::max_green()), pb("blue", Rgb::<S, T>::min_blue(), Rgb::<S, T>::max_blue())], None, false, None));
        both!(Rgb<Linear<encoding::Srgb>, T>, 3, 4, meta("LinSrgb", Shape::Cartesian, vec![pb("red", 0.0, 1.0), pb("green", 0.0, 1.0), pb("blue", 0.0, 1.0)], None, false, None));
        both!(Luma<S, T>, 1, 2, meta("Luma<Srgb>", Shape::Cartesian, vec![pb("luma", Luma::<S, T>::min_luma(), Luma::<S, T>::max_luma())], None, false, None));
        both!(Xyz<D65, T>, 3, 4, meta("Xyz<D65>", Shape::Cartesian, vec![pb("x", Xyz::<D65, T>::min_x(), Xyz::<D65, T>::max_x()), pb("y", Xyz::<D65, T>::min_y(), Xyz::<D65, T>::max_y()), pb("z", Xyz::<D65, T>::min_z(), Xyz::<D65, T>::max_z())], None, false, None));
        both!(Yxy<D65, T>, 3, 4, meta("Yxy", Shape::Cartesian, vec![pb("x", Yxy::<D65, T>::min_x(), Yxy::<D65, T>::max_x()), pb("y", Yxy::<D65, T>::min_y(), Yxy::<D65, T>::max_y()), pb("luma", Yxy::<D65, T>::min_luma(), Yxy::<D65, T>::max_luma())], None, false, None));
        both!(Lab<D65, T>, 3, 4, meta("Lab", Shape::Cartesian, vec![pb("l", Lab::<D65, T>::min_l(), Lab::<D65, T>::max_l()), pb("a", Lab::<D65, T>::min_a(), Lab::<D65, T>::max_a()), pb("b", Lab::<D65, T>::min_b(), Lab::<D65, T>::max_b())], None, false, None));
        both!(Luv<D65, T>, 3, 4, meta("Luv", Shape::Cartesian, vec![pb("l", Luv::<D65, T>::min_l(), Luv::<D65, T>::max_l()), pb("u", Luv::<D65, T>::min_u(), Luv::<D65, T>::max_u()), pb("v", Luv::<D65, T>::min_v(), Luv::<D65, T>::max_v())], None, false, None));
        both!(Oklab<T>, 3, 4, meta("Oklab", Shape::Cartesian, vec![pb("l", Oklab::<T>::min_l(), Oklab::<T>::max_l()), pfree("a", -1.0, 1.0), pfree("b", -1.0, 1.0)], None, false, None));
        both!(VonKriesLms<D65, T>, 3, 4, meta("Lms", Shape::Cartesian, vec![pmin("long", VonKriesLms::<D65, T>::min_long(), 1.0), pmin("medium", VonKriesLms::<D65, T>::min_medium(), 1.0), pmin("short", VonKriesLms::<D65, T>::min_short(), 1.0)], None, false, None));
        both!(Cam16UcsJab<T>, 3, 4, meta("Cam16UcsJab", Shape::Cartesian, vec![pb("lightness", Cam16UcsJab::<T>::min_lightness(), Cam16UcsJab::<T>::max_lightness()), pfree("a", -50.0, 50.0), pfree("b", -50.0, 50.0)], None, false, None));
        // cylinders: [height, radius, hue]
        both!(Lch<D65, T>, 3, 4, meta("Lch", Shape::Cylinder { height: 0, radius: 1 }, vec![pb("l", Lch::<D65, T>::min_l(), Lch::<D65, T>::max_l()), pmin("chroma", Lch::<D65, T>::min_chroma(), 128.0), ph()], Some("LabHue"), false, None));
        both!(Lchuv<D65, T>, 3, 4, meta("Lchuv", Shape::Cylinder { height: 0, radius: 1 }, vec![pb("l", Lchuv::<D65, T>::min_l(), Lchuv::<D65, T>::max_l()), pb("chroma", Lchuv::<D65, T>::min_chroma(), Lchuv::<D65, T>::max_chroma()), ph()], Some("LuvHue"), false, None));
        both!(Oklch<T>, 3, 4, meta("Oklch", Shape::Cylinder { height: 0, radius: 1 }, vec![pb("l", Oklch::<T>::min_l(), Oklch::<T>::max_l()), pmin("chroma", Oklch::<T>::min_chroma(), 1.0), ph()], Some("OklabHue"), false, None));
        both!(Cam16UcsJmh<T>, 3, 4, meta("Cam16UcsJmh", Shape::Cylinder { height: 0, radius: 1 }, vec![pb("lightness", Cam16UcsJmh::<T>::min_lightness(), Cam16UcsJmh::<T>::max_lightness()), pb("colorfulness", Cam16UcsJmh::<T>::min_colorfulness(), Cam16UcsJmh::<T>::max_srgb_colorfulness()), ph()], Some("Cam16Hue"), false, None));
        // cones and bicones: [hue, radial, height]
        both!(Hsv<S, T>, 3, 4, meta("Hsv", Shape::Cone { s: 1, v: 2 }, vec![ph(), pb("saturation", Hsv::<S, T>::min_saturation(), Hsv::<S, T>::max_saturation()), pb("value", Hsv::<S, T>::min_value(), Hsv::<S, T>::max_value())], Some("RgbHue"), true, None));
        both!(Okhsv<T>, 3, 4, meta("Okhsv", Shape::Cone { s: 1, v: 2 }, vec![ph(), pb("saturation", Okhsv::<T>::min_saturation(), Okhsv::<T>::max_saturation()), pb("value", Okhsv::<T>::min_value(), Okhsv::<T>::max_value())], Some("OklabHue"), true, None));
        both!(Hsl<S, T>, 3, 4, meta("Hsl", Shape::Bicone { s: 1, l: 2, scale: 1.0 }, vec![ph(), pb("saturation", Hsl::<S, T>::min_saturation(), Hsl::<S, T>::max_saturation()), pb("lightness", Hsl::<S, T>::min_lightness(), Hsl::<S, T>::max_lightness())], Some("RgbHue"), true, None));
        both!(Okhsl<T>, 3, 4, meta("Okhsl", Shape::Bicone { s: 1, l: 2, scale: 1.0 }, vec![ph(), pb("saturation", Okhsl::<T>::min_saturation(), Okhsl::<T>::max_saturation()), pb("lightness", Okhsl::<T>::min_lightness(), Okhsl::<T>::max_lightness())], Some("OklabHue"), true, None));
        both!(Hsluv<D65, T>, 3, 4, meta("Hsluv", Shape::Bicone { s: 1, l: 2, scale: 100.0 }, vec![ph(), pb("saturation", Hsluv::<D65, T>::min_saturation(), Hsluv::<D65, T>::max_saturation()), pb("l", Hsluv::<D65, T>::min_l(), Hsluv::<D65, T>::max_l())], Some("LuvHue"), false, None));
        fn hwb_to_hsv(v: &A4<T>) -> A4<T> {
            let c: Hwb<S, T> = palette::cast::from_array([v[0], v[1], v[2]]);
            let h = Hsv::<S, T>::from_color_unclamped(c);
            [h.hue.into_inner(), h.saturation, h.value, v[3]]
        }
        fn okhwb_to_okhsv(v: &A4<T>) -> A4<T> {
            let c: Okhwb<T> = palette::cast::from_array([v[0], v[1], v[2]]);
            let h = Okhsv::<T>::from_color_unclamped(c);
            [h.hue.into_inner(), h.saturation, h.value, v[3]]
        }
        both!(Hwb<S, T>, 3, 4, meta("Hwb", Shape::HwbCone { w: 1, b: 2 }, vec![ph(), pb("whiteness", Hwb::<S, T>::min_whiteness(), Hwb::<S, T>::max_whiteness()), pb("blackness", Hwb::<S, T>::min_blackness(), Hwb::<S, T>::max_blackness())], Some("RgbHue"), true, Some(hwb_to_hsv)));
        both!(Okhwb<T>, 3, 4, meta("Okhwb", Shape::HwbCone { w: 1, b: 2 }, vec![ph(), pb("whiteness", Okhwb::<T>::min_whiteness(), Okhwb::<T>::max_whiteness()), pb("blackness", Okhwb::<T>::min_blackness(), Okhwb::<T>::max_blackness())], Some("OklabHue"), true, Some(okhwb_to_okhsv)));
        // other white points: the Standard range of Xyz (and Lms) is scaled by the white point
        macro_rules! xyz_wp {
            ($W:ident, $n:literal) => {
                both!(Xyz<palette::white_point::$W, T>, 3, 4, meta($n, Shape::Cartesian, vec![pb("x", Xyz::<palette::white_point::$W, T>::min_x(), Xyz::<palette::white_point::$W, T>::max_x()), pb("y", Xyz::<palette::white_point::$W, T>::min_y(), Xyz::<palette::white_point::$W, T>::max_y()), pb("z", Xyz::<palette::white_point::$W, T>::min_z(), Xyz::<palette::white_point::$W, T>::max_z())], None, false, None));
            };
        }
        xyz_wp!(D50, "Xyz<D50>");
        xyz_wp!(A, "Xyz<A>");
        xyz_wp!(E, "Xyz<E>");
        xyz_wp!(C, "Xyz<C>");
        xyz_wp!(D75, "Xyz<D75>");
        xyz_wp!(F2, "Xyz<F2>");
        {
            use palette::white_point::D50;
            both!(VonKriesLms<D50, T>, 3, 4, meta("Lms<D50>", Shape::Cartesian, vec![pmin("long", VonKriesLms::<D50, T>::min_long(), 1.0), pmin("medium", VonKriesLms::<D50, T>::min_medium(), 1.0), pmin("short", VonKriesLms::<D50, T>::min_short(), 1.0)], None, false, None));
            both!(Yxy<D50, T>, 3, 4, meta("Yxy<D50>", Shape::Cartesian, vec![pb("x", Yxy::<D50, T>::min_x(), Yxy::<D50, T>::max_x()), pb("y", Yxy::<D50, T>::min_y(), Yxy::<D50, T>::max_y()), pb("luma", Yxy::<D50, T>::min_luma(), Yxy::<D50, T>::max_luma())], None, false, None));
            both!(Lab<D50, T>, 3, 4, meta("Lab<D50>", Shape::Cartesian, vec![pb("l", Lab::<D50, T>::min_l(), Lab::<D50, T>::max_l()), pb("a", Lab::<D50, T>::min_a(), Lab::<D50, T>::max_a()), pb("b", Lab::<D50, T>::min_b(), Lab::<D50, T>::max_b())], None, false, None));
            both!(Luv<D50, T>, 3, 4, meta("Luv<D50>", Shape::Cartesian, vec![pb("l", Luv::<D50, T>::min_l(), Luv::<D50, T>::max_l()), pb("u", Luv::<D50, T>::min_u(), Luv::<D50, T>::max_u()), pb("v", Luv::<D50, T>::min_v(), Luv::<D50, T>::max_v())], None, false, None));
            both!(Hsluv<D50, T>, 3, 4, meta("Hsluv<D50>", Shape::Bicone { s: 1, l: 2, scale: 100.0 }, vec![ph(), pb("saturation", Hsluv::<D50, T>::min_saturation(), Hsluv::<D50, T>::max_saturation()), pb("l", Hsluv::<D50, T>::min_l(), Hsluv::<D50, T>::max_l())], Some("LuvHue"), false, None));
            type P = encoding::Rec2020;
            both!(Rgb<P, T>, 3, 4, meta("Rec2020", Shape::Cartesian, vec![pb("red", Rgb::<P, T>::min_red(), Rgb::<P, T>::max_red()), pb("green", Rgb::<P, T>::min_green(), Rgb::<P, T>::max_green()), pb("blue", Rgb::<P, T>::min_blue(), Rgb::<P, T>::max_blue())], None, false, None));
            both!(Hsv<P, T>, 3, 4, meta("Hsv<Rec2020>", Shape::Cone { s: 1, v: 2 }, vec![ph(), pb("saturation", Hsv::<P, T>::min_saturation(), Hsv::<P, T>::max_saturation()), pb("value", Hsv::<P, T>::min_value(), Hsv::<P, T>::max_value())], Some("RgbHue"), true, None));
        }
        let _ = <D65 as WhitePoint<T>>::get_xyz();
        v
    }};
}
