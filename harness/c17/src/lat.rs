//! Input lattices.
//!  * `values_for`: the dense in-range lattice of a node (pv::colorkind::Kind::lattice) plus the
//!    images of an sRGB grid — used where the cost is linear in the lattice (SIMD vs scalar,
//!    f32 vs f64);
//!  * `pair_lattice`: a *branch-covering* lattice of the source type for the quadratic lane-mix
//!    enumeration: one point on each side of (and, in the type's own coordinates, exactly at)
//!    every `lazy_select!`/threshold of the conversion code, every hexcone sector, ties,
//!    grey / non-grey, black, white, next to white, negative and > 1 components.
//!
//! Thresholds covered (source references, palette/src):
//!   encoding/srgb.rs:103,117      0.04045 (lt_eq), 0.0031308 (lt_eq)
//!   encoding/rec_standards.rs:115,129   4.5*BETA (lt), BETA = 0.018053968510807 (lt)
//!   lab.rs:173                    c > (6/29)^3 for X/Xn, Y/Yn, Z/Zn
//!   xyz.rs:332                    c > 6/29 for fx, fy, fz  (L* = 8 on the grey axis)
//!   xyz.rs:296                    y.is_valid_divisor() (Yxy -> Xyz)
//!   hsv.rs:281-383, hsl.rs:281-401  max/min selection, chroma == 0, hue >= 6 wrap, sum > 1, sum == 2
//!   hsv.rs:401,409,440            lightness < 0.5, value.is_valid_divisor()
//!   hsl.rs:426-437                value valid, x < 1, x valid, 2 - x valid
//!   rgb/rgb.rs:889-915, 944-970   hue zones h/60 in [k, k+1), k = 0..5
use pg::Kind;
use pv::fl::Fl;
use pv::refmodel::rgb as R;
use pv::refmodel::V3;

pub fn bits3<T: Fl>(v: [T; 3]) -> [u64; 3] {
    [v[0].bits64(), v[1].bits64(), v[2].bits64()]
}
pub fn to64<T: Fl>(v: [T; 3]) -> V3 {
    [v[0].to64(), v[1].to64(), v[2].to64()]
}
pub fn from64<T: Fl>(v: V3) -> [T; 3] {
    [T::from64(v[0]), T::from64(v[1]), T::from64(v[2])]
}
fn dedup3<T: Fl>(v: Vec<[T; 3]>) -> Vec<[T; 3]> {
    // order-preserving dedup by bit pattern (enumeration order = simplest first)
    let mut seen = std::collections::BTreeSet::new();
    v.into_iter().filter(|x| seen.insert(bits3(*x))).collect()
}

/// like c02: dense own lattice ∪ images of an n^3 sRGB grid (for nodes that can represent them)
pub fn values_for<T: Fl>(kind: Kind, grid: usize) -> Vec<[T; 3]> {
    let mut vals: Vec<V3> = kind.lattice(true);
    for xyz in pv::colorkind::srgb_grid_xyz(grid, &R::SRGB) {
        if kind.can_represent(xyz, 0.0) {
            let img = kind.from_xyz(xyz);
            if img.iter().all(|x| x.is_finite()) {
                vals.push(img);
            }
        }
    }
    let mut out: Vec<[T; 3]> = vals.into_iter().map(from64::<T>).collect();
    out.sort_by_key(|v| bits3(*v));
    out.dedup_by_key(|v| bits3(*v));
    out
}

/// `values_for` plus the full branch-covering pair lattice (exact thresholds ± 1 ulp)
pub fn values_with_thresholds<T: Fl>(kind: Kind, grid: usize) -> Vec<[T; 3]> {
    let mut out = values_for::<T>(kind, grid);
    out.extend(pair_lattice::<T>(kind, true));
    out.sort_by_key(|v| bits3(*v));
    out.dedup_by_key(|v| bits3(*v));
    out
}

/// the constants compared against in the transfer functions and the L* toe, on a unit scale
pub const KNEES: [f64; 6] = [0.0031308, 0.04045, 0.018053968510807, 4.5 * 0.018053968510807, 216.0 / 24389.0, 6.0 / 29.0];

/// unit-interval ladder: every knee with both ulp neighbours, and plain values between them
fn ladder<T: Fl>(full: bool) -> Vec<T> {
    let mut v: Vec<T> = vec![];
    for p in [0.0, 1e-9, 0.001, 0.005, 0.012, 0.03, 0.06, 0.12, 0.3, 0.5, 0.8, 1.0] {
        v.push(T::from64(p));
    }
    for k in KNEES {
        let t = T::from64(k);
        v.push(t);
        v.push(t.up());
        if full {
            v.push(t.down());
        }
    }
    if full {
        v.push(T::from64(0.5).down());
        v.push(T::from64(0.5).up());
        v.push(T::from64(1.0).down());
        v.push(T::from64(0.25));
        v.push(T::from64(0.75));
    }
    v
}

/// structure of the RGB cube: black, white, next to white, primaries, secondaries, the six strict
/// orderings, the six ties, greys over the ladder, one channel at each knee, negative and > 1
fn rgb_points<T: Fl>(full: bool) -> Vec<[T; 3]> {
    let f = |a: f64, b: f64, c: f64| -> [T; 3] { from64::<T>([a, b, c]) };
    let one = T::from64(1.0);
    let mut v: Vec<[T; 3]> = vec![f(0.0, 0.0, 0.0), f(1.0, 1.0, 1.0)];
    // primaries and secondaries (sector edges of the hexcone)
    for p in [[1.0, 0.0, 0.0], [1.0, 1.0, 0.0], [0.0, 1.0, 0.0], [0.0, 1.0, 1.0], [0.0, 0.0, 1.0], [1.0, 0.0, 1.0]] {
        v.push(from64::<T>(p));
    }
    // strict orderings (inside each sector) and ties (max or min shared)
    for p in [[0.8, 0.5, 0.2], [0.5, 0.8, 0.2], [0.2, 0.8, 0.5], [0.2, 0.5, 0.8], [0.5, 0.2, 0.8], [0.8, 0.2, 0.5]] {
        v.push(from64::<T>(p));
    }
    for p in [[0.5, 0.5, 0.2], [0.5, 0.2, 0.5], [0.2, 0.5, 0.5], [0.5, 0.2, 0.2], [0.2, 0.5, 0.2], [0.2, 0.2, 0.5]] {
        v.push(from64::<T>(p));
    }
    // next to white: max + min rounds to 2 (hsl.rs), and light colours with sum > 1
    v.push([one, one, one.down()]);
    v.push([one.down(), one, one]);
    v.push(f(0.9, 0.7, 0.6));
    // dark, saturated colours (toe of L*, linear segments of the transfer functions)
    v.push(f(0.02, 0.01, 0.002));
    v.push(f(0.001, 0.03, 0.01));
    // greys over the ladder
    for g in ladder::<T>(full) {
        v.push([g, g, g]);
    }
    // one channel exactly at / just above each knee, the others mid-range
    let mid = T::from64(0.5);
    let lo = T::from64(0.1);
    for k in KNEES {
        let t = T::from64(k);
        // (quick: exactly at the knee per channel; the greys above carry knee and knee + ulp)
        for tt in if full { vec![t.down(), t, t.up()] } else { vec![t] } {
            v.push([tt, mid, lo]);
            v.push([lo, tt, mid]);
            v.push([mid, lo, tt]);
        }
    }
    // negative and > 1 components (unclamped conversions accept them)
    v.push(f(-0.1, 0.5, 0.2));
    v.push(f(0.5, -0.25, 0.2));
    v.push(f(0.3, 0.6, -0.05));
    v.push(f(1.2, 0.5, 0.3));
    if full {
        v.push(f(-0.2, -0.1, -0.3));
        v.push(f(0.4, 1.5, 1.1));
        for p in [[0.25, 0.75, 0.5], [0.75, 0.25, 0.5], [0.6, 0.6, 0.6 + 1e-7], [0.3, 0.3 + 1e-7, 0.3]] {
            v.push(from64::<T>(p));
        }
    }
    v
}

fn hue_points<T: Fl>(full: bool) -> Vec<T> {
    let mut h: Vec<T> = vec![];
    for k in 0..=6 {
        let t = T::from64(60.0 * k as f64);
        h.push(t);
        h.push(t.up());
        if k > 0 {
            h.push(t.down());
        }
    }
    for k in 0..6 {
        h.push(T::from64(60.0 * k as f64 + 30.0));
    }
    h.push(T::from64(45.0));
    h.push(T::from64(-60.0));
    h.push(T::from64(-0.0));
    h.push(T::from64(-1e-9));
    h.push(T::from64(765.0));
    if full {
        h.push(T::from64(-360.0));
        h.push(T::from64(720.0));
        h.push(T::from64(-180.0));
        h.push(T::from64(180.0).up());
        for k in 0..12 {
            h.push(T::from64(30.0 * k as f64 + 7.5));
        }
    }
    h
}

/// own-coordinate points for hexcone types; `k` = 0 HSL, 1 HSV, 2 HWB
fn hexcone_points<T: Fl>(k: u8, full: bool) -> Vec<[T; 3]> {
    let mut v: Vec<[T; 3]> = vec![];
    let t = |x: f64| T::from64(x);
    // every hue at one saturated colour
    for h in hue_points::<T>(full) {
        v.push(if k == 2 { [h, t(0.2), t(0.3)] } else { [h, t(0.6), t(0.7)] });
    }
    let hs: Vec<f64> = if full { vec![90.0, 0.0, 200.0] } else { vec![90.0] };
    let half = t(0.5);
    let one = t(1.0);
    let seconds: Vec<T> = vec![t(0.0), t(1e-9), t(0.5), one.down(), one];
    let mut thirds: Vec<T> = vec![t(0.0), t(1e-9), t(0.25), half.down(), half, half.up(), t(0.75), one.down(), one];
    if full {
        thirds.extend([t(0.1), t(0.9)]);
    }
    for &h in &hs {
        for &s in &seconds {
            for &l in &thirds {
                if k == 2 {
                    // whiteness + blackness <= 1 in range; the grey line w + b = 1 is included
                    if s.to64() + l.to64() <= 1.0 {
                        v.push([t(h), s, l]);
                    }
                } else {
                    v.push([t(h), s, l]);
                }
            }
        }
    }
    if k == 2 {
        for (w, b) in [(0.5, 0.5), (0.25, 0.75), (1.0, 0.0), (0.0, 1.0), (0.3, 0.7), (0.6, 0.6), (-0.1, 0.3)] {
            v.push([t(120.0), t(w), t(b)]);
        }
    } else {
        // greys at the transfer-function knees (conversions to other RGB standards), s = 0
        for kn in KNEES {
            let x = t(kn);
            v.push([t(0.0), t(0.0), x]);
            if full {
                v.push([t(0.0), t(0.0), x.up()]);
            }
        }
        // hsv -> hsl: (2 - s) v on both sides of 1, = 1, = 2 ; negative / > 1 components
        v.push([t(30.0), t(0.5), t(2.0 / 3.0)]);
        v.push([t(30.0), t(0.0), t(1.0)]);
        v.push([t(30.0), t(-0.1), t(0.5)]);
        v.push([t(30.0), t(1.2), t(0.5)]);
        v.push([t(30.0), t(0.5), t(1.1)]);
    }
    v
}

fn own_points<T: Fl>(kind: Kind, full: bool) -> Vec<[T; 3]> {
    let t = |x: f64| T::from64(x);
    let f = |a: f64, b: f64, c: f64| -> [T; 3] { from64::<T>([a, b, c]) };
    let mut v: Vec<[T; 3]> = vec![];
    let polar_hues: Vec<f64> = if full {
        vec![0.0, 45.0, 90.0, 135.0, 180.0, 225.0, 270.0, 315.0, 360.0, -90.0, 765.0, 30.0, 264.05, -180.0, 179.999999]
    } else {
        vec![0.0, 45.0, 90.0, 135.0, 180.0, 225.0, 270.0, 315.0, 360.0, -90.0, 765.0]
    };
    match kind {
        Kind::Rgb(_) => v = rgb_points::<T>(full),
        Kind::Hsl(_) => v = hexcone_points::<T>(0, full),
        Kind::Hsv(_) => v = hexcone_points::<T>(1, full),
        Kind::Hwb(_) => v = hexcone_points::<T>(2, full),
        Kind::Luma(_) => {
            for g in ladder::<T>(true) {
                v.push([g, t(0.0), t(0.0)]);
            }
            v.push(f(-0.1, 0.0, 0.0));
            v.push(f(1.2, 0.0, 0.0));
        }
        Kind::Xyz(w) => {
            let wx = w.xyz();
            // each axis exactly at / around the L* toe (c / white > (6/29)^3), others mid-range
            for c in 0..3 {
                let e = T::from64(wx[c] * 216.0 / 24389.0);
                for tt in [e.down().down(), e.down(), e, e.up(), e.up().up()] {
                    let mut p = from64::<T>([0.4 * wx[0], 0.4 * wx[1], 0.4 * wx[2]]);
                    p[c] = tt;
                    v.push(p);
                }
                let mut p = from64::<T>([0.2, 0.2, 0.2]);
                p[c] = t(0.0);
                v.push(p);
                let mut p = from64::<T>([0.3, 0.3, 0.3]);
                p[c] = t(-0.01);
                v.push(p);
            }
            v.push(f(0.0, 0.0, 0.0));
            v.push(from64::<T>(wx));
            v.push(f(0.2, 0.0, 0.1)); // Y = 0 with X, Z > 0: chromaticity undefined
        }
        Kind::Yxy(_) => {
            // layout [x, y, luma]
            for l in ladder::<T>(full) {
                v.push([t(0.3127), t(0.329), l]);
            }
            for (x, y) in [(0.64, 0.33), (0.3, 0.6), (0.15, 0.06), (0.45, 0.45), (1.0 / 3.0, 1.0 / 3.0), (0.2, 0.7)] {
                v.push(f(x, y, 0.3));
            }
            v.push(f(0.0, 0.0, 0.0)); // y = 0: invalid divisor
            v.push(f(0.3, 0.0, 0.0));
            v.push(f(0.3, 0.0, 0.5));
            v.push(f(0.3, 1e-9, 1e-9));
            v.push(f(0.0, 0.5, 0.5));
            v.push(f(0.3127, 0.329, -0.1));
        }
        Kind::Lab(_) | Kind::Luv(_) => {
            let eight = t(8.0);
            let mut ls: Vec<T> = vec![t(0.0), t(1e-7), eight.down(), eight, eight.up(), t(2.0), t(20.0), t(50.0), t(90.0), t(100.0)];
            if full {
                ls.extend([t(1.0), t(5.0), t(35.0), t(75.0), t(100.0).down()]);
            }
            for &l in &ls {
                v.push([l, t(0.0), t(0.0)]);
                v.push([l, t(20.0), t(-30.0)]);
            }
            // quadrants and axes of the a/b plane (atan2 of Lab -> Lch)
            for (a, b) in [(40.0, 40.0), (-40.0, 40.0), (-40.0, -40.0), (40.0, -40.0), (40.0, 0.0), (0.0, 40.0), (-40.0, 0.0), (0.0, -40.0), (1e-7, 0.0), (0.0, -1e-7), (-0.0, 0.0), (100.0, -100.0)] {
                v.push(f(50.0, a, b));
            }
            // fx = fy + a/500 and fz = fy - b/200 at 6/29 (L = 20: fy = 36/116)
            let fy = 36.0 / 116.0;
            let a0 = T::from64((6.0 / 29.0 - fy) * 500.0);
            let b0 = T::from64((fy - 6.0 / 29.0) * 200.0);
            for tt in [a0.down(), a0, a0.up()] {
                v.push([t(20.0), tt, t(0.0)]);
            }
            for tt in [b0.down(), b0, b0.up()] {
                v.push([t(20.0), t(0.0), tt]);
            }
            v.push(f(-5.0, 0.0, 0.0));
            v.push(f(120.0, 10.0, 10.0));
        }
        Kind::Lch(_) | Kind::Lchuv(_) => {
            for &h in &polar_hues {
                v.push(f(50.0, 40.0, h));
            }
            for h in [0.0, 45.0, 200.0] {
                v.push(f(50.0, 0.0, h));
                v.push(f(50.0, 1e-7, h));
            }
            let eight = t(8.0);
            for l in [t(0.0), t(1e-7), eight.down(), eight, eight.up(), t(2.0), t(20.0), t(90.0), t(100.0)] {
                v.push([l, t(0.0), t(0.0)]);
                v.push([l, t(25.0), t(300.0)]);
            }
            v.push(f(50.0, -5.0, 30.0)); // negative chroma is clamped to 0 by Lch -> Lab
            v.push(f(-5.0, 10.0, 30.0));
            v.push(f(60.0, 150.0, 140.0));
        }
        Kind::Hsluv(_) => {
            for &h in &polar_hues {
                v.push(f(h, 60.0, 50.0));
            }
            for l in [0.0, 1e-7, 8.0, 50.0, 99.99999, 100.0] {
                v.push(f(120.0, 0.0, l));
                v.push(f(120.0, 100.0, l));
            }
        }
        Kind::LmsVonKries(_) | Kind::LmsBradford(_) => {
            for g in ladder::<T>(false) {
                v.push([g, g, g]);
            }
            v.push(f(0.3, -0.01, 0.2));
        }
        Kind::Oklab => {
            for l in ladder::<T>(false) {
                v.push([l, t(0.0), t(0.0)]);
            }
            for (a, b) in [(0.1, 0.1), (-0.1, 0.1), (-0.1, -0.1), (0.1, -0.1), (0.1, 0.0), (0.0, 0.1), (-0.1, 0.0), (0.0, -0.1), (1e-9, 0.0), (0.0, -1e-9), (-0.0, 0.0), (0.3, -0.3)] {
                v.push(f(0.6, a, b));
            }
            v.push(f(-0.05, 0.0, 0.0));
            v.push(f(1.1, 0.02, 0.02));
        }
        Kind::Oklch => {
            for &h in &polar_hues {
                v.push(f(0.6, 0.1, h));
            }
            for h in [0.0, 45.0, 200.0] {
                v.push(f(0.6, 0.0, h));
                v.push(f(0.6, 1e-9, h));
            }
            for l in ladder::<T>(false) {
                v.push([l, t(0.0), t(0.0)]);
                v.push([l, t(0.05), t(300.0)]);
            }
            v.push(f(0.5, -0.05, 30.0));
        }
        Kind::Okhsl | Kind::Okhsv => {
            for &h in &polar_hues {
                v.push(f(h, 0.6, 0.5));
            }
            for s in [0.0, 1e-9, 0.5, 1.0] {
                for l in [0.0, 1e-9, 0.5, 1.0] {
                    v.push(f(200.0, s, l));
                }
            }
        }
        Kind::Okhwb => {
            for &h in &polar_hues {
                v.push(f(h, 0.2, 0.3));
            }
            for (w, b) in [(0.0, 0.0), (1.0, 0.0), (0.0, 1.0), (0.5, 0.5), (0.25, 0.75), (1e-9, 1.0 - 1e-9), (0.3, 0.3), (0.6, 0.6)] {
                v.push(f(200.0, w, b));
            }
        }
    }
    v
}

/// Images (under the f64 reference map, rounded to `T`) of the structural sRGB points: every
/// node sees colours from each hexcone sector, greys on both sides of every knee, black, white.
fn image_points<T: Fl>(kind: Kind, full: bool) -> Vec<[T; 3]> {
    let mut v = vec![];
    if matches!(kind, Kind::Rgb(s) if s == R::SRGB) {
        return v;
    }
    for p in rgb_points::<f64>(full) {
        if p.iter().any(|c| !(0.0..=1.0).contains(c)) {
            continue;
        }
        let xyz = R::SRGB.to_xyz(p);
        if kind.is_luma() && !(p[0] == p[1] && p[1] == p[2]) {
            continue;
        }
        let img = kind.from_xyz(xyz);
        if img.iter().all(|x| x.is_finite()) {
            v.push(from64::<T>(img));
        }
    }
    v
}

/// The branch-covering lattice for the lane-mix enumeration; `size` caps the number of points
/// (own-coordinate points first, then images; the cap is reported in the evidence).
pub fn pair_lattice<T: Fl>(kind: Kind, full: bool) -> Vec<[T; 3]> {
    let mut v = own_points::<T>(kind, full);
    let img = image_points::<T>(kind, full);
    // images: all for the thorough tier; for quick the hexcone structure and every other grey
    if full {
        v.extend(img);
    } else {
        let n_struct = 25.min(img.len());
        v.extend_from_slice(&img[..n_struct]);
        v.extend(img[n_struct..].iter().step_by(3).cloned());
    }
    dedup3(v)
}

/// nominal-range test in the type's own coordinates (class of a lane-independence signature)
pub fn in_nominal_range(kind: Kind, v: V3) -> bool {
    let unit = |x: f64| (0.0..=1.0).contains(&x);
    match kind {
        Kind::Rgb(_) | Kind::LmsVonKries(_) | Kind::LmsBradford(_) => v.iter().all(|&x| unit(x)),
        Kind::Luma(_) => unit(v[0]),
        Kind::Hsl(_) | Kind::Hsv(_) | Kind::Okhsl | Kind::Okhsv => unit(v[1]) && unit(v[2]),
        Kind::Hwb(_) | Kind::Okhwb => unit(v[1]) && unit(v[2]) && v[1] + v[2] <= 1.0,
        Kind::Xyz(_) => v.iter().all(|&x| (0.0..=1.1).contains(&x)),
        Kind::Yxy(_) => unit(v[0]) && unit(v[1]) && unit(v[2]),
        Kind::Lab(_) | Kind::Luv(_) => (0.0..=100.0).contains(&v[0]),
        Kind::Lch(_) | Kind::Lchuv(_) => (0.0..=100.0).contains(&v[0]) && v[1] >= 0.0,
        Kind::Hsluv(_) => (0.0..=100.0).contains(&v[1]) && (0.0..=100.0).contains(&v[2]),
        Kind::Oklab => unit(v[0]),
        Kind::Oklch => unit(v[0]) && v[1] >= 0.0,
    }
}
