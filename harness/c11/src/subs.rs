//! Lattice sub-checks: special points, whole-turn equality, 8-bit hues, cartesian, arithmetic.
use crate::ops::HueOps;
use crate::oracle::*;
use crate::point::*;
use pv::fl::Fl;
use pv::{json, Collector, Ctx, Value};

fn around<T: Fl>(v: &mut Vec<T>, x: f64, n: usize) {
    let c = T::from64(x);
    v.push(c);
    let (mut a, mut b) = (c, c);
    for _ in 0..n {
        a = a.down();
        b = b.up();
        v.push(a);
        v.push(b);
    }
}

/// Special points of T inside the domain, ordered by magnitude (simplest first):
/// every multiple of 180 up to 2^20 ± 3 ulp, the 8-bit ties (c+½)·360/256 and centres c·360/256 on
/// several turns ± 2 ulp, ±2^k, ±2^k(1±ulp), ±1.5·2^k for every exponent of T up to 20, zeros, ±2^20.
pub fn special_points<T: Fl>() -> Vec<T> {
    let mut v: Vec<T> = vec![];
    for j in -5826i64..=5826 {
        around(&mut v, 180.0 * j as f64, 3);
    }
    for c in 0..256 {
        for k in [0.0, -1.0, 1.0, -3.0, 2.0, 1000.0, -2900.0] {
            around(&mut v, (c as f64 + 0.5) * 1.40625 + 360.0 * k, 2);
            around(&mut v, c as f64 * 1.40625 + 360.0 * k, 2);
        }
    }
    let kmin = if T::NAME == "f32" { -149 } else { -1074 };
    for k in kmin..=20 {
        let p = 2f64.powi(k);
        for s in [1.0, -1.0] {
            around(&mut v, s * p, 1);
            v.push(T::from64(s * p * 1.5));
        }
    }
    around(&mut v, 0.0, 2);
    v.push(T::from64(-0.0));
    let mut v: Vec<T> = v.into_iter().filter(|x| x.finite() && x.to64().abs() <= LIM).collect();
    v.sort_by(|a, b| a.to64().abs().partial_cmp(&b.to64().abs()).unwrap().then(a.bits64().cmp(&b.bits64())));
    v.dedup_by(|a, b| a.bits64() == b.bits64());
    v
}

pub fn lattice<H: HueOps>(ctx: &Ctx, total: &mut Collector) {
    let sub = format!("lattice/{}", H::name());
    if !ctx.wants(&sub) {
        return;
    }
    let pts = special_points::<H::T>();
    let per = 4096usize;
    let nch = (pts.len() + per - 1) / per;
    let outs = pv::par::map_chunks(nch, |ci| {
        let mut c = Collector::new();
        let mut l = Loc::default();
        for &x in &pts[ci * per..((ci + 1) * per).min(pts.len())] {
            let r = pv::catch(|| {
                let code = check_point::<H>(&mut c, x, ALL, &mut l);
                check_extras::<H>(&mut c, x, &mut l);
                code
            });
            match r {
                Ok(code) => c.outcome(pv::fnv(&[H::deg(x).bits64().to_le_bytes(), H::pos(x).bits64().to_le_bytes(), (code as u64).to_le_bytes()].concat())),
                Err(msg) => v_point::<H>(&mut c, &mut l, "panic", "any", class_of(x), x, 1.0, json!({"panic": msg}), json!("no panic")),
            }
        }
        l.flush_viol(&mut c);
        (c, l)
    });
    let mut c = Collector::new();
    let mut l = Loc::default();
    for (cc, ll) in outs {
        c.merge(cc);
        l.merge(&ll);
    }
    l.flush::<H>(&mut c, &sub);
    c.note(&format!("{sub}/pairs"), json!({"equal_whole_turn_pairs_checked": l.eq_applied, "shift_not_exact_skipped": l.eq_skipped, "unequal_pairs_checked": l.ne_applied, "within_rounding_skipped": l.ne_skipped}));
    let x = pts[(pv::splitmix(ctx.seed ^ pv::fnv(sub.as_bytes())) % pts.len() as u64) as usize];
    c.sample(pv::splitmix(ctx.seed ^ pv::fnv(sub.as_bytes())), || json!({"sub": sub, "input": hx(x), "value": x.to64(), "into_degrees": H::deg(x).to64(), "into_positive_degrees": H::pos(x).to64(), "u8": H::to_u8(x)}));
    c.exhaustive(&sub, true, "special points of T in |x| <= 2^20: every multiple of 180 ± 3 ulp, 8-bit ties and centres on 7 turns ± 2 ulp, ±2^k, ±2^k(1±ulp), ±1.5·2^k for every exponent of T, zeros; all point checks + primitive conversions + float→u8→float→u8 + 10 whole-turn shifts + 20 inequality partners");
    total.merge(c);
}

/// hue(x) == hue(x + 360k) for every integer angle in ±100000 × every k in ±100, and for
/// non-integer dyadic angles n/2^m (n odd) whenever the shifted angle is exactly representable;
/// plus inequality with partners offset by {1/4, 1, 90, 180} degrees on five turns.
pub fn equality_turns<H: HueOps>(ctx: &Ctx, total: &mut Collector) {
    let sub = format!("equality-turns/{}", H::name());
    if !ctx.wants(&sub) {
        return;
    }
    let nmax: i64 = 100_000;
    let per = 1000i64;
    let nch = ((2 * nmax + 1) + per - 1) / per;
    // magnitude order: n = 0, -1, 1, -2, 2, ... (index t -> n)
    let n_of = |t: i64| -> i64 { if t % 2 == 0 { t / 2 } else { -(t + 1) / 2 } };
    let ms: &[i32] = if <H::T as Fl>::NAME == "f32" { &[1, 2, 3, 4, 5, 6, 8, 10, 12, 14, 15, 16, 18, 20, 23] } else { &[1, 2, 3, 4, 6, 8, 12, 15, 16, 23, 30, 36, 40, 44, 52] };
    let dy_n: i64 = ctx.tier.pick(1 << 12, 1 << 15); // odd |n| below this
    let dy_per = 256i64;
    let dy_chunks = (dy_n / 2 + dy_per - 1) / dy_per;
    let outs = pv::par::map_chunks((nch + dy_chunks) as usize, |ci| {
        let mut c = Collector::new();
        let mut l = Loc::default();
        let ci = ci as i64;
        let r = pv::catch(|| {
            if ci < nch {
                for t in (ci * per)..((ci + 1) * per).min(2 * nmax + 1) {
                    let n = n_of(t);
                    let x = <H::T as Fl>::from64(n as f64);
                    l.n += 1;
                    for k in -100..=100 {
                        check_shift::<H>(&mut c, x, 360.0 * k as f64, &mut l);
                    }
                    for k in [-100.0, -1.0, 0.0, 1.0, 100.0] {
                        for d in [0.25, 1.0, 90.0, 180.0] {
                            let y = <H::T as Fl>::from64(n as f64 + 360.0 * k + d);
                            check_ne::<H>(&mut c, x, y, &mut l);
                        }
                    }
                    if t % 997 == 0 {
                        c.outcome(H::pos(x).bits64() ^ 0x11);
                    }
                }
            } else {
                let cj = ci - nch;
                for h in (cj * dy_per)..((cj + 1) * dy_per).min(dy_n / 2) {
                    for sgn in [1.0, -1.0] {
                        let n = (2 * h + 1) as f64 * sgn;
                        for &m in ms {
                            let xv = n * 2f64.powi(-m);
                            let x = <H::T as Fl>::from64(xv);
                            if x.to64() != xv {
                                continue;
                            }
                            l.n += 1;
                            for k in -100..=100 {
                                if k != 0 {
                                    check_shift::<H>(&mut c, x, 360.0 * k as f64, &mut l);
                                }
                            }
                        }
                    }
                }
            }
        });
        if let Err(msg) = r {
            c.violation(&format!("C11/panic/{}/equality-turns", H::name()), 1.0, || json!({"sub": "equality-chunk", "hue": H::HUE, "ty": <H::T as Fl>::NAME, "input": ci, "observed": {"panic": msg}, "expected": "no panic"}));
        }
        l.flush_viol(&mut c);
        (c, l)
    });
    let mut c = Collector::new();
    let mut l = Loc::default();
    for (cc, ll) in outs {
        c.merge(cc);
        l.merge(&ll);
    }
    l.nontriv = l.eq_applied + l.ne_applied;
    l.flush::<H>(&mut c, &sub);
    c.note(&format!("{sub}/pairs"), json!({"equal_whole_turn_pairs_checked": l.eq_applied, "shift_not_exact_skipped": l.eq_skipped, "unequal_pairs_checked": l.ne_applied, "within_rounding_skipped": l.ne_skipped}));
    c.sample(pv::splitmix(ctx.seed ^ pv::fnv(sub.as_bytes())), || {
        let n = (pv::splitmix(ctx.seed) % 200_001) as i64 - 100_000;
        let k = (pv::splitmix(ctx.seed ^ 7) % 201) as i64 - 100;
        let (x, y) = (<H::T as Fl>::from64(n as f64), <H::T as Fl>::from64((n + 360 * k) as f64));
        json!({"sub": sub, "x": n, "y": n + 360 * k, "x==y": H::eq(x, y)})
    });
    c.exhaustive(&sub, true, &format!("every integer angle in ±100000 × every whole-turn shift in ±100 (all exactly representable) both directions, ==, != and PartialEq<T>; every odd n with |n| < {dy_n} over 2^m for 15 values of m × shifts ±100 where the shifted angle is exactly representable; inequality partners n + 360k + d, k ∈ {{-100,-1,0,1,100}}, d ∈ {{1/4,1,90,180}}"));
    total.merge(c);
}

/// All 256 8-bit hues.
pub fn u8_codes<H: HueOps>(ctx: &Ctx, total: &mut Collector) {
    let sub = format!("u8-codes/{}", H::name());
    if !ctx.wants(&sub) {
        return;
    }
    let mut c = Collector::new();
    let mut l = Loc::default();
    let mut prev = f64::NEG_INFINITY;
    for code in 0..=255u8 {
        check_u8_code::<H>(&mut c, code, &mut l);
        let f = H::from_u8(code).to64();
        if !(f > prev) {
            c.violation(&format!("C11/u8-to-float-increasing/{}::into_format<{}>", H::name(), <H::T as Fl>::NAME), 1.0, || json!({"sub": "u8-code", "hue": H::HUE, "ty": <H::T as Fl>::NAME, "input": code, "observed": f, "expected": format!("> {prev}")}));
        }
        prev = f;
        c.outcome(f.to_bits());
    }
    l.flush_viol(&mut c);
    c.add(&sub, 256, l.ops + 256 * 256, l.preds + 256 * 256, 255);
    c.sample(pv::splitmix(ctx.seed ^ pv::fnv(sub.as_bytes())), || {
        let code = (pv::splitmix(ctx.seed) % 256) as u8;
        json!({"sub": sub, "code": code, "as_float": H::from_u8(code).to64(), "back": H::to_u8(H::from_u8(code))})
    });
    c.exhaustive(&sub, true, "all 256 8-bit hues: value c·360/256 (mod 360), u8→float→u8 identity, u8→u8 identity, bin interior c ± 1/4 step maps to c, the same on turns ±1, ±2, ±100, ±2900, Hue<u8> equality on all 256² pairs");
    total.merge(c);
}

pub fn check_u8_code<H: HueOps>(c: &mut Collector, code: u8, l: &mut Loc) {
    let mk = |obs: Value, exp: Value| json!({"sub": "u8-code", "hue": H::HUE, "ty": <H::T as Fl>::NAME, "input": code, "observed": obs, "expected": exp});
    let site = H::name();
    let f = H::from_u8(code);
    let want = code as f64 * 1.40625;
    // value: congruent to c·360/256 within ulp(value) + ulp(360)
    let e = circ_diff(f.to64(), want).abs();
    let tol = ulp_of(f) + u360::<H::T>();
    if !(e <= tol * GUARD) {
        c.violation(&format!("C11/u8-to-float/{site}"), e, || mk(json!(f.to64()), json!(want)));
    }
    let back = H::to_u8(f);
    if back != code {
        c.violation(&format!("C11/u8-roundtrip/{site}/u8->float->u8"), 1.0, || mk(json!({"as_float": f.to64(), "back": back}), json!(code)));
    }
    if H::u8_id(code) != code || H::u8_prim(code) != code {
        c.violation(&format!("C11/u8-roundtrip/{site}/u8->u8"), 1.0, || mk(json!([H::u8_id(code), H::u8_prim(code)]), json!(code)));
    }
    l.ops += 4;
    l.preds += 4;
    // interior of the bin and other turns, through the point oracle and explicitly
    for k in [0.0, 1.0, -1.0, 2.0, -2.0, 100.0, -100.0, 2900.0, -2900.0] {
        for off in [0.0, 0.25, -0.25] {
            let x = <H::T as Fl>::from64((code as f64 + off) * 1.40625 + 360.0 * k);
            let got = check_point::<H>(c, x, ALL, l);
            check_extras::<H>(c, x, l);
            if got != code {
                c.violation(&format!("C11/u8-bins/{site}/turn{}", if k == 0.0 { "=0" } else if k > 0.0 { ">0" } else { "<0" }), 1.0, || {
                    json!({"sub": "point", "hue": H::HUE, "ty": <H::T as Fl>::NAME, "input": hx(x), "value": x.to64(), "check": "u8-bins", "observed": got, "expected": code})
                });
            }
        }
    }
    for other in 0..=255u8 {
        if H::u8_eq(code, other) != (code == other) {
            c.violation(&format!("C11/u8-equality/{site}"), 1.0, || mk(json!({"other": other, "eq": H::u8_eq(code, other)}), json!(code == other)));
        }
    }
}

// ---------------------------------------------------------------------------------------
// cartesian

const RADII: [f64; 3] = [1.0, 1e-9, 1e4];

fn cart_class(a: f64, b: f64) -> &'static str {
    if a == 0.0 && b == 0.0 {
        "origin"
    } else if a == 0.0 || b == 0.0 {
        "axis"
    } else {
        "interior"
    }
}

/// from_cartesian(a, b) points in the direction of (a, b); its unit vector too.
pub fn check_cart<H: HueOps>(c: &mut Collector, a: H::T, b: H::T, l: &mut Loc) {
    let (a64, b64) = (a.to64(), b.to64());
    let radius = a64.hypot(b64);
    let cls = cart_class(a64, b64);
    let mk = |check: &str, obs: Value, exp: Value| json!({"sub": "cart", "hue": H::HUE, "ty": <H::T as Fl>::NAME, "input": [hx(a), hx(b)], "values": [a64, b64], "check": check, "observed": obs, "expected": exp});
    let r = pv::catch(|| {
        let h = H::from_cart(a, b);
        (h, H::into_cart(h))
    });
    l.n += 1;
    l.ops += 2;
    l.preds += 3;
    let (h, (ca, sa)) = match r {
        Ok(v) => v,
        Err(msg) => {
            c.violation(&format!("C11/panic/{}::from_cartesian/{cls}", H::name()), 1.0, || mk("panic", json!({"panic": msg}), json!("no panic")));
            return;
        }
    };
    if radius == 0.0 {
        c.note(&format!("from_cartesian(0,0)/{}", H::name()), json!(h.to64()));
        return;
    }
    // (A) angle: PI + atan2(−b, −a) in T, then to_degrees: <= ~3 ulp(2π) absolute in radians,
    //     i.e. < 4 ulp(360) in degrees; allow 32 ulp(360) (1e-3° for f32, 2e-12° for f64).
    let want = b64.atan2(a64).to_degrees();
    let e = circ_diff(h.to64(), want).abs();
    let tol = 32.0 * u360::<H::T>();
    c.ratio(&format!("cartesian/{}", H::name()), e / tol, || mk("angle", json!(h.to64()), json!(want)));
    if !(e <= tol) {
        c.violation(&format!("C11/cartesian-direction/{}::from_cartesian/{cls}", H::name()), e, || mk("angle", json!({"degrees": h.to64()}), json!({"degrees": want, "tol": tol})));
    }
    // (B) unit vector read back: direction error (radians) = (A) + |h_rad|·2^-23 + sin_cos rounding
    //     <= ~10 eps; allow 128 eps. Length 1 within 16 eps.
    let (ca, sa) = (ca.to64(), sa.to64());
    let ang = (a64 * sa - b64 * ca).atan2(a64 * ca + b64 * sa).abs();
    let tol_b = 128.0 * <H::T as Fl>::EPS;
    c.ratio(&format!("cartesian/{}", H::name()), ang / tol_b, || mk("unit-vector", json!([ca, sa]), json!([a64 / radius, b64 / radius])));
    if !(ang <= tol_b) {
        c.violation(&format!("C11/cartesian-direction/{}::into_cartesian∘from_cartesian/{cls}", H::name()), ang, || mk("unit-vector", json!({"unit": [ca, sa], "angle_error_rad": ang}), json!({"unit": [a64 / radius, b64 / radius], "tol_rad": tol_b})));
    }
    let len_err = (ca.hypot(sa) - 1.0).abs();
    if !(len_err <= 16.0 * <H::T as Fl>::EPS) {
        c.violation(&format!("C11/cartesian-unit-length/{}::into_cartesian/{cls}", H::name()), len_err, || mk("unit-length", json!([ca, sa]), json!("length 1 within 16 eps")));
    }
    c.outcome(h.bits64());
}

/// into_cartesian of a stored angle θ ∈ [−360, 720] is (cos θ, sin θ).
pub fn check_cart_angle<H: HueOps>(c: &mut Collector, th: H::T, l: &mut Loc) {
    let (ca, sa) = H::into_cart(th);
    let (ca, sa) = (ca.to64(), sa.to64());
    let t = th.to64().to_radians();
    let ang = (t.cos() * sa - t.sin() * ca).atan2(t.cos() * ca + t.sin() * sa).abs();
    // to_radians in T: |θ_rad|·eps (<= 12.6 eps) + sin_cos rounding (~eps); allow 128 eps
    let tol = 128.0 * <H::T as Fl>::EPS;
    l.n += 1;
    l.ops += 1;
    l.preds += 1;
    c.ratio(&format!("cartesian/{}", H::name()), ang / tol, || json!({"theta": th.to64(), "unit": [ca, sa]}));
    if !(ang <= tol) {
        c.violation(&format!("C11/cartesian-direction/{}::into_cartesian/{}", H::name(), class_of(th)), ang, || {
            json!({"sub": "cart-angle", "hue": H::HUE, "ty": <H::T as Fl>::NAME, "input": hx(th), "value": th.to64(), "observed": {"unit": [ca, sa], "angle_error_rad": ang}, "expected": {"unit": [t.cos(), t.sin()], "tol_rad": tol}})
        });
    }
}

pub fn cartesian<H: HueOps>(ctx: &Ctx, total: &mut Collector) {
    let sub = format!("cartesian/{}", H::name());
    if !ctx.wants(&sub) {
        return;
    }
    let n: i64 = ctx.tier.pick(360, 3600);
    let mut c = Collector::new();
    let mut l = Loc::default();
    let f = <H::T as Fl>::from64;
    for r in RADII {
        // the four axes exactly, with both signs of zero
        for (a, b) in [(r, 0.0), (0.0, r), (-r, 0.0), (0.0, -r), (r, -0.0), (-0.0, r), (-r, -0.0), (-0.0, -r)] {
            check_cart::<H>(&mut c, f(a), f(b), &mut l);
        }
        for i in 0..n {
            let th = (i as f64 * 360.0 / n as f64).to_radians();
            check_cart::<H>(&mut c, f(r * th.cos()), f(r * th.sin()), &mut l);
        }
    }
    check_cart::<H>(&mut c, f(0.0), f(0.0), &mut l);
    for i in -n..=2 * n {
        check_cart_angle::<H>(&mut c, f(i as f64 * 360.0 / n as f64), &mut l);
    }
    c.add(&sub, l.n, l.ops, l.preds, l.n - 1);
    c.sample(pv::splitmix(ctx.seed ^ pv::fnv(sub.as_bytes())), || {
        let th = ((pv::splitmix(ctx.seed) % n as u64) as f64 * 360.0 / n as f64).to_radians();
        let (a, b) = (f(th.cos()), f(th.sin()));
        let h = H::from_cart(a, b);
        json!({"sub": sub, "a": a.to64(), "b": b.to64(), "from_cartesian_degrees": h.to64(), "into_cartesian": [H::into_cart(h).0.to64(), H::into_cart(h).1.to64()]})
    });
    c.exhaustive(&sub, true, &format!("directions on a {}° grid over the full circle × radii {{1e-9, 1, 1e4}} + the four axes exactly (both signs of zero) + the origin: from_cartesian angle vs f64 atan2, unit vector read back vs input direction; into_cartesian of every grid angle in [-360°, 720°]", 360.0 / n as f64));
    total.merge(c);
}

// ---------------------------------------------------------------------------------------
// Add / Sub

pub fn check_arith<H: HueOps>(c: &mut Collector, x: H::T, y: H::T, l: &mut Loc) {
    let got = H::arith(x, y);
    let (s, d) = (H::tadd(x, y), H::tsub(x, y));
    let want = [s, s, s, d, d, d, s, s, s, d, d, d];
    l.n += 1;
    l.ops += 12;
    l.preds += 12;
    const NAMES: [&str; 12] = ["hue+hue", "hue+T", "T+hue", "hue-hue", "hue-T", "T-hue", "hue+=hue", "hue+=T", "T+=hue", "hue-=hue", "hue-=T", "T-=hue"];
    for i in 0..12 {
        if got[i].bits64() != want[i].bits64() {
            c.violation(&format!("C11/arith-on-raw-angles/{}/{}", H::name(), NAMES[i]), (got[i].to64() - want[i].to64()).abs().max(1e-300), || {
                json!({"sub": "arith", "hue": H::HUE, "ty": <H::T as Fl>::NAME, "input": [hx(x), hx(y)], "values": [x.to64(), y.to64()], "op": NAMES[i], "observed": got[i].to64(), "expected": want[i].to64()})
            });
        }
    }
}

pub fn arith<H: HueOps>(ctx: &Ctx, total: &mut Collector) {
    let sub = format!("arith/{}", H::name());
    if !ctx.wants(&sub) {
        return;
    }
    let mut pts: Vec<H::T> = pv::lattice::hues::<H::T>(7.5);
    for v in [0.0, -0.0, 1e-30, -1e-30, 0.1, -0.1, 1e-3, 123456.78, -123456.78, LIM, -LIM, 1048575.9, 359.99999, -359.99999, 1e5, -1e5, 36000.0, 0.703125] {
        pts.push(<H::T as Fl>::from64(v));
    }
    let mut c = Collector::new();
    let mut l = Loc::default();
    for &x in &pts {
        for &y in &pts {
            check_arith::<H>(&mut c, x, y, &mut l);
        }
        c.outcome(H::arith(x, pts[7])[5].bits64());
    }
    c.add(&sub, l.n, l.ops, l.preds, l.n);
    c.sample(pv::splitmix(ctx.seed ^ pv::fnv(sub.as_bytes())), || {
        let (x, y) = (pts[(pv::splitmix(ctx.seed) % pts.len() as u64) as usize], pts[(pv::splitmix(ctx.seed ^ 3) % pts.len() as u64) as usize]);
        json!({"sub": sub, "x": x.to64(), "y": y.to64(), "hue+hue": H::arith(x, y)[0].to64(), "hue-hue": H::arith(x, y)[3].to64()})
    });
    c.exhaustive(&sub, true, &format!("{0}×{0} pairs of a hue lattice (sector edges ± ulp in [-360,720], 7.5° steps, tiny, large, ±2^20) × 12 operator forms (Add/Sub/AddAssign/SubAssign, hue∘hue, hue∘T, T∘hue): bitwise equal to the operation on the raw angles", pts.len()));
    total.merge(c);
}
