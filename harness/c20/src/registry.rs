//! The type list: every (type, sub-check family) pair is one item; items run in parallel.
use crate::cases::{AlphaLike, Case, Prim};
use crate::checks::*;
use crate::mocks::*;
use crate::{Cfg, Stats};
use palette::blend::PreAlpha;
use palette::cam16::{Cam16UcsJab, Cam16UcsJmh};
use palette::encoding::{Linear, Srgb as SrgbStd};
use palette::hues::{Cam16Hue, LabHue, LuvHue, OklabHue, RgbHue};
use palette::lms::{BradfordLms, VonKriesLms};
use palette::luma::Luma;
use palette::rgb::Rgb;
use palette::white_point::{D50, D65};
use palette::{Alpha, Hsl, Hsluv, Hsv, Hwb, Lab, Lch, Lchuv, Luv, Okhsl, Okhsv, Okhwb, Oklab, Oklch, Xyz, Yxy};
use pv::{Collector, Value};
use serde::de::DeserializeOwned;
use serde::Serialize;
use std::collections::BTreeMap;

pub struct Item {
    pub name: String,
    /// sub-check family for `--only`
    pub sub: &'static str,
    pub run: fn(&Cfg, &mut Collector, &mut Stats),
    pub replay: fn(&mut Collector, &Value),
}

fn plain<T: Case>() -> Item {
    Item { name: T::name(), sub: "roundtrip", run: run_plain::<T>, replay: replay_plain::<T> }
}
fn alpha<W: AlphaLike>() -> Item {
    Item { name: W::name(), sub: "roundtrip", run: run_alpha::<W>, replay: replay_alpha::<W> }
}
fn as_array<T, P>() -> Item
where
    T: Case + palette::cast::ArrayCast + Clone,
    T::Array: Serialize + DeserializeOwned + AsRef<[P]> + Clone,
    P: Prim,
{
    Item { name: format!("as_array:{}", T::name()), sub: "as_array", run: run_as_array::<T, P>, replay: replay_as_array::<T, P> }
}
fn unsupported<P: Case + Clone>() -> Item
where
    Alpha<P, f32>: Case,
{
    Item { name: format!("unsupported:{}", P::name()), sub: "unsupported", run: run_unsupported::<P>, replay: replay_unsupported::<P> }
}

macro_rules! as_uint_item {
    ($v:ident, $label:expr, $ty:ty, $u:ty) => {{
        fn run(_cfg: &Cfg, c: &mut Collector, st: &mut Stats) {
            run_as_uint::<$ty, $u>($label, c, st)
        }
        fn replay(c: &mut Collector, _case: &Value) {
            let mut st = Stats::default();
            run_as_uint::<$ty, $u>($label, c, &mut st);
            println!("re-ran the complete as_uint item for {}; tallies: {:?}", $label, st.0);
        }
        $v.push(Item { name: format!("as_uint:{}", $label), sub: "as_uint", run, replay });
    }};
}

macro_rules! full {
    ($v:ident, $t:ident, $c:ty) => {
        // opaque colour, Alpha with the same component type
        $v.push(plain::<$c>());
        $v.push(alpha::<Alpha<$c, $t>>());
    };
}
macro_rules! pre {
    ($v:ident, $t:ident, $c:ty) => {
        $v.push(alpha::<PreAlpha<$c>>());
    };
}
/// as_array of the colour, of Alpha<colour> and (where given) PreAlpha<colour>
macro_rules! arr {
    ($v:ident, $t:ident, $c:ty) => {
        $v.push(as_array::<$c, $t>());
        $v.push(as_array::<Alpha<$c, $t>, $t>());
    };
    ($v:ident, $t:ident, $c:ty, pre) => {
        arr!($v, $t, $c);
        $v.push(as_array::<PreAlpha<$c>, $t>());
    };
}
macro_rules! float_items {
    ($v:ident, $t:ident) => {
        full!($v, $t, Rgb<SrgbStd, $t>);
        full!($v, $t, Rgb<Linear<SrgbStd>, $t>);
        full!($v, $t, Luma<SrgbStd, $t>);
        full!($v, $t, Luma<Linear<D65>, $t>);
        full!($v, $t, Hsl<SrgbStd, $t>);
        full!($v, $t, Hsv<SrgbStd, $t>);
        full!($v, $t, Hwb<SrgbStd, $t>);
        full!($v, $t, Lab<D65, $t>);
        full!($v, $t, Lab<D50, $t>);
        full!($v, $t, Lch<D65, $t>);
        full!($v, $t, Luv<D65, $t>);
        full!($v, $t, Lchuv<D65, $t>);
        full!($v, $t, Hsluv<D65, $t>);
        full!($v, $t, Xyz<D65, $t>);
        full!($v, $t, Yxy<D65, $t>);
        full!($v, $t, Oklab<$t>);
        full!($v, $t, Oklch<$t>);
        full!($v, $t, Okhsl<$t>);
        full!($v, $t, Okhsv<$t>);
        full!($v, $t, Okhwb<$t>);
        full!($v, $t, VonKriesLms<D65, $t>);
        full!($v, $t, BradfordLms<D65, $t>);
        full!($v, $t, Cam16UcsJab<$t>);
        full!($v, $t, Cam16UcsJmh<$t>);
        pre!($v, $t, Rgb<SrgbStd, $t>);
        pre!($v, $t, Rgb<Linear<SrgbStd>, $t>);
        pre!($v, $t, Luma<Linear<D65>, $t>);
        pre!($v, $t, Lab<D65, $t>);
        pre!($v, $t, Luv<D65, $t>);
        pre!($v, $t, Xyz<D65, $t>);
        pre!($v, $t, Yxy<D65, $t>);
        pre!($v, $t, Oklab<$t>);
        pre!($v, $t, VonKriesLms<D65, $t>);
        pre!($v, $t, Cam16UcsJab<$t>);
        $v.push(plain::<RgbHue<$t>>());
        $v.push(plain::<LabHue<$t>>());
        $v.push(plain::<LuvHue<$t>>());
        $v.push(plain::<OklabHue<$t>>());
        $v.push(plain::<Cam16Hue<$t>>());
    };
}

pub fn items() -> Vec<Item> {
    let mut v: Vec<Item> = vec![];
    float_items!(v, f32);
    float_items!(v, f64);
    // as_array: every f32 colour struct; a cross-section for f64 (the helper is generic over ArrayCast)
    arr!(v, f32, Rgb<SrgbStd, f32>, pre);
    arr!(v, f32, Rgb<Linear<SrgbStd>, f32>, pre);
    arr!(v, f32, Luma<SrgbStd, f32>);
    arr!(v, f32, Luma<Linear<D65>, f32>, pre);
    arr!(v, f32, Hsl<SrgbStd, f32>);
    arr!(v, f32, Hsv<SrgbStd, f32>);
    arr!(v, f32, Hwb<SrgbStd, f32>);
    arr!(v, f32, Lab<D65, f32>, pre);
    arr!(v, f32, Lch<D65, f32>);
    arr!(v, f32, Luv<D65, f32>, pre);
    arr!(v, f32, Lchuv<D65, f32>);
    arr!(v, f32, Hsluv<D65, f32>);
    arr!(v, f32, Xyz<D65, f32>, pre);
    arr!(v, f32, Yxy<D65, f32>, pre);
    arr!(v, f32, Oklab<f32>, pre);
    arr!(v, f32, Oklch<f32>);
    arr!(v, f32, Okhsl<f32>);
    arr!(v, f32, Okhsv<f32>);
    arr!(v, f32, Okhwb<f32>);
    arr!(v, f32, VonKriesLms<D65, f32>, pre);
    arr!(v, f32, Cam16UcsJab<f32>, pre);
    arr!(v, f32, Cam16UcsJmh<f32>);
    arr!(v, f64, Rgb<SrgbStd, f64>, pre);
    arr!(v, f64, Luma<SrgbStd, f64>);
    arr!(v, f64, Hsv<SrgbStd, f64>);
    arr!(v, f64, Lch<D65, f64>);
    arr!(v, f64, Oklab<f64>, pre);
    // integer components
    v.push(plain::<Rgb<SrgbStd, u8>>());
    v.push(alpha::<Alpha<Rgb<SrgbStd, u8>, u8>>());
    v.push(as_array::<Rgb<SrgbStd, u8>, u8>());
    v.push(as_array::<Alpha<Rgb<SrgbStd, u8>, u8>, u8>());
    v.push(plain::<Rgb<SrgbStd, u16>>());
    v.push(alpha::<Alpha<Rgb<SrgbStd, u16>, u16>>());
    v.push(as_array::<Alpha<Rgb<SrgbStd, u16>, u16>, u16>());
    v.push(plain::<Luma<SrgbStd, u8>>());
    v.push(alpha::<Alpha<Luma<SrgbStd, u8>, u8>>());
    v.push(as_array::<Alpha<Luma<SrgbStd, u8>, u8>, u8>());
    v.push(plain::<Luma<SrgbStd, u16>>());
    v.push(alpha::<Alpha<Luma<SrgbStd, u16>, u16>>());
    v.push(plain::<RgbHue<u8>>());
    // alpha of another type than the components
    v.push(alpha::<Alpha<Rgb<SrgbStd, u8>, f32>>());
    v.push(alpha::<Alpha<Rgb<SrgbStd, f32>, u8>>());
    v.push(alpha::<Alpha<Hsv<SrgbStd, f32>, f64>>());
    v.push(alpha::<Alpha<Lab<D65, f64>, f32>>());
    v.push(alpha::<Alpha<Luma<SrgbStd, f64>, u16>>());
    // outside the statement: a hue is not a colour; two alpha fields at one level
    v.push(alpha::<Alpha<RgbHue<f32>, f32>>());
    v.push(alpha::<Alpha<Alpha<Rgb<SrgbStd, f32>, f32>, f32>>());
    v.push(alpha::<Alpha<PreAlpha<Rgb<Linear<SrgbStd>, f32>>, f32>>());
    v.push(alpha::<Alpha<Alpha<MStruct, f32>, f32>>());
    v.push(alpha::<Alpha<Alpha<MTuple, f32>, f32>>());
    v.push(alpha::<Alpha<MHasAlpha, f32>>());
    v.push(alpha::<Alpha<Vec<f32>, f32>>());
    v.push(alpha::<Alpha<BTreeMap<String, f32>, f32>>());
    // mock colours of every serde shape
    macro_rules! mock_items {
        ($($m:ty),*) => {$( v.push(plain::<$m>()); v.push(alpha::<Alpha<$m, f32>>()); )*};
    }
    mock_items!(MStruct, MOne, MFour, MEmpty, MTuple, MTuple3, MNewtype, MUnit, MEmptyTuple, MRenamed, MRenameAll, MFlatten, MSkip, MDeny, MDefault, MSkipIf, MNestedAlpha, MMixed, (), (f32, f32), [f32; 3]);
    v.push(alpha::<Alpha<MStruct, f64>>());
    v.push(alpha::<Alpha<MStruct, u8>>());
    v.push(alpha::<Alpha<MFlatten, u8>>());
    v.push(alpha::<Alpha<MTuple, u8>>());
    v.push(alpha::<Alpha<MUnit, u8>>());
    // a colour flattened into an outer struct: strict for opaque colours only
    v.push(plain::<Outer<Rgb<SrgbStd, f32>>>());
    v.push(plain::<Outer<Hsv<SrgbStd, f64>>>());
    // declared unsupported
    macro_rules! unsupported_items {
        ($($p:ty),*) => {$( v.push(unsupported::<$p>()); v.push(alpha::<Alpha<$p, f32>>()); )*};
    }
    unsupported_items!(f32, f64, bool, i8, i16, i32, i64, i128, u8, u16, u32, u64, u128, char, String, Option<f32>, MEnum, MAny, MBytes);
    // as_uint
    use palette::luma::channels::{Al, La};
    use palette::rgb::channels::{Abgr, Argb, Bgra, Rgba};
    use palette::cast::Packed;
    as_uint_item!(v, "Packed<Rgba,u32>", Packed<Rgba, u32>, u32);
    as_uint_item!(v, "Packed<Argb,u32>", Packed<Argb, u32>, u32);
    as_uint_item!(v, "Packed<Bgra,u32>", Packed<Bgra, u32>, u32);
    as_uint_item!(v, "Packed<Abgr,u32>", Packed<Abgr, u32>, u32);
    as_uint_item!(v, "Packed<La,u16>", Packed<La, u16>, u16);
    as_uint_item!(v, "Packed<Al,u16>", Packed<Al, u16>, u16);
    as_uint_item!(v, "Packed<Rgba,u64>", Packed<Rgba, u64>, u64);
    as_uint_item!(v, "Luma<Srgb,u8>", Luma<SrgbStd, u8>, u8);
    as_uint_item!(v, "Luma<Srgb,u16>", Luma<SrgbStd, u16>, u16);
    as_uint_item!(v, "Luma<Srgb,u32>", Luma<SrgbStd, u32>, u32);
    as_uint_item!(v, "Luma<Srgb,u64>", Luma<SrgbStd, u64>, u64);
    as_uint_item!(v, "Luma<Srgb,u128>", Luma<SrgbStd, u128>, u128);
    {
        fn run(_cfg: &Cfg, c: &mut Collector, st: &mut Stats) {
            run_as_uint_doc(c, st)
        }
        fn replay(c: &mut Collector, _case: &Value) {
            run_as_uint_doc(c, &mut Stats::default())
        }
        v.push(Item { name: "as_uint:doc-example".into(), sub: "as_uint", run, replay });
    }
    // names must be unique: replay looks items up by name
    let mut seen = std::collections::HashSet::new();
    for it in &v {
        if !seen.insert(it.name.clone()) {
            eprintln!("MACHINERY-FAILURE: duplicate item name {}", it.name);
            std::process::exit(3);
        }
    }
    v
}
