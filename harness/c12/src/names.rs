//! Sub-check (c): named colours. Truth = the lines of codegen/res/svg_colors.txt of the tree
//! under test (embedded at build time) and the `pub const`s that exist in named/codegen.rs.
use crate::strings::StrEnum;
use crate::{NAMED_CONSTS, SVG_COLORS};
use palette::{named, Srgb};
use pv::{json, Collector, Ctx, Tier};
use std::collections::BTreeMap;

pub struct NameList {
    pub list: Vec<(String, [u8; 3])>,
    pub map: BTreeMap<String, [u8; 3]>,
}

/// Same format as codegen/src/named.rs reads: "name\tR, G, B"
pub fn parse_svg_list() -> NameList {
    let mut list = vec![];
    let mut map = BTreeMap::new();
    for (i, line) in SVG_COLORS.lines().enumerate() {
        let bad = |what: &str| -> ! {
            eprintln!("MACHINERY-FAILURE: svg_colors.txt line {}: {what}: {line:?}", i + 1);
            std::process::exit(3)
        };
        let mut parts = line.split('\t');
        let name = parts.next().unwrap_or_else(|| bad("no name"));
        let rgb = parts.next().unwrap_or_else(|| bad("no value"));
        let v: Vec<u8> = rgb.split(", ").map(|x| x.trim().parse::<u8>().unwrap_or_else(|_| bad("bad component"))).collect();
        if v.len() != 3 || name.is_empty() {
            bad("expected name and three components");
        }
        if map.insert(name.to_string(), [v[0], v[1], v[2]]).is_some() {
            bad("duplicate name");
        }
        list.push((name.to_string(), [v[0], v[1], v[2]]));
    }
    NameList { list, map }
}

/// `named::from_str(s)` is Some(value) exactly when `s` is a line of the list, with its value.
pub fn check_name_lookup(c: &mut Collector, nl: &NameList, s: &str, class: &str) -> bool {
    let obs = pv::catch(|| named::from_str(s));
    let exp = nl.map.get(s);
    let (kind, observed) = match (&obs, exp) {
        (Ok(None), None) => return false,
        (Ok(Some(v)), Some(e)) if [v.red, v.green, v.blue] == *e => return true,
        (Ok(Some(v)), Some(_)) => ("wrong-value", json!([v.red, v.green, v.blue])),
        (Ok(Some(v)), None) => ("found-unlisted", json!([v.red, v.green, v.blue])),
        (Ok(None), Some(_)) => ("not-found", json!(null)),
        (Err(msg), _) => ("panic", json!({"panic": msg})),
    };
    c.violation(&format!("C12/named/from_str/{}:{}", class, kind), 1.0, || {
        json!({"sub": "name", "class": class, "input": s, "input_bytes": crate::hexref::hex_bytes(s), "observed": observed, "expected": match exp { Some(e) => json!(e), None => json!("None (not a line of svg_colors.txt)") }})
    });
    obs.map(|o| o.is_some()).unwrap_or(false)
}

fn iter_checks<I, K>(c: &mut Collector, what: &str, mk: impl Fn() -> I, expected_sorted: &[K], ops: &mut u64)
where
    I: DoubleEndedIterator<Item = K> + ExactSizeIterator + Clone,
    K: Ord + Clone + core::fmt::Debug,
{
    let case = |trav: &str, obs: String, exp: String| json!({"sub": "named-tables", "input": format!("named::{what}() {trav}"), "observed": obs, "expected": exp});
    let diff = |got: &[K]| -> String {
        let missing: Vec<&K> = expected_sorted.iter().filter(|k| got.binary_search(k).is_err()).collect();
        let extra: Vec<&K> = got.iter().filter(|k| expected_sorted.binary_search(k).is_err()).collect();
        format!("{} items; missing {:?}; unlisted {:?}", got.len(), missing, extra)
    };
    let want = format!("exactly the {} lines of svg_colors.txt, each once", expected_sorted.len());
    // forward
    let fwd: Vec<K> = mk().collect();
    let mut s = fwd.clone();
    s.sort();
    *ops += 1;
    if s != expected_sorted {
        c.violation(&format!("C12/named/{what}()/forward"), 1.0, || case("forward", diff(&s), want.clone()));
    }
    // backward
    let bwd: Vec<K> = mk().rev().collect();
    let mut s = bwd.clone();
    s.sort();
    *ops += 1;
    if s != expected_sorted {
        c.violation(&format!("C12/named/{what}()/backward"), 1.0, || case("backward", diff(&s), want.clone()));
    }
    let mut r = bwd.clone();
    r.reverse();
    c.note(&format!("named/{what}()/backward-is-reverse-of-forward"), json!(r == fwd));
    // alternating front/back, len() at every step, fused at the end
    let mut it = mk();
    let mut got: Vec<K> = vec![];
    let mut remaining = it.len();
    *ops += 1;
    if remaining != expected_sorted.len() {
        c.violation(&format!("C12/named/{what}()/len"), 1.0, || case("len()", remaining.to_string(), expected_sorted.len().to_string()));
    }
    let mut front = true;
    let mut steps = 0usize;
    loop {
        let x = if front { it.next() } else { it.next_back() };
        front = !front;
        steps += 1;
        match x {
            Some(k) => {
                got.push(k);
                remaining = remaining.saturating_sub(1);
                if it.len() != remaining {
                    let l = it.len();
                    c.violation(&format!("C12/named/{what}()/len"), 1.0, || case("len() while iterating", l.to_string(), remaining.to_string()));
                    remaining = l;
                }
            }
            None => break,
        }
        if steps > 100_000 {
            c.violation(&format!("C12/named/{what}()/alternating"), 1.0, || case("alternating", "does not terminate within 100000 steps".into(), want.clone()));
            break;
        }
    }
    if it.next().is_some() || it.next_back().is_some() {
        c.violation(&format!("C12/named/{what}()/alternating"), 1.0, || case("after None", "yields again".into(), "None".into()));
    }
    got.sort();
    *ops += 1;
    if got != expected_sorted {
        c.violation(&format!("C12/named/{what}()/alternating"), 1.0, || case("alternating next/next_back", diff(&got), want.clone()));
    }
}

pub fn check_named_tables(c: &mut Collector, nl: &NameList) {
    let sub = "named/tables";
    let mut ops = 0u64;
    // every line is found under its name with that value
    for (name, _) in &nl.list {
        if name.chars().any(|ch| !ch.is_ascii_lowercase()) {
            c.warn(format!("svg_colors.txt name {name:?} is not all lower-case ASCII letters"));
        }
        check_name_lookup(c, nl, name, "listed-name");
        ops += 1;
    }
    // every constant that exists in named/codegen.rs
    let mut const_names = std::collections::BTreeSet::new();
    for (cname, val) in NAMED_CONSTS {
        let lower = cname.to_ascii_lowercase();
        const_names.insert(lower.clone());
        let v = [val.red, val.green, val.blue];
        let case = |obs: pv::Value, exp: pv::Value| json!({"sub": "named-tables", "input": format!("named::{cname}"), "observed": obs, "expected": exp});
        match nl.map.get(&lower) {
            None => c.violation("C12/named/constant/not-in-svg-list", 1.0, || case(json!(v), json!("no such line in svg_colors.txt"))),
            Some(e) if *e != v => c.violation("C12/named/constant/wrong-value", 1.0, || case(json!(v), json!(e))),
            _ => {}
        }
        ops += 1;
        match pv::catch(|| named::from_str(&lower)) {
            Ok(Some(f)) if f == *val => {}
            other => c.violation("C12/named/constant/not-found-under-lower-case-name", 1.0, || case(json!(format!("from_str({lower:?}) = {:?}", other.map(|o| o.map(|x| [x.red, x.green, x.blue])))), json!(v))),
        }
    }
    for (name, _) in &nl.list {
        if !const_names.contains(name) {
            c.violation("C12/named/constant/missing", 1.0, || json!({"sub": "named-tables", "input": name, "observed": "no pub const of that name in named/codegen.rs", "expected": format!("named::{}", name.to_ascii_uppercase())}));
        }
    }
    // iterators list exactly that set
    let mut e_entries: Vec<(String, [u8; 3])> = nl.list.clone();
    e_entries.sort();
    let mut e_names: Vec<String> = nl.list.iter().map(|x| x.0.clone()).collect();
    e_names.sort();
    let mut e_colors: Vec<[u8; 3]> = nl.list.iter().map(|x| x.1).collect();
    e_colors.sort();
    let r = pv::catch(|| {
        let mut cc = Collector::new();
        let mut o = 0u64;
        iter_checks(&mut cc, "entries", || named::entries().map(|(n, v): (&str, Srgb<u8>)| (n.to_string(), [v.red, v.green, v.blue])), &e_entries, &mut o);
        iter_checks(&mut cc, "names", || named::names().map(|n| n.to_string()), &e_names, &mut o);
        iter_checks(&mut cc, "colors", || named::colors().map(|v| [v.red, v.green, v.blue]), &e_colors, &mut o);
        (cc, o)
    });
    match r {
        Ok((cc, o)) => {
            c.merge(cc);
            ops += o;
        }
        Err(msg) => c.violation("C12/named/iterators/panic", 1.0, || json!({"sub": "named-tables", "input": "entries()/names()/colors()", "observed": {"panic": msg}, "expected": "no panic"})),
    }
    let n = nl.list.len() as u64 + NAMED_CONSTS.len() as u64;
    c.add(sub, n, ops, ops, n);
    c.exhaustive(sub, true, "every line of codegen/res/svg_colors.txt and every pub const of named/codegen.rs; entries()/names()/colors() forward, backward and alternating, len() at every step");
    c.note("named/list-size", json!(nl.list.len()));
    c.note("named/constants", json!(NAMED_CONSTS.len()));
    c.outcome(pv::fnv(format!("{:?}", named::entries().collect::<Vec<_>>().len()).as_bytes()));
}

/// every capitalisation of every name
pub fn case_variants(ctx: &Ctx, total: &mut Collector, nl: &NameList) {
    let sub = "named/case";
    if !ctx.wants(sub) {
        return;
    }
    let seed = ctx.seed;
    let c = pv::par::run_chunks(nl.list.len(), |i, c| {
        let name = nl.list[i].0.as_bytes();
        let len = name.len();
        let mut buf = vec![0u8; len];
        let mut n = 0u64;
        let mut found = 0u64;
        for mask in 0..(1u64 << len.min(40)) {
            for (j, b) in name.iter().enumerate() {
                buf[j] = if mask >> j & 1 == 1 { b.to_ascii_uppercase() } else { *b };
            }
            let s = core::str::from_utf8(&buf).unwrap();
            found += check_name_lookup(c, nl, s, "case-variant") as u64;
            n += 1;
            if mask % 65521 == 7 {
                c.sample(pv::splitmix(seed ^ mask ^ ((i as u64) << 40)), || json!({"sub": sub, "input": s, "found": named::from_str(s).is_some()}));
            }
        }
        c.outcome(pv::fnv(&[b'c', found as u8]));
        c.add(sub, n, n, n, n - 1);
    });
    total.merge(c);
    total.exhaustive(sub, true, "all 2^len capitalisations of every listed name (the all-lower-case one must be found, every other one only if itself listed)");
}

fn edit_alphabet() -> Vec<char> {
    let mut v: Vec<char> = ('a'..='z').collect();
    v.extend([' ', '-', '_', '\t', '\n', '\0', '0', '9', 'A', 'Z', '#', '\u{e9}']);
    v
}

fn edits1(s: &[char], alpha: &[char], out: &mut Vec<Vec<char>>) {
    let n = s.len();
    for p in 0..n {
        let mut v = s.to_vec();
        v.remove(p);
        out.push(v);
    }
    for p in 0..=n {
        for &a in alpha {
            let mut v = s.to_vec();
            v.insert(p, a);
            out.push(v);
        }
    }
    for p in 0..n {
        for &a in alpha {
            if a != s[p] {
                let mut v = s.to_vec();
                v[p] = a;
                out.push(v);
            }
        }
    }
    for p in 0..n.saturating_sub(1) {
        if s[p] != s[p + 1] {
            let mut v = s.to_vec();
            v.swap(p, p + 1);
            out.push(v);
        }
    }
}

/// single-character edits of every name (thorough: all pairs of edits)
pub fn near_misses(ctx: &Ctx, total: &mut Collector, nl: &NameList) {
    let sub = "named/edits";
    if !ctx.wants(sub) {
        return;
    }
    let alpha = edit_alphabet();
    let two = ctx.tier == Tier::Thorough;
    let seed = ctx.seed;
    let c = pv::par::run_chunks(nl.list.len(), |i, c| {
        let name: Vec<char> = nl.list[i].0.chars().collect();
        let mut e1 = vec![];
        edits1(&name, &alpha, &mut e1);
        let mut n = 0u64;
        let mut found = 0u64;
        let mut s = String::new();
        for (k, e) in e1.iter().enumerate() {
            s.clear();
            s.extend(e.iter());
            found += check_name_lookup(c, nl, &s, "edit-1") as u64;
            n += 1;
            if k % 211 == 5 {
                c.sample(pv::splitmix(seed ^ k as u64 ^ ((i as u64) << 32)), || json!({"sub": sub, "from": nl.list[i].0, "input": s, "found": named::from_str(&s).is_some()}));
            }
            if two {
                let mut e2 = vec![];
                edits1(e, &alpha, &mut e2);
                for x in &e2 {
                    s.clear();
                    s.extend(x.iter());
                    found += check_name_lookup(c, nl, &s, "edit-2") as u64;
                    n += 1;
                }
            }
        }
        c.outcome(pv::fnv(&[b'e', (found & 255) as u8, (found >> 8) as u8]));
        c.add(sub, n, n, n, n);
    });
    total.merge(c);
    total.exhaustive(
        sub,
        true,
        &format!(
            "every deletion, insertion and substitution over {} symbols (a-z, space, '-', '_', tab, newline, NUL, digits, capitals, '#', e-acute) and adjacent transposition of every listed name{}: found only if itself listed",
            alpha.len(),
            if two { ", and every sequence of two such edits" } else { "" }
        ),
    );
}

/// all short lower-case strings: found <=> listed
pub fn short_strings(ctx: &Ctx, total: &mut Collector, nl: &NameList) {
    let sub = "named/short";
    if !ctx.wants(sub) {
        return;
    }
    let max_len = ctx.tier.pick(5usize, 6usize);
    let letters: Vec<String> = ('a'..='z').map(|c| c.to_string()).collect();
    let alpha: Vec<&str> = letters.iter().map(|s| s.as_str()).collect();
    let en = StrEnum::new(&alpha);
    let jobs = en.jobs(0, max_len);
    let seed = ctx.seed;
    let c = pv::par::run_chunks(jobs.len(), |ji, c| {
        let mut found = 0u64;
        let n = en.run(jobs[ji], |s| {
            found += check_name_lookup(c, nl, s, "short-string") as u64;
        });
        if found > 0 {
            c.outcome(pv::fnv(&[b's', found as u8, ji as u8]));
        }
        if ji % 97 == 11 {
            c.sample(pv::splitmix(seed ^ ji as u64 ^ 0x5107), || {
                let mut last = String::new();
                en.run(jobs[ji], |s| {
                    if last.is_empty() || named::from_str(s).is_some() {
                        last = s.to_string();
                    }
                });
                json!({"sub": sub, "input": last, "found": named::from_str(&last).map(|v| [v.red, v.green, v.blue])})
            });
        }
        c.add(sub, n, n, n, found);
    });
    total.merge(c);
    total.exhaustive(sub, true, &format!("all strings of 0..={max_len} letters a-z: found <=> listed, with the listed value (non-trivial = the listed ones)"));
}
