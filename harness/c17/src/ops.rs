//! Operators on SIMD colours: lane independence (bitwise, lane-mix enumeration) and agreement
//! with the scalar operator of the same width. Which operator exists for which (type, vector)
//! is discovered by autoref-specialisation probes on the operator traits, like the edges.
//! Uniform shape: an operator maps a *state* (colour c, second colour d, scalar t) to up to 4
//! numbers (colour components, or a distance / mask in slot 0).
use crate::vect::{Vect, MAXN};
use core::marker::PhantomData;
use palette::blend::{Blend, PreAlpha, Premultiply};
use palette::bool_mask::HasBoolMask;
use palette::color_difference::{Ciede2000, DeltaE, EuclideanDistance, HyAb, Wcag21RelativeContrast};
use palette::{Clamp, ClampAssign, Darken, Desaturate, IsWithinBounds, Lighten, LightenAssign, Mix, MixAssign, Saturate, ShiftHue};
use pg::{Kind, Node};
use pv::fl::Fl;
use pv::{json, Collector, Ctx, Tier, Value};
use wide::{f32x4, f32x8, f64x2, f64x4};
pg::group_prelude!();

pub type OpFn<T> = fn([T; 3], [T; 3], T) -> [T; 4];

/// a mask as a number of the component type (bool -> all-ones / zero bits, vector masks as is)
pub trait MaskAs<T> {
    fn mask_as(self) -> T;
}
impl MaskAs<f32> for bool {
    fn mask_as(self) -> f32 {
        if self {
            f32::from_bits(u32::MAX)
        } else {
            0.0
        }
    }
}
impl MaskAs<f64> for bool {
    fn mask_as(self) -> f64 {
        if self {
            f64::from_bits(u64::MAX)
        } else {
            0.0
        }
    }
}
macro_rules! mask_as_self {
    ($($v:ty),*) => {$( impl MaskAs<$v> for $v { fn mask_as(self) -> $v { self } } )*};
}
mask_as_self!(f32x4, f32x8, f64x2, f64x4);

pub struct OpProbe<C, T>(pub PhantomData<(C, T)>);

fn col<C: Node<T>, T: Default>(c: C) -> [T; 4] {
    let t = c.to3();
    let [a, b, cc] = t;
    [a, b, cc, T::default()]
}
fn one<T: Default>(x: T) -> [T; 4] {
    [x, T::default(), T::default(), T::default()]
}

macro_rules! op_probe {
    ($yes:ident, $no:ident, $get:ident, [$($bound:tt)*], |$c:ident, $d:ident, $t:ident| $body:expr) => {
        pub trait $yes<T> {
            fn $get(&self) -> Option<OpFn<T>>;
        }
        pub trait $no<T> {
            fn $get(&self) -> Option<OpFn<T>>;
        }
        impl<C, T> $yes<T> for OpProbe<C, T>
        where
            C: Node<T>,
            T: Copy + Default,
            $($bound)*
        {
            fn $get(&self) -> Option<OpFn<T>> {
                Some(|$c, $d, $t| $body)
            }
        }
        impl<C, T> $no<T> for &OpProbe<C, T> {
            fn $get(&self) -> Option<OpFn<T>> {
                None
            }
        }
    };
}

op_probe!(MixY, MixN, g_mix, [C: Mix<Scalar = T>,], |c, d, t| col(C::from3(c).mix(C::from3(d), t)));
op_probe!(MixAY, MixAN, g_mix_assign, [C: MixAssign<Scalar = T>,], |c, d, t| {
    let mut x = C::from3(c);
    x.mix_assign(C::from3(d), t);
    col(x)
});
op_probe!(LigY, LigN, g_lighten, [C: Lighten<Scalar = T>,], |c, d, t| col(C::from3(c).lighten(t)));
op_probe!(LigFY, LigFN, g_lighten_fixed, [C: Lighten<Scalar = T>,], |c, d, t| col(C::from3(c).lighten_fixed(t)));
op_probe!(LigAY, LigAN, g_lighten_assign, [C: LightenAssign<Scalar = T>,], |c, d, t| {
    let mut x = C::from3(c);
    x.lighten_assign(t);
    col(x)
});
op_probe!(DarY, DarN, g_darken, [C: Darken<Scalar = T>,], |c, d, t| col(C::from3(c).darken(t)));
op_probe!(DarFY, DarFN, g_darken_fixed, [C: Darken<Scalar = T>,], |c, d, t| col(C::from3(c).darken_fixed(t)));
op_probe!(SatY, SatN, g_saturate, [C: Saturate<Scalar = T>,], |c, d, t| col(C::from3(c).saturate(t)));
op_probe!(SatFY, SatFN, g_saturate_fixed, [C: Saturate<Scalar = T>,], |c, d, t| col(C::from3(c).saturate_fixed(t)));
op_probe!(DesY, DesN, g_desaturate, [C: Desaturate<Scalar = T>,], |c, d, t| col(C::from3(c).desaturate(t)));
op_probe!(DesFY, DesFN, g_desaturate_fixed, [C: Desaturate<Scalar = T>,], |c, d, t| col(C::from3(c).desaturate_fixed(t)));
op_probe!(ShY, ShN, g_shift_hue, [C: ShiftHue<Scalar = T>,], |c, d, t| col(C::from3(c).shift_hue(t)));
op_probe!(ClY, ClN, g_clamp, [C: Clamp,], |c, d, t| col(C::from3(c).clamp()));
op_probe!(ClAY, ClAN, g_clamp_assign, [C: ClampAssign,], |c, d, t| {
    let mut x = C::from3(c);
    x.clamp_assign();
    col(x)
});
op_probe!(WbY, WbN, g_is_within_bounds, [C: IsWithinBounds, <C as HasBoolMask>::Mask: MaskAs<T>,], |c, d, t| one(C::from3(c).is_within_bounds().mask_as()));
op_probe!(AddY, AddN, g_add, [C: core::ops::Add<C, Output = C>,], |c, d, t| col(C::from3(c) + C::from3(d)));
op_probe!(SubY, SubN, g_sub, [C: core::ops::Sub<C, Output = C>,], |c, d, t| col(C::from3(c) - C::from3(d)));
op_probe!(MulY, MulN, g_mul, [C: core::ops::Mul<C, Output = C>,], |c, d, t| col(C::from3(c) * C::from3(d)));
op_probe!(DivY, DivN, g_div, [C: core::ops::Div<C, Output = C>,], |c, d, t| col(C::from3(c) / C::from3(d)));
op_probe!(AddSY, AddSN, g_add_scalar, [C: core::ops::Add<T, Output = C>,], |c, d, t| col(C::from3(c) + t));
op_probe!(SubSY, SubSN, g_sub_scalar, [C: core::ops::Sub<T, Output = C>,], |c, d, t| col(C::from3(c) - t));
op_probe!(MulSY, MulSN, g_mul_scalar, [C: core::ops::Mul<T, Output = C>,], |c, d, t| col(C::from3(c) * t));
op_probe!(DivSY, DivSN, g_div_scalar, [C: core::ops::Div<T, Output = C>,], |c, d, t| col(C::from3(c) / t));
op_probe!(BMulY, BMulN, g_blend_multiply, [C: Blend,], |c, d, t| col(C::from3(c).multiply(C::from3(d))));
op_probe!(BScrY, BScrN, g_blend_screen, [C: Blend,], |c, d, t| col(C::from3(c).screen(C::from3(d))));
op_probe!(BOvY, BOvN, g_blend_overlay, [C: Blend,], |c, d, t| col(C::from3(c).overlay(C::from3(d))));
op_probe!(BDaY, BDaN, g_blend_darken, [C: Blend,], |c, d, t| col(Blend::darken(C::from3(c), C::from3(d))));
op_probe!(BLiY, BLiN, g_blend_lighten, [C: Blend,], |c, d, t| col(Blend::lighten(C::from3(c), C::from3(d))));
op_probe!(BDoY, BDoN, g_blend_dodge, [C: Blend,], |c, d, t| col(C::from3(c).dodge(C::from3(d))));
op_probe!(BBuY, BBuN, g_blend_burn, [C: Blend,], |c, d, t| col(C::from3(c).burn(C::from3(d))));
op_probe!(BHlY, BHlN, g_blend_hard_light, [C: Blend,], |c, d, t| col(C::from3(c).hard_light(C::from3(d))));
op_probe!(BSlY, BSlN, g_blend_soft_light, [C: Blend,], |c, d, t| col(C::from3(c).soft_light(C::from3(d))));
op_probe!(BDiY, BDiN, g_blend_difference, [C: Blend,], |c, d, t| col(Blend::difference(C::from3(c), C::from3(d))));
op_probe!(BExY, BExN, g_blend_exclusion, [C: Blend,], |c, d, t| col(C::from3(c).exclusion(C::from3(d))));
op_probe!(PreY, PreN, g_premultiply, [C: Premultiply<Scalar = T>,], |c, d, t| {
    let p = C::from3(c).premultiply(t);
    let mut o = col(p.color);
    o[3] = p.alpha;
    o
});
op_probe!(UnpY, UnpN, g_unpremultiply, [C: Premultiply<Scalar = T>,], |c, d, t| {
    let (cc, a) = C::unpremultiply(PreAlpha { color: C::from3(c), alpha: t });
    let mut o = col(cc);
    o[3] = a;
    o
});
op_probe!(EuY, EuN, g_distance_squared, [C: EuclideanDistance<Scalar = T>,], |c, d, t| one(C::from3(c).distance_squared(C::from3(d))));
op_probe!(DeY, DeN, g_delta_e, [C: DeltaE<Scalar = T>,], |c, d, t| one(C::from3(c).delta_e(C::from3(d))));
op_probe!(HyY, HyN, g_hybrid_distance, [C: HyAb<Scalar = T>,], |c, d, t| one(C::from3(c).hybrid_distance(C::from3(d))));
op_probe!(CieY, CieN, g_ciede2000, [C: Ciede2000<Scalar = T>,], |c, d, t| one(Ciede2000::difference(C::from3(c), C::from3(d))));
op_probe!(WcY, WcN, g_relative_contrast, [C: Wcag21RelativeContrast<Scalar = T>,], |c, d, t| one(C::from3(c).relative_contrast(C::from3(d))));

macro_rules! all_ops {
    ($C:ty, $T:ty) => {{
        let p = OpProbe::<$C, $T>(PhantomData);
        let v: Vec<(&'static str, Option<OpFn<$T>>)> = vec![
            ("mix", (&p).g_mix()),
            ("mix_assign", (&p).g_mix_assign()),
            ("lighten", (&p).g_lighten()),
            ("lighten_fixed", (&p).g_lighten_fixed()),
            ("lighten_assign", (&p).g_lighten_assign()),
            ("darken", (&p).g_darken()),
            ("darken_fixed", (&p).g_darken_fixed()),
            ("saturate", (&p).g_saturate()),
            ("saturate_fixed", (&p).g_saturate_fixed()),
            ("desaturate", (&p).g_desaturate()),
            ("desaturate_fixed", (&p).g_desaturate_fixed()),
            ("shift_hue", (&p).g_shift_hue()),
            ("clamp", (&p).g_clamp()),
            ("clamp_assign", (&p).g_clamp_assign()),
            ("is_within_bounds", (&p).g_is_within_bounds()),
            ("add", (&p).g_add()),
            ("sub", (&p).g_sub()),
            ("mul", (&p).g_mul()),
            ("div", (&p).g_div()),
            ("add_scalar", (&p).g_add_scalar()),
            ("sub_scalar", (&p).g_sub_scalar()),
            ("mul_scalar", (&p).g_mul_scalar()),
            ("div_scalar", (&p).g_div_scalar()),
            ("blend_multiply", (&p).g_blend_multiply()),
            ("blend_screen", (&p).g_blend_screen()),
            ("blend_overlay", (&p).g_blend_overlay()),
            ("blend_darken", (&p).g_blend_darken()),
            ("blend_lighten", (&p).g_blend_lighten()),
            ("blend_dodge", (&p).g_blend_dodge()),
            ("blend_burn", (&p).g_blend_burn()),
            ("blend_hard_light", (&p).g_blend_hard_light()),
            ("blend_soft_light", (&p).g_blend_soft_light()),
            ("blend_difference", (&p).g_blend_difference()),
            ("blend_exclusion", (&p).g_blend_exclusion()),
            ("premultiply", (&p).g_premultiply()),
            ("unpremultiply", (&p).g_unpremultiply()),
            ("distance_squared", (&p).g_distance_squared()),
            ("delta_e", (&p).g_delta_e()),
            ("hybrid_distance", (&p).g_hybrid_distance()),
            ("ciede2000", (&p).g_ciede2000()),
            ("relative_contrast", (&p).g_relative_contrast()),
        ];
        v
    }};
}

pub struct OpType<V: Vect> {
    pub name: &'static str,
    pub kind: Kind,
    /// (operator, vector form, scalar form)
    pub ops: Vec<(&'static str, Option<OpFn<V>>, Option<OpFn<V::S>>)>,
}

macro_rules! op_type {
    ($name:literal, $kind:expr, $CV:ty, $CS:ty, $V:ty, $S:ty) => {{
        fn t() -> OpType<$V> {
            let v = all_ops!($CV, $V);
            let s = all_ops!($CS, $S);
            OpType { name: $name, kind: $kind, ops: v.into_iter().zip(s).map(|(a, b)| (a.0, a.1, b.1)).collect() }
        }
        t()
    }};
}

macro_rules! op_types {
    ($fname:ident, $V:ty, $S:ty) => {
        pub fn $fname() -> Vec<OpType<$V>> {
            vec![
                op_type!("Srgb", K::Rgb(R::SRGB), Rgb<encoding::Srgb, $V>, Rgb<encoding::Srgb, $S>, $V, $S),
                op_type!("LinSrgb", K::Rgb(R::LIN_SRGB), Rgb<Linear<encoding::Srgb>, $V>, Rgb<Linear<encoding::Srgb>, $S>, $V, $S),
                op_type!("Hsv<Srgb>", K::Hsv(R::SRGB), Hsv<encoding::Srgb, $V>, Hsv<encoding::Srgb, $S>, $V, $S),
                op_type!("Hsl<Srgb>", K::Hsl(R::SRGB), Hsl<encoding::Srgb, $V>, Hsl<encoding::Srgb, $S>, $V, $S),
                op_type!("Hwb<Srgb>", K::Hwb(R::SRGB), Hwb<encoding::Srgb, $V>, Hwb<encoding::Srgb, $S>, $V, $S),
                op_type!("Lab", K::Lab(Wp::D65), Lab<wp::D65, $V>, Lab<wp::D65, $S>, $V, $S),
                op_type!("Lch", K::Lch(Wp::D65), Lch<wp::D65, $V>, Lch<wp::D65, $S>, $V, $S),
                op_type!("Oklab", K::Oklab, Oklab<$V>, Oklab<$S>, $V, $S),
                op_type!("Oklch", K::Oklch, Oklch<$V>, Oklch<$S>, $V, $S),
                op_type!("Xyz", K::Xyz(Wp::D65), Xyz<wp::D65, $V>, Xyz<wp::D65, $S>, $V, $S),
                op_type!("Luma<Srgb>", K::Luma(R::SRGB), Luma<encoding::Srgb, $V>, Luma<encoding::Srgb, $S>, $V, $S),
            ]
        }
    };
}
op_types!(types_f32x4, f32x4, f32);
op_types!(types_f32x8, f32x8, f32);
op_types!(types_f64x2, f64x2, f64);
op_types!(types_f64x4, f64x4, f64);

// ---------------------------------------------------------------------------------------
// states

pub type State<S> = ([S; 3], [S; 3], S);

fn t3<S: Fl>(a: f64, b: f64, c: f64) -> [S; 3] {
    [S::from64(a), S::from64(b), S::from64(c)]
}

/// colours of a type in its own coordinates: in range, on the range ends, both sides of the
/// branch points of the operators (blend: 0.25, 0.5; clamp: range ends; hwb: w + b = 1), out of range
fn colours<S: Fl>(kind: Kind, full: bool) -> (Vec<[S; 3]>, Vec<[S; 3]>) {
    let (mut c, d): (Vec<[S; 3]>, Vec<[S; 3]>);
    let half = S::from64(0.5);
    let q = S::from64(0.25);
    match kind {
        Kind::Rgb(_) | Kind::Xyz(_) => {
            c = vec![t3(0.0, 0.0, 0.0), t3(1.0, 1.0, 1.0), t3(0.8, 0.5, 0.2), t3(0.1, 0.6, 0.3), [q, half, S::from64(0.75)], [q.down(), half.up(), S::from64(1.0).down()], t3(-0.2, 0.5, 1.3), t3(0.04045, 0.0031308, 0.2)];
            if full {
                c.extend([[q.up(), half.down(), S::from64(1.0).up()], t3(1e-9, 0.999, 0.5), t3(0.5, 0.5, 0.5), t3(-0.0, 2.0, -1.0), t3(0.2, 0.9, 0.6), t3(0.7, 0.1, 0.1), t3(0.3, 0.3, 0.9), t3(0.0, 1.0, 0.5)]);
            }
            d = if full { vec![t3(0.6, 0.25, 0.5), t3(0.0, 1.0, 0.3), t3(0.2, 0.7, 1.1)] } else { vec![t3(0.6, 0.25, 0.5), t3(0.0, 1.0, 0.3)] };
        }
        Kind::Luma(_) => {
            c = [0.0, 1.0, 0.25, 0.5, 0.04045, 0.8, -0.2, 1.3].iter().map(|&x| t3(x, 0.0, 0.0)).collect();
            if full {
                c.extend([q.down(), q.up(), half.down(), half.up()].iter().map(|&x| [x, S::from64(0.0), S::from64(0.0)]));
            }
            d = vec![t3(0.6, 0.0, 0.0), t3(0.1, 0.0, 0.0)];
        }
        Kind::Hsv(_) | Kind::Hsl(_) | Kind::Hwb(_) => {
            let hwb = matches!(kind, Kind::Hwb(_));
            c = vec![t3(0.0, 0.0, 0.0), t3(120.0, 1.0, if hwb { 0.0 } else { 1.0 }), t3(30.0, 0.6, 0.3), t3(350.0, 0.2, 0.7), t3(-170.0, 0.5, 0.5), t3(540.0, 0.25, 0.75), t3(200.0, -0.2, 0.5), t3(200.0, 0.7, 1.3)];
            if full {
                c.extend([t3(180.0, 0.5, 0.5), t3(0.0, 1.0, 1.0), t3(60.0, 1e-9, 0.999), t3(300.0, 0.9, 0.05), t3(90.0, 0.6, 0.6), t3(179.99, 0.3, 0.1), t3(10.0, 0.0, 1.0), t3(10.0, 1.2, -0.1)]);
            }
            d = if full { vec![t3(210.0, 0.5, 0.4), t3(10.0, 0.9, 0.1), t3(30.0 + 180.0, 0.1, 0.2)] } else { vec![t3(210.0, 0.5, 0.4), t3(10.0, 0.9, 0.1)] };
        }
        Kind::Lab(_) => {
            c = vec![t3(0.0, 0.0, 0.0), t3(100.0, 0.0, 0.0), t3(50.0, 40.0, 30.0), t3(70.0, -60.0, 20.0), t3(30.0, 10.0, -80.0), t3(50.0, -40.0, -30.0), t3(-10.0, 0.0, 5.0), t3(120.0, 130.0, -140.0), t3(40.0, 29.5, 5.2)];
            if full {
                c.extend([t3(50.0, 2.5, 0.0), t3(50.0, 0.0, -2.5), t3(60.0, -34.0, 36.0), t3(35.0, 1.0, -1.0), t3(90.0, 20.0, 90.0), t3(10.0, 30.0, 10.0), t3(50.0, 1e-7, 0.0), t3(50.0, 127.0, -128.0)]);
            }
            d = if full { vec![t3(60.0, 20.0, -10.0), t3(20.0, -30.0, 40.0), t3(50.0, 3.0, -3.0)] } else { vec![t3(60.0, 20.0, -10.0), t3(20.0, -30.0, 40.0)] };
        }
        Kind::Lch(_) => {
            c = vec![t3(0.0, 0.0, 0.0), t3(100.0, 0.0, 0.0), t3(50.0, 50.0, 36.87), t3(70.0, 63.0, 161.0), t3(30.0, 80.0, -83.0), t3(50.0, 50.0, 216.87), t3(-10.0, 5.0, 90.0), t3(120.0, 190.0, 540.0), t3(40.0, 30.0, 10.0)];
            if full {
                c.extend([t3(50.0, 2.5, 0.0), t3(50.0, 2.5, 270.0), t3(60.0, 49.5, 133.4), t3(35.0, 1.4, 315.0), t3(90.0, 92.0, 77.5), t3(10.0, 31.0, 18.4), t3(50.0, -5.0, 10.0), t3(50.0, 128.0, 359.999)]);
            }
            d = if full { vec![t3(60.0, 22.0, 333.0), t3(20.0, 50.0, 127.0), t3(50.0, 4.0, 36.87 + 180.0)] } else { vec![t3(60.0, 22.0, 333.0), t3(20.0, 50.0, 127.0)] };
        }
        Kind::Oklab => {
            c = vec![t3(0.0, 0.0, 0.0), t3(1.0, 0.0, 0.0), t3(0.5, 0.1, 0.08), t3(0.7, -0.15, 0.05), t3(0.3, 0.03, -0.2), t3(0.5, -0.1, -0.08), t3(-0.1, 0.0, 0.01), t3(1.2, 0.3, -0.3)];
            if full {
                c.extend([t3(0.5, 0.01, 0.0), t3(0.5, 0.0, -0.01), t3(0.6, -0.09, 0.09), t3(0.9, 0.05, 0.2), t3(0.1, 0.08, 0.03), t3(0.5, 1e-9, 0.0)]);
            }
            d = vec![t3(0.6, 0.05, -0.03), t3(0.2, -0.08, 0.1)];
        }
        Kind::Oklch => {
            c = vec![t3(0.0, 0.0, 0.0), t3(1.0, 0.0, 0.0), t3(0.5, 0.13, 38.0), t3(0.7, 0.16, 161.0), t3(0.3, 0.2, -83.0), t3(0.5, 0.13, 218.0), t3(-0.1, 0.01, 90.0), t3(1.2, 0.42, 540.0)];
            if full {
                c.extend([t3(0.5, 0.01, 0.0), t3(0.5, 0.01, 270.0), t3(0.6, 0.127, 135.0), t3(0.9, 0.2, 76.0), t3(0.1, 0.085, 20.0), t3(0.5, -0.05, 10.0)]);
            }
            d = vec![t3(0.6, 0.06, 329.0), t3(0.2, 0.13, 128.0)];
        }
        _ => {
            c = vec![t3(0.2, 0.3, 0.4)];
            d = vec![t3(0.5, 0.5, 0.5)];
        }
    }
    (c, d)
}

/// factors (mix/lighten/saturate), degrees (shift_hue), alpha (premultiply), scalar operands
fn factors<S: Fl>(full: bool) -> Vec<S> {
    let mut v: Vec<S> = [0.0, 1.0, 0.25, -0.5, 1.5, 30.0].iter().map(|&x| S::from64(x)).collect();
    if full {
        v.extend([-0.0, 0.5, 180.0, -400.0].iter().map(|&x| S::from64(x)));
        v.push(S::from64(1.0).down());
    }
    v
}

/// hue-seam product for the SIMD-vs-scalar comparison (linear cost): both hues over the multiples of
/// 90° in ±540°, the neighbours of ±180° and two generic angles, so that every signed hue difference
/// k·90° (in particular exactly ±180°, where "the shorter way round" flips) occurs, x every factor
pub fn seam_states<S: Fl>(kind: Kind, full: bool) -> Vec<State<S>> {
    let hue_slot = match kind {
        Kind::Hsv(_) | Kind::Hsl(_) | Kind::Hwb(_) => 0,
        Kind::Lch(_) | Kind::Oklch => 2,
        _ => return vec![],
    };
    let mut hs: Vec<S> = (-6..=6).map(|k| S::from64(k as f64 * 90.0)).collect();
    hs.extend([S::from64(180.0).up(), S::from64(180.0).down(), S::from64(-180.0).up(), S::from64(-180.0).down(), S::from64(30.0), S::from64(-100.0)]);
    if full {
        hs.extend([S::from64(45.0), S::from64(225.0), S::from64(359.5), S::from64(0.5), S::from64(720.0), S::from64(-0.0)]);
    }
    let (c, d) = colours::<S>(kind, false);
    let (c0, d0) = (c[2], d[0]);
    let f = factors::<S>(full);
    let mut out = vec![];
    for &h1 in &hs {
        for &h2 in &hs {
            for &t in &f {
                let (mut x, mut y) = (c0, d0);
                x[hue_slot] = h1;
                y[hue_slot] = h2;
                out.push((x, y, t));
            }
        }
    }
    out
}

pub fn states<S: Fl>(kind: Kind, full: bool) -> Vec<State<S>> {
    let (c, d) = colours::<S>(kind, full);
    let f = factors::<S>(full);
    let mut out = vec![];
    for cc in &c {
        for dd in &d {
            for t in &f {
                out.push((*cc, *dd, *t));
            }
        }
    }
    out
}

// ---------------------------------------------------------------------------------------

fn pack_states<V: Vect>(st: &[State<V::S>]) -> ([V; 3], [V; 3], V) {
    let c: Vec<[V::S; 3]> = st.iter().map(|s| s.0).collect();
    let d: Vec<[V::S; 3]> = st.iter().map(|s| s.1).collect();
    let mut t = [<V::S>::default(); MAXN];
    for (i, s) in st.iter().enumerate() {
        t[i] = s.2;
    }
    (crate::vect::pack3::<V>(&c), crate::vect::pack3::<V>(&d), V::from_lanes(&t[..V::N]))
}
fn lanes4<V: Vect>(v: [V; 4]) -> [[V::S; 4]; MAXN] {
    let l = [v[0].lanes(), v[1].lanes(), v[2].lanes(), v[3].lanes()];
    core::array::from_fn(|i| [l[0][i], l[1][i], l[2][i], l[3][i]])
}
pub fn run_v<V: Vect>(f: OpFn<V>, st: &[State<V::S>]) -> Result<[[V::S; 4]; MAXN], String> {
    pv::catch(|| {
        let (c, d, t) = pack_states::<V>(st);
        lanes4::<V>(f(c, d, t))
    })
}
fn same4<S: Fl>(a: [S; 4], b: [S; 4]) -> bool {
    (0..4).all(|k| crate::conv::same_bits(a[k], b[k]))
}
fn hex_state<S: Fl>(s: &State<S>) -> Vec<String> {
    s.0.iter().chain(s.1.iter()).chain(core::iter::once(&s.2)).map(|x| format!("{:#x}", x.bits64())).collect()
}
fn val_state<S: Fl>(s: &State<S>) -> Value {
    json!({"c": [s.0[0].to64(), s.0[1].to64(), s.0[2].to64()], "d": [s.1[0].to64(), s.1[1].to64(), s.1[2].to64()], "t": s.2.to64()})
}
pub fn parse_state<S: Fl>(v: &Value) -> State<S> {
    let a: Vec<u64> = v.as_array().map(|a| a.iter().map(|x| u64::from_str_radix(x.as_str().unwrap_or("0").trim_start_matches("0x"), 16).unwrap_or(0)).collect()).unwrap_or_default();
    let g = |i: usize| S::from_bits64(a[i]);
    ([g(0), g(1), g(2)], [g(3), g(4), g(5)], g(6))
}
fn f4<S: Fl>(v: [S; 4]) -> Vec<Value> {
    v.iter().map(|x| pv::report::fnum(x.to64())).collect()
}
fn h4<S: Fl>(v: [S; 4]) -> Vec<String> {
    v.iter().map(|x| format!("{:#x}", x.bits64())).collect()
}

/// lane-mix for one operator: x in `lane`, y elsewhere; all lanes vs the splat results
pub fn check_op_mix<V: Vect>(ty: &str, op: &str, f: OpFn<V>, x: &State<V::S>, y: &State<V::S>, lane: usize, rx: &[[V::S; 4]; MAXN], ry: &[[V::S; 4]; MAXN], c: &mut Collector) -> (u64, bool) {
    let mut st = [*y; MAXN];
    st[lane] = *x;
    let sig = |what: &str| format!("C17/operator-lane-independence/{}/{}.{}/{}", V::NAME, ty, op, what);
    let mk = |obs: Value, exp: Value| json!({"sub": "operators", "kind": "lane-mix", "vec": V::NAME, "type": ty, "op": op, "lane": lane, "x": hex_state(x), "y": hex_state(y), "input": {"x": val_state(x), "y": val_state(y)}, "observed": obs, "expected": exp});
    match run_v::<V>(f, &st[..V::N]) {
        Err(msg) => {
            c.violation(&sig("panic"), 1.0, || mk(json!({"panic": msg}), json!("no panic")));
            (0, false)
        }
        Ok(out) => {
            let mut h = 0u64;
            for j in 0..V::N {
                let exp = if j == lane { rx[j] } else { ry[j] };
                for k in 0..4 {
                    h = pv::splitmix(h ^ out[j][k].bits64());
                }
                if !same4(out[j], exp) {
                    c.violation(&sig(if j == lane { "x-lane" } else { "other-lane" }), 1.0, || mk(json!({"lane": j, "bits": h4(out[j]), "value": f4(out[j])}), json!({"splat_lane": j, "bits": h4(exp), "value": f4(exp)})));
                }
            }
            c.outcome(h);
            (V::N as u64, !same4(rx[lane], ry[lane]))
        }
    }
}

/// component scales for the native comparison of operator results
fn scales(kind: Kind) -> [f64; 4] {
    match kind {
        Kind::Hsv(_) | Kind::Hsl(_) | Kind::Hwb(_) => [360.0, 1.0, 1.0, 1.0],
        Kind::Lab(_) => [100.0, 128.0, 128.0, 1.0],
        Kind::Lch(_) => [100.0, 128.0, 360.0, 1.0],
        Kind::Oklch => [1.0, 0.4, 360.0, 1.0],
        _ => [1.0, 1.0, 1.0, 1.0],
    }
}
/// Relative tolerance of the SIMD-vs-scalar comparison of an operator result component:
/// |Δ| <= tol * max(scale of the component, |expected|). Plain arithmetic operators agree bitwise
/// on the pinned tree; delta_e/CIEDE2000 of Lch and the WCAG contrast go through `wide`'s
/// sin_cos/atan2/exp/pow kernels (observed: 1.3e-7 relative in f32, 1.9e-16 in f64).
pub fn tol_op<S: Fl>(_op: &str) -> f64 {
    if S::NAME == "f32" {
        1e-5
    } else {
        1e-12
    }
}
/// CIEDE2000 is discontinuous where the two hues are opposite (|Δh'| = 180°, Sharma et al. 2005
/// §"discontinuities"): there the atan2 kernels may legitimately land on different sides
fn ciede_discontinuity<S: Fl>(kind: Kind, s: &State<S>) -> bool {
    let hue = |v: [S; 3]| -> Option<f64> {
        match kind {
            Kind::Lab(_) => {
                if v[1].to64() == 0.0 && v[2].to64() == 0.0 {
                    None
                } else {
                    Some(v[2].to64().atan2(v[1].to64()).to_degrees())
                }
            }
            Kind::Lch(_) => Some(v[2].to64()),
            _ => None,
        }
    };
    match (hue(s.0), hue(s.1)) {
        // a' = a (1 + G) moves the hue of Lab colours by up to a few degrees towards the a axis,
        // differently for the two colours only through the common G: keep clear of 180° by 0.5°
        (Some(a), Some(b)) => (pv::refmodel::hue_dist(a, b) - 180.0).abs() < 0.5,
        _ => false,
    }
}

pub fn check_op_scalar<V: Vect>(t: &OpType<V>, op: &str, fv: OpFn<V>, fs: OpFn<V::S>, x: &State<V::S>, c: &mut Collector, verbose: bool) -> u64 {
    if op == "ciede2000" && ciede_discontinuity(t.kind, x) {
        return 0;
    }
    let sig = |what: &str| format!("C17/operator-simd-vs-scalar/{}/{}.{}/{}", V::NAME, t.name, op, what);
    let mk = |obs: Value, exp: Value| json!({"sub": "operators", "kind": "vs-scalar", "vec": V::NAME, "type": t.name, "op": op, "x": hex_state(x), "input": val_state(x), "observed": obs, "expected": exp});
    let st = [*x; MAXN];
    let rv = run_v::<V>(fv, &st[..V::N]);
    let rs = pv::catch(|| fs(x.0, x.1, x.2));
    match (rv, rs) {
        (Ok(rv), Ok(rs)) => {
            let sc = scales(t.kind);
            let tol = tol_op::<V::S>(op);
            let mut worst = 0.0f64;
            for k in 0..4 {
                let (a, b) = (rv[0][k], rs[k]);
                if crate::conv::same_bits(a, b) {
                    continue;
                }
                let scale = if matches!(op, "distance_squared" | "delta_e" | "hybrid_distance" | "ciede2000" | "relative_contrast") { 1.0 } else { sc[k] };
                let e = (a.to64() - b.to64()).abs() / scale.max(b.to64().abs());
                if !(e <= worst) {
                    worst = e;
                }
            }
            if verbose {
                println!("  {}.{} {}: simd {} scalar {} rel.err {:e} (tol {:e})", t.name, op, val_state(x), json!(f4(rv[0])), json!(f4(rs)), worst, tol);
            }
            if worst <= tol {
                c.ratio(&format!("operators/{}", V::NAME), worst / tol, || mk(json!({"simd": f4(rv[0]), "rel_err": worst}), json!({"scalar": f4(rs)})));
            } else {
                let what = if worst.is_nan() { "NaN" } else { "finite-off" };
                c.violation(&sig(what), worst, || mk(json!({"simd_lane0": f4(rv[0]), "bits": h4(rv[0]), "rel_err": pv::report::fnum(worst)}), json!({"scalar": f4(rs), "bits": h4(rs), "tol": tol})));
            }
            1
        }
        (Err(_), Err(_)) => 0,
        (Err(msg), Ok(_)) => {
            c.violation(&sig("panic"), 1.0, || mk(json!({"panic": msg}), json!("no panic")));
            0
        }
        (Ok(_), Err(msg)) => {
            c.violation(&sig("scalar-panic"), 1.0, || mk(json!("no panic"), json!({"panic": msg})));
            0
        }
    }
}

pub fn run_ops<V: Vect>(ctx: &Ctx, types: &[OpType<V>], total: &mut Collector) {
    let sub = format!("operators/{}", V::NAME);
    if !ctx.wants(&sub) {
        return;
    }
    let full = ctx.tier == Tier::Thorough;
    // work items: (type, operator) with both forms present
    let mut items = vec![];
    let mut avail = vec![];
    for (ti, t) in types.iter().enumerate() {
        let mut names = vec![];
        for (oi, (name, fv, fs)) in t.ops.iter().enumerate() {
            if fv.is_some() && fs.is_none() {
                eprintln!("MACHINERY-FAILURE: operator {}.{} exists for {} but not for the scalar", t.name, name, V::NAME);
                std::process::exit(3);
            }
            if fv.is_some() {
                names.push(*name);
                items.push((ti, oi));
            }
        }
        avail.push(json!([t.name, names]));
    }
    let sts: Vec<Vec<State<V::S>>> = types.iter().map(|t| states::<V::S>(t.kind, full)).collect();
    let seams: Vec<Vec<State<V::S>>> = types.iter().map(|t| seam_states::<V::S>(t.kind, full)).collect();
    // split each (type, op) by x-chunks for balance
    let mut work = vec![];
    for &(ti, oi) in &items {
        let n = sts[ti].len();
        let per = 24;
        let mut i = 0;
        while i < n {
            work.push((ti, oi, i, (i + per).min(n)));
            i += per;
        }
    }
    let (work_r, sts_r, seams_r) = (&work, &sts, &seams);
    let cc = pv::par::run_chunks(work.len(), |wi, c| {
        let (ti, oi, lo, hi) = work_r[wi];
        let t = &types[ti];
        let (name, fv, fs) = (t.ops[oi].0, t.ops[oi].1.unwrap(), t.ops[oi].2.unwrap());
        let st = &sts_r[ti];
        // splat references of every state for this operator
        let refs: Vec<Option<[[V::S; 4]; MAXN]>> = st.iter().map(|s| run_v::<V>(fv, &[*s; MAXN][..V::N]).ok()).collect();
        let (mut states_n, mut tr, mut traces, mut nontriv) = (0u64, 0u64, 0u64, 0u64);
        if lo == 0 {
            for x in &seams_r[ti] {
                let n = check_op_scalar(t, name, fv, fs, x, c, false);
                states_n += 1;
                tr += 2 * n;
                traces += n;
            }
        }
        for xi in lo..hi {
            let x = &st[xi];
            // (2) vs scalar
            let n = check_op_scalar(t, name, fv, fs, x, c, false);
            tr += 2 * n;
            traces += n;
            let Some(rx) = &refs[xi] else {
                c.violation(&format!("C17/operator-lane-independence/{}/{}.{}/panic", V::NAME, t.name, name), 1.0, || json!({"sub": "operators", "kind": "vs-scalar", "vec": V::NAME, "type": t.name, "op": name, "x": hex_state(x), "input": val_state(x), "observed": "panic", "expected": "no panic"}));
                continue;
            };
            for j in 1..V::N {
                if !same4(rx[j], rx[0]) {
                    c.violation(&format!("C17/operator-lane-independence/{}/{}.{}/splat-not-uniform", V::NAME, t.name, name), 1.0, || json!({"sub": "operators", "kind": "lane-mix", "vec": V::NAME, "type": t.name, "op": name, "lane": j, "x": hex_state(x), "y": hex_state(x), "input": {"x": val_state(x)}, "observed": {"lane": j, "bits": h4(rx[j])}, "expected": {"lane": 0, "bits": h4(rx[0])}}));
                }
            }
            // (1) lane-mix against every other state
            for (yi, y) in st.iter().enumerate() {
                if yi == xi {
                    continue;
                }
                let Some(ry) = &refs[yi] else { continue };
                for lane in 0..V::N {
                    let (cmp, obs) = check_op_mix::<V>(t.name, name, fv, x, y, lane, rx, ry, c);
                    states_n += 1;
                    tr += 1;
                    traces += cmp;
                    nontriv += obs as u64;
                }
            }
            if xi % 7 == 0 {
                c.sample(pv::splitmix((wi as u64) << 16 | xi as u64 | 4 << 60), || json!({"sub": sub, "type": t.name, "op": name, "state": val_state(x), "splat_result": f4(rx[0])}));
            }
        }
        c.add(&sub, states_n, tr, traces, nontriv);
    });
    total.merge(cc);
    total.note(&format!("operators-available/{}", V::NAME), json!(avail));
    total.exhaustive(
        &sub,
        true,
        &format!(
            "{} (type, operator) pairs discovered for {} over {} types; states = (colour, second colour, factor) products ({} states in total) + hue-seam products (hue x hue x factor, {} states, SIMD-vs-scalar only); lane-mix: every ordered pair of states of a type x every lane position (N = {}), all lanes bitwise vs f(splat); every state: every lane of f(splat) vs the scalar operator",
            items.len(),
            V::NAME,
            types.len(),
            sts.iter().map(|s| s.len()).sum::<usize>(),
            seams.iter().map(|s| s.len()).sum::<usize>(),
            V::N
        ),
    );
}

pub fn replay_ops<V: Vect>(types: &[OpType<V>], case: &Value, c: &mut Collector) {
    let t = types.iter().find(|t| Some(t.name) == case["type"].as_str()).expect("type");
    let (name, fv, fs) = t.ops.iter().find(|o| Some(o.0) == case["op"].as_str()).map(|o| (o.0, o.1.expect("vector op"), o.2.expect("scalar op"))).expect("op");
    let x = parse_state::<V::S>(&case["x"]);
    if case["kind"].as_str() == Some("lane-mix") {
        let y = parse_state::<V::S>(&case["y"]);
        let lane = case["lane"].as_u64().unwrap_or(0) as usize;
        let rx = run_v::<V>(fv, &[x; MAXN][..V::N]).expect("splat x");
        let ry = run_v::<V>(fv, &[y; MAXN][..V::N]).expect("splat y");
        println!("{}.{} ({}): x = {} in lane {}, y = {} elsewhere; f(splat x) = {}, f(splat y) = {}", t.name, name, V::NAME, val_state(&x), lane, val_state(&y), json!(f4(rx[0])), json!(f4(ry[0])));
        for j in 1..V::N {
            if !same4(rx[j], rx[0]) {
                c.violation(&format!("C17/operator-lane-independence/{}/{}.{}/splat-not-uniform", V::NAME, t.name, name), 1.0, || json!({"lane": j}));
            }
        }
        check_op_mix::<V>(t.name, name, fv, &x, &y, lane, &rx, &ry, c);
    } else {
        check_op_scalar(t, name, fv, fs, &x, c, true);
    }
}
