//! Integer-component colours: every value is within the documented range [0, MAX], so clamp is the
//! identity, is_within_bounds is true, clamp_assign agrees, for plain, Alpha-wrapped and slice forms.
//! u8: the complete component space (256^3 colours, 256^4 sampled as 256^3 x 6 alphas for Alpha);
//! u16/u32: the boundary lattice {0, 1, mid-1, mid, MAX-1, MAX}^N.
use palette::cast::ArrayCast;
use palette::encoding::{Linear, Srgb};
use palette::luma::Luma;
use palette::rgb::Rgb;
use palette::{Alpha, Clamp, ClampAssign, IsWithinBounds};
use pv::{json, Collector, Ctx};

fn one<C, U, const N: usize>(name: &str, v: [U; N], alphas: &[U], c: &mut Collector, cnt: &mut [u64; 3])
where
    U: Copy + PartialEq + core::fmt::Debug + palette::stimulus::Stimulus + palette::num::PartialCmp<Mask = bool> + palette::num::Clamp + palette::num::ClampAssign,
    C: ArrayCast<Array = [U; N]> + Clamp + ClampAssign + IsWithinBounds<Mask = bool> + Copy,
{
    let sig = |check: &str| format!("C03/integer/{}/{}", check, name);
    let mk = |what: &str, obs: String| json!({"sub": "integer", "type": name, "what": what, "input": format!("{:?}", v), "observed": obs, "expected": "identity / true"});
    let x: C = palette::cast::from_array(v);
    cnt[0] += 1;
    let r = pv::catch(|| {
        let cl: [U; N] = palette::cast::into_array(x.clamp());
        let mut y = x;
        y.clamp_assign();
        let cla: [U; N] = palette::cast::into_array(y);
        (cl, cla, x.is_within_bounds())
    });
    cnt[1] += 3;
    cnt[2] += 3;
    match r {
        Err(msg) => c.violation(&sig("panic"), 1.0, || mk("clamp", msg.clone())),
        Ok((cl, cla, w)) => {
            if cl != v {
                c.violation(&sig("clamp-identity"), 1.0, || mk("clamp()", format!("{:?}", cl)));
            }
            if cla != v {
                c.violation(&sig("clamp_assign-identity"), 1.0, || mk("clamp_assign()", format!("{:?}", cla)));
            }
            if !w {
                c.violation(&sig("is_within_bounds"), 1.0, || mk("is_within_bounds()", "false".into()));
            }
        }
    }
    for &a in alphas {
        let xa = Alpha { color: x, alpha: a };
        let r = pv::catch(|| {
            let cl = xa.clamp();
            let mut y = xa;
            y.clamp_assign();
            (palette::cast::into_array::<C>(cl.color), cl.alpha, palette::cast::into_array::<C>(y.color), y.alpha, xa.is_within_bounds())
        });
        cnt[1] += 3;
        cnt[2] += 3;
        match r {
            Err(msg) => c.violation(&sig("alpha-panic"), 1.0, || mk("Alpha clamp", msg.clone())),
            Ok((cl, ca, cla, caa, w)) => {
                if cl != v || ca != a || cla != v || caa != a {
                    c.violation(&sig("alpha-clamp-identity"), 1.0, || mk("Alpha clamp()/clamp_assign()", format!("{:?} {:?} / {:?} {:?} (alpha in {:?})", cl, ca, cla, caa, a)));
                }
                if !w {
                    c.violation(&sig("alpha-is_within_bounds"), 1.0, || mk("Alpha is_within_bounds()", format!("false (alpha {:?})", a)));
                }
            }
        }
    }
}

fn lattice<U: Copy>(vals: &[U], n: usize) -> Vec<Vec<U>> {
    let mut out: Vec<Vec<U>> = vec![vec![]];
    for _ in 0..n {
        out = out.into_iter().flat_map(|p| vals.iter().map(move |&x| { let mut q = p.clone(); q.push(x); q })).collect();
    }
    out
}

macro_rules! run_lat {
    ($c:ident, $cnt:ident, $name:literal, $C:ty, $U:ty, $N:literal) => {{
        let m = <$U>::MAX;
        let vals: [$U; 6] = [0, 1, m / 2, m / 2 + 1, m - 1, m];
        for p in lattice(&vals, $N) {
            let mut a = [0 as $U; $N];
            a.copy_from_slice(&p);
            one::<$C, $U, $N>($name, a, &vals, &mut $c, &mut $cnt);
        }
    }};
}

pub fn run(ctx: &Ctx, total: &mut Collector) {
    if !ctx.wants("integer") {
        return;
    }
    // complete u8 space for Rgb, in parallel over the red channel
    let cc = pv::par::run_chunks(256, |r, c| {
        let mut cnt = [0u64; 3];
        let alphas: [u8; 6] = [0, 1, 127, 128, 254, 255];
        for g in 0..=255u8 {
            for b in 0..=255u8 {
                let v = [r as u8, g, b];
                one::<Rgb<Srgb, u8>, u8, 3>("Rgb<Srgb,u8>", v, if g % 16 == 0 && b % 16 == 0 { &alphas } else { &alphas[5..] }, c, &mut cnt);
                if g == b {
                    one::<Rgb<Linear<Srgb>, u8>, u8, 3>("Rgb<Linear<Srgb>,u8>", v, &alphas[5..], c, &mut cnt);
                }
            }
        }
        one::<Luma<Srgb, u8>, u8, 1>("Luma<Srgb,u8>", [r as u8], &alphas, c, &mut cnt);
        c.add("integer", cnt[0], cnt[1], cnt[2], cnt[0]);
    });
    total.merge(cc);
    let mut c = Collector::new();
    let mut cnt = [0u64; 3];
    run_lat!(c, cnt, "Rgb<Srgb,u16>", Rgb<Srgb, u16>, u16, 3);
    run_lat!(c, cnt, "Rgb<Linear<Srgb>,u16>", Rgb<Linear<Srgb>, u16>, u16, 3);
    run_lat!(c, cnt, "Rgb<Srgb,u32>", Rgb<Srgb, u32>, u32, 3);
    run_lat!(c, cnt, "Luma<Srgb,u16>", Luma<Srgb, u16>, u16, 1);
    run_lat!(c, cnt, "Luma<Linear<D65>,u8>", Luma<Linear<palette::white_point::D65>, u8>, u8, 1);
    // types that clamp with a lower bound only (clamp_min / clamp_min_assign): every integer value is in range
    run_lat!(c, cnt, "Lms<VonKries,u8>", palette::lms::VonKriesLms<palette::white_point::D65, u8>, u8, 3);
    run_lat!(c, cnt, "Lms<VonKries,u16>", palette::lms::VonKriesLms<palette::white_point::D65, u16>, u16, 3);
    run_lat!(c, cnt, "Lms<Bradford,u32>", palette::lms::BradfordLms<palette::white_point::D65, u32>, u32, 3);
    // HWB family with integer components: in range iff whiteness + blackness <= MAX (sums that overflow
    // the component type are left out: the documented range is stated for the sum)
    {
        let vals: [u8; 6] = [0, 1, 127, 128, 254, 255];
        for h in [0u8, 1, 128, 255] {
            for w in vals {
                for b in vals {
                    if w as u32 + b as u32 <= 255 {
                        one::<palette::Hwb<Srgb, u8>, u8, 3>("Hwb<Srgb,u8>", [h, w, b], &vals, &mut c, &mut cnt);
                    }
                }
            }
        }
        let vals16: [u16; 6] = [0, 1, 32767, 32768, 65534, 65535];
        for w in vals16 {
            for b in vals16 {
                if w as u32 + b as u32 <= 65535 {
                    one::<palette::Hwb<Srgb, u16>, u16, 3>("Hwb<Srgb,u16>", [7, w, b], &vals16, &mut c, &mut cnt);
                }
            }
        }
    }
    // slices
    let mut buf: Vec<Rgb<Srgb, u8>> = (0..=255u8).map(|i| Rgb::new(i, 255 - i, i / 2)).collect();
    let before = buf.clone();
    let w = buf[..].is_within_bounds();
    buf[..].clamp_assign();
    cnt[1] += 2;
    cnt[2] += 2;
    if !w || buf != before {
        c.violation("C03/integer/slice/Rgb<Srgb,u8>", 1.0, || json!({"sub": "integer", "type": "[Rgb<Srgb,u8>]", "what": "slice is_within_bounds / clamp_assign", "input": "256 colours", "observed": format!("within {} unchanged {}", w, buf == before), "expected": "true, unchanged"}));
    }
    let mut lbuf: Vec<palette::lms::VonKriesLms<palette::white_point::D65, u8>> = (0..=255u8).map(|i| palette::lms::VonKriesLms::new(i, 255 - i, i / 2 + 1)).collect();
    let lbefore = lbuf.clone();
    let lw = lbuf[..].is_within_bounds();
    lbuf[..].clamp_assign();
    cnt[1] += 2;
    cnt[2] += 2;
    if !lw || lbuf != lbefore {
        c.violation("C03/integer/slice/Lms<VonKries,u8>", 1.0, || json!({"sub": "integer", "type": "[Lms<VonKries,u8>]", "what": "slice is_within_bounds / clamp_assign", "input": "256 colours", "observed": format!("within {} unchanged {}", lw, lbuf == lbefore), "expected": "true, unchanged"}));
    }
    c.add("integer", cnt[0], cnt[1], cnt[2], cnt[0]);
    total.merge(c);
    total.exhaustive("integer", true, "Rgb<Srgb,u8>: all 2^24 colours (Alpha form: alpha 255 everywhere, 6 alphas on a 16x16 sub-grid); Luma<u8>: all 256; u16/u32 and linear variants, Lms<u8/u16/u32> (lower bound only), Hwb<u8/u16> with whiteness + blackness <= MAX: boundary lattice {0,1,mid,mid+1,MAX-1,MAX}^N x 6 alphas; clamp and clamp_assign are the identity and is_within_bounds is true (the documented range of an integer component is its whole type)");
}
