//! Alpha-wrapped SIMD colours: `Alpha<B<V>, V>::from_color_unclamped(Alpha<A<V>, V>)` gives in every
//! lane exactly (bitwise) the bare SIMD conversion of the colour and passes the alpha lanes through;
//! plain -> Alpha fills alpha with 1 in every lane; Alpha -> plain drops it. Representative pairs
//! that cover the distinct code shapes (matrix, piecewise select, hue-sector select, polar, Ok).
use crate::vect::{Vect, MAXN};
use palette::convert::FromColorUnclamped;
use palette::encoding::{Linear, Srgb};
use palette::rgb::Rgb;
use palette::white_point::D65;
use palette::{Alpha, Hsl, Hsv, Hwb, Lab, Lch, Oklab, Oklch, Xyz};
use pv::fl::Fl;
use pv::{json, Collector, Ctx};
use wide::{f32x4, f32x8, f64x2, f64x4};

macro_rules! alpha_conv {
    ($fname:ident, $V:ty, $S:ty) => {
        pub fn $fname(ctx: &Ctx, total: &mut Collector) {
            type V = $V;
            type S = $S;
            let sub = format!("alpha-conversions/{}", <V as Vect>::NAME);
            if !ctx.wants(&sub) {
                return;
            }
            let n = <V as Vect>::N;
            let mut c = Collector::new();
            let (mut st, mut tr) = (0u64, 0u64);
            // lane inputs: a small lattice of unit-cube values incl. branch points, rotated over the lanes
            let vals: [f64; 9] = [0.0, 1.0, 0.5, 0.04045, 0.0031308, 0.25, 0.75, 0.999, 0.2];
            let alphas: [f64; 5] = [0.0, 1.0, 0.25, 0.5, 0.125];
            macro_rules! pair {
                ($name:literal, $A:ty, $B:ty, $scale:expr) => {{
                    for i0 in 0..vals.len() {
                        for i1 in 0..vals.len() {
                            for i2 in [0usize, 3, 7] {
                                let mut l = [[0.0 as S; MAXN]; 4];
                                for j in 0..n {
                                    let sc: [f64; 3] = $scale;
                                    l[0][j] = (vals[(i0 + j) % vals.len()] * sc[0]) as S;
                                    l[1][j] = (vals[(i1 + 2 * j) % vals.len()] * sc[1]) as S;
                                    l[2][j] = (vals[(i2 + 3 * j) % vals.len()] * sc[2]) as S;
                                    l[3][j] = alphas[(i0 + i1 + j) % alphas.len()] as S;
                                }
                                let comp = [V::from_lanes(&l[0][..n]), V::from_lanes(&l[1][..n]), V::from_lanes(&l[2][..n])];
                                let av = V::from_lanes(&l[3][..n]);
                                st += 1;
                                tr += 4;
                                let r = pv::catch(|| {
                                    let a: $A = palette::cast::from_array(comp);
                                    let bare: [V; 3] = palette::cast::into_array(<$B>::from_color_unclamped(a));
                                    let aa = <Alpha<$B, V>>::from_color_unclamped(Alpha { color: a, alpha: av });
                                    let aac: [V; 3] = palette::cast::into_array(aa.color);
                                    let pa = <Alpha<$B, V>>::from_color_unclamped(a);
                                    let pac: [V; 3] = palette::cast::into_array(pa.color);
                                    let ap: [V; 3] = palette::cast::into_array(<$B>::from_color_unclamped(Alpha { color: a, alpha: av }));
                                    (bare, aac, aa.alpha, pac, pa.alpha, ap)
                                });
                                let mk = |what: &str, lane: usize, obs: f64, exp: f64| json!({"sub": "alpha-conversions", "vec": <V as Vect>::NAME, "pair": $name, "what": what, "lane": lane, "input": {"components": [l[0][..n].iter().map(|x| x.to64()).collect::<Vec<_>>(), l[1][..n].iter().map(|x| x.to64()).collect::<Vec<_>>(), l[2][..n].iter().map(|x| x.to64()).collect::<Vec<_>>()], "alpha": l[3][..n].iter().map(|x| x.to64()).collect::<Vec<_>>()}, "code": [i0, i1, i2], "observed": obs, "expected": exp});
                                match r {
                                    Err(msg) => c.violation(&format!("C17/alpha-conversions/{}/{}/panic", <V as Vect>::NAME, $name), 1.0, || json!({"sub": "alpha-conversions", "vec": <V as Vect>::NAME, "pair": $name, "input": [i0, i1, i2], "observed": {"panic": msg}, "expected": "no panic"})),
                                    Ok((bare, aac, aaa, pac, paa, ap)) => {
                                        let same = |x: S, y: S| x.bits64() == y.bits64() || (x != x && y != y);
                                        for j in 0..n {
                                            for k in 0..3 {
                                                let b = bare[k].lanes()[j];
                                                for (what, got) in [("Alpha->Alpha colour", aac[k].lanes()[j]), ("plain->Alpha colour", pac[k].lanes()[j]), ("Alpha->plain colour", ap[k].lanes()[j])] {
                                                    if !same(got, b) {
                                                        c.violation(&format!("C17/alpha-conversions/{}/{}/{}", <V as Vect>::NAME, $name, what.replace(' ', "-")), 1.0, || mk(what, j, got.to64(), b.to64()));
                                                    }
                                                }
                                            }
                                            if aaa.lanes()[j].bits64() != l[3][j].bits64() {
                                                c.violation(&format!("C17/alpha-conversions/{}/{}/alpha-changed", <V as Vect>::NAME, $name), 1.0, || mk("alpha lane passed through", j, aaa.lanes()[j].to64(), l[3][j].to64()));
                                            }
                                            if paa.lanes()[j].to64() != 1.0 {
                                                c.violation(&format!("C17/alpha-conversions/{}/{}/alpha-not-opaque", <V as Vect>::NAME, $name), 1.0, || mk("plain -> Alpha fills alpha with 1", j, paa.lanes()[j].to64(), 1.0));
                                            }
                                        }
                                        c.outcome(pv::splitmix(bare[0].lanes()[0].bits64() ^ bare[1].lanes()[n - 1].bits64().rotate_left(21)));
                                    }
                                }
                            }
                        }
                    }
                }};
            }
            type SR = Rgb<Srgb, V>;
            type LR = Rgb<Linear<Srgb>, V>;
            pair!("Srgb->LinSrgb", SR, LR, [1.0, 1.0, 1.0]);
            pair!("Srgb->Hsv", SR, Hsv<Srgb, V>, [1.0, 1.0, 1.0]);
            pair!("Srgb->Hsl", SR, Hsl<Srgb, V>, [1.0, 1.0, 1.0]);
            pair!("Hsv->Srgb", Hsv<Srgb, V>, SR, [360.0, 1.0, 1.0]);
            pair!("Hsl->Srgb", Hsl<Srgb, V>, SR, [360.0, 1.0, 1.0]);
            pair!("Hsv->Hwb", Hsv<Srgb, V>, Hwb<Srgb, V>, [360.0, 1.0, 1.0]);
            pair!("Srgb->Xyz", SR, Xyz<D65, V>, [1.0, 1.0, 1.0]);
            pair!("Xyz->Lab", Xyz<D65, V>, Lab<D65, V>, [0.95, 1.0, 1.08]);
            pair!("Lab->Lch", Lab<D65, V>, Lch<D65, V>, [100.0, 80.0, -80.0]);
            pair!("Lab->Xyz", Lab<D65, V>, Xyz<D65, V>, [100.0, 80.0, -80.0]);
            pair!("Xyz->Oklab", Xyz<D65, V>, Oklab<V>, [0.95, 1.0, 1.08]);
            pair!("Oklab->Oklch", Oklab<V>, Oklch<V>, [1.0, 0.3, -0.3]);
            pair!("LinSrgb->Oklab", LR, Oklab<V>, [1.0, 1.0, 1.0]);
            c.add(&sub, st, tr, st * n as u64 * 11, st);
            total.merge(c);
            total.exhaustive(&sub, true, &format!("{}: 13 representative conversion pairs x 9 x 9 x 3 lane-rotated lattice inputs (incl. the sRGB knees, 0 and 1) x 5 alphas: Alpha->Alpha, plain->Alpha and Alpha->plain agree bitwise per lane with the bare SIMD conversion; alpha lanes pass through / are 1", <V as Vect>::NAME));
        }
    };
}
alpha_conv!(run_f32x4, f32x4, f32);
alpha_conv!(run_f32x8, f32x8, f32);
alpha_conv!(run_f64x2, f64x2, f64);
alpha_conv!(run_f64x4, f64x4, f64);

pub fn run(ctx: &Ctx, total: &mut Collector) {
    run_f32x4(ctx, total);
    run_f32x8(ctx, total);
    run_f64x2(ctx, total);
    run_f64x4(ctx, total);
}
