//! Counters, violation signatures, known findings, replay files and the evidence file
//! (DESIGN.md §3.6, §3.7).
use serde_json::{json, Map, Value};
use std::collections::{BTreeMap, BTreeSet};
use std::path::PathBuf;
use std::time::Instant;

#[derive(Clone, Copy, PartialEq, Eq, Debug)]
pub enum Tier {
    Quick,
    Thorough,
}
impl Tier {
    pub fn name(self) -> &'static str {
        match self {
            Tier::Quick => "quick",
            Tier::Thorough => "thorough",
        }
    }
    pub fn pick<T>(self, quick: T, thorough: T) -> T {
        match self {
            Tier::Quick => quick,
            Tier::Thorough => thorough,
        }
    }
}

pub enum Mode {
    Run,
    Replay(Value),
}

#[derive(Default, Clone, Debug)]
pub struct SubStats {
    pub states: u64,
    pub transitions: u64,
    pub traces: u64,
    pub nontrivial: u64,
    pub exhaustive: Option<bool>,
    pub max_ratio: f64,
    pub max_ratio_case: Option<Value>,
    pub bound: Option<String>,
}

#[derive(Clone, Debug)]
pub struct Viol {
    pub count: u64,
    pub magnitude: f64,
    pub first: Value,
    pub worst: Value,
}

const OUTCOME_CAP: usize = 1 << 16;
const SAMPLE_CAP: usize = 12;

/// Mergeable per-thread collector.
#[derive(Default)]
pub struct Collector {
    pub sub: BTreeMap<String, SubStats>,
    pub viol: BTreeMap<String, Viol>,
    pub outcomes: BTreeSet<u64>,
    pub outcomes_capped: bool,
    pub samples: Vec<(u64, Value)>,
    pub notes: BTreeMap<String, Value>,
    pub warnings: Vec<String>,
    pub caps_hit: Vec<String>,
}

impl Collector {
    pub fn new() -> Self {
        Self::default()
    }
    pub fn stats(&mut self, sub: &str) -> &mut SubStats {
        if !self.sub.contains_key(sub) {
            self.sub.insert(sub.to_string(), SubStats::default());
        }
        self.sub.get_mut(sub).unwrap()
    }
    /// Add counts to a sub-check: states visited, subject operations executed, reference
    /// predictions compared with the implementation, and how many states were non-trivial.
    pub fn add(&mut self, sub: &str, states: u64, transitions: u64, traces: u64, nontrivial: u64) {
        let s = self.stats(sub);
        s.states += states;
        s.transitions += transitions;
        s.traces += traces;
        s.nontrivial += nontrivial;
    }
    pub fn exhaustive(&mut self, sub: &str, ex: bool, bound: &str) {
        let s = self.stats(sub);
        s.exhaustive = Some(ex);
        s.bound = Some(bound.to_string());
    }
    /// Record error/tolerance ratio for a numeric sub-check.
    #[inline]
    pub fn ratio(&mut self, sub: &str, r: f64, case: impl FnOnce() -> Value) {
        let s = self.stats(sub);
        if r > s.max_ratio || (r.is_nan() && !s.max_ratio.is_nan()) {
            s.max_ratio = r;
            s.max_ratio_case = Some(case());
        }
    }
    /// Record a violation under a signature. `case` must contain everything needed to
    /// replay: {"sub": <sub-check>, "input": ..., "observed": ..., "expected": ...}.
    pub fn violation(&mut self, sig: &str, magnitude: f64, case: impl FnOnce() -> Value) {
        match self.viol.get_mut(sig) {
            Some(v) => {
                v.count += 1;
                if magnitude > v.magnitude {
                    v.magnitude = magnitude;
                    v.worst = case();
                }
            }
            None => {
                let c = case();
                self.viol.insert(
                    sig.to_string(),
                    Viol { count: 1, magnitude, first: c.clone(), worst: c },
                );
            }
        }
    }
    #[inline]
    pub fn outcome(&mut self, h: u64) {
        if self.outcomes.len() < OUTCOME_CAP {
            self.outcomes.insert(h);
        } else {
            self.outcomes_capped = true;
        }
    }
    /// Offer a case as a sample; `key` decides (together with the seed) which are kept.
    pub fn sample(&mut self, key: u64, v: impl FnOnce() -> Value) {
        if self.samples.len() < SAMPLE_CAP {
            self.samples.push((key, v()));
            if self.samples.len() == SAMPLE_CAP {
                self.samples.sort_by_key(|s| s.0);
            }
        } else if key < self.samples[SAMPLE_CAP - 1].0 {
            self.samples.pop();
            let pos = self.samples.partition_point(|s| s.0 <= key);
            self.samples.insert(pos, (key, v()));
        }
    }
    pub fn note(&mut self, k: &str, v: Value) {
        self.notes.insert(k.to_string(), v);
    }
    pub fn warn(&mut self, w: String) {
        self.warnings.push(w);
    }
    pub fn cap_hit(&mut self, w: String) {
        self.caps_hit.push(w);
    }
    pub fn merge(&mut self, o: Collector) {
        for (k, s) in o.sub {
            let t = self.stats(&k);
            t.states += s.states;
            t.transitions += s.transitions;
            t.traces += s.traces;
            t.nontrivial += s.nontrivial;
            if s.exhaustive.is_some() {
                t.exhaustive = s.exhaustive;
                t.bound = s.bound;
            }
            if s.max_ratio > t.max_ratio || (s.max_ratio.is_nan() && !t.max_ratio.is_nan()) {
                t.max_ratio = s.max_ratio;
                t.max_ratio_case = s.max_ratio_case;
            }
        }
        for (k, v) in o.viol {
            match self.viol.get_mut(&k) {
                Some(t) => {
                    t.count += v.count;
                    if v.magnitude > t.magnitude {
                        t.magnitude = v.magnitude;
                        t.worst = v.worst;
                    }
                }
                None => {
                    self.viol.insert(k, v);
                }
            }
        }
        for h in o.outcomes {
            self.outcome(h);
        }
        self.outcomes_capped |= o.outcomes_capped;
        for (k, v) in o.samples {
            self.sample(k, || v);
        }
        for (k, v) in o.notes {
            self.notes.insert(k, v);
        }
        self.warnings.extend(o.warnings);
        self.caps_hit.extend(o.caps_hit);
    }
}

pub struct Ctx {
    pub id: &'static str,
    pub tier: Tier,
    pub seed: u64,
    pub start: Instant,
    pub root: PathBuf,
    pub only: Option<String>,
}

#[derive(Clone, Debug)]
struct Known {
    signature: String,
    magnitude_bound: Option<f64>,
    what: String,
}

impl Ctx {
    /// Parse the command line: `<bin> quick|thorough [--only sub]` or `<bin> --replay file`.
    pub fn from_args(id: &'static str) -> (Ctx, Mode) {
        let args: Vec<String> = std::env::args().skip(1).collect();
        let root = PathBuf::from(std::env::var("VERIF_ROOT").unwrap_or_else(|_| "/verif".into()));
        let seed = std::env::var("VERIF_SEED").ok().and_then(|s| s.parse::<u64>().ok()).unwrap_or(0);
        let mut tier = match std::env::var("VERIF_TIER").ok().as_deref() {
            Some("thorough") => Tier::Thorough,
            _ => Tier::Quick,
        };
        let mut mode = Mode::Run;
        let mut only = None;
        let mut i = 0;
        while i < args.len() {
            match args[i].as_str() {
                "quick" => tier = Tier::Quick,
                "thorough" => tier = Tier::Thorough,
                "--only" => {
                    i += 1;
                    only = Some(args[i].clone());
                }
                "--replay" => {
                    i += 1;
                    let txt = std::fs::read_to_string(&args[i]).unwrap_or_else(|e| {
                        eprintln!("cannot read replay file {}: {}", args[i], e);
                        std::process::exit(3)
                    });
                    let v: Value = serde_json::from_str(&txt).unwrap_or_else(|e| {
                        eprintln!("replay file is not JSON: {}", e);
                        std::process::exit(3)
                    });
                    mode = Mode::Replay(v);
                }
                other => {
                    eprintln!("unknown argument {other}");
                    std::process::exit(3)
                }
            }
            i += 1;
        }
        (Ctx { id, tier, seed, start: Instant::now(), root, only }, mode)
    }

    pub fn wants(&self, sub: &str) -> bool {
        match &self.only {
            None => true,
            Some(o) => o.split(',').any(|p| sub.starts_with(p)),
        }
    }

    fn known(&self) -> Vec<Known> {
        let p = self.root.join("known_findings.jsonl");
        let mut out = vec![];
        if let Ok(txt) = std::fs::read_to_string(&p) {
            for line in txt.lines() {
                let line = line.trim();
                if line.is_empty() || line.starts_with('#') {
                    continue;
                }
                let v: Value = match serde_json::from_str(line) {
                    Ok(v) => v,
                    Err(e) => {
                        eprintln!("known_findings.jsonl: bad line: {e}");
                        std::process::exit(3)
                    }
                };
                if v.get("fixed").is_some() {
                    continue; // a fixed entry suppresses nothing
                }
                if v["property"].as_str() != Some(self.id) {
                    continue;
                }
                out.push(Known {
                    signature: v["signature"].as_str().unwrap_or("").to_string(),
                    magnitude_bound: v.get("magnitude_bound").and_then(|m| m.as_f64()),
                    what: v["what"].as_str().unwrap_or("").to_string(),
                });
            }
        }
        out
    }

    /// Write replays + evidence, print verdict lines, return the process exit code.
    pub fn finish(&self, c: Collector, level: &str, rule: &str, assumptions: &[&str]) -> i32 {
        let known = self.known();
        let mut n_viol = 0u64;
        let mut n_known = 0u64;
        let mut viol_json = vec![];
        let mut known_json = vec![];
        // one KNOWN-FINDING line per listed finding: (signatures matched, failing cases, max magnitude, example)
        let mut known_hits: BTreeMap<String, (u64, u64, f64, String, Value, String)> = BTreeMap::new();
        let rep_dir = self.root.join("replays");
        let _ = std::fs::create_dir_all(&rep_dir);
        for (sig, v) in &c.viol {
            let k = known.iter().find(|k| glob_match(&k.signature, sig));
            let within = match k {
                Some(k) => match k.magnitude_bound {
                    Some(b) => !(v.magnitude > b) && !v.magnitude.is_nan(),
                    None => true,
                },
                None => false,
            };
            if within {
                n_known += 1;
                let k = k.unwrap();
                let e = known_hits.entry(k.signature.clone()).or_insert_with(|| (0u64, 0u64, 0.0f64, sig.clone(), v.first.clone(), k.what.clone()));
                e.0 += 1;
                e.1 += v.count;
                if v.magnitude > e.2 {
                    e.2 = v.magnitude;
                }
                if known_json.len() < 400 {
                    known_json.push(json!({"signature": sig, "listed_as": k.signature, "count": v.count, "magnitude": fnum(v.magnitude), "first": v.first, "worst": v.worst}));
                }
            } else {
                n_viol += 1;
                let h = crate::fnv(sig.as_bytes());
                let path = rep_dir.join(format!("{}-{:016x}.json", self.id, h));
                // a known signature that exceeded its magnitude bound replays its worst case
                let case = if k.is_some() { &v.worst } else { &v.first };
                let rep = json!({
                    "property": self.id,
                    "signature": sig,
                    "count": v.count,
                    "magnitude": fnum(v.magnitude),
                    "exceeds_known_bound": k.map(|k| k.magnitude_bound),
                    "case": case,
                    "worst": v.worst,
                });
                if n_viol <= 400 {
                    std::fs::write(&path, serde_json::to_string_pretty(&rep).unwrap()).expect("write replay");
                }
                if n_viol <= 60 {
                    println!("VIOLATION property={} replay={}", self.id, path.display());
                    println!("  signature={} count={} magnitude={:e} case={}", sig, v.count, v.magnitude, compact(case));
                } else if n_viol == 61 {
                    println!("… further violation signatures are listed in the evidence file only (replay files for the first 400)");
                }
                viol_json.push(json!({"signature": sig, "count": v.count, "magnitude": fnum(v.magnitude), "replay": path.display().to_string(), "first": v.first, "worst": v.worst}));
            }
        }
        for (listed, (nsig, ncases, mag, ex_sig, ex_case, what)) in &known_hits {
            println!(
                "KNOWN-FINDING: property={} {} signatures_matched={} failing_cases={} max_magnitude={:e} example={} input={} ({})",
                self.id,
                listed,
                nsig,
                ncases,
                mag,
                ex_sig,
                compact(&ex_case["input"]),
                what
            );
        }
        // totals
        let (mut st, mut tr, mut tv, mut nt) = (0u64, 0u64, 0u64, 0u64);
        let mut subs = Map::new();
        let mut all_ex = !c.sub.is_empty();
        for (k, s) in &c.sub {
            st += s.states;
            tr += s.transitions;
            tv += s.traces;
            nt += s.nontrivial;
            if s.exhaustive != Some(true) {
                all_ex = false;
            }
            subs.insert(
                k.clone(),
                json!({
                    "states": s.states, "transitions": s.transitions,
                    "traces_validated_against_impl": s.traces, "distinct_nontrivial": s.nontrivial,
                    "exhaustive_over_stated_space": s.exhaustive, "bound": s.bound,
                    "max_err_over_tol": fnum(s.max_ratio), "max_err_case": s.max_ratio_case,
                }),
            );
        }
        if !c.caps_hit.is_empty() {
            all_ex = false;
        }
        // samples: choose by seed
        let mut samples: Vec<(u64, Value)> = c.samples.clone();
        samples.sort_by_key(|s| crate::splitmix(s.0 ^ self.seed));
        let samples: Vec<Value> = samples.into_iter().take(8).map(|s| s.1).collect();
        let samples = if samples.is_empty() { vec![json!("no sample recorded")] } else { samples };
        let ev = json!({
            "property_id": self.id,
            "tier": self.tier.name(),
            "seed": self.seed,
            "level": level,
            "coverage": {
                "states": st.max(1),
                "transitions": tr.max(1),
                "traces_validated_against_impl": tv,
                "evaluations": tr.max(1),
                "distinct_nontrivial": nt,
                "rule": rule,
                "samples": samples,
                "exhaustive": all_ex,
                "distinct_outcomes": c.outcomes.len(),
                "distinct_outcomes_capped": c.outcomes_capped,
                "caps_hit": c.caps_hit,
                "subchecks": subs,
                "notes": c.notes,
                "coverage_warnings": c.warnings,
                "violation_signatures": viol_json,
                "known_findings": known_json,
            },
            "assumptions": assumptions,
            "wall_s": self.start.elapsed().as_secs_f64(),
            "violations": n_viol,
            "known_findings": known_hits.len(),
            "known_finding_signatures": n_known,
        });
        let ev_dir = self.root.join("evidence");
        let _ = std::fs::create_dir_all(&ev_dir);
        let p = ev_dir.join(format!("{}.json", self.id));
        std::fs::write(&p, serde_json::to_string_pretty(&ev).unwrap()).expect("write evidence");
        println!(
            "{} {}: states={} transitions={} traces_validated={} distinct_outcomes={} violations={} known_findings={} wall={:.1}s",
            self.id,
            self.tier.name(),
            st,
            tr,
            tv,
            c.outcomes.len(),
            n_viol,
            known_hits.len(),
            self.start.elapsed().as_secs_f64()
        );
        for w in &c.warnings {
            println!("coverage-warning: {w}");
        }
        if n_viol > 0 {
            1
        } else {
            0
        }
    }

    /// Finish a replay run: print what was observed; exit 1 if the case still violates.
    pub fn finish_replay(&self, c: Collector) -> i32 {
        if c.viol.is_empty() {
            println!("REPLAY property={} result=holds (no violation on this case)", self.id);
            0
        } else {
            for (sig, v) in &c.viol {
                println!("REPLAY property={} result=VIOLATES signature={} magnitude={:e}", self.id, sig, v.magnitude);
                println!("  case={}", compact(&v.first));
            }
            1
        }
    }
}

/// Known-finding signatures may contain `*` (any run of characters); everything else is literal.
pub fn glob_match(pat: &str, s: &str) -> bool {
    if !pat.contains('*') {
        return pat == s;
    }
    let parts: Vec<&str> = pat.split('*').collect();
    let mut pos = 0usize;
    for (i, part) in parts.iter().enumerate() {
        if part.is_empty() {
            continue;
        }
        if i == 0 {
            if !s.starts_with(part) {
                return false;
            }
            pos = part.len();
        } else if i == parts.len() - 1 {
            return s.len() >= pos + part.len() && s[pos..].ends_with(part);
        } else {
            match s[pos..].find(part) {
                Some(j) => pos += j + part.len(),
                None => return false,
            }
        }
    }
    true
}

pub fn compact(v: &Value) -> String {
    let s = v.to_string();
    if s.chars().count() > 600 {
        format!("{}…", s.chars().take(600).collect::<String>())
    } else {
        s
    }
}

/// JSON cannot hold NaN/inf: encode them as strings.
pub fn fnum(x: f64) -> Value {
    if x.is_finite() {
        json!(x)
    } else {
        json!(format!("{x}"))
    }
}
