//! C02 — conversions match the published colorimetric definitions.
//! Every discovered conversion edge x every in-range lattice value is compared with an
//! independent f64 reference model (CIE 15, the RGB standards, hexcone HSV/HSL/HWB, Ottosson's
//! Ok spaces, HSLuv rev 4); the RGB matrices are compared with matrices derived from the
//! primaries and the white point; the reference itself is validated in the same run against
//! published data (HSLuv data set shipped in /repo, Ottosson's Oklab table, CIE 15 table).
use pg::{Graph, Kind};
use pv::fl::Fl;
use pv::refmodel::{max_abs_diff, V3};
use pv::{json, Collector, Ctx, Mode, Tier, Value};

mod customwp;

fn to64<T: Fl>(v: [T; 3]) -> V3 {
    [v[0].to64(), v[1].to64(), v[2].to64()]
}
fn hex<T: Fl>(v: &[T]) -> Vec<String> {
    v.iter().map(|x| format!("{:#x}", x.bits64())).collect()
}
fn bits3<T: Fl>(v: [T; 3]) -> [u64; 3] {
    [v[0].bits64(), v[1].bits64(), v[2].bits64()]
}

/// tolerance on ‖ΔXYZ‖∞ between the implementation's result and the reference value.
/// f64: the published constants have 7 significant digits (matrices, white points) and the
/// hard-coded inverses are inverse to ≈ 5e-7; f32: a conversion is a few dozen operations with
/// amplification ≤ 10. Both are ≥ 8× the largest deviation that rounding produces on the
/// pinned tree and ≥ 10× below the effect of a wrong published constant (≥ 1e-3).
fn tol<T: Fl>(ka: &Kind, kb: &Kind) -> f64 {
    let okcyl = ka.is_ok_cyl() || kb.is_ok_cyl();
    if T::NAME == "f32" {
        if okcyl {
            1.0e-3
        } else {
            1.0e-4
        }
    } else {
        // f64: conversions inside the CIE family are exact formulas of the white point; measured on the
        // unchanged tree (dense lattice, D65): <= 2e-14 among XYZ / xyY / L*a*b* / LCh(ab) and into CIELUV,
        // <= 1.2e-9 out of CIELUV / HSLuv, <= 2.3e-8 with Oklab / Oklch (CSS-recalculated M1, 8-9 digits);
        // everything that touches a 7-digit RGB or LMS matrix or an Ok approximation keeps 1e-5
        let lvl = |k: &Kind| match k {
            Kind::Xyz(_) | Kind::Yxy(_) | Kind::Lab(_) | Kind::Lch(_) => 0,
            Kind::Luv(_) | Kind::Lchuv(_) | Kind::Hsluv(_) => 1,
            Kind::Oklab | Kind::Oklch => 2,
            _ => 3,
        };
        match lvl(ka).max(lvl(kb)) {
            0 => 1.0e-11,
            1 => 1.0e-8,
            2 => 2.0e-7,
            _ => 1.0e-5,
        }
    }
}

fn values_for<T: Fl>(g: &Graph<T>, a: usize, dense: bool, grid: usize) -> Vec<[T; 3]> {
    let kind = g.nodes[a].kind;
    let mut vals: Vec<V3> = kind.lattice(dense);
    let spec = match g.name {
        "D50" => pv::refmodel::rgb::PROPHOTO,
        "DCI" => pv::refmodel::rgb::DCI_P3,
        _ => pv::refmodel::rgb::SRGB,
    };
    for xyz in pv::colorkind::srgb_grid_xyz(grid, &spec) {
        if kind.can_represent(xyz, 0.0) {
            let img = kind.from_xyz(xyz);
            if img.iter().all(|x| x.is_finite()) {
                vals.push(img);
            }
        }
    }
    let mut out: Vec<[T; 3]> = vals.into_iter().map(|v| [T::from64(v[0]), T::from64(v[1]), T::from64(v[2])]).collect();
    out.sort_by_key(|v| bits3(*v));
    out.dedup_by_key(|v| bits3(*v));
    out
}

fn input_class(ka: &Kind, kb: &Kind, xyz_ref: V3) -> &'static str {
    if ka.is_ok_cyl() || kb.is_ok_cyl() {
        if pv::colorkind::on_ok_blue_cusp(xyz_ref) {
            return "@ok-blue-cusp";
        }
        if pv::colorkind::oklab_hcl(xyz_ref).2 >= 0.95 {
            return "@okcyl-near-white";
        }
    }
    ""
}

fn check_edge_value<T: Fl>(g: &Graph<T>, a: usize, b: usize, v: [T; 3], c: &mut Collector, cnt: &mut [u64; 3]) {
    let (ka, kb) = (g.nodes[a].kind, g.nodes[b].kind);
    let Some(f) = g.unc[a][b] else { return };
    let v64 = to64(v);
    let xyz_ref = ka.to_xyz(v64);
    if !pv::colorkind::plausible(xyz_ref) || !(ka.can_represent(xyz_ref, 1e-7) || ka.is_luma()) {
        return;
    }
    if !(kb.can_represent(xyz_ref, 1e-7) || kb.is_luma()) {
        return;
    }
    cnt[0] += 1;
    cnt[1] += 1;
    let sig = |cls: &str| format!("C02/edge-vs-reference/{}/{}/{}->{}/{}", g.name, T::NAME, g.nodes[a].name, g.nodes[b].name, cls);
    let mk = |obs: Value, exp: Value| json!({"sub": "edge", "group": g.name, "float": T::NAME, "path": [g.nodes[a].name, g.nodes[b].name], "input": hex(&v), "value": v64, "observed": obs, "expected": exp});
    match pv::catch(|| f(v)) {
        Err(msg) => c.violation(&sig("panic"), 1.0, || mk(json!({"panic": msg}), json!("no panic"))),
        Ok(r) => {
            let r64 = to64(r);
            // expected: the colour itself, in XYZ; for a luma target only Y is defined
            let t = tol::<T>(&ka, &kb);
            let e = if kb.is_luma() {
                (kb.to_xyz(r64)[1] - xyz_ref[1]).abs()
            } else {
                // either published Oklab definition (M1 route or the direct sRGB matrices), on each side
                let xa = [xyz_ref, ka.to_xyz_alt(v64)];
                let xb = [kb.to_xyz(r64), kb.to_xyz_alt(r64)];
                let mut best = f64::NAN;
                for p in xa {
                    for q in xb {
                        let d = max_abs_diff(p, q);
                        if !(d >= best) {
                            best = d;
                        }
                    }
                }
                best
            };
            cnt[2] += 1;
            if e <= t {
                c.ratio("edge-vs-reference", e / t, || mk(json!({"result": r64, "err": e}), json!(kb.from_xyz(xyz_ref))));
            } else {
                let cls = format!("{}{}", if e.is_nan() { "NaN" } else if e.is_infinite() { "inf" } else { "finite-off" }, input_class(&ka, &kb, xyz_ref));
                c.violation(&sig(&cls), e, || mk(json!({"result": r64, "dxyz": pv::report::fnum(e)}), json!({"reference": kb.from_xyz(xyz_ref), "tol": t})));
            }
            c.outcome(pv::fnv(format!("{:?}", bits3(r)).as_bytes()));
        }
    }
}

/// Dark colours, error relative to the colour's size: linear sources (XYZ, linear RGB, LMS) on a 6^3
/// grid scaled by 1e-2, 1e-4, 1e-6 through every outgoing edge; ‖ΔXYZ‖∞ / ‖XYZ‖∞ against the same
/// tolerances as the absolute comparison (which cannot see a 1e-3 relative error in a colour of size 1e-4).
fn run_dark<T: Fl>(ctx: &Ctx, g: &Graph<T>, total: &mut Collector) {
    let sub = format!("dark/{}/{}", g.name, T::NAME);
    if !ctx.wants(&sub) {
        return;
    }
    let n = g.n();
    let mut c = Collector::new();
    let (mut st, mut tr) = (0u64, 0u64);
    let lv = [0.0, 0.13, 0.37, 0.5, 0.71, 1.0];
    for a in 0..n {
        let ka = g.nodes[a].kind;
        let linear = match ka {
            Kind::Xyz(_) | Kind::LmsVonKries(_) | Kind::LmsBradford(_) => true,
            Kind::Rgb(s) => s.tf == pv::refmodel::tf::Tf::Linear,
            _ => false,
        };
        if !linear {
            continue;
        }
        for s in [1e-2, 1e-4, 1e-6] {
            for &x in &lv {
                for &y in &lv {
                    for &z in &lv {
                        if x == 0.0 && y == 0.0 && z == 0.0 {
                            continue;
                        }
                        // XYZ-like sources: scale the image of the RGB grid point, so that the colour is a real one
                        let base = match ka {
                            Kind::Rgb(_) => [x, y, z],
                            _ => ka.from_xyz(pv::refmodel::rgb::SRGB.to_xyz([x, y, z])),
                        };
                        let v = [T::from64(base[0] * s), T::from64(base[1] * s), T::from64(base[2] * s)];
                        let v64 = to64(v);
                        let xyz_ref = ka.to_xyz(v64);
                        let size = xyz_ref.iter().fold(0.0f64, |m, q| m.max(q.abs()));
                        if !(size > 0.0) || !pv::colorkind::plausible(xyz_ref) {
                            continue;
                        }
                        st += 1;
                        for b in 0..n {
                            if a == b {
                                continue;
                            }
                            let kb = g.nodes[b].kind;
                            let Some(f) = g.unc[a][b] else { continue };
                            if kb.is_luma() || !kb.can_represent(xyz_ref, 1e-7 * size) {
                                continue;
                            }
                            // representations whose coordinates are differences of O(1) quantities even for a
                            // black-ish colour (Lab: 500 (f(x) - f(y)) with f ~ 16/116; HWB: blackness = 1 - max)
                            // carry an absolute, not a relative accuracy in f32 by their definition
                            if T::NAME == "f32" && matches!(kb, Kind::Lab(_) | Kind::Lch(_) | Kind::Hwb(_) | Kind::Okhwb) {
                                continue;
                            }
                            let Ok(r) = pv::catch(|| f(v)) else { continue };
                            tr += 1;
                            let r64 = to64(r);
                            let xa = [xyz_ref, ka.to_xyz_alt(v64)];
                            let xb = [kb.to_xyz(r64), kb.to_xyz_alt(r64)];
                            let mut best = f64::NAN;
                            for p in xa {
                                for q in xb {
                                    let d = max_abs_diff(p, q);
                                    if !(d >= best) {
                                        best = d;
                                    }
                                }
                            }
                            let e = best / size;
                            // f64: 1e-6 relative (measured on the unchanged tree: <= 2.4e-7, the 7-digit matrices)
                            let t = if T::NAME == "f64" { 1.0e-6 } else { tol::<T>(&ka, &kb) };
                            if e <= t {
                                c.ratio(&sub, e / t, || json!({"path": [g.nodes[a].name, g.nodes[b].name], "value": v64, "rel_err": e}));
                            } else {
                                let cls = format!("{}{}", if e.is_nan() { "NaN" } else { "finite-off" }, input_class(&ka, &kb, [xyz_ref[0] / size, xyz_ref[1] / size, xyz_ref[2] / size]));
                                c.violation(&format!("C02/dark-relative/{}/{}/{}->{}/{}", g.name, T::NAME, g.nodes[a].name, g.nodes[b].name, cls), e, || json!({"sub": "dark", "group": g.name, "float": T::NAME, "path": [g.nodes[a].name, g.nodes[b].name], "input": hex(&v), "value": v64, "observed": {"result": r64, "relative_dxyz": pv::report::fnum(e)}, "expected": {"reference": kb.from_xyz(xyz_ref), "tol_relative": t}}));
                            }
                        }
                    }
                }
            }
        }
    }
    c.add(&sub, st, tr, tr, st);
    total.merge(c);
    total.exhaustive(&sub, true, "every linear source node (XYZ, LMS, linear RGB) x the 6^3 RGB grid scaled by 1e-2, 1e-4, 1e-6 x every outgoing edge; error in XYZ relative to the size of the colour");
}

fn run_graph<T: Fl>(ctx: &Ctx, g: &Graph<T>, dense: bool, grid: usize, total: &mut Collector) {
    let sub = format!("edges/{}/{}", g.name, T::NAME);
    if !ctx.wants(&sub) {
        return;
    }
    let n = g.n();
    let vals: Vec<Vec<[T; 3]>> = (0..n).map(|a| values_for(g, a, dense, grid)).collect();
    let mut items = vec![];
    for a in 0..n {
        let per = 256;
        let mut i = 0;
        while i < vals[a].len() {
            items.push((a, i, (i + per).min(vals[a].len())));
            i += per;
        }
    }
    let (items_ref, vals_ref) = (&items, &vals);
    let cc = pv::par::run_chunks(items.len(), |ci, c| {
        let (a, lo, hi) = items_ref[ci];
        let mut cnt = [0u64; 3];
        let mut states = 0;
        for i in lo..hi {
            let v = vals_ref[a][i];
            states += 1;
            for b in 0..n {
                if b != a {
                    check_edge_value(g, a, b, v, c, &mut cnt);
                }
            }
            c.sample(pv::splitmix((ci as u64) << 20 | i as u64), || json!({"group": g.name, "float": T::NAME, "node": g.nodes[a].name, "value": to64(v)}));
        }
        c.add(&sub, states, cnt[1], cnt[2], states);
    });
    total.merge(cc);
    total.exhaustive(&sub, true, &format!("{} nodes, {} discovered edges x every {} lattice value ∪ {}^3 RGB-grid images of the source node", n, g.edge_count(), if dense { "dense" } else { "coarse" }, grid));
}

// ---------------------------------------------------------------------------------------
// transfer curves at the joins, in the component's own scale: for every pair of RGB (or luma) nodes
// of one graph that differ only in the transfer function, a dense walk around every knee of the two
// curves (linear and encoded side, +-2 % in 401 steps, + the float neighbours of the knee) and a
// coarse walk over [0, 1], each channel against tf_b.encode(tf_a.decode(x)). (The XYZ comparison of
// the edge check cannot resolve the toe: there an encoded error e is only e/16 .. e/4.5 in XYZ.)

fn run_curves<T: Fl>(ctx: &Ctx, g: &Graph<T>, total: &mut Collector) {
    let sub = format!("curves/{}/{}", g.name, T::NAME);
    if !ctx.wants(&sub) {
        return;
    }
    let n = g.n();
    let mut c = Collector::new();
    let (mut st, mut tr) = (0u64, 0u64);
    let spec_of = |k: &Kind| -> Option<(pv::refmodel::rgb::RgbSpec, bool)> {
        match k {
            Kind::Rgb(s) => Some((*s, false)),
            Kind::Luma(s) => Some((*s, true)),
            _ => None,
        }
    };
    for a in 0..n {
        for b in 0..n {
            if a == b {
                continue;
            }
            let (Some((sa, la)), Some((sb, lb))) = (spec_of(&g.nodes[a].kind), spec_of(&g.nodes[b].kind)) else { continue };
            let Some(f) = g.unc[a][b] else { continue };
            // same primaries and white point (for luma: same white point), same shape: only the curve differs
            if la != lb || sa.wp != sb.wp || (!la && sa.prim != sb.prim) || sa.tf == sb.tf {
                continue;
            }
            let mut xs: Vec<f64> = (0..=100).map(|k| k as f64 / 100.0).collect();
            let mut knees: Vec<f64> = vec![];
            // knees of the source curve on its encoded side, knees of the target curve mapped to the source's scale
            if let Some(k) = sa.tf.knee_encoded() {
                knees.push(k);
            }
            if let Some(k) = sb.tf.knee_linear() {
                knees.push(sa.tf.encode(k));
            }
            for k in knees {
                for j in -200..=200 {
                    xs.push(k * (1.0 + j as f64 * 1e-4));
                }
                // geometric approach to the knee from both sides: relative distances 2^-8 .. 2^-40
                for m in 8..=40 {
                    let d = k * (0.5f64).powi(m);
                    xs.push(k - d);
                    xs.push(k + d);
                }
                let kt = T::from64(k);
                xs.extend([kt.to64(), kt.up().to64(), kt.down().to64(), kt.up().up().to64(), kt.down().down().to64()]);
            }
            for x in xs {
                if !(0.0..=1.0).contains(&x) {
                    continue;
                }
                let xt = T::from64(x);
                let v = if la { [xt, T::from64(0.0), T::from64(0.0)] } else { [xt, T::from64(1.0 - x), xt] };
                st += 1;
                tr += 1;
                let Ok(r) = pv::catch(|| f(v)) else { continue };
                let nch = if la { 1 } else { 3 };
                for ch in 0..nch {
                    let xin = v[ch].to64();
                    let want = sb.tf.encode(sa.tf.decode(xin));
                    let got = r[ch].to64();
                    // the curve in the working float type: a few roundings of O(1) intermediates + one
                    // rounding of the input carried through the (at most 16x) slope of the toe
                    let eps = if T::NAME == "f32" { 6e-8 } else { 1.2e-16 };
                    let mut t = 40.0 * eps * want.abs().max(0.0625) + 20.0 * eps;
                    // exactly at a join the published constants of sRGB and the Rec. OETF leave a step of
                    // <= 3e-8 between the two segments (12.92 * 0.0031308 vs 1.055 * 0.0031308^(1/2.4) - 0.055):
                    // within 1e-6 (relative) of a knee either segment's value is the standard's
                    let lin = sa.tf.decode(xin);
                    let near = |v: f64, k: Option<f64>| k.map(|k| (v - k).abs() <= 1e-6 * k).unwrap_or(false);
                    if near(xin, sa.tf.knee_encoded()) || near(lin, sb.tf.knee_linear()) {
                        t += 1e-7;
                    }
                    let e = (got - want).abs();
                    if e <= t {
                        c.ratio(&sub, e / t, || json!({"path": [g.nodes[a].name, g.nodes[b].name], "x": xin, "got": got, "want": want}));
                    } else {
                        c.violation(&format!("C02/curve-at-joins/{}/{}/{}->{}", g.name, T::NAME, g.nodes[a].name, g.nodes[b].name), e, || json!({"sub": "curve", "group": g.name, "float": T::NAME, "path": [g.nodes[a].name, g.nodes[b].name], "channel": ch, "input": hex(&v), "value": to64(v), "observed": got, "expected": {"reference": want, "tol": t}}));
                    }
                }
            }
        }
    }
    c.add(&sub, st, tr, tr, st);
    total.merge(c);
    total.exhaustive(&sub, true, "every ordered pair of RGB (luma) nodes of the graph that differ only in the transfer function: 101 points k/100 and, around every knee of the two curves, +-2 % in 401 steps, a geometric approach from both sides (relative distance 2^-8 .. 2^-40) and the float neighbours of the knee; each channel against the composition of the two published curves, in the component's own scale");
}

// ---------------------------------------------------------------------------------------
// matrices: palette's hard-coded and derived RGB<->XYZ matrices vs primaries + white point

fn check_matrices(ctx: &Ctx, c: &mut Collector) {
    use palette::encoding;
    use palette::rgb::{Primaries, RgbSpace, RgbStandard};
    use palette::white_point::WhitePoint;
    use pv::refmodel::rgb as R;
    let sub = "matrices";
    if !ctx.wants(sub) {
        return;
    }
    let mut n = 0u64;
    macro_rules! space {
        ($name:literal, $sp:ty, $spec:expr) => {{
            let spec: R::RgbSpec = $spec;
            let want = spec.rgb_to_xyz();
            let want_inv = spec.xyz_to_rgb();
            // published primaries and white point
            let pr: [palette::Yxy<palette::white_point::Any, f64>; 3] = [
                <<$sp as RgbSpace>::Primaries as Primaries<f64>>::red(),
                <<$sp as RgbSpace>::Primaries as Primaries<f64>>::green(),
                <<$sp as RgbSpace>::Primaries as Primaries<f64>>::blue(),
            ];
            for i in 0..3 {
                n += 1;
                let d = (pr[i].x - spec.prim[i][0]).abs().max((pr[i].y - spec.prim[i][1]).abs());
                if !(d <= 1e-9) {
                    c.violation(&format!("C02/primaries/{}", $name), d, || json!({"sub": "matrices", "space": $name, "input": i, "observed": [pr[i].x, pr[i].y], "expected": spec.prim[i]}));
                }
                // the Y of each primary is the middle row of the matrix
                // (the standards tabulate these luminances with 4-6 digits: Adobe RGB 0.6273)
                let dy = (pr[i].luma - want[1][i]).abs();
                if !(dy <= 1e-4) {
                    c.violation(&format!("C02/primaries-luma/{}", $name), dy, || json!({"sub": "matrices", "space": $name, "input": i, "observed": pr[i].luma, "expected": want[1][i]}));
                }
            }
            let w = <<$sp as RgbSpace>::WhitePoint as WhitePoint<f64>>::get_xyz();
            let ww = spec.wp.xyz();
            let dw = (w.x - ww[0]).abs().max((w.y - ww[1]).abs()).max((w.z - ww[2]).abs());
            n += 1;
            if !(dw <= 1e-9) {
                c.violation(&format!("C02/white-point/{}", $name), dw, || json!({"sub": "matrices", "space": $name, "input": "white", "observed": [w.x, w.y, w.z], "expected": ww}));
            }
            // hard-coded matrices (7 digits)
            if let Some(m) = <$sp as RgbSpace>::rgb_to_xyz_matrix() {
                for i in 0..9 {
                    n += 1;
                    let d = (m[i] - want[i / 3][i % 3]).abs();
                    c.ratio(sub, d / 6e-7, || json!({"space": $name, "entry": i, "observed": m[i], "expected": want[i / 3][i % 3]}));
                    if !(d <= 6e-7) {
                        c.violation(&format!("C02/rgb_to_xyz_matrix/{}", $name), d, || json!({"sub": "matrices", "space": $name, "input": i, "observed": m[i], "expected": want[i / 3][i % 3]}));
                    }
                }
            }
            if let Some(m) = <$sp as RgbSpace>::xyz_to_rgb_matrix() {
                for i in 0..9 {
                    n += 1;
                    let d = (m[i] - want_inv[i / 3][i % 3]).abs();
                    // the inverse has entries up to 3.2 and condition number ≈ 10
                    c.ratio(sub, d / 3e-6, || json!({"space": $name, "inv_entry": i, "observed": m[i], "expected": want_inv[i / 3][i % 3]}));
                    if !(d <= 3e-6) {
                        c.violation(&format!("C02/xyz_to_rgb_matrix/{}", $name), d, || json!({"sub": "matrices", "space": $name, "input": i, "observed": m[i], "expected": want_inv[i / 3][i % 3]}));
                    }
                }
            }
            // the general derivation in matrix.rs
            let m: [f64; 9] = palette::matrix::rgb_to_xyz_matrix::<$sp, f64>();
            for i in 0..9 {
                n += 1;
                let d = (m[i] - want[i / 3][i % 3]).abs();
                if !(d <= 1e-9) {
                    c.violation(&format!("C02/derived-matrix/{}", $name), d, || json!({"sub": "matrices", "space": $name, "input": i, "observed": m[i], "expected": want[i / 3][i % 3]}));
                }
            }
        }};
    }
    space!("Srgb", encoding::Srgb, R::SRGB);
    space!("AdobeRgb", encoding::AdobeRgb, R::ADOBE);
    space!("Rec2020", encoding::Rec2020, R::REC2020);
    space!("DisplayP3", encoding::DisplayP3, R::DISPLAY_P3);
    space!("DciP3", encoding::DciP3, R::DCI_P3);
    space!("DciP3Plus", encoding::DciP3Plus<encoding::P3Gamma>, R::DCI_P3_PLUS);
    space!("ProPhotoRgb", encoding::ProPhotoRgb, R::PROPHOTO);
    let _ = <encoding::Rec709 as RgbStandard>::Space::rgb_to_xyz_matrix();
    // RGB spaces WITHOUT hard-coded matrices (tuple spaces (Primaries, WhitePoint) and tuple standards
    // (Primaries, WhitePoint, TransferFn)): the conversion code derives the matrix at run time, in both
    // directions. The real conversions Rgb -> Xyz and Xyz -> Rgb are executed on the basis vectors, white,
    // black and two generic colours and compared with M(primaries, white point) of the reference.
    macro_rules! custom {
        ($name:literal, $std:ty, $wp:ty, $T:ty, $tol:expr, $spec:expr) => {{
            use palette::convert::FromColorUnclamped;
            let spec: R::RgbSpec = $spec;
            let pts: [[f64; 3]; 7] = [[1.0, 0.0, 0.0], [0.0, 1.0, 0.0], [0.0, 0.0, 1.0], [1.0, 1.0, 1.0], [0.0, 0.0, 0.0], [0.25, 0.5, 0.75], [0.9, 0.1, 0.3]];
            for p in pts {
                n += 2;
                let rgb = palette::rgb::Rgb::<$std, $T>::new(p[0] as $T, p[1] as $T, p[2] as $T);
                let xyz = palette::Xyz::<$wp, $T>::from_color_unclamped(rgb);
                let want = spec.to_xyz(p);
                let got = [xyz.x as f64, xyz.y as f64, xyz.z as f64];
                let d = (0..3).map(|i| (got[i] - want[i]).abs()).fold(0.0, f64::max);
                if !(d <= $tol) {
                    c.violation(&format!("C02/custom-space/{}<{}>/rgb->xyz", $name, stringify!($T)), d, || json!({"sub": "matrices", "space": $name, "float": stringify!($T), "input": p, "observed": got, "expected": want}));
                }
                // and back: from the reference XYZ of the colour
                let x = palette::Xyz::<$wp, $T>::new(want[0] as $T, want[1] as $T, want[2] as $T);
                let back = palette::rgb::Rgb::<$std, $T>::from_color_unclamped(x);
                let gotb = [back.red as f64, back.green as f64, back.blue as f64];
                let db = (0..3).map(|i| (gotb[i] - p[i]).abs()).fold(0.0, f64::max);
                if !(db <= 4.0 * $tol) {
                    c.violation(&format!("C02/custom-space/{}<{}>/xyz->rgb", $name, stringify!($T)), db, || json!({"sub": "matrices", "space": $name, "float": stringify!($T), "input": want, "observed": gotb, "expected": p}));
                }
            }
        }};
    }
    macro_rules! custom_both {
        ($name:literal, $std:ty, $wp:ty, $spec:expr) => {{
            custom!($name, $std, $wp, f64, 1e-9, $spec);
            custom!($name, $std, $wp, f32, 2e-6, $spec);
        }};
    }
    {
        use palette::encoding::Linear;
        use palette::white_point::{D50, D65, E};
        use pv::refmodel::cie::Wp;
        use pv::refmodel::tf::Tf;
        let sp = |name: &'static str, prim: [[f64; 2]; 3], wp: Wp, tf: Tf| R::RgbSpec { name, prim, wp, tf };
        custom_both!("Linear<(Srgb,D50)>", Linear<(encoding::Srgb, D50)>, D50, sp("Linear<(Srgb,D50)>", R::SRGB.prim, Wp::D50, Tf::Linear));
        custom_both!("Linear<(Rec2020,D50)>", Linear<(encoding::Rec2020, D50)>, D50, sp("Linear<(Rec2020,D50)>", R::REC2020.prim, Wp::D50, Tf::Linear));
        custom_both!("Linear<(AdobeRgb,E)>", Linear<(encoding::AdobeRgb, E)>, E, sp("Linear<(AdobeRgb,E)>", R::ADOBE.prim, Wp::E, Tf::Linear));
        custom_both!("Linear<(ProPhotoRgb,D65)>", Linear<(encoding::ProPhotoRgb, D65)>, D65, sp("Linear<(ProPhotoRgb,D65)>", R::PROPHOTO.prim, Wp::D65, Tf::Linear));
        custom_both!("(Srgb,D65,Srgb)", (encoding::Srgb, D65, encoding::Srgb), D65, sp("(Srgb,D65,Srgb)", R::SRGB.prim, Wp::D65, Tf::Srgb));
        custom_both!("(DisplayP3,D50,Srgb)", (encoding::DisplayP3, D50, encoding::Srgb), D50, sp("(DisplayP3,D50,Srgb)", R::DISPLAY_P3.prim, Wp::D50, Tf::Srgb));
        custom_both!("((Srgb,D50),Linear)", ((encoding::Srgb, D50), palette::encoding::linear::LinearFn), D50, sp("((Srgb,D50),Linear)", R::SRGB.prim, Wp::D50, Tf::Linear));
    }
    c.add(sub, n, n, n, n);
    c.exhaustive(sub, true, "7 RGB spaces: primaries, white point, hard-coded rgb->xyz and xyz->rgb matrices (all 9 entries each), matrix derived by palette from the primaries; 7 tuple RGB spaces / standards without hard-coded matrices (primaries x white point x transfer function mixes, f32 and f64): the real Rgb -> Xyz and Xyz -> Rgb conversions on basis vectors, white, black and generic colours against M(primaries, white point)");
}

// ---------------------------------------------------------------------------------------
// published data: validates the reference (machinery failure if it disagrees) and palette

fn repo_root() -> String {
    std::env::var("VERIF_REPO").unwrap_or_else(|_| "/repo".to_string())
}

fn machinery_fail(msg: String) -> ! {
    eprintln!("MACHINERY-FAILURE: reference model disagrees with published data: {msg}");
    std::process::exit(3)
}

fn check_published(ctx: &Ctx, c: &mut Collector) {
    use palette::convert::FromColorUnclamped;
    use palette::white_point::D65;
    use palette::{Hsluv, Lchuv, Luv, Oklab, Xyz};
    use pv::refmodel::{cie, hsluv, ok};
    let sub = "published-data";
    if !ctx.wants(sub) {
        return;
    }
    let mut n = 0u64;
    // (1) Ottosson's Oklab table (https://bottosson.github.io/posts/oklab/, 3 decimals)
    let table: [([f64; 3], [f64; 3]); 4] = [
        ([0.950, 1.000, 1.089], [1.000, 0.000, 0.000]),
        ([1.000, 0.000, 0.000], [0.450, 1.236, -0.019]),
        ([0.000, 1.000, 0.000], [0.922, -0.671, 0.263]),
        ([0.000, 0.000, 1.000], [0.153, -1.415, -0.449]),
    ];
    for (xyz, lab) in table {
        for m1 in [&ok::M1_ORIG, &ok::M1_CSS] {
            let r = ok::xyz_to_oklab_with(m1, xyz);
            if max_abs_diff(r, lab) > 6e-4 {
                machinery_fail(format!("Oklab reference {xyz:?} -> {r:?}, published {lab:?}"));
            }
        }
        let p: Oklab<f64> = Oklab::from_color_unclamped(Xyz::<D65, f64>::new(xyz[0], xyz[1], xyz[2]));
        let d = max_abs_diff([p.l, p.a, p.b], lab);
        n += 1;
        if !(d <= 6e-4) {
            c.violation("C02/published/oklab-table", d, || json!({"sub": "published", "input": xyz, "observed": [p.l, p.a, p.b], "expected": lab}));
        }
    }
    // (2) HSLuv reference data set shipped in /repo (4096 rows): LCh(uv) <-> HSLuv and Luv <-> LCh(uv)
    let path = format!("{}/integration_tests/tests/hsluv_dataset/hsluv_dataset.json", repo_root());
    let txt = std::fs::read_to_string(&path).unwrap_or_else(|e| machinery_fail(format!("cannot read {path}: {e}")));
    let data: Value = pv::serde_json_from_str(&txt).unwrap_or_else(|e| machinery_fail(format!("bad json {path}: {e}")));
    let mut rows = 0;
    for (hexname, row) in data.as_object().expect("object") {
        let get = |k: &str| -> V3 {
            let a = row[k].as_array().expect("array");
            [a[0].as_f64().unwrap(), a[1].as_f64().unwrap(), a[2].as_f64().unwrap()]
        };
        let (lch, luv, hs) = (get("lch"), get("luv"), get("hsluv"));
        rows += 1;
        // reference validation (HSLuv rev 4 is deterministic: agreement to 1e-8 relative)
        let r_hs = hsluv::lch_to_hsluv(lch);
        let r_lch = hsluv::hsluv_to_lch(hs);
        let hd = pv::refmodel::hue_dist(r_hs[0], hs[0]);
        if (lch[0] > 1e-6 && lch[0] < 99.999) && (hd > 1e-6 || (r_hs[1] - hs[1]).abs() > 1e-6 || (r_hs[2] - hs[2]).abs() > 1e-6 || (r_lch[1] - lch[1]).abs() > 1e-6) {
            machinery_fail(format!("HSLuv reference, row {hexname}: lch {lch:?} -> {r_hs:?}, data {hs:?}; back {r_lch:?}"));
        }
        let rp = cie::to_polar(luv);
        if (rp[1] - lch[1]).abs() > 1e-6 || (lch[1] > 1e-6 && pv::refmodel::hue_dist(rp[2], lch[2]) > 1e-6) {
            machinery_fail(format!("polar reference, row {hexname}: luv {luv:?} -> {rp:?}, data {lch:?}"));
        }
        // palette
        let p_hs: Hsluv<D65, f64> = Hsluv::from_color_unclamped(Lchuv::<D65, f64>::new(lch[0], lch[1], lch[2]));
        let p_lch: Lchuv<D65, f64> = Lchuv::from_color_unclamped(Hsluv::<D65, f64>::new(hs[0], hs[1], hs[2]));
        let p_pol: Lchuv<D65, f64> = Lchuv::from_color_unclamped(Luv::<D65, f64>::new(luv[0], luv[1], luv[2]));
        n += 3;
        let degenerate = !(lch[0] > 1e-6 && lch[0] < 99.999);
        if !degenerate {
            let d = (p_hs.saturation - hs[1]).abs().max((p_hs.l - hs[2]).abs()).max(if lch[1] > 1e-6 { pv::refmodel::hue_dist(p_hs.hue.into_positive_degrees(), hs[0]) } else { 0.0 });
            c.ratio(sub, d / 1e-6, || json!({"row": hexname, "hsluv": [p_hs.hue.into_positive_degrees(), p_hs.saturation, p_hs.l]}));
            if !(d <= 1e-6) {
                c.violation("C02/published/hsluv-dataset/Lchuv->Hsluv", d, || json!({"sub": "published", "input": lch, "row": hexname, "observed": [p_hs.hue.into_positive_degrees(), p_hs.saturation, p_hs.l], "expected": hs}));
            }
            let d = (p_lch.chroma - lch[1]).abs().max((p_lch.l - lch[0]).abs());
            if !(d <= 1e-6) {
                c.violation("C02/published/hsluv-dataset/Hsluv->Lchuv", d, || json!({"sub": "published", "input": hs, "row": hexname, "observed": [p_lch.l, p_lch.chroma, p_lch.hue.into_positive_degrees()], "expected": lch}));
            }
        }
        let d = (p_pol.chroma - lch[1]).abs().max(if lch[1] > 1e-6 { pv::refmodel::hue_dist(p_pol.hue.into_positive_degrees(), lch[2]) } else { 0.0 });
        if !(d <= 1e-6) {
            c.violation("C02/published/hsluv-dataset/Luv->Lchuv", d, || json!({"sub": "published", "input": luv, "row": hexname, "observed": [p_pol.l, p_pol.chroma, p_pol.hue.into_positive_degrees()], "expected": lch}));
        }
    }
    if rows != 4096 {
        machinery_fail(format!("expected 4096 HSLuv rows, found {rows}"));
    }
    // (3) CIE 15:2004 table shipped in /repo: XYZ -> xy and u'v' of the illuminants (5 digits)
    let path = format!("{}/integration_tests/tests/convert/data_cie_15_2004.csv", repo_root());
    let txt = std::fs::read_to_string(&path).unwrap_or_else(|e| machinery_fail(format!("cannot read {path}: {e}")));
    for line in txt.lines().skip(1) {
        let f: Vec<f64> = line.split(',').filter_map(|x| x.trim().parse().ok()).collect();
        if f.len() < 8 {
            continue;
        }
        let xyz = [f[0], f[1], f[2]];
        let r = cie::xyz_to_yxy(xyz, cie::Wp::E);
        if (r[0] - f[3]).abs() > 2e-5 || (r[1] - f[4]).abs() > 2e-5 {
            machinery_fail(format!("xyY reference {xyz:?} -> {r:?}, CIE 15 {:?}", &f[3..5]));
        }
        let p: palette::Yxy<palette::white_point::E, f64> = palette::Yxy::from_color_unclamped(Xyz::<palette::white_point::E, f64>::new(xyz[0], xyz[1], xyz[2]));
        n += 1;
        let d = (p.x - f[3]).abs().max((p.y - f[4]).abs()).max((p.luma - f[5]).abs());
        if !(d <= 2e-5) {
            c.violation("C02/published/cie15/Xyz->Yxy", d, || json!({"sub": "published", "input": xyz, "observed": [p.x, p.y, p.luma], "expected": &f[3..6]}));
        }
    }
    c.add(sub, n, n, n, n);
    c.exhaustive(sub, true, "Ottosson's 4 Oklab pairs, all 4096 rows of the HSLuv data set (LCh(uv)<->HSLuv, Luv->LCh(uv)), the CIE 15:2004 illuminant table; the reference model must agree with the same data or the run is a machinery failure");
}

macro_rules! with_graph {
    ($group:expr, $float:expr, |$g:ident| $body:expr) => {
        match ($group, $float) {
            ("D65-core", "f32") => { let $g = pga::d65_f32(); $body }
            ("D65-core", "f64") => { let $g = pgb::d65_f64(); $body }
            ("D65-cylindrical", "f32") => { let $g = pgc::d65cyl_f32(); $body }
            ("D65-cylindrical", "f64") => { let $g = pgc::d65cyl_f64(); $body }
            ("D50", "f32") => { let $g = pgd::d50_f32(); $body }
            ("D50", "f64") => { let $g = pgd::d50_f64(); $body }
            ("DCI", "f32") => { let $g = pgd::dci_f32(); $body }
            ("DCI", "f64") => { let $g = pgd::dci_f64(); $body }
            ("A", "f32") => { let $g = pgd::a_f32(); $body }
            ("A", "f64") => { let $g = pgd::a_f64(); $body }
            ("E", "f32") => { let $g = pgd::e_f32(); $body }
            ("E", "f64") => { let $g = pgd::e_f64(); $body }
            ("D55", "f64") => { let $g = pgd::d55_f64(); $body }
            ("D75", "f64") => { let $g = pgd::d75_f64(); $body }
            ("C", "f64") => { let $g = pgd::c_f64(); $body }
            ("B", "f64") => { let $g = pgd::b_f64(); $body }
            ("F2", "f64") => { let $g = pgd::f2_f64(); $body }
            ("F7", "f64") => { let $g = pgd::f7_f64(); $body }
            ("F11", "f64") => { let $g = pgd::f11_f64(); $body }
            (g, f) => { eprintln!("unknown graph {g}/{f}"); std::process::exit(3) }
        }
    };
}

fn replay(c: &mut Collector, rep: &Value) {
    let case = &rep["case"];
    match case["sub"].as_str().unwrap_or("") {
        "edge" => {
            let group = case["group"].as_str().unwrap_or("").to_string();
            let float = case["float"].as_str().unwrap_or("").to_string();
            let path: Vec<String> = case["path"].as_array().map(|a| a.iter().map(|x| x.as_str().unwrap_or("").to_string()).collect()).unwrap_or_default();
            let bits: Vec<u64> = case["input"].as_array().map(|a| a.iter().map(|x| u64::from_str_radix(x.as_str().unwrap_or("0").trim_start_matches("0x"), 16).unwrap_or(0)).collect()).unwrap_or_default();
            fn go<T: Fl>(g: &Graph<T>, path: &[String], bits: &[u64], c: &mut Collector) {
                let a = g.index(&path[0]).expect("node");
                let b = g.index(&path[1]).expect("node");
                let v = [T::from_bits64(bits[0]), T::from_bits64(bits[1]), T::from_bits64(bits[2])];
                let mut cnt = [0u64; 3];
                check_edge_value(g, a, b, v, c, &mut cnt);
                if let Some(f) = g.unc[a][b] {
                    println!("{} {:?} -> {} {:?}", path[0], to64(v), path[1], pv::catch(|| to64(f(v))));
                }
            }
            with_graph!(group.as_str(), float.as_str(), |g| go(&g, &path, &bits, c));
        }
        "custom-white" => {
            let ctx = Ctx { only: Some("custom-white".into()), ..Ctx::from_args("C02").0 };
            let mut all = Collector::new();
            customwp::run(&ctx, &mut all);
            let want = rep["signature"].as_str().unwrap_or("").to_string();
            all.viol.retain(|k, _| *k == want);
            c.merge(all);
        }
        "matrices" => {
            let ctx = Ctx::from_args("C02").0;
            check_matrices(&ctx, c);
        }
        "dark" => {
            let group = case["group"].as_str().unwrap_or("").to_string();
            let float = case["float"].as_str().unwrap_or("").to_string();
            let ctx = Ctx { only: Some(format!("dark/{group}/{float}")), ..Ctx::from_args("C02").0 };
            let mut all = Collector::new();
            with_graph!(group.as_str(), float.as_str(), |g| run_dark(&ctx, &g, &mut all));
            let want = rep["signature"].as_str().unwrap_or("").to_string();
            all.viol.retain(|k, _| *k == want);
            c.merge(all);
        }
        "curve" => {
            let group = case["group"].as_str().unwrap_or("").to_string();
            let float = case["float"].as_str().unwrap_or("").to_string();
            let ctx = Ctx { only: Some(format!("curves/{group}/{float}")), ..Ctx::from_args("C02").0 };
            let mut all = Collector::new();
            with_graph!(group.as_str(), float.as_str(), |g| run_curves(&ctx, &g, &mut all));
            let want = rep["signature"].as_str().unwrap_or("").to_string();
            all.viol.retain(|k, _| *k == want);
            c.merge(all);
        }
        _ => {
            let ctx = Ctx::from_args("C02").0;
            check_published(&ctx, c);
        }
    }
}

fn main() {
    pv::main_guard(real_main)
}

fn real_main() -> i32 {
    let (ctx, mode) = Ctx::from_args("C02");
    if let Mode::Replay(rep) = mode {
        let mut c = Collector::new();
        replay(&mut c, &rep);
        return ctx.finish_replay(c);
    }
    let mut total = Collector::new();
    check_published(&ctx, &mut total);
    check_matrices(&ctx, &mut total);
    customwp::run(&ctx, &mut total);
    let quick = ctx.tier == Tier::Quick;
    let (dense, grid) = if quick { (true, 9) } else { (true, 17) };
    run_dark(&ctx, &pga::d65_f32(), &mut total);
    run_dark(&ctx, &pgb::d65_f64(), &mut total);
    run_dark(&ctx, &pgd::d50_f32(), &mut total);
    run_dark(&ctx, &pgd::d50_f64(), &mut total);
    run_curves(&ctx, &pga::d65_f32(), &mut total);
    run_curves(&ctx, &pgb::d65_f64(), &mut total);
    run_curves(&ctx, &pgc::d65cyl_f32(), &mut total);
    run_curves(&ctx, &pgc::d65cyl_f64(), &mut total);
    run_curves(&ctx, &pgd::d50_f32(), &mut total);
    run_curves(&ctx, &pgd::d50_f64(), &mut total);
    run_curves(&ctx, &pgd::dci_f32(), &mut total);
    run_curves(&ctx, &pgd::dci_f64(), &mut total);
    run_graph(&ctx, &pga::d65_f32(), dense, grid, &mut total);
    run_graph(&ctx, &pgb::d65_f64(), dense, grid, &mut total);
    run_graph(&ctx, &pgc::d65cyl_f32(), dense, grid, &mut total);
    run_graph(&ctx, &pgc::d65cyl_f64(), dense, grid, &mut total);
    run_graph(&ctx, &pgd::d50_f32(), dense, grid, &mut total);
    run_graph(&ctx, &pgd::d50_f64(), dense, grid, &mut total);
    run_graph(&ctx, &pgd::dci_f32(), dense, grid, &mut total);
    run_graph(&ctx, &pgd::dci_f64(), dense, grid, &mut total);
    run_graph(&ctx, &pgd::a_f32(), dense, grid, &mut total);
    run_graph(&ctx, &pgd::a_f64(), dense, grid, &mut total);
    run_graph(&ctx, &pgd::e_f32(), dense, grid, &mut total);
    run_graph(&ctx, &pgd::e_f64(), dense, grid, &mut total);
    run_graph(&ctx, &pgd::d55_f64(), dense, grid, &mut total);
    run_graph(&ctx, &pgd::d75_f64(), dense, grid, &mut total);
    run_graph(&ctx, &pgd::c_f64(), dense, grid, &mut total);
    run_graph(&ctx, &pgd::b_f64(), dense, grid, &mut total);
    run_graph(&ctx, &pgd::f2_f64(), dense, grid, &mut total);
    run_graph(&ctx, &pgd::f7_f64(), dense, grid, &mut total);
    run_graph(&ctx, &pgd::f11_f64(), dense, grid, &mut total);
    ctx.finish(
        total,
        "model_checking",
        "states = (source node type, in-range lattice value or RGB-grid image) per configuration (white point x float type); transitions = conversion edges executed; traces = reference-model predictions compared with the edge's result; plus matrix entries and published data rows; every state is non-trivial",
        &[
            "the f64 reference models (pv::refmodel) are transcriptions of the published definitions, validated in every run against Ottosson's Oklab table, the HSLuv data set and the CIE 15 table",
            "agreement is measured in linear-light XYZ (white = 1); for Oklab either published matrix set (M1 route or the direct sRGB matrices) is accepted",
            "a target only participates for colours it can represent (inside its RGB gamut for gamut-bounded types)",
        ],
    )
}
