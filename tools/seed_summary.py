#!/usr/bin/env python3
"""Generate /verif/seeded/SUMMARY.md from the meta.json files."""
import json, glob, os
rows = []
for m in sorted(glob.glob('/verif/seeded/*/meta.json')):
    d = json.load(open(m)); name = os.path.basename(os.path.dirname(m))
    det = d.get('detection', {})
    rows.append((name, d.get('property'), d.get('summary', '').replace('|', '/'), d.get('needs', '').replace('|', '/')[:260], d.get('confirmed'), ', '.join(f"{c}:{'DETECTED' if v['detected'] else 'missed'}" for c, v in det.items()), d.get('note', '')))
with open('/verif/seeded/SUMMARY.md', 'w') as f:
    f.write("# Seeded property-breaking changes (written by independent sub-agents from the property text only)\n\n")
    f.write("Each change compiles, leaves the repository's 871 tests passing, and has a demo test that fails with it and passes without it (confirmed by tools/seed_eval.py in a scratch worktree). Checks were run against /repo + patch in isolation (tools/mutant_run.sh), quick tier.\n\n")
    f.write("| id | property | change | needs | confirmed | checks |\n|---|---|---|---|---|---|\n")
    for r in rows:
        f.write(f"| {r[0]} | {r[1]} | {r[2]} | {r[3]} | {r[4]} | {r[5]} |\n")
    notes = [r for r in rows if r[6]]
    if notes:
        f.write("\n## Notes\n\n")
        for r in notes:
            f.write(f"* **{r[0]}**: {r[6]}\n")
print(len(rows), "seeded changes")
