use palette::cam16::{Cam16Qch, Cam16Jch, Parameters, Surround};
use palette::white_point::D65;
fn main() {
    let mut p = Parameters::<palette::cam16::StaticWp<D65>, f64>::default_static_wp(318.31);
    p.surround = Surround::Dark;
    let b = p.bake();
    for (q, c) in [(1e-7, 1e-7), (1e-7, 1e-8), (1e-7, 1e-9), (1e-7, 2e-8), (1e-7, 3e-8), (1e-7, 5e-8), (1e-6, 1e-6), (1e-3, 1e-3), (1.0, 1.0), (10.0, 10.0), (1e-7, 0.0)] {
        let k = Cam16Qch { brightness: q, chroma: c, hue: 237.53.into() };
        let x = k.into_xyz(b);
        println!("Q {q:e} C {c:e} -> {:?}", (x.x, x.y, x.z));
    }
    for h in [0.0, 90.0, 180.0, 237.53, 270.0] {
        let k = Cam16Qch { brightness: 1e-7, chroma: 1e-7, hue: h.into() };
        let x = k.into_xyz(b);
        println!("h {h} -> {:?}", (x.x, x.y, x.z));
        let k = Cam16Jch { lightness: 1e-17, chroma: 1e-7, hue: h.into() };
        let x = k.into_xyz(b);
        println!("  Jch h {h} -> {:?}", (x.x, x.y, x.z));
    }
}
