//! SaturatingAdd / SaturatingSub (implemented for unsigned integer components only): the colour
//! operator against the component-wise integer operation, and the Alpha form against the bare form.
use palette::cam16::{Cam16Jch, Cam16UcsJab, Cam16UcsJmh};
use palette::cast::ArrayCast;
use palette::encoding;
use palette::lms::VonKriesLms;
use palette::luma::Luma;
use palette::num::{SaturatingAdd, SaturatingSub};
use palette::rgb::Rgb;
use palette::white_point::D65;
use palette::Alpha;
use palette::{Hsl, Hsluv, Hsv, Hwb, Lab, Lch, Lchuv, Luv, Okhsl, Okhsv, Okhwb, Oklab, Oklch, Xyz, Yxy};
use pv::{json, Collector, Value};

pub type U = [u8; 4];
pub type UB = fn(&U, &U) -> U;
pub type US = fn(&U, u8) -> U;

pub struct SatSpec {
    pub name: &'static str,
    pub n: usize,
    /// 0 saturating_add, 1 saturating_sub
    pub cc: [UB; 2],
    pub cs: [US; 2],
    pub acc: [UB; 2],
    pub acs: [US; 2],
}

fn fr<C: ArrayCast<Array = [u8; N]>, const N: usize>(v: &U) -> C {
    let mut a = [0u8; N];
    a.copy_from_slice(&v[..N]);
    palette::cast::from_array(a)
}
fn to<C: ArrayCast<Array = [u8; N]>, const N: usize>(c: C) -> U {
    let a: [u8; N] = palette::cast::into_array(c);
    let mut v = [0u8; 4];
    v[..N].copy_from_slice(&a);
    v
}
fn fra<C: ArrayCast<Array = [u8; N]>, const N: usize>(v: &U) -> Alpha<C, u8> {
    Alpha { color: fr::<C, N>(v), alpha: v[3] }
}
fn toa<C: ArrayCast<Array = [u8; N]>, const N: usize>(c: Alpha<C, u8>) -> U {
    let mut v = to::<C, N>(c.color);
    v[3] = c.alpha;
    v
}

macro_rules! sat_spec {
    ($name:literal, $C:ty, $N:literal) => {
        SatSpec {
            name: $name,
            n: $N,
            cc: [|a, b| to::<$C, $N>(SaturatingAdd::saturating_add(fr::<$C, $N>(a), fr::<$C, $N>(b))), |a, b| to::<$C, $N>(SaturatingSub::saturating_sub(fr::<$C, $N>(a), fr::<$C, $N>(b)))],
            cs: [|a, s| to::<$C, $N>(SaturatingAdd::saturating_add(fr::<$C, $N>(a), s)), |a, s| to::<$C, $N>(SaturatingSub::saturating_sub(fr::<$C, $N>(a), s))],
            acc: [|a, b| toa::<$C, $N>(SaturatingAdd::saturating_add(fra::<$C, $N>(a), fra::<$C, $N>(b))), |a, b| toa::<$C, $N>(SaturatingSub::saturating_sub(fra::<$C, $N>(a), fra::<$C, $N>(b)))],
            acs: [|a, s| toa::<$C, $N>(SaturatingAdd::saturating_add(fra::<$C, $N>(a), s)), |a, s| toa::<$C, $N>(SaturatingSub::saturating_sub(fra::<$C, $N>(a), s))],
        }
    };
}

pub fn sat_specs() -> Vec<SatSpec> {
    vec![
        sat_spec!("Luma", Luma<encoding::Srgb, u8>, 1),
        sat_spec!("Srgb", Rgb<encoding::Srgb, u8>, 3),
        sat_spec!("Xyz", Xyz<D65, u8>, 3),
        sat_spec!("Yxy", Yxy<D65, u8>, 3),
        sat_spec!("Lab", Lab<D65, u8>, 3),
        sat_spec!("Luv", Luv<D65, u8>, 3),
        sat_spec!("Lch", Lch<D65, u8>, 3),
        sat_spec!("Lchuv", Lchuv<D65, u8>, 3),
        sat_spec!("Hsluv", Hsluv<D65, u8>, 3),
        sat_spec!("Hsl", Hsl<encoding::Srgb, u8>, 3),
        sat_spec!("Hsv", Hsv<encoding::Srgb, u8>, 3),
        sat_spec!("Hwb", Hwb<encoding::Srgb, u8>, 3),
        sat_spec!("Oklab", Oklab<u8>, 3),
        sat_spec!("Oklch", Oklch<u8>, 3),
        sat_spec!("Okhsl", Okhsl<u8>, 3),
        sat_spec!("Okhsv", Okhsv<u8>, 3),
        sat_spec!("Okhwb", Okhwb<u8>, 3),
        sat_spec!("Lms", VonKriesLms<D65, u8>, 3),
        sat_spec!("Cam16Jch", Cam16Jch<u8>, 3),
        sat_spec!("Cam16UcsJmh", Cam16UcsJmh<u8>, 3),
        sat_spec!("Cam16UcsJab", Cam16UcsJab<u8>, 3),
    ]
}

const OPS: [&str; 2] = ["saturating_add", "saturating_sub"];
fn refop(x: u8, y: u8, op: usize) -> u8 {
    if op == 0 {
        x.saturating_add(y)
    } else {
        x.saturating_sub(y)
    }
}

/// one (colour, colour-with-alpha) pair and one scalar: all forms
pub fn check_sat(sp: &SatSpec, a: &U, b: &U, s: u8, c: &mut Collector, cnt: &mut [u64; 4]) {
    for op in 0..2 {
        let case = |form: &str, obs: Value, exp: Value| json!({"k": "sat", "type": sp.name, "float": "u8", "op": op, "a": a, "b": b, "s": s, "form": form, "observed": obs, "expected": exp});
        let sig = |form: &str, check: &str| format!("C10/saturating/{}<u8>.{}{}/{}", sp.name, form, OPS[op], check);
        cnt[0] += 1;
        let r = pv::catch(|| ((sp.cc[op])(a, b), (sp.cs[op])(a, s), (sp.acc[op])(a, b), (sp.acs[op])(a, s)));
        cnt[1] += 4;
        let (cc, cs, acc, acs) = match r {
            Ok(x) => x,
            Err(msg) => {
                c.violation(&sig("", "panic"), 1.0, || case(OPS[op], json!(msg), json!("no panic")));
                continue;
            }
        };
        let mut wcc = [0u8; 4];
        let mut wcs = [0u8; 4];
        for i in 0..sp.n {
            wcc[i] = refop(a[i], b[i], op);
            wcs[i] = refop(a[i], s, op);
        }
        cnt[2] += 4;
        if cc != wcc {
            c.violation(&sig("", "component-wise/color"), 1.0, || case("color", json!(cc), json!(wcc)));
        }
        if cs != wcs {
            c.violation(&sig("", "component-wise/scalar"), 1.0, || case("scalar", json!(cs), json!(wcs)));
        }
        let mut wacc = cc;
        wacc[3] = refop(a[3], b[3], op);
        let mut wacs = cs;
        wacs[3] = refop(a[3], s, op);
        if acc != wacc {
            c.violation(&sig("Alpha::", "variant/color"), 1.0, || case("Alpha color", json!(acc), json!(wacc)));
        }
        if acs != wacs {
            c.violation(&sig("Alpha::", "variant/scalar"), 1.0, || case("Alpha scalar", json!(acs), json!(wacs)));
        }
        if cc[..3] != a[..3] {
            cnt[3] += 1;
        }
        c.outcome(pv::fnv(&[cc[0], cc[1], cc[2], cs[0], acc[3], acs[3], op as u8]));
    }
}

pub const LAT: [u8; 9] = [0, 1, 2, 127, 128, 129, 253, 254, 255];
pub const PART: [u8; 5] = [0, 1, 128, 254, 255];

pub fn run_sat(total: &mut Collector, thorough: bool) {
    let specs = sat_specs();
    let specs = &specs;
    let cc = pv::par::run_chunks(specs.len(), |i, c| {
        let sp = &specs[i];
        let mut cnt = [0u64; 4];
        if sp.n == 1 {
            // complete space: every u8 colour x every u8 partner/scalar, alpha = the other operand mirrored
            for x in 0..=255u8 {
                for y in 0..=255u8 {
                    check_sat(sp, &[x, 0, 0, y], &[y, 0, 0, x ^ 0x5a], y, c, &mut cnt);
                }
            }
        } else {
            let lat: &[u8] = &LAT;
            let all: Vec<u8> = (0..=255u8).collect();
            let scal: &[u8] = if thorough { &all } else { &LAT };
            for &x in lat {
                for &y in lat {
                    for &w in lat {
                        let a = [x, y, w, x.wrapping_add(w)];
                        let mut k = 0usize;
                        for &p in &PART {
                            for &q in &PART {
                                for &u in &PART {
                                    let s = scal[k % scal.len()];
                                    k += 1;
                                    check_sat(sp, &a, &[p, q, u, q.wrapping_mul(3)], s, c, &mut cnt);
                                }
                            }
                        }
                        for &s in scal {
                            check_sat(sp, &a, &[255 - x, y, 0, 200], s, c, &mut cnt);
                        }
                    }
                }
            }
        }
        c.add("saturating/u8", cnt[0], cnt[1], cnt[2], cnt[3]);
        c.sample(pv::splitmix(0x5a7 + i as u64), || json!({"sub": "saturating/u8", "type": sp.name, "a": [200, 100, 7, 250], "saturating_add(100)": (sp.acs[0])(&[200, 100, 7, 250], 100)}));
    });
    total.merge(cc);
    total.exhaustive("saturating/u8", true, &format!("{} colour types with u8 components: Luma complete (256 x 256 colour/partner/scalar/alpha combinations); 3-component types: {{0,1,2,127,128,129,253,254,255}}^3 x ({{0,1,128,254,255}}^3 partners + scalar lattice), saturating_add/sub with colour and scalar, bare and Alpha", specs.len()));
}

pub fn replay_sat(c: &mut Collector, case: &Value) {
    let specs = sat_specs();
    let name = case["type"].as_str().unwrap_or("");
    let sp = specs.iter().find(|s| s.name == name).expect("type");
    let arr = |v: &Value| -> U {
        let mut o = [0u8; 4];
        for (i, x) in v.as_array().map(|a| a.as_slice()).unwrap_or(&[]).iter().take(4).enumerate() {
            o[i] = x.as_u64().unwrap_or(0) as u8;
        }
        o
    };
    let mut cnt = [0u64; 4];
    check_sat(sp, &arr(&case["a"]), &arr(&case["b"]), case["s"].as_u64().unwrap_or(0) as u8, c, &mut cnt);
}
