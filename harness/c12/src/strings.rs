//! Sub-check (d): strict, total parsing. Complete enumeration of all strings up to a length
//! over an alphabet, and all small edits of valid strings of every accepted length.
use crate::hexref::{TyEntry, OUT_ACCEPT};
use pv::{json, Collector, Ctx};

/// Σ of DESIGN.md §4 C12, ordered simplest first.
pub const SIGMA12: [&str; 12] = ["0", "9", "a", "F", "g", "+", "-", "#", " ", "\u{e9}", "\u{20ac}", "\u{1d7d8}"];
/// reduced alphabet for the 9-symbol bound
pub const SIGMA8: [&str; 8] = ["0", "a", "F", "g", "+", "#", " ", "\u{e9}"];

/// extra symbols for the edit sub-check: the ASCII neighbours of the three digit ranges
/// ('/' ':' '@' 'G' '`' 'g'), more valid digits, prefixes people write ('x', 'X'), separators,
/// control characters, and non-ASCII characters that Unicode-aware digit tests accept
/// (fullwidth 'f' and '1', ARABIC-INDIC DIGIT THREE) or that are invisible (NBSP, BOM).
pub const EXTRA: [&str; 24] = [
    "/", ":", "@", "G", "`", "f", "A", "5", "x", "X", "_", ".", ",", "\t", "\n", "\r", "\0", "\u{7f}", "\u{ff46}", "\u{ff11}", "\u{663}", "\u{a0}", "\u{feff}", "%",
];

/// Enumerates all strings of n symbols over an alphabet, split in chunks of B^k strings that
/// share a prefix; order = length, then lexicographic in alphabet order.
pub struct StrEnum<'a> {
    pub alpha: &'a [&'a str],
    pub k: usize,
}

impl<'a> StrEnum<'a> {
    pub fn new(alpha: &'a [&'a str]) -> Self {
        let b = alpha.len() as u64;
        let mut k = 1;
        while b.pow(k as u32 + 1) <= 65536 {
            k += 1;
        }
        StrEnum { alpha, k }
    }
    /// (n, prefix index) jobs for all lengths min..=max
    pub fn jobs(&self, min_len: usize, max_len: usize) -> Vec<(usize, u64)> {
        let b = self.alpha.len() as u64;
        let mut v = vec![];
        for n in min_len..=max_len {
            let pre = n.saturating_sub(self.k);
            for p in 0..b.pow(pre as u32) {
                v.push((n, p));
            }
        }
        v
    }
    pub fn run(&self, job: (usize, u64), mut f: impl FnMut(&str)) -> u64 {
        let b = self.alpha.len() as u64;
        let (n, p) = job;
        let suf = n.min(self.k);
        let pre = n - suf;
        let mut s = String::with_capacity(4 * n + 4);
        for j in 0..pre {
            let d = (p / b.pow((pre - 1 - j) as u32)) % b;
            s.push_str(self.alpha[d as usize]);
        }
        let plen = s.len();
        let count = b.pow(suf as u32);
        for i in 0..count {
            s.truncate(plen);
            for j in 0..suf {
                let d = (i / b.pow((suf - 1 - j) as u32)) % b;
                s.push_str(self.alpha[d as usize]);
            }
            f(&s);
        }
        count
    }
}

fn reaches_digit_parsing(s: &str) -> bool {
    let n = s.len() - s.starts_with('#') as usize;
    matches!(n, 3 | 4 | 6 | 8 | 12 | 16 | 24 | 32)
}

/// all strings of min..=max symbols over `alpha`, through every FromStr impl
pub fn all_strings(ctx: &Ctx, total: &mut Collector, tys: &[TyEntry], sub: &str, alpha: &[&str], min_len: usize, max_len: usize, desc: &str) {
    if !ctx.wants(sub) {
        return;
    }
    let t0 = std::time::Instant::now();
    let en = StrEnum::new(alpha);
    let jobs = en.jobs(min_len, max_len);
    let seed = ctx.seed;
    let sample_every = (jobs.len() / 12).max(1);
    let c = pv::par::run_chunks(jobs.len(), |ji, c| {
        let mut nt = 0u64;
        let mut mask = [0u8; 16];
        let mut idx = 0u64;
        let n = en.run(jobs[ji], |s| {
            if reaches_digit_parsing(s) {
                nt += 1;
            }
            for (ti, ty) in tys.iter().enumerate() {
                let (code, h) = (ty.check)(c, s);
                mask[ti] |= 1 << code;
                if code == OUT_ACCEPT {
                    c.outcome(h ^ ti as u64);
                }
            }
            idx += 1;
            if idx == 1 + (ji as u64 * 7919) % 15000 && ji % sample_every == 0 {
                c.sample(pv::splitmix(seed ^ ((ji as u64) << 24) ^ idx), || json!({"sub": sub, "input": s, "outcomes": tys.iter().map(|t| (t.check)(&mut Collector::new(), s).0).collect::<Vec<u8>>(), "legend": "per FromStr impl: 0 = rejected as the reference does, 1 = accepted with the reference value, 2 = violation"}));
            }
        });
        for (ti, m) in mask.iter().enumerate() {
            for code in 0..3u8 {
                if m & (1 << code) != 0 {
                    c.outcome(pv::fnv(&[b'p', ti as u8, code]));
                }
            }
        }
        let k = tys.len() as u64;
        c.add(sub, n, n * k, n * k, nt);
    });
    total.merge(c);
    total.exhaustive(sub, true, desc);
    total.note(&format!("wall_s/{sub}"), json!(t0.elapsed().as_secs_f64()));
}

fn multibyte_symbols() -> &'static Vec<String> {
    static CELL: std::sync::OnceLock<Vec<String>> = std::sync::OnceLock::new();
    CELL.get_or_init(|| {
        let mut v: Vec<String> = (0x80u32..0x800).filter_map(char::from_u32).map(|c| c.to_string()).collect();
        v.extend((0x800u32..0x10000).step_by(61).filter_map(char::from_u32).map(|c| c.to_string()));
        for cp in [0x1c30u32, 0x1c39, 0x6c30, 0x20ac, 0x4e00, 0xff46, 0xfeff] {
            v.extend(char::from_u32(cp).map(|c| c.to_string()));
        }
        v.push("\u{1d7d8}".to_string());
        v
    })
}

/// Valid base strings of L digits.
fn bases(l: usize) -> Vec<String> {
    let cyc = "0f1E2d3C4b5A69788796a5B4c3D2e1F0";
    vec![cyc[..l].to_string(), "F".repeat(l)]
}

/// Call `f` with the base and every edit of it (see `edits` sub-check description).
fn for_each_edit(base: &[&str], alpha1: &[&str], alpha2: &[&str], f: &mut dyn FnMut(&str)) {
    let n = base.len();
    let mut s = String::new();
    let mut emit = |parts: &[&str], f: &mut dyn FnMut(&str)| {
        s.clear();
        for p in parts {
            s.push_str(p);
        }
        f(&s);
    };
    let mut w: Vec<&str> = base.to_vec();
    emit(&w, f);
    // 1-symbol substitutions
    for p in 0..n {
        for a in alpha1 {
            w[p] = a;
            emit(&w, f);
        }
        w[p] = base[p];
    }
    // 2-symbol substitutions
    for p in 0..n {
        for q in (p + 1)..n {
            for a in alpha2 {
                w[p] = a;
                for b in alpha2 {
                    w[q] = b;
                    emit(&w, f);
                }
            }
            w[q] = base[q];
        }
        w[p] = base[p];
    }
    // insertions
    for p in 0..=n {
        for a in alpha1 {
            let mut v: Vec<&str> = base[..p].to_vec();
            v.push(a);
            v.extend_from_slice(&base[p..]);
            emit(&v, f);
        }
    }
    // deletions
    for p in 0..n {
        let mut v: Vec<&str> = base[..p].to_vec();
        v.extend_from_slice(&base[p + 1..]);
        emit(&v, f);
    }
    // byte-length-preserving replacement of k adjacent symbols by one k-byte character: EVERY two-byte
    // character (U+0080..U+07FF; a byte-wise digit test that folds or masks bytes lets some of them
    // through, e.g. U+00F0 = C3 B0 looks like "C0" under & 0x7f), every 61st three-byte character plus
    // those whose bytes fold onto digits, and a four-byte one
    let multi = multibyte_symbols();
    for (k, sym) in multi.iter().map(|s| (s.len(), s.as_str())) {
        if n < k {
            continue;
        }
        for p in 0..=(n - k) {
            let mut v: Vec<&str> = base[..p].to_vec();
            v.push(sym);
            v.extend_from_slice(&base[p + k..]);
            emit(&v, f);
        }
    }
    // two such 2-byte replacements
    if n >= 4 {
        for p in 0..=(n - 4) {
            for q in (p + 2)..=(n - 2) {
                let mut v: Vec<&str> = base[..p].to_vec();
                v.push("\u{e9}");
                v.extend_from_slice(&base[p + 2..q]);
                v.push("\u{e9}");
                v.extend_from_slice(&base[q + 2..]);
                emit(&v, f);
            }
        }
    }
    // a sign in front of every channel-sized group (the shape from_str_radix would accept)
    for g in [1usize, 2, 4, 8] {
        if n % g != 0 || g == 1 {
            continue;
        }
        for sign in ["+", "-"] {
            for keep_len in [true, false] {
                let mut v: Vec<&str> = vec![];
                for (i, b) in base.iter().enumerate() {
                    if i % g == 0 {
                        v.push(sign);
                        if keep_len {
                            continue;
                        }
                    }
                    v.push(b);
                }
                emit(&v, f);
            }
        }
    }
}

/// edits of valid strings of every documented length, per type
pub fn edits(ctx: &Ctx, total: &mut Collector, tys: &[TyEntry]) {
    let sub = "parse/edits";
    if !ctx.wants(sub) {
        return;
    }
    let t0 = std::time::Instant::now();
    // 1-symbol edits: every ASCII character plus the non-ASCII ones; 2-symbol edits: Sigma (+ EXTRA in thorough)
    let ascii: Vec<String> = (0u8..128).map(|b| (b as char).to_string()).collect();
    let mut alpha1: Vec<&str> = ascii.iter().map(|s| s.as_str()).collect();
    for s in SIGMA12.iter().chain(EXTRA.iter()) {
        if !s.is_ascii() {
            alpha1.push(s);
        }
    }
    let mut alpha2: Vec<&str> = SIGMA12.to_vec();
    if ctx.tier == pv::Tier::Thorough {
        alpha2.extend_from_slice(&EXTRA);
    }
    // jobs: (type index, base string with or without '#')
    let mut jobs: Vec<(usize, String)> = vec![];
    let mut lens: Vec<usize> = vec![];
    for (ti, ty) in tys.iter().enumerate() {
        for &l in ty.digits {
            if !lens.contains(&l) {
                lens.push(l);
            }
            for b in bases(l) {
                jobs.push((ti, b.clone()));
                jobs.push((ti, format!("#{b}")));
            }
        }
    }
    let seed = ctx.seed;
    let c = pv::par::run_chunks(jobs.len(), |ji, c| {
        let (ti, ref b) = jobs[ji];
        let syms: Vec<&str> = (0..b.len()).map(|i| &b[i..i + 1]).collect();
        let mut n = 0u64;
        let mut nt = 0u64;
        let mut mask = 0u8;
        for_each_edit(&syms, &alpha1, &alpha2, &mut |s: &str| {
            n += 1;
            if reaches_digit_parsing(s) {
                nt += 1;
            }
            let (code, h) = (tys[ti].check)(c, s);
            mask |= 1 << code;
            if n % 997 == 1 {
                c.outcome(h ^ code as u64);
            }
            if ji % 8 == 3 && n == 40 + 13 * ji as u64 {
                c.sample(pv::splitmix(seed ^ ((ji as u64) << 32) ^ n), || json!({"sub": sub, "ty": tys[ti].name, "input": s, "outcome": code}));
            }
        });
        for code in 0..3u8 {
            if mask & (1 << code) != 0 {
                c.outcome(pv::fnv(&[b'e', ti as u8, code]));
            }
        }
        c.add(sub, n, n, n, nt);
    });
    total.merge(c);
    lens.sort();
    total.exhaustive(
        sub,
        true,
        &format!(
            "for each of the 10 FromStr impls and each documented digit count {:?}: 2 valid base strings x with/without '#': every 1-symbol substitution and insertion at every position over {} symbols (all 128 ASCII characters, U+00E9, U+20AC, U+1D7D8, fullwidth f and 1, Arabic-Indic three, NBSP, BOM), every 2-symbol substitution over {} symbols (Sigma; thorough: + ASCII neighbours of the digit ranges, control chars and the non-ASCII digits), every deletion, every byte-length-preserving replacement of 2/3/4 adjacent digits by one 2/3/4-byte character (all 1920 two-byte characters, every 61st three-byte character and a few chosen ones, one four-byte character; and two 2-byte ones), a sign in front of every channel group",
            lens,
            alpha1.len(),
            alpha2.len()
        ),
    );
    total.note(&format!("wall_s/{sub}"), json!(t0.elapsed().as_secs_f64()));
}
