//! Geometry of the cone and bicone spaces, derived from their definition (not from palette's
//! sampler), and the uniform-volume distribution on them.
//!
//! HSV cone. A colour (h, s, v) sits at cylindrical coordinates: angle θ = h, height z = v, distance
//! from the axis ρ = s·v (the chroma of HSV is C = s·v: at value v the cross-section of the gamut is
//! a disc of radius v, saturation is the fraction of that radius). Volume element:
//!   dV = ρ dρ dθ dz = (s·v)·(v ds)·dθ·dv = s·v² ds dv dθ.
//! The density factorises, so under the uniform-volume distribution h, s, v are independent with
//!   P(S ≤ s) = ∫0^s 2t dt = s²,   P(V ≤ v) = ∫0^v 3t² dt = v³,   h uniform on the circle.
//! Hence (h/360, s², v³) is uniform on the unit cube — these are the coordinates in which equal
//! boxes have equal volume.
//!
//! HSL bicone. Height z = l, ρ = s·R(l) with R(l) = 1 − |2l − 1| (HSL chroma C = s·(1 − |2l − 1|)):
//!   dV = s·R(l)² ds dl dθ,   P(S ≤ s) = s²,
//!   P(L ≤ l) = ∫0^l R² / ∫0^1 R² ;  ∫0^l (2t)² dt = 4l³/3 for l ≤ ½, total = 2·(4/3)(1/8) = 1/3
//!            = 4l³ (l ≤ ½),   1 − 4(1−l)³ (l > ½, by symmetry).
//!
//! HWB is a re-parametrisation of the HSV cone (w = (1−s)·v, b = 1−v); "volume" means the volume of
//! that same cone, so an HWB sample is judged through its equivalent HSV.
//!
//! Inverse-CDF lemma used by the closed-form comparison: if a map g: [0,1) → ℝ is non-decreasing and
//! pushes the uniform measure forward to a distribution with continuous, strictly increasing CDF F,
//! then g = F⁻¹ almost everywhere (P(g(U) ≤ x) = F(x) and monotonicity give {u : g(u) ≤ x} = [0, F(x)]
//! up to a null set). So for a sampler that is monotone in each word — which is *observed* on the
//! grid first — "uniform with respect to volume" is equivalent to: every sampled component equals
//! the inverse CDF of its marginal at the uniform variate its word encodes. The cell-count check
//! does not need that lemma; both are run.

#[derive(Clone, Copy, Debug, PartialEq)]
pub enum Cdf {
    /// F(x) = (x/scale)²  (radial coordinate of disc cross-sections; also the cylinder radius)
    Square { scale: f64 },
    /// F(x) = x³  (height of a cone with apex at 0)
    Cube,
    /// bicone height, components scaled by `scale`
    Bicone { scale: f64 },
}

impl Cdf {
    pub fn f(self, x: f64) -> f64 {
        match self {
            Cdf::Square { scale } => {
                let t = x / scale;
                t * t
            }
            Cdf::Cube => x * x * x,
            Cdf::Bicone { scale } => {
                let l = x / scale;
                if l <= 0.5 {
                    4.0 * l * l * l
                } else {
                    let m = 1.0 - l;
                    1.0 - 4.0 * m * m * m
                }
            }
        }
    }
    pub fn inv(self, u: f64) -> f64 {
        match self {
            Cdf::Square { scale } => scale * u.max(0.0).sqrt(),
            Cdf::Cube => u.cbrt(),
            Cdf::Bicone { scale } => {
                if u <= 0.5 {
                    scale * (2.0 * u).cbrt() * 0.5
                } else {
                    scale * (1.0 - (2.0 * (1.0 - u)).cbrt() * 0.5)
                }
            }
        }
    }
    pub fn scale(self) -> f64 {
        match self {
            Cdf::Square { scale } | Cdf::Bicone { scale } => scale,
            Cdf::Cube => 1.0,
        }
    }
}

/// Rounding allowance for a component that the sampler obtains as inv(u) with u drawn between
/// F(lo) and F(hi), all in the component type with machine epsilon `eps`:
///   * F(end) is computed with 2–3 roundings (≤ 2 ulp relative; for the bicone's upper half the
///     subtraction from 1 makes that an absolute eps/2) — allowed: 16·eps·|F| (+ a denormal floor),
///     pushed through the exact inverse, which accounts for the conditioning of inv at that place
///     (e.g. 1/(3v²) for the cone, 1/(12(1−l)²) near the white apex of the bicone);
///   * inv itself (sqrt / cbrt / a final subtraction and scaling) rounds ≤ 2 ulp of the result —
///     allowed: 16·eps·max(|end|, scale·eps).
/// Both are ≥ 8× what rounding produces and vanish against any mis-shaped range (≥ 1e-3 of it).
pub fn end_bounds(cdf: Cdf, lo: f64, hi: f64, eps: f64, min_pos: f64) -> (f64, f64) {
    let pert = |f: f64| 16.0 * eps * f.abs() + 16.0 * min_pos;
    let (flo, fhi) = (cdf.f(lo), cdf.f(hi));
    let l = cdf.inv(flo - pert(flo)) - 16.0 * eps * lo.abs().max(cdf.scale() * eps);
    let h = cdf.inv((fhi + pert(fhi)).min(1.0e300)) + 16.0 * eps * hi.abs().max(cdf.scale() * eps);
    (l.min(lo), h.max(hi))
}

/// The interval the closed form allows for a component whose uniform variate is `u` (exact up to
/// `du` absolute): [inv(u − du) − r, inv(u + du) + r].
pub fn closed_form_bounds(cdf: Cdf, u: f64, du: f64, eps: f64) -> (f64, f64) {
    let a = cdf.inv((u - du).max(0.0));
    let b = cdf.inv((u + du).min(1.0));
    let r = 16.0 * eps * b.abs().max(cdf.scale() * eps);
    (a - r, b + r)
}
