//! Exact-arithmetic helpers for the C11 oracle.
//!
//! Why f64 is an *exact* oracle for the f32 space.  An f32 is a dyadic rational m·2^e with
//! |m| < 2^24.  For 2^-20 <= |x| <= 2^20 it is a multiple of g = 2^-43 (at least), so x and every
//! x − 360·j (360·j an integer < 2^22) is a multiple of g; whenever such a difference is
//! smaller than 2^10 in magnitude it needs at most 10 + 43 = 53 significant bits and is therefore
//! represented exactly by an f64: `x mod 360` (and `r − x − 360·m` for a result r that is itself
//! a multiple of g — true for every implementation that subtracts a multiple of 360) incurs
//! no rounding at all.  For |x| < 2^-20 the residue is x itself (or 360 + x).  To be independent
//! even of these case distinctions, `circ_diff` below uses the error-free transformation
//! TwoSum: a − b = s + t exactly, s − 360·round(s/360) is exact (both are multiples of ulp(s)
//! and the result is no larger than s, resp. lies in the same binade), so the only rounding is
//! the final `u + t` (relative 2^-53).  Comparisons against a tolerance carry a relative guard
//! of 2^-49 to absorb it.  `selftest` cross-checks `circ_diff` against i128 integer arithmetic.
use pv::fl::Fl;

/// relative guard for `err > tol` comparisons (absorbs the single final rounding of circ_diff)
pub const GUARD: f64 = 1.0 + 8.0 * f64::EPSILON;
pub const LIM: f64 = 1048576.0; // 2^20 > one million degrees

#[inline(always)]
pub fn two_sum(a: f64, b: f64) -> (f64, f64) {
    let s = a + b;
    let bb = s - a;
    let t = (a - (s - bb)) + (b - bb);
    (s, t)
}

/// (a − b) reduced modulo 360 into [−180, 180]; exact up to one final rounding (see module doc).
#[inline(always)]
pub fn circ_diff(a: f64, b: f64) -> f64 {
    let (s, t) = two_sum(a, -b);
    // nearest integer to s/360 by the 1.5·2^52 trick (no libm call in the hot loop; any integer
    // within 1/2 + 2^-50 of s/360 keeps the argument above valid, |s/360| < 2^22 here)
    const MAGIC: f64 = 6755399441055744.0;
    let m = (s * (1.0 / 360.0) + MAGIC) - MAGIC;
    let u = s - 360.0 * m;
    u + t
}

/// exact residue of x in [0, 360) (exact for |x| >= 2^-20; for tiny negative x the value
/// 360 + x is rounded to f64 — error < 2^-44, only used with tolerances >= 2^-15·256/360).
#[inline(always)]
pub fn residue(x: f64) -> f64 {
    let d = circ_diff(x, 0.0);
    if d < 0.0 {
        d + 360.0
    } else {
        d
    }
}

/// spacing of T above |x| (the larger of the two neighbouring spacings at a power of two).
#[inline(always)]
pub fn ulp_of<T: Fl>(x: T) -> f64 {
    let a = T::from64(x.to64().abs());
    a.up().to64() - a.to64()
}
/// ulp of 360 (and of 256) in T: 2^8 · machine epsilon.
#[inline(always)]
pub fn u360<T: Fl>() -> f64 {
    T::EPS * 256.0
}

pub fn hx<T: Fl>(x: T) -> String {
    if T::NAME == "f32" {
        format!("{:#010x}", x.bits64())
    } else {
        format!("{:#018x}", x.bits64())
    }
}
pub fn parse_hex(v: &pv::Value) -> u64 {
    u64::from_str_radix(v.as_str().unwrap_or("0x0").trim_start_matches("0x"), 16).unwrap_or(0)
}

/// Fixed partition of the input space used in violation signatures: zero; an exact non-zero
/// multiple of 180 ("=k180": the wrap points ±180, ±360, …); within 4 tolerances of a multiple of
/// 180 without being one ("~k180": where the rounding of the quotient decides); otherwise
/// sign × {first turn, beyond}.
pub fn class_of<T: Fl>(x: T) -> &'static str {
    let v = x.to64();
    if !v.is_finite() {
        return "non-finite";
    }
    let a = v.abs();
    if a == 0.0 {
        return "0";
    }
    if a > LIM {
        return ">2^20";
    }
    let tol = ulp_of(x) + u360::<T>();
    let d180 = (v - 180.0 * (v * (1.0 / 180.0)).round()).abs();
    if d180 == 0.0 {
        return "=k180";
    }
    if d180 <= 4.0 * tol {
        return "~k180";
    }
    match (v < 0.0, a > 360.0) {
        (false, false) => "+<360",
        (true, false) => "-<360",
        (false, true) => "+>360",
        (true, true) => "->360",
    }
}
/// Coarse partition for the 8-bit mapping (the position within the turn is irrelevant there).
pub fn class_u8<T: Fl>(x: T) -> &'static str {
    let v = x.to64();
    match (v.is_sign_negative(), v.abs() > 360.0) {
        (false, false) => "+<=360",
        (true, false) => "-<=360",
        (false, true) => "+>360",
        (true, true) => "->360",
    }
}

/// i128 cross-check of circ_diff (a wrong oracle is a machinery failure => exit 3).
pub fn selftest() {
    // exact: values with exponent >= -63 scaled by 2^63
    fn scaled(x: f32) -> Option<i128> {
        let d = pv::fl::dyadic32(x)?;
        if d.m == 0 {
            return Some(0);
        }
        let tz = d.m.trailing_zeros() as i32;
        let (m, e) = (d.m >> tz, d.e + tz);
        let sh = e + 63;
        if sh < 0 || sh > 90 {
            return None;
        }
        Some(m << sh)
    }
    let modulus: i128 = 360i128 << 63;
    let mut z = 0x243f_6a88_85a3_08d3u64;
    let mut n = 0u64;
    let specials = [0.0f32, 180.0, -180.0, 360.0, 359.99997, 1048576.0, -1048576.0, 1e-6, 179.99998, 180.00002, 720.0, 1048575.94, 0.703125, 1.40625];
    let mut vals: Vec<f32> = specials.to_vec();
    for i in 0..200_000u64 {
        z = pv::splitmix(z ^ i);
        // deterministic pseudo-lattice: sign, exponent in [-20, 19], 23 mantissa bits
        let e = 107 + (z % 40) as u32;
        let bits = (((z >> 8) & 1) as u32) << 31 | e << 23 | ((z >> 16) as u32 & 0x7f_ffff);
        vals.push(f32::from_bits(bits));
    }
    for w in vals.windows(2) {
        let (a, b) = (w[0], w[1]);
        let (Some(sa), Some(sb)) = (scaled(a), scaled(b)) else { continue };
        let mut d = (sa - sb) % modulus;
        if d > modulus / 2 {
            d -= modulus;
        }
        if d < -modulus / 2 {
            d += modulus;
        }
        let got = circ_diff(a as f64, b as f64);
        let got_i = (got * 9223372036854775808.0) as i128; // ·2^63, exact power-of-two scaling
        let err = (got_i.abs() - d.abs()).abs();
        // allowed: the single final rounding (relative 2^-53) — exact whenever it fits 53 bits
        let allow = (d.abs() >> 52) + 0;
        if err > allow {
            eprintln!("MACHINERY-FAILURE: oracle self-test: circ_diff({a:e}, {b:e}) = {got:e}, exact·2^63 = {d}");
            std::process::exit(3);
        }
        n += 1;
    }
    if n < 100_000 {
        eprintln!("MACHINERY-FAILURE: oracle self-test compared only {n} pairs");
        std::process::exit(3);
    }
    // hand-computed values
    let chk = |a: f64, b: f64, want: f64| {
        let g = circ_diff(a, b);
        if g != want {
            eprintln!("MACHINERY-FAILURE: oracle self-test: circ_diff({a}, {b}) = {g}, want {want}");
            std::process::exit(3);
        }
    };
    chk(370.0, 0.0, 10.0);
    chk(-10.0, 0.0, -10.0);
    chk(720.5, 0.25, 0.25);
    chk(1048576.0, 0.0, -104.0); // 2^20 = 2913·360 − 104
    chk(0.0, 359.0, 1.0);
    if residue(-90.0) != 270.0 || residue(1048576.0) != 256.0 || ulp_of(360.0f32) != 2f64.powi(-15) || ulp_of(360.0f64) != 2f64.powi(-44) {
        eprintln!("MACHINERY-FAILURE: oracle self-test: residue/ulp");
        std::process::exit(3);
    }
}
