//! Relative accuracy on dark colours: the XYZ metric of the conversion checks is absolute, so for a
//! colour of size 1e-4 it cannot see a relative error of 1e-3 in a ratio-type coordinate. For the
//! hexcone family (Rgb -> Hsl / Hsv / Hwb), whose saturation is a ratio of small numbers, the native
//! components of (i) every SIMD lane vs the scalar conversion and (ii) scalar f32 vs scalar f64 are
//! compared with a tolerance relative to the component (1e-5, i.e. ~100 ulps of f32; measured on the
//! unchanged tree: lanes bit-identical to the scalar, f32-vs-f64 <= 2.4e-7) over an RGB grid scaled
//! by 1, 1e-2, 1e-4, 1e-6 (and 1 - that, next to white).
use crate::vect::{Vect, MAXN};
use palette::convert::FromColorUnclamped;
use palette::encoding::Srgb;
use palette::rgb::Rgb;
use palette::{Hsl, Hsv, Hwb};
use pv::fl::Fl;
use pv::{json, Collector, Ctx};
use wide::{f32x4, f32x8, f64x2, f64x4};

fn inputs() -> Vec<[f64; 3]> {
    let g = [0.0, 0.13, 0.37, 0.5, 0.71, 1.0];
    let mut v = vec![];
    for s in [1.0, 1e-2, 1e-4, 1e-6] {
        for &r in &g {
            for &gg in &g {
                for &b in &g {
                    v.push([r * s, gg * s, b * s]);
                    if s < 1.0 {
                        v.push([1.0 - r * s, 1.0 - gg * s, 1.0 - b * s]);
                    }
                }
            }
        }
    }
    v
}

/// |a - b| relative to max(|b|, floor); hue on the circle, in turns
fn rel(a: f64, b: f64, hue: bool) -> f64 {
    if hue {
        let d = (a - b).rem_euclid(360.0);
        d.min(360.0 - d) / 360.0
    } else {
        (a - b).abs() / b.abs().max(1e-12)
    }
}

macro_rules! dark_check {
    ($fname:ident, $V:ty, $S:ty) => {
        pub fn $fname(ctx: &Ctx, total: &mut Collector) {
            type V = $V;
            type S = $S;
            let sub = format!("dark-relative/{}", <V as Vect>::NAME);
            if !ctx.wants(&sub) {
                return;
            }
            let n = <V as Vect>::N;
            let ins = inputs();
            let mut c = Collector::new();
            let (mut st, mut tr) = (0u64, 0u64);
            let tol = 1e-5f64;
            macro_rules! target {
                ($name:literal, $B:ident, $hue:expr) => {{
                    for start in 0..ins.len() {
                        // lanes: consecutive inputs
                        let mut l = [[0.0 as S; MAXN]; 3];
                        for j in 0..n {
                            let v = ins[(start + j) % ins.len()];
                            for k in 0..3 {
                                l[k][j] = v[k] as S;
                            }
                        }
                        st += 1;
                        tr += 1 + n as u64 * 2;
                        let r = pv::catch(|| {
                            let a: Rgb<Srgb, V> = Rgb::new(V::from_lanes(&l[0][..n]), V::from_lanes(&l[1][..n]), V::from_lanes(&l[2][..n]));
                            let simd: [V; 3] = palette::cast::into_array($B::<Srgb, V>::from_color_unclamped(a));
                            let mut sc = [[0.0 as S; 3]; MAXN];
                            let mut s64 = [[0.0f64; 3]; MAXN];
                            for j in 0..n {
                                sc[j] = palette::cast::into_array($B::<Srgb, S>::from_color_unclamped(Rgb::<Srgb, S>::new(l[0][j], l[1][j], l[2][j])));
                                s64[j] = palette::cast::into_array($B::<Srgb, f64>::from_color_unclamped(Rgb::<Srgb, f64>::new(l[0][j] as f64, l[1][j] as f64, l[2][j] as f64)));
                            }
                            ([simd[0].lanes(), simd[1].lanes(), simd[2].lanes()], sc, s64)
                        });
                        let Ok((simd, sc, s64)) = r else {
                            c.violation(&format!("C17/dark-relative/{}/Srgb->{}/panic", <V as Vect>::NAME, $name), 1.0, || json!({"sub": "dark-relative", "vec": <V as Vect>::NAME, "target": $name, "input": start, "observed": "panic", "expected": "no panic"}));
                            continue;
                        };
                        for j in 0..n {
                            let inp = [l[0][j].to64(), l[1][j].to64(), l[2][j].to64()];
                            // grey and black: hue and saturation are not defined by the colour
                            let grey = inp[0] == inp[1] && inp[1] == inp[2];
                            for k in 0..3 {
                                let hue = k == $hue;
                                if grey && (hue || k == 1) {
                                    continue;
                                }
                                let (a, b, w) = (simd[k][j].to64(), sc[j][k].to64(), s64[j][k]);
                                // the hue of a colour whose chroma is tiny relative to its size is a ratio of roundings
                                let e1 = rel(a, b, hue);
                                let e2 = rel(b, w, hue);
                                let mk = |what: &str, obs: f64, exp: f64| json!({"sub": "dark-relative", "vec": <V as Vect>::NAME, "target": $name, "what": what, "component": k, "lane": j, "input": inp, "start": start, "observed": obs, "expected": exp, "tol_relative": tol});
                                if e1 <= tol {
                                    c.ratio(&sub, e1 / tol, || mk("simd lane vs scalar", a, b));
                                } else {
                                    c.violation(&format!("C17/dark-relative/{}/Srgb->{}/lane-vs-scalar/c{}", <V as Vect>::NAME, $name, k), e1, || mk("simd lane vs scalar", a, b));
                                }
                                if <S as Fl>::NAME == "f32" {
                                    // inputs were rounded to f32 before both conversions, so only the arithmetic differs
                                    // HSL saturation above mid lightness is d / (2 - (max + min)): the rounding of
                                    // max + min is amplified by (max + min) / (2 - (max + min)) next to white, in any
                                    // f32 implementation of the definition
                                    let sum = inp.iter().cloned().fold(f64::MIN, f64::max) + inp.iter().cloned().fold(f64::MAX, f64::min);
                                    let tol2 = if $name == "Hsl" && k == 1 && sum > 1.0 { tol + 4.0 * 6e-8 * sum / (2.0 - sum) } else { tol };
                                    if e2 <= tol2 {
                                        c.ratio(&sub, e2 / tol2, || mk("scalar f32 vs scalar f64", b, w));
                                    } else {
                                        c.violation(&format!("C17/dark-relative/f32-vs-f64/Srgb->{}/c{}", $name, k), e2, || mk("scalar f32 vs scalar f64", b, w));
                                    }
                                }
                            }
                        }
                        c.outcome(simd[1][0].bits64() ^ simd[2][n - 1].bits64().rotate_left(13));
                    }
                }};
            }
            target!("Hsl", Hsl, 0);
            target!("Hsv", Hsv, 0);
            target!("Hwb", Hwb, 0);
            c.add(&sub, st, tr, tr, st);
            total.merge(c);
            total.exhaustive(&sub, true, &format!("{}: Srgb -> Hsl / Hsv / Hwb on {} inputs (6^3 grid scaled by 1, 1e-2, 1e-4, 1e-6 and its complement next to white), every cyclic window of N lanes: native components of each lane vs the scalar conversion and scalar f32 vs scalar f64, relative tolerance 1e-5 (hue: 1e-5 turns; hue and saturation of exact greys skipped)", <V as Vect>::NAME, ins.len()));
        }
    };
}
dark_check!(run_f32x4, f32x4, f32);
dark_check!(run_f32x8, f32x8, f32);
dark_check!(run_f64x2, f64x2, f64);
dark_check!(run_f64x4, f64x4, f64);

pub fn run(ctx: &Ctx, total: &mut Collector) {
    run_f32x4(ctx, total);
    run_f32x8(ctx, total);
    run_f64x2(ctx, total);
    run_f64x4(ctx, total);
}
