//! C14 — white stays white and neutrals stay neutral across spaces and adaptations.
//! (a) every RGB node of the discovered graphs: white and every grey level (all 65 536 16-bit
//!     greys in the thorough tier) through every edge: achromatic in the target, and back to
//!     equal RGB components; white lands on the white point / L* = 100 / Oklab (1,0,0);
//! (b) RGB<->XYZ matrix pairs are mutual inverses;
//! (c) chromatic adaptation: every ordered pair of 11 white points x 3 cone matrices x an XYZ
//!     lattice: white -> white, identity between equal white points, there-and-back, old and
//!     new API agree.
#![allow(deprecated)]
use pg::{Graph, Kind};
use pv::fl::Fl;
use pv::refmodel::V3;
use pv::{json, Collector, Ctx, Mode, Tier, Value};

fn to64<T: Fl>(v: [T; 3]) -> V3 {
    [v[0].to64(), v[1].to64(), v[2].to64()]
}
fn hex<T: Fl>(v: &[T]) -> Vec<String> {
    v.iter().map(|x| format!("{:#x}", x.bits64())).collect()
}

/// How far from the neutral axis is `v` (components of node kind `k`), as a fraction of the
/// component's range ("numerically zero chroma or saturation")? None: the type has no chroma.
fn achromatic_measure(k: &Kind, v: V3) -> Option<f64> {
    Some(match *k {
        Kind::Lab(_) => v[1].abs().max(v[2].abs()) / 128.0,
        Kind::Luv(_) => v[1].abs().max(v[2].abs()) / 180.0,
        Kind::Lch(_) => v[1].abs() / 128.0,
        Kind::Lchuv(_) => v[1].abs() / 180.0,
        Kind::Oklab => v[1].abs().max(v[2].abs()) / 0.4,
        Kind::Oklch => v[1].abs() / 0.4,
        Kind::Hsluv(_) => v[1].abs() / 100.0,
        Kind::Hsl(_) | Kind::Hsv(_) | Kind::Okhsl | Kind::Okhsv => v[1].abs(),
        // HWB: grey <=> whiteness + blackness = 1
        Kind::Hwb(_) | Kind::Okhwb => (1.0 - v[1] - v[2]).abs(),
        Kind::Rgb(_) => (v[0] - v[1]).abs().max((v[1] - v[2]).abs()).max((v[0] - v[2]).abs()),
        Kind::Xyz(w) => {
            let wx = w.xyz();
            (v[0] - wx[0] * v[1]).abs().max((v[2] - wx[2] * v[1]).abs())
        }
        Kind::Yxy(w) => {
            if v[2].abs() < 1e-12 {
                0.0
            } else {
                let wx = w.xyz();
                let s = wx[0] + wx[1] + wx[2];
                (v[0] - wx[0] / s).abs().max((v[1] - wx[1] / s).abs())
            }
        }
        Kind::LmsVonKries(w) | Kind::LmsBradford(w) => {
            let lw = k.from_xyz(w.xyz());
            // proportional to the white's cone response
            let y = k.to_xyz(v)[1];
            (v[0] - lw[0] * y).abs().max((v[1] - lw[1] * y).abs()).max((v[2] - lw[2] * y).abs())
        }
        Kind::Luma(_) => return None,
    })
}

/// tolerance for "numerically zero" chroma as a fraction of the component range.
/// f64: the 7-digit matrices make a grey's XYZ deviate from the white point's direction by
/// ≤ 5e-7, amplified ≤ 10× by cube roots next to black; f32: ≈ 60 ulps of 1.
fn tol_achromatic<T: Fl>(k: &Kind) -> f64 {
    let base = if T::NAME == "f32" { 2e-5 } else { 2e-6 };
    match k {
        // saturation is chroma divided by the (vanishing, next to black and white) maximum chroma
        Kind::Hsluv(_) | Kind::Okhsl | Kind::Okhsv | Kind::Okhwb | Kind::Hsl(_) | Kind::Hsv(_) | Kind::Hwb(_) => 50.0 * base,
        _ => base,
    }
}

/// input class of a known defect family (part of the signature)
fn defect_class(ka: &Kind, kb: &Kind, g: f64) -> &'static str {
    let sat_type = matches!(kb, Kind::Hsluv(_) | Kind::Okhsl | Kind::Okhsv | Kind::Okhwb | Kind::Hsl(_) | Kind::Hsv(_) | Kind::Hwb(_));
    if sat_type && g >= 0.98 {
        // saturation = chroma / maximum chroma, and the maximum chroma vanishes at white
        "@saturation-near-white"
    } else if kb.is_ok_family() && !ka.is_srgb_space() {
        // greys of a non-sRGB standard reach Oklab through XYZ and M1, whose white is not palette's D65
        "@oklab-m1-white"
    } else {
        ""
    }
}

fn grey_class(g: f64) -> &'static str {
    if g == 0.0 {
        "black"
    } else if g == 1.0 {
        "white"
    } else if g < 0.02 {
        "near-black"
    } else if g > 0.98 {
        "near-white"
    } else {
        "mid-grey"
    }
}

fn run_graph<T: Fl>(ctx: &Ctx, g: &Graph<T>, levels: usize, total: &mut Collector) {
    let sub = format!("greys/{}/{}", g.name, T::NAME);
    if !ctx.wants(&sub) {
        return;
    }
    let n = g.n();
    // grey sources: RGB nodes (r = g = b) and luma nodes (every luma value is a grey)
    let rgb_nodes: Vec<usize> = (0..n).filter(|&i| matches!(g.nodes[i].kind, Kind::Rgb(_) | Kind::Luma(_))).collect();
    let nch = 64usize;
    let rgb_ref = &rgb_nodes;
    let cc = pv::par::run_chunks(nch * rgb_nodes.len(), |ci, c| {
        let a = rgb_ref[ci / nch];
        let part = ci % nch;
        let ka = g.nodes[a].kind;
        let (mut st, mut tr, mut tv) = (0u64, 0u64, 0u64);
        let lo = levels * part / nch;
        let hi = if part + 1 == nch { levels + 1 } else { levels * (part + 1) / nch };
        for lv in lo..hi {
            let gl = T::from64(lv as f64 / levels as f64);
            let v = if ka.is_luma() { [gl, T::from64(0.0), T::from64(0.0)] } else { [gl, gl, gl] };
            let gcls = grey_class(gl.to64());
            st += 1;
            for b in 0..n {
                if b == a {
                    continue;
                }
                let Some(f) = g.unc[a][b] else { continue };
                let kb = g.nodes[b].kind;
                tr += 1;
                let mk = |what: &str, obs: Value, exp: Value| json!({"sub": "grey", "group": g.name, "float": T::NAME, "what": what, "path": [g.nodes[a].name, g.nodes[b].name], "input": hex(&v), "grey": gl.to64(), "observed": obs, "expected": exp});
                let r = match pv::catch(|| f(v)) {
                    Ok(r) => r,
                    Err(msg) => {
                        c.violation(&format!("C14/grey/{}/{}/{}->{}/panic", g.name, T::NAME, g.nodes[a].name, g.nodes[b].name), 1.0, || mk("convert", json!({"panic": msg}), json!("no panic")));
                        continue;
                    }
                };
                let r64 = to64(r);
                if let Some(m) = achromatic_measure(&kb, r64) {
                    let t = tol_achromatic::<T>(&kb);
                    tv += 1;
                    if m <= t {
                        c.ratio("grey-achromatic", m / t, || mk("achromatic", json!({"result": r64, "measure": m}), json!(null)));
                    } else {
                        c.violation(&format!("C14/grey-achromatic/{}/{}/{}->{}/{}{}", g.name, T::NAME, g.nodes[a].name, g.nodes[b].name, gcls, defect_class(&ka, &kb, gl.to64())), m, || mk("chroma/saturation of a grey, as a fraction of the range", json!({"result": r64, "measure": pv::report::fnum(m)}), json!({"tol": t})));
                    }
                }
                // back to equal RGB components
                if let Some(fb) = g.unc[b][a] {
                    if !kb.is_luma() {
                        tr += 1;
                        tv += 1;
                        if let Ok(back) = pv::catch(|| fb(r)) {
                            let b64 = to64(back);
                            // the statement asks for *equal RGB components* on the way back (that the
                            // grey level itself survives is C01's round trip)
                            let spread = achromatic_measure(&ka, b64).unwrap_or(0.0);
                            let t = tol_achromatic::<T>(&kb).max(tol_achromatic::<T>(&ka)) * 5.0;
                            let m = spread;
                            if m <= t {
                                c.ratio("grey-roundtrip", m / t, || mk("roundtrip", json!({"back": b64}), json!(null)));
                            } else {
                                c.violation(&format!("C14/grey-roundtrip/{}/{}/{}->{}/{}{}", g.name, T::NAME, g.nodes[a].name, g.nodes[b].name, gcls, defect_class(&ka, &kb, gl.to64())), m, || mk("grey -> space -> RGB", json!({"via": r64, "back": b64, "measure": pv::report::fnum(m)}), json!({"equal components": gl.to64(), "tol": t})));
                            }
                        }
                    }
                }
                // white: lands on the white point
                if lv == levels {
                    tv += 1;
                    let want: Option<V3> = match kb {
                        Kind::Xyz(w) => Some(w.xyz()),
                        Kind::Lab(_) | Kind::Luv(_) => Some([100.0, 0.0, 0.0]),
                        Kind::Oklab => Some([1.0, 0.0, 0.0]),
                        _ => None,
                    };
                    if let Some(w) = want {
                        let scale = if matches!(kb, Kind::Lab(_) | Kind::Luv(_)) { 100.0 } else { 1.0 };
                        let d = pv::refmodel::max_abs_diff(r64, w) / scale;
                        let t = if T::NAME == "f32" { 2e-5 } else { 2e-6 };
                        if d <= t {
                            c.ratio("white", d / t, || mk("white", json!({"result": r64}), json!(w)));
                        } else {
                            c.violation(&format!("C14/white/{}/{}/{}->{}{}", g.name, T::NAME, g.nodes[a].name, g.nodes[b].name, if kb.is_ok_family() && !ka.is_srgb_space() { "@oklab-m1-white" } else { "" }), d, || mk("white of the RGB standard", json!({"result": r64, "err": d}), json!({"expected": w, "tol": t})));
                        }
                    }
                    match kb {
                        Kind::Lch(_) | Kind::Lchuv(_) => {
                            let d = ((r64[0] - 100.0).abs() / 100.0).max(r64[1].abs() / 128.0);
                            let t = if T::NAME == "f32" { 2e-5 } else { 2e-6 };
                            if !(d <= t) {
                                c.violation(&format!("C14/white/{}/{}/{}->{}", g.name, T::NAME, g.nodes[a].name, g.nodes[b].name), d, || mk("white of the RGB standard", json!({"result": r64}), json!({"l": 100.0, "chroma": 0.0, "tol": t})));
                            }
                        }
                        Kind::Oklch => {
                            let d = (r64[0] - 1.0).abs().max(r64[1].abs());
                            let t = if T::NAME == "f32" { 2e-5 } else { 2e-6 };
                            if !(d <= t) {
                                c.violation(&format!("C14/white/{}/{}/{}->{}{}", g.name, T::NAME, g.nodes[a].name, g.nodes[b].name, if !ka.is_srgb_space() { "@oklab-m1-white" } else { "" }), d, || mk("white of the RGB standard", json!({"result": r64}), json!({"l": 1.0, "chroma": 0.0, "tol": t})));
                            }
                        }
                        _ => {}
                    }
                }
                c.outcome(r[0].bits64() ^ r[1].bits64().rotate_left(17) ^ r[2].bits64().rotate_left(39));
            }
            if lv % 4099 == 0 {
                c.sample(pv::splitmix(ci as u64 * 65537 + lv as u64), || json!({"group": g.name, "float": T::NAME, "node": g.nodes[a].name, "grey": gl.to64()}));
            }
        }
        c.add(&sub, st, tr, tv, st);
    });
    total.merge(cc);
    total.exhaustive(&sub, true, &format!("{} RGB and luma nodes x all {} grey levels k/{} (incl. black and white) x every outgoing edge and the edge back", rgb_nodes.len(), levels + 1, levels));
}

// ---------------------------------------------------------------------------------------
// matrices are mutual inverses

fn check_matrix_inverses(ctx: &Ctx, c: &mut Collector) {
    use palette::encoding;
    use palette::rgb::RgbSpace;
    let sub = "matrix-inverse";
    if !ctx.wants(sub) {
        return;
    }
    let mut n = 0u64;
    macro_rules! sp {
        ($name:literal, $t:ty) => {{
            if let (Some(m), Some(mi)) = (<$t as RgbSpace>::rgb_to_xyz_matrix(), <$t as RgbSpace>::xyz_to_rgb_matrix()) {
                let p = palette::matrix::multiply_3x3(m, mi);
                let q = palette::matrix::multiply_3x3(mi, m);
                let inv = palette::matrix::matrix_inverse(m);
                for i in 0..9 {
                    let id = if i % 4 == 0 { 1.0 } else { 0.0 };
                    n += 3;
                    for (what, d) in [("M*Minv", (p[i] - id).abs()), ("Minv*M", (q[i] - id).abs()), ("matrix_inverse(M) vs Minv", (inv[i] - mi[i]).abs())] {
                        c.ratio(sub, d / 2e-6, || json!({"space": $name, "what": what, "entry": i, "err": d}));
                        if !(d <= 2e-6) {
                            c.violation(&format!("C14/matrix-inverse/{}/{}", $name, what), d, || json!({"sub": "matrix", "space": $name, "what": what, "input": i, "observed": d, "expected": "<= 2e-6"}));
                        }
                    }
                }
            }
        }};
    }
    sp!("Srgb", encoding::Srgb);
    sp!("AdobeRgb", encoding::AdobeRgb);
    sp!("Rec2020", encoding::Rec2020);
    sp!("DisplayP3", encoding::DisplayP3);
    sp!("DciP3", encoding::DciP3);
    sp!("DciP3Plus", encoding::DciP3Plus<encoding::P3Gamma>);
    sp!("ProPhotoRgb", encoding::ProPhotoRgb);
    c.add(sub, n / 3, n, n, n / 3);
    c.exhaustive(sub, true, "the hard-coded rgb->xyz / xyz->rgb matrix pair of every RGB space: both products against the identity, matrix_inverse against the hard-coded inverse, all 9 entries");
}

// ---------------------------------------------------------------------------------------
// chromatic adaptation

mod adapt;
mod camwhite;
mod constants;
mod matrix3;

fn replay(c: &mut Collector, rep: &Value) {
    let case = &rep["case"];
    match case["sub"].as_str().unwrap_or("") {
        "grey" => {
            // re-run the grey level of that graph/node
            let group = case["group"].as_str().unwrap_or("").to_string();
            let float = case["float"].as_str().unwrap_or("").to_string();
            let ctx = Ctx::from_args("C14").0;
            macro_rules! go {
                ($g:expr) => {{
                    let g = $g;
                    let mut t = Collector::new();
                    run_graph(&ctx, &g, 256, &mut t);
                    let needle = rep["signature"].as_str().unwrap_or("").rsplitn(2, '/').nth(1).unwrap_or("").to_string();
                    for (s, v) in t.viol {
                        if s.starts_with(&needle) {
                            c.viol.insert(s, v);
                        }
                    }
                }};
            }
            match (group.as_str(), float.as_str()) {
                ("D65-core", "f32") => go!(pga::d65_f32()),
                ("D65-core", "f64") => go!(pgb::d65_f64()),
                ("D65-cylindrical", "f32") => go!(pgc::d65cyl_f32()),
                ("D65-cylindrical", "f64") => go!(pgc::d65cyl_f64()),
                ("D50", "f32") => go!(pgd::d50_f32()),
                ("D50", "f64") => go!(pgd::d50_f64()),
                ("DCI", "f32") => go!(pgd::dci_f32()),
                ("DCI", "f64") => go!(pgd::dci_f64()),
                ("A", "f32") => go!(pgd::a_f32()),
                ("A", "f64") => go!(pgd::a_f64()),
                ("E", "f32") => go!(pgd::e_f32()),
                ("E", "f64") => go!(pgd::e_f64()),
                ("D55", _) => go!(pgd::d55_f64()),
                ("D75", _) => go!(pgd::d75_f64()),
                ("C", _) => go!(pgd::c_f64()),
                ("B", _) => go!(pgd::b_f64()),
                ("F2", _) => go!(pgd::f2_f64()),
                ("F7", _) => go!(pgd::f7_f64()),
                _ => go!(pgd::f11_f64()),
            }
        }
        "matrix" => {
            let ctx = Ctx::from_args("C14").0;
            check_matrix_inverses(&ctx, c);
        }
        "cam16-white" => {
            let ctx = Ctx { only: Some("cam16-white".into()), ..Ctx::from_args("C14").0 };
            let mut all = Collector::new();
            camwhite::run(&ctx, &mut all);
            let want = rep["signature"].as_str().unwrap_or("").to_string();
            all.viol.retain(|k, _| *k == want);
            c.merge(all);
        }
        "constants" => {
            let ctx = Ctx::from_args("C14").0;
            constants::run(&ctx, c);
        }
        "dynamic" | "matrix3" => {
            let ctx = Ctx::from_args("C14").0;
            matrix3::run(&ctx, c);
        }
        _ => {
            let ctx = Ctx::from_args("C14").0;
            adapt::run(&ctx, c);
        }
    }
}

fn main() {
    pv::main_guard(real_main)
}

fn real_main() -> i32 {
    let (ctx, mode) = Ctx::from_args("C14");
    if let Mode::Replay(rep) = mode {
        let mut c = Collector::new();
        replay(&mut c, &rep);
        return ctx.finish_replay(c);
    }
    let mut total = Collector::new();
    let levels = if ctx.tier == Tier::Quick { 4096 } else { 65535 };
    run_graph(&ctx, &pga::d65_f32(), levels, &mut total);
    run_graph(&ctx, &pgb::d65_f64(), levels, &mut total);
    run_graph(&ctx, &pgc::d65cyl_f32(), levels, &mut total);
    run_graph(&ctx, &pgc::d65cyl_f64(), levels, &mut total);
    run_graph(&ctx, &pgd::d50_f32(), levels, &mut total);
    run_graph(&ctx, &pgd::d50_f64(), levels, &mut total);
    run_graph(&ctx, &pgd::dci_f32(), levels, &mut total);
    run_graph(&ctx, &pgd::dci_f64(), levels, &mut total);
    // CIE-only white points: the luma node Luma<Linear<Wp>> is the grey source
    run_graph(&ctx, &pgd::a_f32(), levels, &mut total);
    run_graph(&ctx, &pgd::a_f64(), levels, &mut total);
    run_graph(&ctx, &pgd::e_f32(), levels, &mut total);
    run_graph(&ctx, &pgd::e_f64(), levels, &mut total);
    run_graph(&ctx, &pgd::d55_f64(), levels, &mut total);
    run_graph(&ctx, &pgd::d75_f64(), levels, &mut total);
    run_graph(&ctx, &pgd::c_f64(), levels, &mut total);
    run_graph(&ctx, &pgd::b_f64(), levels, &mut total);
    run_graph(&ctx, &pgd::f2_f64(), levels, &mut total);
    run_graph(&ctx, &pgd::f7_f64(), levels, &mut total);
    run_graph(&ctx, &pgd::f11_f64(), levels, &mut total);
    constants::run(&ctx, &mut total);
    camwhite::run(&ctx, &mut total);
    check_matrix_inverses(&ctx, &mut total);
    adapt::run(&ctx, &mut total);
    matrix3::run(&ctx, &mut total);
    ctx.finish(
        total,
        "model_checking",
        "states = (RGB standard, grey level k/N) pairs incl. black and white, matrix entries, and (source white point, destination white point, cone matrix, XYZ lattice point) tuples; transitions = conversions / adaptations executed; traces = predictions compared (achromatic measure, white point, round trip, identity); every state is non-trivial",
        &["'numerically zero' chroma: <= 2e-6 (f64) / 2e-5 (f32) of the component range, 50x that for saturation-type coordinates (a ratio of two vanishing quantities next to black and white)", "white points are the ASTM E308 values of pv::refmodel::cie"],
    )
}
