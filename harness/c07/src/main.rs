//! C07 — finite valid colours never produce NaN, infinity or a panic.
//! Boundary lattice of every colour type (each component exactly on a bound, exactly zero, or at
//! least 1e-9 of its range away from them; hues at sector edges) through every discovered
//! conversion (unclamped and clamped), clamp, and the operator / blend / difference families.
use pg::{Graph, Kind};
use pv::fl::Fl;
use pv::{json, Collector, Ctx, Mode, Tier, Value};

fn f64s<T: Fl>(v: &[T]) -> Vec<f64> {
    v.iter().map(|x| x.to64()).collect()
}
fn hex<T: Fl>(v: &[T]) -> Vec<String> {
    v.iter().map(|x| format!("{:#x}", x.bits64())).collect()
}
fn fin<T: Fl>(v: &[T]) -> bool {
    v.iter().all(|x| x.finite())
}
fn nonfinite_kind<T: Fl>(v: &[T]) -> &'static str {
    if v.iter().any(|x| x.to64().is_nan()) {
        "NaN"
    } else {
        "inf"
    }
}

/// degenerate-boundary class of a source colour (part of the signature)
fn boundary_class(kind: &Kind, v: [f64; 3]) -> &'static str {
    let xyz = kind.to_xyz(v);
    if !xyz.iter().all(|x| x.is_finite()) {
        return "ref-nonfinite";
    }
    let s = xyz[0] + xyz[1] + xyz[2];
    if xyz.iter().all(|x| x.abs() < 1e-12) {
        "black"
    } else if xyz[1].abs() < 1e-12 {
        "zero-luminance"
    } else if xyz.iter().any(|x| *x < -1e-9) {
        "imaginary(negative XYZ)"
    } else if s != 0.0 && xyz[1] / s < 1e-2 {
        "imaginary(y<0.01)"
    } else {
        "ordinary"
    }
}

fn values_for<T: Fl>(g: &Graph<T>, a: usize, dense: bool) -> Vec<[T; 3]> {
    let kind = g.nodes[a].kind;
    let mut out: Vec<[T; 3]> = kind.lattice(dense).into_iter().map(|v| [T::from64(v[0]), T::from64(v[1]), T::from64(v[2])]).collect();
    if let Kind::Yxy(_) = kind {
        // the shared lattice leaves out y = 0 with Y > 0 (not a physical stimulus); it is inside the
        // documented ranges and exactly the case the valid-divisor guard of Yxy -> Xyz exists for
        for x in [0.0, 0.15, 0.3127, 0.64, 1.0] {
            for luma in [1e-9, 0.18, 0.5, 1.0] {
                out.push([T::from64(x), T::from64(0.0), T::from64(luma)]);
            }
        }
    }
    if T::NAME == "f32" {
        // in f32 the statement's "at least one billionth of the range away" admits the float neighbours
        // of every bound (6e-8 .. 1e-5 away), which `bound +- 1e-9 * range` cannot express in f32 (it rounds
        // to the bound): every lattice point with one component moved to its float neighbours, kept when
        // the component stays inside the span of the lattice (= the documented range)
        let mut lo = [f64::INFINITY; 3];
        let mut hi = [f64::NEG_INFINITY; 3];
        for v in &out {
            for i in 0..3 {
                lo[i] = lo[i].min(v[i].to64());
                hi[i] = hi[i].max(v[i].to64());
            }
        }
        let base = out.clone();
        for v in &base {
            for i in 0..3 {
                for w in [v[i].up(), v[i].down()] {
                    // ... and stays at least 1e-9 of the range away from a bound / zero it does not sit on
                    // (the float neighbour of 0 is a subnormal, far closer than that)
                    let span = hi[i] - lo[i];
                    let too_close = [lo[i], hi[i], 0.0].iter().any(|b| { let d = (w.to64() - b).abs(); d > 0.0 && d < 1e-9 * span });
                    if w.to64() >= lo[i] && w.to64() <= hi[i] && !too_close {
                        let mut q = *v;
                        q[i] = w;
                        out.push(q);
                    }
                }
            }
        }
    }
    out.sort_by_key(|v| [v[0].bits64(), v[1].bits64(), v[2].bits64()]);
    out.dedup_by_key(|v| [v[0].bits64(), v[1].bits64(), v[2].bits64()]);
    out
}

fn run_graph<T: Fl>(ctx: &Ctx, g: &Graph<T>, dense: bool, total: &mut Collector) {
    let sub = format!("conversions/{}/{}", g.name, T::NAME);
    if !ctx.wants(&sub) {
        return;
    }
    let n = g.n();
    let vals: Vec<Vec<[T; 3]>> = (0..n).map(|a| values_for(g, a, dense)).collect();
    let mut items = vec![];
    for a in 0..n {
        let per = 128;
        let mut i = 0;
        while i < vals[a].len() {
            items.push((a, i, (i + per).min(vals[a].len())));
            i += per;
        }
    }
    let (items_ref, vals_ref) = (&items, &vals);
    let cc = pv::par::run_chunks(items.len(), |ci, c| {
        let (a, lo, hi) = items_ref[ci];
        let ka = g.nodes[a].kind;
        let (mut st, mut tr) = (0u64, 0u64);
        for i in lo..hi {
            let v = vals_ref[a][i];
            st += 1;
            let cls = boundary_class(&ka, [v[0].to64(), v[1].to64(), v[2].to64()]);
            let mk = |what: &str, b: usize, obs: Value| json!({"sub": "conversion", "group": g.name, "float": T::NAME, "what": what, "path": [g.nodes[a].name, g.nodes[b].name], "input": hex(&v), "value": f64s(&v), "observed": obs, "expected": "finite components, no panic"});
            for b in 0..n {
                for (what, f) in [("from_color_unclamped", g.unc[a][b]), ("from_color", g.clamped[a][b])] {
                    let Some(f) = f else { continue };
                    tr += 1;
                    match pv::catch(|| f(v)) {
                        Err(msg) => c.violation(&format!("C07/{}/{}/{}/{}->{}/panic/{}", what, g.name, T::NAME, g.nodes[a].name, g.nodes[b].name, cls), 1.0, || mk(what, b, json!({"panic": msg}))),
                        Ok(r) => {
                            if !fin(&r) {
                                c.violation(&format!("C07/{}/{}/{}/{}->{}/{}/{}", what, g.name, T::NAME, g.nodes[a].name, g.nodes[b].name, nonfinite_kind(&r), cls), 1.0, || mk(what, b, json!(r.iter().map(|x| format!("{}", x.to64())).collect::<Vec<_>>())));
                            }
                            c.outcome(r[0].bits64() ^ r[1].bits64().rotate_left(21) ^ r[2].bits64().rotate_left(42));
                        }
                    }
                }
            }
            if let Some((cl, _)) = g.clamp[a] {
                tr += 1;
                match pv::catch(|| cl(v)) {
                    Err(msg) => c.violation(&format!("C07/clamp/{}/{}/panic", g.nodes[a].name, T::NAME), 1.0, || mk("clamp", a, json!({"panic": msg}))),
                    Ok(r) => {
                        if !fin(&r) {
                            c.violation(&format!("C07/clamp/{}/{}/{}", g.nodes[a].name, T::NAME, nonfinite_kind(&r)), 1.0, || mk("clamp", a, json!(f64s(&r))));
                        }
                    }
                }
            }
            c.sample(pv::splitmix((ci as u64) << 20 | i as u64), || json!({"group": g.name, "float": T::NAME, "node": g.nodes[a].name, "value": f64s(&v), "class": cls}));
        }
        c.add(&sub, st, tr, tr, st);
    });
    total.merge(cc);
    total.exhaustive(&sub, true, &format!("{} nodes: every value of the {} boundary lattice of each node through every discovered unclamped and clamped conversion and clamp", n, if dense { "dense" } else { "coarse" }));
}

// ---------------------------------------------------------------------------------------
// operators, blend modes and colour differences on boundary pairs

mod cam;
mod ops;

macro_rules! with_graph {
    ($group:expr, $float:expr, |$g:ident| $body:expr) => {
        match ($group, $float) {
            ("D65-core", "f32") => { let $g = pga::d65_f32(); $body }
            ("D65-core", "f64") => { let $g = pgb::d65_f64(); $body }
            ("D65-cylindrical", "f32") => { let $g = pgc::d65cyl_f32(); $body }
            ("D65-cylindrical", "f64") => { let $g = pgc::d65cyl_f64(); $body }
            ("D50", "f32") => { let $g = pgd::d50_f32(); $body }
            ("D50", "f64") => { let $g = pgd::d50_f64(); $body }
            ("DCI", "f32") => { let $g = pgd::dci_f32(); $body }
            ("DCI", "f64") => { let $g = pgd::dci_f64(); $body }
            ("A", "f32") => { let $g = pgd::a_f32(); $body }
            ("A", "f64") => { let $g = pgd::a_f64(); $body }
            ("E", "f32") => { let $g = pgd::e_f32(); $body }
            ("E", "f64") => { let $g = pgd::e_f64(); $body }
            (g, f) => { eprintln!("unknown graph {g}/{f}"); std::process::exit(3) }
        }
    };
}

fn replay(c: &mut Collector, rep: &Value) {
    let case = &rep["case"];
    let float = case["float"].as_str().unwrap_or("f32").to_string();
    let inbits = |v: &Value| -> Vec<u64> { v.as_array().map(|a| a.iter().map(|x| u64::from_str_radix(x.as_str().unwrap_or("0").trim_start_matches("0x"), 16).unwrap_or(0)).collect()).unwrap_or_default() };
    match case["sub"].as_str().unwrap_or("") {
        "conversion" => {
            let group = case["group"].as_str().unwrap_or("").to_string();
            let path: Vec<String> = case["path"].as_array().map(|a| a.iter().map(|x| x.as_str().unwrap_or("").to_string()).collect()).unwrap_or_default();
            let what = case["what"].as_str().unwrap_or("").to_string();
            let b = inbits(&case["input"]);
            fn go<T: Fl>(g: &Graph<T>, path: &[String], what: &str, b: &[u64], sig: &str, case: &Value, c: &mut Collector) {
                let (ia, ib) = (g.index(&path[0]).expect("node"), g.index(&path[1]).expect("node"));
                let v = [T::from_bits64(b[0]), T::from_bits64(b[1]), T::from_bits64(b[2])];
                let f = match what {
                    "from_color_unclamped" => g.unc[ia][ib],
                    "from_color" => g.clamped[ia][ib],
                    _ => g.clamp[ia].map(|x| x.0),
                };
                let r = pv::catch(|| f.expect("edge")(v));
                println!("{} {:?} -> {} : {:?}", path[0], f64s(&v), path[1], r.as_ref().map(|x| f64s(x)));
                if !matches!(&r, Ok(x) if fin(x)) {
                    c.violation(sig, 1.0, || case.clone());
                }
            }
            let sig = rep["signature"].as_str().unwrap_or("C07/replay").to_string();
            with_graph!(group.as_str(), float.as_str(), |g| go(&g, &path, &what, &b, &sig, case, c));
        }
        "cam16" => {
            // small space: the sub-check is re-run and only the replayed signature kept
            let ctx = Ctx { only: Some(format!("cam16/{}", float)), ..Ctx::from_args("C07").0 };
            let mut all = Collector::new();
            cam::run(&ctx, &mut all);
            let want = rep["signature"].as_str().unwrap_or("").to_string();
            all.viol.retain(|k, _| *k == want);
            c.merge(all);
        }
        _ => ops::replay(c, rep),
    }
}

fn main() {
    pv::main_guard(real_main)
}

fn real_main() -> i32 {
    let (ctx, mode) = Ctx::from_args("C07");
    if let Mode::Replay(rep) = mode {
        let mut c = Collector::new();
        replay(&mut c, &rep);
        return ctx.finish_replay(c);
    }
    let mut total = Collector::new();
    let dense = ctx.tier == Tier::Thorough;
    run_graph(&ctx, &pga::d65_f32(), dense, &mut total);
    run_graph(&ctx, &pgb::d65_f64(), dense, &mut total);
    run_graph(&ctx, &pgc::d65cyl_f32(), dense, &mut total);
    run_graph(&ctx, &pgc::d65cyl_f64(), dense, &mut total);
    run_graph(&ctx, &pgd::d50_f32(), dense, &mut total);
    run_graph(&ctx, &pgd::d50_f64(), dense, &mut total);
    run_graph(&ctx, &pgd::dci_f32(), dense, &mut total);
    run_graph(&ctx, &pgd::dci_f64(), dense, &mut total);
    run_graph(&ctx, &pgd::a_f32(), dense, &mut total);
    run_graph(&ctx, &pgd::a_f64(), dense, &mut total);
    run_graph(&ctx, &pgd::e_f32(), dense, &mut total);
    run_graph(&ctx, &pgd::e_f64(), dense, &mut total);
    ops::run(&ctx, &mut total);
    cam::run(&ctx, &mut total);
    ctx.finish(
        total,
        "model_checking",
        "states = boundary-lattice colours per type (each component exactly on a bound of its documented range, exactly zero, or >= 1e-9 of the range away; hues at sector edges) and ordered pairs of them for the binary operations; transitions = operations executed (conversions, clamp, operators, blend modes, differences); the invariant (finite, no panic) is evaluated on every result; every state is non-trivial",
        &["the invariant needs no reference model; panics are observed through catch_unwind", "colours strictly between lattice points are not explored"],
    )
}
