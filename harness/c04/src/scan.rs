//! Coverage cross-check: scan palette/src textually for every ArrayCast / UintCast implementor
//! (`derive(..ArrayCast..)`, `unsafe impl .. ArrayCast/UintCast for ..`, `impl_array_casts!`) and
//! warn about any implementor the registry lacks.
use crate::TypeInfo;
use pv::{json, Collector, Ctx};
use std::collections::BTreeSet;
use std::path::{Path, PathBuf};

fn palette_src(ctx: &Ctx) -> PathBuf {
    // the harness workspace names the palette checkout it is built against
    let manifest = ctx.root.join("harness").join("Cargo.toml");
    if let Ok(txt) = std::fs::read_to_string(&manifest) {
        for line in txt.lines() {
            let l = line.trim();
            if l.starts_with("palette") && l.contains("path") {
                if let Some(i) = l.find("path") {
                    let rest = &l[i..];
                    if let Some(a) = rest.find('"') {
                        if let Some(b) = rest[a + 1..].find('"') {
                            return PathBuf::from(&rest[a + 1..a + 1 + b]).join("src");
                        }
                    }
                }
            }
        }
    }
    PathBuf::from("/repo/palette/src")
}

fn walk(dir: &Path, out: &mut Vec<PathBuf>) {
    let Ok(rd) = std::fs::read_dir(dir) else { return };
    let mut entries: Vec<PathBuf> = rd.filter_map(|e| e.ok().map(|e| e.path())).collect();
    entries.sort();
    for p in entries {
        if p.is_dir() {
            walk(&p, out);
        } else if p.extension().map(|e| e == "rs").unwrap_or(false) {
            out.push(p);
        }
    }
}

fn ident_prefix(s: &str) -> String {
    s.trim().chars().take_while(|c| c.is_alphanumeric() || *c == '_' || *c == '$').collect()
}

#[derive(Default)]
pub struct Found {
    /// struct names with derive(ArrayCast) (macro-generated ones resolved to the concrete names)
    pub derived: BTreeSet<String>,
    /// leading identifier of `unsafe impl .. ArrayCast for X<..>`
    pub unsafe_array: BTreeSet<String>,
    /// `X/uN` for `unsafe impl .. UintCast for X<.., uN>`
    pub unsafe_uint: BTreeSet<String>,
    /// leading identifier of the type in `impl_array_casts!(..)`
    pub std_impls: BTreeSet<String>,
    pub files: usize,
}

pub fn scan(src: &Path) -> Found {
    let mut files = vec![];
    walk(src, &mut files);
    let mut f = Found::default();
    f.files = files.len();
    for path in files {
        let Ok(txt) = std::fs::read_to_string(&path) else { continue };
        let lines: Vec<&str> = txt.lines().collect();
        let is_macro_def_file = path.ends_with("macros/casting.rs");
        let mut pending_derive = false;
        let mut macro_generated = false;
        for (i, raw) in lines.iter().enumerate() {
            let l = raw.trim();
            if l.starts_with("//") {
                continue;
            }
            if l.starts_with("#[derive(") || l.starts_with("#[cfg_attr(") && l.contains("derive(") {
                // derive lists may span lines
                let mut j = i;
                let mut acc = String::new();
                while j < lines.len() {
                    acc.push_str(lines[j]);
                    if lines[j].contains(")]") {
                        break;
                    }
                    j += 1;
                }
                if acc.split(|c: char| !(c.is_alphanumeric() || c == '_')).any(|w| w == "ArrayCast") {
                    pending_derive = true;
                }
                continue;
            }
            if pending_derive {
                let body = l.strip_prefix("pub struct ").or_else(|| l.strip_prefix("struct ")).or_else(|| l.strip_prefix("pub(crate) struct "));
                if let Some(b) = body {
                    let name = ident_prefix(b);
                    if name.starts_with('$') {
                        macro_generated = true;
                    } else {
                        f.derived.insert(name);
                    }
                    pending_derive = false;
                }
            }
            if l.starts_with("unsafe impl") {
                // may continue on following lines up to `{`
                let mut acc = String::new();
                let mut j = i;
                while j < lines.len() {
                    acc.push_str(lines[j].trim());
                    acc.push(' ');
                    if lines[j].contains('{') {
                        break;
                    }
                    j += 1;
                }
                for (tr, is_uint) in [(" ArrayCast for ", false), (" UintCast for ", true)] {
                    if let Some(k) = acc.find(tr) {
                        let ty = acc[k + tr.len()..].split(" where").next().unwrap_or("").split('{').next().unwrap_or("").trim().to_string();
                        let head = ident_prefix(&ty);
                        if is_uint {
                            let last = ty.trim_end_matches('>').rsplit(',').next().unwrap_or("").trim().to_string();
                            f.unsafe_uint.insert(format!("{head}/{last}"));
                        } else {
                            f.unsafe_array.insert(head);
                        }
                    }
                }
            }
            if !is_macro_def_file {
                if let Some(k) = l.find("impl_array_casts!(") {
                    let mut rest = l[k + "impl_array_casts!(".len()..].trim();
                    if rest.starts_with('[') {
                        // generics list: skip to the matching bracket
                        let mut depth = 0;
                        let mut end = 0;
                        for (ci, ch) in rest.char_indices() {
                            if ch == '[' {
                                depth += 1;
                            } else if ch == ']' {
                                depth -= 1;
                                if depth == 0 {
                                    end = ci + 1;
                                    break;
                                }
                            }
                        }
                        rest = rest[end..].trim();
                    }
                    let name = ident_prefix(rest);
                    if !name.starts_with('$') && !name.is_empty() {
                        f.std_impls.insert(name);
                    }
                }
            }
        }
        if macro_generated {
            // concrete names: `module::Name {` right after a `some_macro! {` invocation
            let mut in_invocation = false;
            for raw in &lines {
                let l = raw.trim();
                if l.starts_with("//") {
                    continue;
                }
                if l.ends_with("! {") && !l.starts_with("macro_rules!") {
                    in_invocation = true;
                    continue;
                }
                if in_invocation {
                    if let Some(k) = l.find("::") {
                        let head = &l[..k];
                        let tail = &l[k + 2..];
                        if !head.is_empty() && head.chars().all(|c| c.is_alphanumeric() || c == '_') && tail.ends_with('{') {
                            let name = ident_prefix(tail);
                            if name.chars().next().map(|c| c.is_uppercase()).unwrap_or(false) {
                                f.derived.insert(name.clone());
                                f.std_impls.insert(name);
                                in_invocation = false;
                            }
                        }
                    }
                }
            }
        }
    }
    f
}

fn palette_ident(family: &str) -> &str {
    match family {
        "Srgb" | "LinSrgb" => "Rgb",
        x => x,
    }
}

pub fn coverage(ctx: &Ctx, c: &mut Collector, types: &[TypeInfo]) {
    let src = palette_src(ctx);
    let found = scan(&src);
    let mut have_array: BTreeSet<String> = BTreeSet::new();
    let mut have_uint: BTreeSet<String> = BTreeSet::new();
    for t in types {
        if t.uint {
            have_uint.insert(format!("{}/{}", t.family, t.item));
        } else {
            have_array.insert(palette_ident(t.family).to_string());
            for w in ["Alpha", "PreAlpha", "Packed"] {
                if t.class.contains(w) {
                    have_array.insert(w.to_string());
                }
            }
        }
    }
    let all_array: BTreeSet<String> = found.derived.union(&found.unsafe_array).cloned().collect();
    let mut n = 0u64;
    for x in all_array.union(&found.std_impls) {
        n += 1;
        if !have_array.contains(x) {
            c.warn(format!("ArrayCast implementor `{x}` found in {} but not in the C04 type list", src.display()));
        }
    }
    for x in &found.unsafe_uint {
        n += 1;
        if !have_uint.contains(x) {
            c.warn(format!("UintCast implementor `{x}` found in {} but not in the C04 type list", src.display()));
        }
    }
    for x in &have_array {
        if !all_array.contains(x) {
            c.warn(format!("the C04 type list has `{x}` but the scan of {} found no ArrayCast impl for it (scan out of date?)", src.display()));
        }
    }
    for x in &have_uint {
        if !found.unsafe_uint.contains(x) {
            c.warn(format!("the C04 type list has `{x}` but the scan found no UintCast impl for it (scan out of date?)"));
        }
    }
    if found.files == 0 {
        c.warn(format!("coverage scan could not read {}", src.display()));
    }
    c.add("scan", n.max(1), found.files as u64, n, n);
    c.exhaustive("scan", true, "every .rs file under palette/src scanned for derive(ArrayCast), unsafe impl ArrayCast/UintCast, impl_array_casts!");
    c.note(
        "scan",
        json!({"src": src.display().to_string(), "files": found.files, "derived": found.derived, "unsafe_impl_ArrayCast": found.unsafe_array, "unsafe_impl_UintCast": found.unsafe_uint, "impl_array_casts": found.std_impls}),
    );
}
