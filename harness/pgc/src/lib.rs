//! compiler-discovered conversion graph tables (see pg)
pg::group_prelude!();
pg::d65_cyl!(d65cyl_f32, f32);
pg::d65_cyl!(d65cyl_f64, f64);
