//! Everything that calls palette. One small module per (white-point parameter type, float) so that
//! no function body is large; the six partial types get their own small functions through
//! `subject_part!`.
use crate::oracle::{Cond64, Disc, Sur};
use palette::cam16::{BakedParameters, Cam16, Cam16Jch, Cam16Jmh, Cam16Jsh, Cam16Qch, Cam16Qmh, Cam16Qsh, Cam16UcsJab, Cam16UcsJmh, Discounting, Parameters, StaticWp, Surround, WhitePointParameter};
use palette::convert::FromColorUnclamped;
use palette::hues::Cam16Hue;
use palette::white_point::{self as wp, Any, WhitePoint};
use palette::Xyz;
use pv::fl::Fl;

pub const PARTIALS: [&str; 6] = ["Cam16Jch", "Cam16Jmh", "Cam16Jsh", "Cam16Qch", "Cam16Qmh", "Cam16Qsh"];
/// positions of a partial's (luminance, chromaticity) attribute in the full array [J, C, h, Q, M, s]
pub const PART_IDX: [(usize, usize); 6] = [(0, 1), (0, 4), (0, 5), (3, 1), (3, 4), (3, 5)];
pub const ATTR: [&str; 6] = ["J", "C", "h", "Q", "M", "s"];

#[derive(Clone, Copy, PartialEq, Eq, Debug)]
pub enum WpSel {
    StaticD65,
    StaticD50,
    DynD65,
    DynE,
    DynA,
}
pub const WPS: [WpSel; 5] = [WpSel::StaticD65, WpSel::StaticD50, WpSel::DynD65, WpSel::DynE, WpSel::DynA];
impl WpSel {
    pub fn name(self) -> &'static str {
        match self {
            WpSel::StaticD65 => "StaticWp<D65>",
            WpSel::StaticD50 => "StaticWp<D50>",
            WpSel::DynD65 => "dynamic(D65)",
            WpSel::DynE => "dynamic(E)",
            WpSel::DynA => "dynamic(A)",
        }
    }
    /// the type instantiation (call site) this selection runs through
    pub fn type_name(self) -> &'static str {
        match self {
            WpSel::StaticD65 => "StaticWp<D65>",
            WpSel::StaticD50 => "StaticWp<D50>",
            _ => "Xyz<Any>",
        }
    }
    pub fn from_name(s: &str) -> Option<WpSel> {
        WPS.into_iter().find(|w| w.name() == s)
    }
}

/// All observations for one (viewing conditions, XYZ) point. Hues are raw degrees.
#[derive(Clone, Copy, Debug)]
pub struct Obs<T> {
    /// Cam16::from_xyz with baked parameters: [J, C, h, Q, M, s]
    pub full: [T; 6],
    /// Cam16::from_xyz with un-baked `Parameters` (the `impl Into<BakedParameters>` route)
    pub full_unbaked: [T; 6],
    /// Cam16::into_xyz
    pub back_full: [T; 3],
    /// P::from_xyz for the six partial types: (luminance, chromaticity, hue)
    pub part: [[T; 3]; 6],
    /// P::from_full(full)
    pub part_from_full: [[T; 3]; 6],
    /// P::into_xyz(P::from_xyz(x))
    pub back: [[T; 3]; 6],
    /// P::into_full(P::from_xyz(x))
    pub into_full: [[T; 6]; 6],
    /// P2::from_full(P1.into_full()).into_full(), indexed [p1][p2]
    pub cross: [[[T; 6]; 6]; 6],
}

/// CAM16-UCS conversions starting from a Cam16Jmh (J, M, h).
#[derive(Clone, Copy, Debug)]
pub struct UcsObs<T> {
    pub ucs_jmh: [T; 3],
    pub jmh_back: [T; 3],
    pub jab: [T; 3],
    pub jab_direct: [T; 3],
    pub ucs_jmh_from_jab: [T; 3],
    pub jmh_from_jab: [T; 3],
}

pub struct Subject<T> {
    pub white: [T; 3],
    pub run: Box<dyn Fn([T; 3]) -> Obs<T> + Send + Sync>,
}

fn a6<T>(c: Cam16<T>) -> [T; 6] {
    [c.lightness, c.chroma, c.hue.into_inner(), c.brightness, c.colorfulness, c.saturation]
}
fn c6<T: Copy>(f: [T; 6]) -> Cam16<T> {
    Cam16 { lightness: f[0], chroma: f[1], hue: Cam16Hue::new(f[2]), brightness: f[3], colorfulness: f[4], saturation: f[5] }
}

fn sur_of<T: Fl>(s: Sur) -> Surround<T> {
    match s {
        Sur::Dark => Surround::Dark,
        Sur::Dim => Surround::Dim,
        Sur::Average => Surround::Average,
        Sur::Percent(p) => Surround::Percent(T::from64(p)),
    }
}
fn disc_of<T: Fl>(d: Disc) -> Discounting<T> {
    match d {
        Disc::Auto => Discounting::Auto,
        Disc::Custom(v) => Discounting::Custom(T::from64(v)),
    }
}

/// How a `Parameters<W, T>` is constructed through the public API.
trait MkParams<T>: Sized {
    fn mk(white: [T; 3], la: T) -> Parameters<Self, T>;
}
macro_rules! mk_static {
    ($T:ty, $Wp:ty) => {
        impl MkParams<$T> for StaticWp<$Wp> {
            fn mk(_white: [$T; 3], la: $T) -> Parameters<Self, $T> {
                Parameters::default_static_wp(la)
            }
        }
    };
}
macro_rules! mk_dynamic {
    ($T:ty) => {
        impl MkParams<$T> for Xyz<Any, $T> {
            fn mk(white: [$T; 3], la: $T) -> Parameters<Self, $T> {
                Parameters::default_dynamic_wp(Xyz::new(white[0], white[1], white[2]), la)
            }
        }
    };
}
mk_static!(f32, wp::D65);
mk_static!(f32, wp::D50);
mk_static!(f64, wp::D65);
mk_static!(f64, wp::D50);
mk_dynamic!(f32);
mk_dynamic!(f64);

/// The conversions of one partial type, in the module of one (W, T).
macro_rules! subject_part {
    ($m:ident, $P:ident) => {
        pub mod $m {
            use super::*;
            fn p3(p: $P<T>) -> [T; 3] {
                let (l, c, h) = p.into_components();
                [l, c, h.into_inner()]
            }
            fn mk(p: [T; 3]) -> $P<T> {
                $P::new(p[0], p[1], Cam16Hue::new(p[2]))
            }
            pub fn fwd(b: B, x: [T; 3]) -> [T; 3] {
                p3($P::from_xyz(x3(x), b))
            }
            pub fn back(b: B, p: [T; 3]) -> [T; 3] {
                let x: X = mk(p).into_xyz::<W>(b);
                [x.x, x.y, x.z]
            }
            pub fn into_full(b: B, p: [T; 3]) -> [T; 6] {
                a6(mk(p).into_full::<W>(b))
            }
            /// `P::from_full(full)` — and every other spelling of "take the attributes of the full colour"
            /// (`From`, `Into`, `FromColorUnclamped`, `IntoColorUnclamped`; `into_components` / `from_components` / tuple `Into` of the plain and the Alpha-wrapped colour; `FromColor` clamps and is C03's): they must agree
            /// bit for bit; a disagreement is folded into a NaN result, which fails the from_full comparison.
            pub fn from_full(f: [T; 6]) -> [T; 3] {
                use palette::convert::IntoColorUnclamped;
                let a = p3($P::from_full(c6(f)));
                let others: [[T; 3]; 4] = [
                    p3(<$P<T> as From<Cam16<T>>>::from(c6(f))),
                    p3(Into::<$P<T>>::into(c6(f))),
                    p3(<$P<T> as FromColorUnclamped<Cam16<T>>>::from_color_unclamped(c6(f))),
                    p3(IntoColorUnclamped::<$P<T>>::into_color_unclamped(c6(f))),
                ];
                // taking the colour apart into a tuple and rebuilding it (plain and Alpha-wrapped) is the identity
                let part = $P::from_full(c6(f));
                let t = part.into_components();
                let t_arr = [t.0, t.1, t.2.into_inner()];
                let rebuilt = p3(<$P<T>>::from_components(t));
                let wrapped: palette::Alpha<$P<T>, T> = palette::Alpha { color: part, alpha: 0.5 as T };
                let ta = wrapped.into_components();
                let ta_arr = [ta.0, ta.1, ta.2.into_inner()];
                let rebuilt_a = palette::Alpha::<$P<T>, T>::from_components(ta);
                let tuple_from: (T, T, Cam16Hue<T>, T) = wrapped.into();
                let others: [[T; 3]; 9] = [others[0], others[1], others[2], others[3], t_arr, rebuilt, ta_arr, p3(rebuilt_a.color), [tuple_from.0, tuple_from.1, tuple_from.2.into_inner()]];
                let same = ta.3 == (0.5 as T) && rebuilt_a.alpha == (0.5 as T) && others.iter().all(|o| (0..3).all(|i| o[i].to_bits() == a[i].to_bits() || (o[i].is_nan() && a[i].is_nan())));
                if same { a } else { [T::NAN; 3] }
            }
        }
    };
}

macro_rules! subject_mod {
    ($m:ident, $T:ty, $W:ty, $Wp:ty) => {
        pub mod $m {
            use super::*;
            pub type T = $T;
            pub type W = $W;
            pub type X = Xyz<$Wp, T>;
            pub type B = BakedParameters<W, T>;
            pub type P = Parameters<W, T>;
            fn x3(x: [T; 3]) -> X {
                Xyz::new(x[0], x[1], x[2])
            }
            subject_part!(jch, Cam16Jch);
            subject_part!(jmh, Cam16Jmh);
            subject_part!(jsh, Cam16Jsh);
            subject_part!(qch, Cam16Qch);
            subject_part!(qmh, Cam16Qmh);
            subject_part!(qsh, Cam16Qsh);
            const FWD: [fn(B, [T; 3]) -> [T; 3]; 6] = [jch::fwd, jmh::fwd, jsh::fwd, qch::fwd, qmh::fwd, qsh::fwd];
            const BACK: [fn(B, [T; 3]) -> [T; 3]; 6] = [jch::back, jmh::back, jsh::back, qch::back, qmh::back, qsh::back];
            const INTO_FULL: [fn(B, [T; 3]) -> [T; 6]; 6] = [jch::into_full, jmh::into_full, jsh::into_full, qch::into_full, qmh::into_full, qsh::into_full];
            const FROM_FULL: [fn([T; 6]) -> [T; 3]; 6] = [jch::from_full, jmh::from_full, jsh::from_full, qch::from_full, qmh::from_full, qsh::from_full];

            pub fn params(c: &Cond64, white: [T; 3]) -> P {
                let mut p: P = <W as MkParams<T>>::mk(white, <T as Fl>::from64(c.la));
                p.background_luminance = <T as Fl>::from64(c.yb);
                p.surround = sur_of::<T>(c.sur);
                p.discounting = disc_of::<T>(c.disc);
                p
            }
            fn full(b: B, x: [T; 3]) -> [T; 6] {
                a6(Cam16::from_xyz(x3(x), b))
            }
            fn full_unbaked(p: P, x: [T; 3]) -> [T; 6] {
                a6(Cam16::from_xyz(x3(x), p))
            }
            fn back_full(b: B, f: [T; 6]) -> [T; 3] {
                let x: X = c6(f).into_xyz::<W>(b);
                [x.x, x.y, x.z]
            }
            pub fn observe(b: B, p: P, x: [T; 3]) -> Obs<T> {
                let z = <T as Fl>::from64(0.0);
                let f = full(b, x);
                let mut o = Obs { full: f, full_unbaked: full_unbaked(p, x), back_full: back_full(b, f), part: [[z; 3]; 6], part_from_full: [[z; 3]; 6], back: [[z; 3]; 6], into_full: [[z; 6]; 6], cross: [[[z; 6]; 6]; 6] };
                for i in 0..6 {
                    o.part[i] = FWD[i](b, x);
                    o.part_from_full[i] = FROM_FULL[i](f);
                    o.back[i] = BACK[i](b, o.part[i]);
                    o.into_full[i] = INTO_FULL[i](b, o.part[i]);
                    for k in 0..6 {
                        o.cross[i][k] = INTO_FULL[k](b, FROM_FULL[k](o.into_full[i]));
                    }
                }
                o
            }
            pub fn subject(c: &Cond64, white: [T; 3]) -> Subject<T> {
                let p = params(c, white);
                let w = WhitePointParameter::<T>::into_xyz(p.white_point);
                let b: B = p.bake();
                Subject { white: [w.x, w.y, w.z], run: Box::new(move |x| observe(b, p, x)) }
            }
        }
    };
}

subject_mod!(s65_f32, f32, StaticWp<wp::D65>, wp::D65);
subject_mod!(s50_f32, f32, StaticWp<wp::D50>, wp::D50);
subject_mod!(dyn_f32, f32, Xyz<Any, f32>, Any);
subject_mod!(s65_f64, f64, StaticWp<wp::D65>, wp::D65);
subject_mod!(s50_f64, f64, StaticWp<wp::D50>, wp::D50);
subject_mod!(dyn_f64, f64, Xyz<Any, f64>, Any);

/// Per-float entry points.
pub trait Cam: Fl {
    /// The subject for one white-point selection under `c` (c.white is ignored: the white comes
    /// from the selection and is reported back in `Subject::white`).
    fn subject(sel: WpSel, c: &Cond64) -> Subject<Self>;
    /// Same conditions with an explicit dynamic white (the published vector uses its own white).
    fn subject_dynamic(c: &Cond64, white: [Self; 3]) -> Subject<Self>;
    fn ucs(jmh: [Self; 3]) -> UcsObs<Self>;
}

fn wp3<Wp: WhitePoint<T>, T>() -> [T; 3] {
    let w = Wp::get_xyz();
    [w.x, w.y, w.z]
}

macro_rules! cam_impl {
    ($T:ty, $s65:ident, $s50:ident, $dyn:ident, $ucs:ident) => {
        mod $ucs {
            use super::*;
            type T = $T;
            fn jmh3(c: Cam16Jmh<T>) -> [T; 3] {
                [c.lightness, c.colorfulness, c.hue.into_inner()]
            }
            fn ujmh3(c: Cam16UcsJmh<T>) -> [T; 3] {
                [c.lightness, c.colorfulness, c.hue.into_inner()]
            }
            fn jab3(c: Cam16UcsJab<T>) -> [T; 3] {
                [c.lightness, c.a, c.b]
            }
            pub fn run(p: [T; 3]) -> UcsObs<T> {
                let jmh = Cam16Jmh::new(p[0], p[1], Cam16Hue::new(p[2]));
                let u = Cam16UcsJmh::from_color_unclamped(jmh);
                let jab = Cam16UcsJab::from_color_unclamped(u);
                UcsObs {
                    ucs_jmh: ujmh3(u),
                    jmh_back: jmh3(Cam16Jmh::from_color_unclamped(u)),
                    jab: jab3(jab),
                    jab_direct: jab3(Cam16UcsJab::from_color_unclamped(jmh)),
                    ucs_jmh_from_jab: ujmh3(Cam16UcsJmh::from_color_unclamped(jab)),
                    jmh_from_jab: jmh3(Cam16Jmh::from_color_unclamped(jab)),
                }
            }
        }
        impl Cam for $T {
            fn subject(sel: WpSel, c: &Cond64) -> Subject<$T> {
                let z = [0.0 as $T; 3];
                match sel {
                    WpSel::StaticD65 => $s65::subject(c, z),
                    WpSel::StaticD50 => $s50::subject(c, z),
                    WpSel::DynD65 => $dyn::subject(c, wp3::<wp::D65, $T>()),
                    WpSel::DynE => $dyn::subject(c, wp3::<wp::E, $T>()),
                    WpSel::DynA => $dyn::subject(c, wp3::<wp::A, $T>()),
                }
            }
            fn subject_dynamic(c: &Cond64, white: [$T; 3]) -> Subject<$T> {
                $dyn::subject(c, white)
            }
            fn ucs(jmh: [$T; 3]) -> UcsObs<$T> {
                $ucs::run(jmh)
            }
        }
    };
}
cam_impl!(f32, s65_f32, s50_f32, dyn_f32, ucs_f32);
cam_impl!(f64, s65_f64, s50_f64, dyn_f64, ucs_f64);
