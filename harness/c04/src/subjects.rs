//! The type list: every `ArrayCast` / `UintCast` implementor of palette with an independent
//! way to build a value field by field (struct literal in *declared* field order) and to read it
//! back with the type's own `into_components()` (alpha last).
use core::marker::PhantomData;
use palette::blend::{PreAlpha, Premultiply};
use palette::cam16::{Cam16Jch, Cam16Jmh, Cam16Jsh, Cam16Qch, Cam16Qmh, Cam16Qsh, Cam16UcsJab, Cam16UcsJmh};
use palette::cast::{ArrayCast, Packed, UintCast};
use palette::encoding;
use palette::hues::{Cam16Hue, LabHue, LuvHue, OklabHue, RgbHue};
use palette::lms::VonKriesLms;
use palette::luma::Luma;
use palette::rgb::{channels, Rgb};
use palette::white_point::D65;
use palette::{Alpha, Hsl, Hsluv, Hsv, Hwb, Lab, Lch, Lchuv, Luv, Okhsl, Okhsv, Okhwb, Oklab, Oklch, Xyz, Yxy};

// -----------------------------------------------------------------------------------------
// component types and their sentinels

pub trait Prim: Copy + Send + Sync + 'static {
    const NAME: &'static str;
    /// Sentinel for component index `idx`: all distinct for idx < 128 within one (pat, gen);
    /// gen 0 and gen 1 are disjoint. pat 0/1: small ascending numbers; pat 2/3: byte-asymmetric
    /// extreme bit patterns (high bits set; for floats NaN payloads, negative subnormals, near-MAX).
    fn sent(idx: usize, pat: u8, gen: u8) -> Self;
    fn bits(self) -> u128;
}

impl Prim for u8 {
    const NAME: &'static str = "u8";
    fn sent(idx: usize, pat: u8, gen: u8) -> u8 {
        // gen 0: 1..=128, gen 1: the other 128 values
        let v = ((idx as u8 & 0x7f) + 1).wrapping_add(gen.wrapping_mul(128));
        if pat < 2 {
            v
        } else {
            !v
        }
    }
    fn bits(self) -> u128 {
        self as u128
    }
}
macro_rules! prim_uint {
    ($($t:ident, $k:expr, $x:expr);*) => {$(
        impl Prim for $t {
            const NAME: &'static str = stringify!($t);
            fn sent(idx: usize, pat: u8, gen: u8) -> $t {
                let i = idx as $t + 1;
                if pat < 2 { i + (gen as $t) * 1000 } else { (($x as $t) ^ i.wrapping_mul($k as $t)).wrapping_sub((gen as $t) << 7) }
            }
            fn bits(self) -> u128 { self as u128 }
        }
    )*};
}
prim_uint!(u16, 0x0101u16, 0xFEDCu16; u32, 0x0101_0101u32, 0xFEDC_BA98u32; u64, 0x0101_0101_0101_0101u64, 0xFEDC_BA98_7654_3210u64;
           u128, 0x0101_0101_0101_0101_0101_0101_0101_0101u128, 0xFEDC_BA98_7654_3210_0F1E_2D3C_4B5A_6978u128);

impl Prim for f32 {
    const NAME: &'static str = "f32";
    fn sent(idx: usize, pat: u8, gen: u8) -> f32 {
        let i = idx as u32 + 1 + (gen as u32) * 1000;
        if pat < 2 {
            i as f32 + 0.25
        } else {
            f32::from_bits(match idx % 4 {
                0 => 0xFFC0_0000 | i,        // negative quiet NaN, distinct payloads
                1 => 0x8000_0000 | i,        // negative subnormals
                2 => 0x7F7F_FFFF - i,        // just below MAX
                _ => 0x7FC1_0000 | (i << 1), // positive quiet NaN, other payloads
            })
        }
    }
    fn bits(self) -> u128 {
        self.to_bits() as u128
    }
}
impl Prim for f64 {
    const NAME: &'static str = "f64";
    fn sent(idx: usize, pat: u8, gen: u8) -> f64 {
        let i = idx as u64 + 1 + (gen as u64) * 1000;
        if pat < 2 {
            i as f64 + 0.25
        } else {
            f64::from_bits(match idx % 4 {
                0 => 0xFFF8_0000_0000_0000 | i | (i << 40),
                1 => 0x8000_0000_0000_0000 | i | (i << 33),
                2 => 0x7FEF_FFFF_FFFF_FFFF - i,
                _ => 0x7FF8_1000_0000_0000 | (i << 1),
            })
        }
    }
    fn bits(self) -> u128 {
        self.to_bits() as u128
    }
}
impl Prim for wide::f32x4 {
    const NAME: &'static str = "f32x4";
    fn sent(idx: usize, pat: u8, gen: u8) -> Self {
        // four distinct lanes; lane l of component idx = f32 sentinel 4*idx+l (idx < 32 stays distinct)
        wide::f32x4::from([0usize, 1, 2, 3].map(|l| {
            let j = 4 * idx + l;
            if pat < 2 {
                (j as u32 + 1 + gen as u32 * 1000) as f32 + 0.25
            } else {
                f32::from_bits(0xFFC0_0000 | (j as u32 + 1 + gen as u32 * 1000))
            }
        }))
    }
    fn bits(self) -> u128 {
        let a = self.to_array();
        (a[0].to_bits() as u128) | ((a[1].to_bits() as u128) << 32) | ((a[2].to_bits() as u128) << 64) | ((a[3].to_bits() as u128) << 96)
    }
}

// -----------------------------------------------------------------------------------------
// ArrayCast subjects

pub trait Subject<T: Prim, const N: usize>: ArrayCast<Array = [T; N]> + Clone + 'static {
    const FAMILY: &'static str;
    const CLASS: &'static str;
    /// whether `comps` goes through the type's own inherent `into_components()`
    const OWN_INTO_COMPONENTS: bool;
    fn label() -> String;
    /// field-by-field construction in declared field order (no cast involved)
    fn build(a: [T; N]) -> Self;
    /// the type's own `into_components()` (alpha last), hues unwrapped with `into_inner()`
    fn comps(self) -> [T; N];

    // adapters for the std conversion traits generated by `impl_array_casts!`
    fn s_as_ref_arr(&self) -> &[T; N];
    fn s_as_ref_slice(&self) -> &[T];
    fn s_as_mut_arr(&mut self) -> &mut [T; N];
    fn s_as_mut_slice(&mut self) -> &mut [T];
    fn s_arr_as_ref(a: &[T; N]) -> &Self;
    fn s_arr_as_mut(a: &mut [T; N]) -> &mut Self;
    fn s_into_arr(self) -> [T; N];
    fn s_from_arr(a: [T; N]) -> Self;
    fn s_ref_into_arr(&self) -> &[T; N];
    fn s_arr_ref_into(a: &[T; N]) -> &Self;
    fn s_ref_into_slice(&self) -> &[T];
    fn s_try_from_slice(s: &[T]) -> Option<&Self>;
    fn s_mut_into_arr(&mut self) -> &mut [T; N];
    fn s_arr_mut_into(a: &mut [T; N]) -> &mut Self;
    fn s_mut_into_slice(&mut self) -> &mut [T];
    fn s_try_from_slice_mut(s: &mut [T]) -> Option<&mut Self>;
    fn s_box_into_arr(b: Box<Self>) -> Box<[T; N]>;
    fn s_box_from_arr(b: Box<[T; N]>) -> Box<Self>;
}

macro_rules! std_adapters {
    ($T:ty, $n:expr) => {
        fn s_as_ref_arr(&self) -> &[$T; $n] {
            AsRef::<[$T; $n]>::as_ref(self)
        }
        fn s_as_ref_slice(&self) -> &[$T] {
            AsRef::<[$T]>::as_ref(self)
        }
        fn s_as_mut_arr(&mut self) -> &mut [$T; $n] {
            AsMut::<[$T; $n]>::as_mut(self)
        }
        fn s_as_mut_slice(&mut self) -> &mut [$T] {
            AsMut::<[$T]>::as_mut(self)
        }
        fn s_arr_as_ref(a: &[$T; $n]) -> &Self {
            AsRef::<Self>::as_ref(a)
        }
        fn s_arr_as_mut(a: &mut [$T; $n]) -> &mut Self {
            AsMut::<Self>::as_mut(a)
        }
        fn s_into_arr(self) -> [$T; $n] {
            <[$T; $n] as From<Self>>::from(self)
        }
        fn s_from_arr(a: [$T; $n]) -> Self {
            <Self as From<[$T; $n]>>::from(a)
        }
        fn s_ref_into_arr(&self) -> &[$T; $n] {
            <&[$T; $n] as From<&Self>>::from(self)
        }
        fn s_arr_ref_into(a: &[$T; $n]) -> &Self {
            <&Self as From<&[$T; $n]>>::from(a)
        }
        fn s_ref_into_slice(&self) -> &[$T] {
            <&[$T] as From<&Self>>::from(self)
        }
        fn s_try_from_slice(s: &[$T]) -> Option<&Self> {
            <&Self as TryFrom<&[$T]>>::try_from(s).ok()
        }
        fn s_mut_into_arr(&mut self) -> &mut [$T; $n] {
            <&mut [$T; $n] as From<&mut Self>>::from(self)
        }
        fn s_arr_mut_into(a: &mut [$T; $n]) -> &mut Self {
            <&mut Self as From<&mut [$T; $n]>>::from(a)
        }
        fn s_mut_into_slice(&mut self) -> &mut [$T] {
            <&mut [$T] as From<&mut Self>>::from(self)
        }
        fn s_try_from_slice_mut(s: &mut [$T]) -> Option<&mut Self> {
            <&mut Self as TryFrom<&mut [$T]>>::try_from(s).ok()
        }
        fn s_box_into_arr(b: Box<Self>) -> Box<[$T; $n]> {
            <Box<[$T; $n]> as From<Box<Self>>>::from(b)
        }
        fn s_box_from_arr(b: Box<[$T; $n]>) -> Box<Self> {
            <Box<Self> as From<Box<[$T; $n]>>>::from(b)
        }
    };
}

macro_rules! wrap {
    ($x:ident) => {
        $x
    };
    ($x:ident, $hue:ident) => {
        $hue::new($x)
    };
}
macro_rules! unwrap_hue {
    ($x:ident) => {
        $x
    };
    ($x:ident, $hue:ident) => {
        $hue::into_inner($x)
    };
}

/// `color!("Family", Type<lead..>, N, N+1, {field [(Hue)], ...} [, ph phantom_field] [, pre])`
/// implements Subject for the colour, for `Alpha<colour, T>` and (with `pre`) for `PreAlpha<colour>`.
macro_rules! color {
    ($fam:literal, $name:ident < $($lead:ty),* >, $n:literal, $n1:literal, { $($f:ident $(($hue:ident))?),+ } $(, ph $ph:ident)?, pre) => {
        color!($fam, $name<$($lead),*>, $n, $n1, { $($f $(($hue))?),+ } $(, ph $ph)?);
        color!(@pre $fam, $name<$($lead),*>, $n1, { $($f $(($hue))?),+ } $(, ph $ph)?);
    };
    ($fam:literal, $name:ident < $($lead:ty),* >, $n:literal, $n1:literal, { $($f:ident $(($hue:ident))?),+ } $(, ph $ph:ident)?) => {
        impl<T: Prim> Subject<T, $n> for $name<$($lead,)* T> {
            const FAMILY: &'static str = $fam;
            const CLASS: &'static str = "color";
            const OWN_INTO_COMPONENTS: bool = true;
            fn label() -> String { format!("{}<{}>", $fam, T::NAME) }
            fn build(a: [T; $n]) -> Self {
                let [$($f),+] = a;
                $name { $($f: wrap!($f $(, $hue)?),)+ $($ph: PhantomData,)? }
            }
            fn comps(self) -> [T; $n] {
                let ($($f,)+) = self.into_components();
                [$(unwrap_hue!($f $(, $hue)?)),+]
            }
            std_adapters!(T, $n);
        }
        impl<T: Prim> Subject<T, $n1> for Alpha<$name<$($lead,)* T>, T> {
            const FAMILY: &'static str = $fam;
            const CLASS: &'static str = "Alpha";
            const OWN_INTO_COMPONENTS: bool = true;
            fn label() -> String { format!("Alpha<{}<{}>>", $fam, T::NAME) }
            fn build(a: [T; $n1]) -> Self {
                let [$($f,)+ alpha] = a;
                Alpha { color: $name { $($f: wrap!($f $(, $hue)?),)+ $($ph: PhantomData,)? }, alpha }
            }
            fn comps(self) -> [T; $n1] {
                let ($($f,)+ alpha) = self.into_components();
                [$(unwrap_hue!($f $(, $hue)?),)+ alpha]
            }
            std_adapters!(T, $n1);
        }
    };
    (@pre $fam:literal, $name:ident < $($lead:ty),* >, $n1:literal, { $($f:ident $(($hue:ident))?),+ } $(, ph $ph:ident)?) => {
        impl<T: Prim> Subject<T, $n1> for PreAlpha<$name<$($lead,)* T>> where $name<$($lead,)* T>: Premultiply<Scalar = T> + Clone {
            const FAMILY: &'static str = $fam;
            const CLASS: &'static str = "PreAlpha";
            const OWN_INTO_COMPONENTS: bool = false;
            fn label() -> String { format!("PreAlpha<{}<{}>>", $fam, T::NAME) }
            fn build(a: [T; $n1]) -> Self {
                let [$($f,)+ alpha] = a;
                PreAlpha { color: $name { $($f: wrap!($f $(, $hue)?),)+ $($ph: PhantomData,)? }, alpha }
            }
            fn comps(self) -> [T; $n1] {
                // PreAlpha has no into_components of its own: the colour's, then alpha
                let PreAlpha { color, alpha } = self;
                let ($($f,)+) = color.into_components();
                [$(unwrap_hue!($f $(, $hue)?),)+ alpha]
            }
            std_adapters!(T, $n1);
        }
    };
}

color!("Srgb", Rgb<encoding::Srgb>, 3, 4, {red, green, blue}, ph standard, pre);
color!("LinSrgb", Rgb<encoding::Linear<encoding::Srgb>>, 3, 4, {red, green, blue}, ph standard, pre);
color!("Luma", Luma<encoding::Srgb>, 1, 2, {luma}, ph standard, pre);
color!("Xyz", Xyz<D65>, 3, 4, {x, y, z}, ph white_point, pre);
color!("Yxy", Yxy<D65>, 3, 4, {x, y, luma}, ph white_point, pre);
color!("Lab", Lab<D65>, 3, 4, {l, a, b}, ph white_point, pre);
color!("Lch", Lch<D65>, 3, 4, {l, chroma, hue(LabHue)}, ph white_point);
color!("Luv", Luv<D65>, 3, 4, {l, u, v}, ph white_point, pre);
color!("Lchuv", Lchuv<D65>, 3, 4, {l, chroma, hue(LuvHue)}, ph white_point);
color!("Hsl", Hsl<encoding::Srgb>, 3, 4, {hue(RgbHue), saturation, lightness}, ph standard);
color!("Hsv", Hsv<encoding::Srgb>, 3, 4, {hue(RgbHue), saturation, value}, ph standard);
color!("Hwb", Hwb<encoding::Srgb>, 3, 4, {hue(RgbHue), whiteness, blackness}, ph standard);
color!("Hsluv", Hsluv<D65>, 3, 4, {hue(LuvHue), saturation, l}, ph white_point);
color!("Oklab", Oklab<>, 3, 4, {l, a, b}, pre);
color!("Oklch", Oklch<>, 3, 4, {l, chroma, hue(OklabHue)});
color!("Okhsl", Okhsl<>, 3, 4, {hue(OklabHue), saturation, lightness});
color!("Okhsv", Okhsv<>, 3, 4, {hue(OklabHue), saturation, value});
color!("Okhwb", Okhwb<>, 3, 4, {hue(OklabHue), whiteness, blackness});
color!("Lms", VonKriesLms<D65>, 3, 4, {long, medium, short}, ph meta, pre);
color!("Cam16Jch", Cam16Jch<>, 3, 4, {lightness, chroma, hue(Cam16Hue)});
color!("Cam16Jmh", Cam16Jmh<>, 3, 4, {lightness, colorfulness, hue(Cam16Hue)});
color!("Cam16Jsh", Cam16Jsh<>, 3, 4, {lightness, saturation, hue(Cam16Hue)});
color!("Cam16Qch", Cam16Qch<>, 3, 4, {brightness, chroma, hue(Cam16Hue)});
color!("Cam16Qmh", Cam16Qmh<>, 3, 4, {brightness, colorfulness, hue(Cam16Hue)});
color!("Cam16Qsh", Cam16Qsh<>, 3, 4, {brightness, saturation, hue(Cam16Hue)});
color!("Cam16UcsJmh", Cam16UcsJmh<>, 3, 4, {lightness, colorfulness, hue(Cam16Hue)});
color!("Cam16UcsJab", Cam16UcsJab<>, 3, 4, {lightness, a, b}, pre);

// nested transparency wrappers (Alpha over an ArrayCast type that is itself Alpha / PreAlpha)
impl<T: Prim> Subject<T, 5> for Alpha<Alpha<Rgb<encoding::Srgb, T>, T>, T> {
    const FAMILY: &'static str = "Srgb";
    const CLASS: &'static str = "Alpha<Alpha>";
    const OWN_INTO_COMPONENTS: bool = false;
    fn label() -> String {
        format!("Alpha<Alpha<Srgb<{}>>>", T::NAME)
    }
    fn build(a: [T; 5]) -> Self {
        let [red, green, blue, alpha, alpha2] = a;
        Alpha { color: Alpha { color: Rgb { red, green, blue, standard: PhantomData }, alpha }, alpha: alpha2 }
    }
    fn comps(self) -> [T; 5] {
        let Alpha { color, alpha: alpha2 } = self;
        let (r, g, b, a) = color.into_components();
        [r, g, b, a, alpha2]
    }
    std_adapters!(T, 5);
}
impl<T: Prim> Subject<T, 5> for Alpha<PreAlpha<Rgb<encoding::Linear<encoding::Srgb>, T>>, T>
where
    Rgb<encoding::Linear<encoding::Srgb>, T>: Premultiply<Scalar = T> + Clone,
{
    const FAMILY: &'static str = "LinSrgb";
    const CLASS: &'static str = "Alpha<PreAlpha>";
    const OWN_INTO_COMPONENTS: bool = false;
    fn label() -> String {
        format!("Alpha<PreAlpha<LinSrgb<{}>>>", T::NAME)
    }
    fn build(a: [T; 5]) -> Self {
        let [red, green, blue, alpha, alpha2] = a;
        Alpha { color: PreAlpha { color: Rgb { red, green, blue, standard: PhantomData }, alpha }, alpha: alpha2 }
    }
    fn comps(self) -> [T; 5] {
        let Alpha { color: PreAlpha { color, alpha }, alpha: alpha2 } = self;
        let (r, g, b) = color.into_components();
        [r, g, b, alpha, alpha2]
    }
    std_adapters!(T, 5);
}

// Packed<O, [T; N]>: the array is the single public field
macro_rules! packed_arr {
    ($($o:ident),*) => {$(
        impl<T: Prim, const N: usize> Subject<T, N> for Packed<channels::$o, [T; N]> {
            const FAMILY: &'static str = "Packed";
            const CLASS: &'static str = "Packed";
            const OWN_INTO_COMPONENTS: bool = false;
            fn label() -> String { format!("Packed<{},[{};{}]>", stringify!($o), T::NAME, N) }
            fn build(a: [T; N]) -> Self { Packed { color: a, channel_order: PhantomData } }
            fn comps(self) -> [T; N] { self.color }
            std_adapters!(T, N);
        }
    )*};
}
packed_arr!(Rgba, Abgr);

// -----------------------------------------------------------------------------------------
// UintCast subjects

pub trait USubject<U: Prim>: UintCast<Uint = U> + Clone + 'static {
    const FAMILY: &'static str;
    fn label() -> String;
    fn build(u: U) -> Self;
    fn get(&self) -> U;
    fn s_as_ref(&self) -> &U;
    fn s_as_mut(&mut self) -> &mut U;
    fn s_uint_as_ref(u: &U) -> &Self;
    fn s_uint_as_mut(u: &mut U) -> &mut Self;
    fn s_from_uint(u: U) -> Self;
    fn s_into_uint(self) -> U;
    fn s_ref_from(u: &U) -> &Self;
    fn s_mut_from(u: &mut U) -> &mut Self;
    fn s_ref_into(&self) -> &U;
    fn s_mut_into(&mut self) -> &mut U;
}
macro_rules! uint_adapters {
    ($U:ty) => {
        fn s_as_ref(&self) -> &$U {
            AsRef::<$U>::as_ref(self)
        }
        fn s_as_mut(&mut self) -> &mut $U {
            AsMut::<$U>::as_mut(self)
        }
        fn s_uint_as_ref(u: &$U) -> &Self {
            AsRef::<Self>::as_ref(u)
        }
        fn s_uint_as_mut(u: &mut $U) -> &mut Self {
            AsMut::<Self>::as_mut(u)
        }
        fn s_from_uint(u: $U) -> Self {
            <Self as From<$U>>::from(u)
        }
        fn s_into_uint(self) -> $U {
            <$U as From<Self>>::from(self)
        }
        fn s_ref_from(u: &$U) -> &Self {
            <&Self as From<&$U>>::from(u)
        }
        fn s_mut_from(u: &mut $U) -> &mut Self {
            <&mut Self as From<&mut $U>>::from(u)
        }
        fn s_ref_into(&self) -> &$U {
            <&$U as From<&Self>>::from(self)
        }
        fn s_mut_into(&mut self) -> &mut $U {
            <&mut $U as From<&mut Self>>::from(self)
        }
    };
}
macro_rules! uint_subjects {
    ($($u:ident),*) => {$(
        impl USubject<$u> for Luma<encoding::Srgb, $u> {
            const FAMILY: &'static str = "Luma";
            fn label() -> String { format!("Luma<{}> as uint", stringify!($u)) }
            fn build(u: $u) -> Self { Luma { luma: u, standard: PhantomData } }
            fn get(&self) -> $u { let (l,) = self.clone().into_components(); l }
            uint_adapters!($u);
        }
        impl USubject<$u> for Packed<channels::Rgba, $u> {
            const FAMILY: &'static str = "Packed";
            fn label() -> String { format!("Packed<Rgba,{}> as uint", stringify!($u)) }
            fn build(u: $u) -> Self { Packed { color: u, channel_order: PhantomData } }
            fn get(&self) -> $u { self.color }
            uint_adapters!($u);
        }
    )*};
}
uint_subjects!(u8, u16, u32, u64, u128);

// type aliases with a single component parameter, used by the registry macro in main.rs
pub mod alias {
    use super::*;
    pub type FSrgb<T> = Rgb<encoding::Srgb, T>;
    pub type FLinSrgb<T> = Rgb<encoding::Linear<encoding::Srgb>, T>;
    pub type FLuma<T> = Luma<encoding::Srgb, T>;
    pub type FXyz<T> = Xyz<D65, T>;
    pub type FYxy<T> = Yxy<D65, T>;
    pub type FLab<T> = Lab<D65, T>;
    pub type FLch<T> = Lch<D65, T>;
    pub type FLuv<T> = Luv<D65, T>;
    pub type FLchuv<T> = Lchuv<D65, T>;
    pub type FHsl<T> = Hsl<encoding::Srgb, T>;
    pub type FHsv<T> = Hsv<encoding::Srgb, T>;
    pub type FHwb<T> = Hwb<encoding::Srgb, T>;
    pub type FHsluv<T> = Hsluv<D65, T>;
    pub type FOklab<T> = Oklab<T>;
    pub type FOklch<T> = Oklch<T>;
    pub type FOkhsl<T> = Okhsl<T>;
    pub type FOkhsv<T> = Okhsv<T>;
    pub type FOkhwb<T> = Okhwb<T>;
    pub type FLms<T> = VonKriesLms<D65, T>;
    pub type FCam16Jch<T> = Cam16Jch<T>;
    pub type FCam16Jmh<T> = Cam16Jmh<T>;
    pub type FCam16Jsh<T> = Cam16Jsh<T>;
    pub type FCam16Qch<T> = Cam16Qch<T>;
    pub type FCam16Qmh<T> = Cam16Qmh<T>;
    pub type FCam16Qsh<T> = Cam16Qsh<T>;
    pub type FCam16UcsJmh<T> = Cam16UcsJmh<T>;
    pub type FCam16UcsJab<T> = Cam16UcsJab<T>;
    pub type PackedRgba<T, const N: usize> = Packed<channels::Rgba, [T; N]>;
    pub type PackedAbgr<T, const N: usize> = Packed<channels::Abgr, [T; N]>;
    pub type LumaU<U> = Luma<encoding::Srgb, U>;
    pub type PackedU<U> = Packed<channels::Rgba, U>;
}
