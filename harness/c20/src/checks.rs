//! The sub-checks. Every check function takes one fully specified case so that the explorer
//! and `--replay` run exactly the same code.
use crate::cases::{AlphaLike, Case, Env, Prim, LN};
use crate::fmt::{documented_panic, roundtrip, try_de, try_ser, wire_of_toks, Fmt, Got, Wire, ALL_FMTS, MAP_FMTS};
use crate::tok::{build_top, show, strip_hue_newtypes, to_toks, top_entries, Tok};
use crate::{Cfg, Stats};
use pv::{json, Collector, Tier, Value};
use serde::de::DeserializeOwned;
use serde::Serialize;
use std::collections::HashSet;

// ---------------------------------------------------------------------------------------
// value lattice

/// distinct "ordinary" values per position so that swapped components are visible
const BASE: [usize; 8] = [2, 3, 4, 5, 8, 7, 1, 9];
/// reduced lattice for the full product of the thorough tier: 0, 1, 0.1, -0, 1e-30, MAX,
/// smallest subnormal, -1.5, NaN
const PRODUCT_LAT: [usize; 9] = [0, 1, 2, 6, 10, 12, 15, 7, 19];

pub fn values(n: usize, tier: Tier) -> Vec<Vec<usize>> {
    let base: Vec<usize> = BASE[..n].to_vec();
    let mut out = vec![base.clone()];
    if n == 0 {
        return out;
    }
    for l in 0..LN {
        out.push(vec![l; n]);
    }
    for p in 0..n {
        for l in 0..LN {
            let mut v = base.clone();
            v[p] = l;
            out.push(v);
        }
    }
    if tier == Tier::Thorough && n <= 4 {
        let k = PRODUCT_LAT.len();
        for code in 0..k.pow(n as u32) {
            let mut c = code;
            let mut v = vec![];
            for _ in 0..n {
                v.push(PRODUCT_LAT[c % k]);
                c /= k;
            }
            out.push(v);
        }
    }
    let mut seen = HashSet::new();
    out.retain(|v| seen.insert(v.clone()));
    out
}

pub fn describe_bounds(c: &mut Collector, cfg: &Cfg) {
    let prod = if cfg.tier == Tier::Thorough { " + the full product {0,1,0.1,-0,1e-30,MAX,min subnormal,-1.5,NaN}^N for N<=4" } else { "" };
    let lat = format!("component lattice of 21 points per scalar type (0, 1, 0.1, 0.25, 0.5, 0.75, -0, -1.5, 1/3, 255, 1e-30, 1e10, MAX, MIN, MIN_POSITIVE, min subnormal, 360, +inf, -inf, NaN, NaN with payload; 21 integers for u8/u16): base vector of distinct values, every point in all positions at once, every point in every single position{prod}");
    c.exhaustive("roundtrip", true, &format!("every serializable palette type (25 colour structs x f32,f64; u8/u16 Rgb and Luma; 5 hue types x f32,f64 + RgbHue<u8>; Alpha<.> of all of them, mixed alpha types, PreAlpha<.> of the 10 premultipliable ones) and 24 mock shapes wrapped in Alpha x {lat} x 11 format variants (json, json-array, ron, ron-named, tok-map with str/borrowed/String/bytes/index keys, tok-seq, tok-fixed)"));
    c.exhaustive("shape", true, &format!("same types x {lat} x human-readable flag: recorded serde data-model calls == predicted token stream"));
    c.exhaustive("perm", true, "every Alpha/PreAlpha type whose colour has named fields (structs, and the map a flattened struct produces) x 2 value vectors (thorough: 6) x all orders of the fields incl. alpha (all n! for n<=5 entries, rotations and reversed rotations beyond) x {as is, alpha removed, second alpha inserted at every position, unknown scalar / unknown nested struct entry inserted at every position} x 7 map formats x {plain Deserialize, optional-alpha helper}");
    c.exhaustive("missing-alpha", true, &format!("every Alpha/PreAlpha type x {lat} (quick: 43 vectors) x 11 formats: the colour serialized alone, read back as the transparent type and through the optional-alpha helper"));
    c.exhaustive("opt-present", true, "every Alpha/PreAlpha type x value vectors x 11 formats: the transparent colour read back through the optional-alpha helper");
    c.exhaustive("as_array", true, &format!("as_array on the colour, Alpha<colour> and PreAlpha<colour> for all 22 f32 colour structs, 5 f64 ones and the u8/u16 Rgb/Luma x {lat} x 11 formats"));
    c.exhaustive("as_uint", true, "Packed<Rgba|Argb|Bgra|Abgr,u32>, Packed<La|Al,u16>, Luma<Srgb,u8..u128> x integer lattice (0, 1, MAX, MAX-1, every single bit, every byte-distinct pattern, documented examples) x 11 formats");
    c.exhaustive("unsupported", true, "Alpha<P,f32> for P in 16 primitive/option/enum/any/bytes shapes x 21 values x 11 formats x {round trip, tuple-shaped foreign input, bare foreign input}");
}

fn hexbits(b: &[u128]) -> Vec<String> {
    b.iter().map(|x| format!("0x{x:x}")).collect()
}
fn wshow(w: &Option<Wire>) -> String {
    w.as_ref().map(|w| w.show()).unwrap_or_else(|| "<not serialized>".into())
}
fn ixkey(name: &str, ix: &[usize], f: Fmt, salt: u64) -> u64 {
    let mut h = pv::fnv(name.as_bytes()) ^ salt.wrapping_mul(0x9e37_79b9_7f4a_7c15);
    for i in ix {
        h = pv::splitmix(h ^ *i as u64);
    }
    pv::splitmix(h ^ f.id() as u64)
}
fn starts_with_struct<T: Serialize>(x: &T) -> bool {
    matches!(pv::catch(|| to_toks(x, true)), Ok(Ok(t)) if matches!(t.first(), Some(Tok::Struct(..))))
}

// ---------------------------------------------------------------------------------------
// round trip

/// `deserialize(serialize(x)) == x` bitwise in format `f`
pub fn check_rt<T: Case>(c: &mut Collector, env: &mut Env, st: &mut Stats, seed: u64, ix: &[usize], f: Fmt) -> bool {
    let x = T::build(ix);
    let xb = x.bits();
    env.ops += 2;
    let (wire, got) = roundtrip::<T>(f, &x);
    let control = T::applicable(f) && x.parts_ok(f, env);
    let limitation = f == Fmt::TokFixed && T::ALPHA_DEPTH >= 1 && starts_with_struct(&x);
    let case = |obs: Value, exp: &str| json!({"sub": "roundtrip", "item": T::name(), "type": T::name(), "ix": ix, "value_bits": hexbits(&xb), "fmt": f.name(), "wire": wshow(&wire), "observed": obs, "expected": exp});
    let sig = |kind: &str| format!("C20/roundtrip/{}/{}/{}", T::sig(), f.class(), kind);
    let wh = wire.as_ref().map(|w| w.hash()).unwrap_or(7);
    let mut compared = false;
    match &got {
        Got::Value(y) => {
            let yb = y.bits();
            if !control {
                st.bump(&format!("roundtrip/skipped: format cannot carry a part of the value/{}", f.name()));
            } else if yb == xb {
                compared = true;
                st.bump("roundtrip/equal");
                c.outcome(wh);
                c.sample(ixkey(&T::name(), ix, f, seed), || json!({"sub": "roundtrip", "type": T::name(), "value_bits": hexbits(&xb), "fmt": f.name(), "wire": wshow(&wire), "outcome": "equal"}));
            } else {
                compared = true;
                c.violation(&sig("wrong-value"), 1.0, || case(json!({"value_bits": hexbits(&yb)}), "the input value, bit for bit"));
            }
        }
        Got::Err(e) | Got::Panic(e) => {
            let panic = matches!(got, Got::Panic(_));
            c.outcome(wh ^ pv::fnv(e.as_bytes()));
            if panic && !documented_panic(e) {
                compared = true;
                c.violation(&sig("undocumented-panic"), 1.0, || case(json!({"panic": e}), "a value, an error or the documented unimplemented! panic"));
            } else if !control {
                st.bump(&format!("roundtrip/skipped: format cannot carry a part of the value/{}", f.name()));
            } else if limitation {
                compared = true;
                st.bump("roundtrip/documented limitation: struct-shaped colour under Alpha in a fixed-length positional format -> error");
            } else if T::STRICT {
                compared = true;
                c.violation(&sig(if panic { "panic" } else { "error" }), 1.0, || case(json!({if panic { "panic" } else { "error" }: e}), "the input value, bit for bit"));
            } else {
                compared = true;
                st.bump(&format!("roundtrip/outside the statement -> {}", if panic { "documented panic" } else { "error" }));
            }
        }
    }
    compared
}

// ---------------------------------------------------------------------------------------
// shape

fn diff_kind(act: &[Tok], exp: &[Tok]) -> &'static str {
    if act.iter().any(|t| matches!(t, Tok::Field(n, _) | Tok::SkipField(n) if ["standard", "white_point", "meta"].contains(n))) {
        return "metadata-field";
    }
    for i in 0..act.len().max(exp.len()) {
        match (act.get(i), exp.get(i)) {
            (Some(a), Some(e)) if a == e => continue,
            (_, Some(Tok::Struct(..) | Tok::TupleStruct(..) | Tok::Tuple(_) | Tok::Seq(_) | Tok::Map(_) | Tok::NewtypeStruct(_) | Tok::UnitStruct(_) | Tok::Unit)) => return "header",
            (_, Some(Tok::Field(n, _))) => return if *n == "alpha" { "alpha-field" } else { "field" },
            (_, Some(Tok::Str(s))) if s == "alpha" => return "alpha-field",
            (_, Some(Tok::F32(_) | Tok::F64(_) | Tok::U8(_) | Tok::U16(_))) => return "value",
            _ => return "structure",
        }
    }
    "structure"
}

/// the recorded data-model calls equal the predicted token stream
pub fn check_shape<T: Case>(c: &mut Collector, st: &mut Stats, ix: &[usize]) -> u64 {
    if !T::STRICT {
        return 0;
    }
    let x = T::build(ix);
    let Some(exp) = x.expect() else { return 0 };
    let exp = strip_hue_newtypes(&exp);
    let mut n = 0;
    for hr in [true, false] {
        n += 1;
        let case = |obs: Value| json!({"sub": "shape", "item": T::name(), "type": T::name(), "ix": ix, "value_bits": hexbits(&x.bits()), "human_readable": hr, "observed": obs, "expected": show(&exp)});
        match pv::catch(|| to_toks(&x, hr)) {
            Ok(Ok(t)) => {
                let act = strip_hue_newtypes(&t);
                if act == exp {
                    st.bump("shape/as predicted");
                    c.outcome(pv::fnv(format!("{t:?}").as_bytes()));
                } else {
                    c.violation(&format!("C20/shape/{}/{}", T::sig(), diff_kind(&act, &exp)), 1.0, || case(json!(show(&t))));
                }
            }
            Ok(Err(e)) => c.violation(&format!("C20/shape/{}/error", T::sig()), 1.0, || case(json!({"error": e.0}))),
            Err(p) => c.violation(&format!("C20/shape/{}/panic", T::sig()), 1.0, || case(json!({"panic": p}))),
        }
    }
    // a hue is a bare number in JSON text
    if T::shape() == "hue" && T::ALPHA_DEPTH == 0 {
        n += 1;
        if let Ok(s) = serde_json::to_string(&x) {
            let bare = s == "null" || (s.parse::<f64>().is_ok() && !s.contains(['[', '{', '"', '(']));
            if !bare {
                c.violation(&format!("C20/shape/{}/json-not-a-bare-number", T::sig()), 1.0, || json!({"sub": "shape", "item": T::name(), "type": T::name(), "ix": ix, "observed": s, "expected": "a JSON number literal"}));
            }
        }
    }
    n
}

// ---------------------------------------------------------------------------------------
// permutations of the map form

fn perms(n: usize) -> Vec<Vec<usize>> {
    if n <= 5 {
        let mut out = vec![];
        let mut cur: Vec<usize> = (0..n).collect();
        // lexicographic next-permutation: identity first
        loop {
            out.push(cur.clone());
            let Some(i) = (0..n.saturating_sub(1)).rev().find(|&i| cur[i] < cur[i + 1]) else { break };
            let j = (i + 1..n).rev().find(|&j| cur[j] > cur[i]).unwrap();
            cur.swap(i, j);
            cur[i + 1..].reverse();
        }
        out
    } else {
        let mut out = vec![];
        for r in 0..n {
            let v: Vec<usize> = (0..n).map(|i| (i + r) % n).collect();
            let mut w = v.clone();
            w.reverse();
            out.push(v);
            out.push(w);
        }
        out
    }
}

const DUP: &str = "alpha#dup";
const UNK: &str = "?unknown";
const UNKS: &str = "?unknown-struct";

/// all label lists for a struct with the given field names (alpha included)
pub fn perm_variants(names: &[&'static str]) -> Vec<Vec<String>> {
    let n = names.len();
    let mut out: Vec<Vec<String>> = vec![];
    let mut seen: HashSet<Vec<String>> = HashSet::new();
    for p in perms(n) {
        let order: Vec<String> = p.iter().map(|&i| names[i].to_string()).collect();
        let mut push = |v: Vec<String>| {
            if seen.insert(v.clone()) {
                out.push(v);
            }
        };
        push(order.clone());
        push(order.iter().filter(|s| *s != "alpha").cloned().collect());
        for extra in [DUP, UNK, UNKS] {
            for k in 0..=n {
                let mut v = order.clone();
                v.insert(k, extra.to_string());
                push(v);
            }
        }
    }
    out
}

fn unknown_struct_toks() -> Vec<Tok> {
    vec![Tok::Struct("Unk", 2), Tok::Field("alpha", 0), Tok::F32(9.5f32.to_bits()), Tok::Field("z", 1), Tok::Seq(Some(2)), Tok::U8(1), Tok::U8(2), Tok::SeqEnd, Tok::StructEnd]
}

/// one permuted / mutated map-form input, read as `W` or through the optional-alpha helper
pub fn check_perm<W: AlphaLike>(c: &mut Collector, env: &mut Env, st: &mut Stats, seed: u64, ix: &[usize], labels: &[String], f: Fmt, opt: bool) -> bool {
    let x = W::build(ix);
    let Ok(Ok(toks)) = pv::catch(|| to_toks(&x, true)) else { return false };
    let Some((top, entries)) = top_entries(&toks) else { return false };
    let alt = <W::Al as Prim>::lat(if ix[W::N - 1] == 1 { 4 } else { 1 });
    let alpha_idx = entries.iter().find(|e| e.0 == "alpha").map(|e| e.1).unwrap_or(0);
    let mut list: Vec<(&'static str, u32, Vec<Tok>)> = vec![];
    for l in labels {
        match l.as_str() {
            DUP => list.push(("alpha", alpha_idx, vec![alt.tok()])),
            UNK => list.push(("zz_unknown", 1000, vec![Tok::F32(9.5f32.to_bits())])),
            UNKS => list.push(("zz_unknown", 1000, unknown_struct_toks())),
            n => match entries.iter().find(|e| e.0 == n) {
                Some(e) => list.push(e.clone()),
                None => return false,
            },
        }
    }
    let has_alpha = labels.iter().any(|l| l == "alpha");
    let dup = labels.iter().any(|l| l == DUP);
    let unknown = labels.iter().any(|l| l == UNK || l == UNKS);
    let variant = if dup {
        "duplicate-alpha"
    } else if unknown {
        "unknown-field"
    } else if !has_alpha {
        "missing-alpha"
    } else {
        "reordered"
    };
    let mutated = build_top(top, &list);
    let Ok(wire) = wire_of_toks(f, &mutated) else {
        st.bump("perm/skipped: format cannot render the input");
        return false;
    };
    if !(W::applicable(f) && x.parts_ok(f, env)) {
        st.bump("perm/skipped: format cannot carry a part of the value");
        return false;
    }
    env.ops += 1;
    let got: Got<W> = if opt {
        match try_de::<W::Opt>(f, &wire) {
            Got::Value(o) => Got::Value(W::unopt(o)),
            Got::Err(e) => Got::Err(e),
            Got::Panic(p) => Got::Panic(p),
        }
    } else {
        try_de::<W>(f, &wire)
    };
    let xb = x.bits();
    let opaque = x.with_alpha(<W::Al as Prim>::opaque());
    let (accept, err_ok, want): (Vec<Vec<u128>>, bool, &str) = match variant {
        "reordered" => (vec![xb.clone()], false, "the input value, bit for bit (a map is unordered)"),
        "missing-alpha" if opt => (vec![opaque.clone()], false, "the colour with full opacity"),
        "missing-alpha" => (vec![opaque.clone()], true, "an error (documented) or the colour with full opacity"),
        "duplicate-alpha" => (vec![xb.clone(), x.with_alpha(alt)], true, "an error, or the colour with one of the two alpha values"),
        _ => (vec![xb.clone()], true, "an error, or the input value"),
    };
    let who = if opt { W::HELPER } else { "Deserialize" };
    let sig = |kind: &str| format!("C20/perm/{}/{}/{}/{}/{}", W::sig(), who, f.class(), variant, kind);
    let case = |obs: Value| json!({"sub": "perm", "item": W::name(), "type": W::name(), "ix": ix, "value_bits": hexbits(&xb), "fmt": f.name(), "labels": labels, "opt": opt, "wire": wire.show(), "observed": obs, "expected": want});
    match got {
        Got::Value(y) => {
            let yb = y.bits();
            if accept.contains(&yb) {
                st.bump(&format!("perm/{variant} -> accepted value"));
                c.outcome(wire.hash() ^ opt as u64);
                if variant != "unknown-field" && (variant != "reordered" || labels.first().map(|s| s.as_str()) != Some("alpha")) && f.id() % 3 == ix[0] as u8 % 3 {
                    c.sample(ixkey(&W::name(), ix, f, seed ^ pv::fnv(labels.join(",").as_bytes())), || json!({"sub": "perm", "type": W::name(), "fmt": f.name(), "via": who, "wire": wire.show(), "variant": variant, "outcome": "accepted value"}));
                }
            } else {
                c.violation(&sig("wrong-value"), 1.0, || case(json!({"value_bits": hexbits(&yb)})));
            }
        }
        Got::Err(e) => {
            c.outcome(wire.hash() ^ pv::fnv(e.as_bytes()));
            if err_ok {
                st.bump(&format!("perm/{variant} -> error"));
            } else {
                c.violation(&sig("error"), 1.0, || case(json!({"error": e})));
            }
        }
        Got::Panic(p) => c.violation(&sig("panic"), 1.0, || case(json!({"panic": p}))),
    }
    true
}

// ---------------------------------------------------------------------------------------
// data without alpha / the optional-alpha helper on data with alpha

/// the colour serialized alone, read back as the transparent type (`opt` = through the helper)
pub fn check_missing<W: AlphaLike>(c: &mut Collector, env: &mut Env, st: &mut Stats, ix: &[usize], f: Fmt, opt: bool) -> bool {
    let x = W::build(ix);
    let Got::Value(wire) = try_ser(f, x.color()) else { return false };
    let control = W::applicable(f) && x.color().parts_ok(f, env) && env.rt_ok(f, x.color());
    if !control {
        st.bump("missing-alpha/skipped: format cannot carry the colour");
        return false;
    }
    env.ops += 2;
    let got: Got<W> = if opt {
        match try_de::<W::Opt>(f, &wire) {
            Got::Value(o) => Got::Value(W::unopt(o)),
            Got::Err(e) => Got::Err(e),
            Got::Panic(p) => Got::Panic(p),
        }
    } else {
        try_de::<W>(f, &wire)
    };
    let opaque = x.with_alpha(<W::Al as Prim>::opaque());
    let struct_like = starts_with_struct(x.color()) || matches!(pv::catch(|| to_toks(x.color(), true)), Ok(Ok(t)) if matches!(t.first(), Some(Tok::Map(_))));
    // the helper must give full opacity for colours with named fields; other shapes have no
    // "alpha field" that could be absent, so only "never a wrong value" applies
    let must = opt && W::STRICT && struct_like;
    let who = if opt { W::HELPER } else { "Deserialize" };
    let sig = |kind: &str| format!("C20/missing-alpha/{}/{}/{}/{}", W::sig(), who, f.class(), kind);
    let case = |obs: Value| json!({"sub": "missing-alpha", "item": W::name(), "type": W::name(), "ix": ix, "fmt": f.name(), "opt": opt, "wire": wire.show(), "observed": obs, "expected": if must { "the colour with full opacity" } else { "an error (documented for plain Alpha) or the colour with full opacity" }});
    match got {
        Got::Value(y) => {
            let yb = y.bits();
            if yb == opaque {
                st.bump(&format!("missing-alpha/{who} -> full opacity"));
                c.outcome(wire.hash() ^ 1);
            } else {
                c.violation(&sig("wrong-value"), 1.0, || case(json!({"value_bits": hexbits(&yb)})));
            }
        }
        Got::Err(e) => {
            c.outcome(wire.hash() ^ pv::fnv(e.as_bytes()));
            if must {
                c.violation(&sig("error"), 1.0, || case(json!({"error": e})));
            } else {
                st.bump(&format!("missing-alpha/{who} -> error"));
            }
        }
        Got::Panic(p) => {
            if W::STRICT || !documented_panic(&p) {
                c.violation(&sig("panic"), 1.0, || case(json!({"panic": p})));
            } else {
                st.bump(&format!("missing-alpha/{who} -> documented panic"));
            }
        }
    }
    true
}

/// the transparent colour serialized normally, read back through the optional-alpha helper
pub fn check_opt_present<W: AlphaLike>(c: &mut Collector, env: &mut Env, st: &mut Stats, ix: &[usize], f: Fmt) -> bool {
    let x = W::build(ix);
    let Got::Value(wire) = try_ser(f, &x) else { return false };
    if !(W::applicable(f) && x.parts_ok(f, env)) {
        st.bump("opt-present/skipped: format cannot carry a part of the value");
        return false;
    }
    env.ops += 2;
    let limitation = f == Fmt::TokFixed && starts_with_struct(&x);
    let xb = x.bits();
    let opaque = x.with_alpha(<W::Al as Prim>::opaque());
    let sig = |kind: &str| format!("C20/opt-present/{}/{}/{}/{}", W::sig(), W::HELPER, f.class(), kind);
    let case = |obs: Value| json!({"sub": "opt-present", "item": W::name(), "type": W::name(), "ix": ix, "fmt": f.name(), "wire": wire.show(), "observed": obs, "expected": "the input value, bit for bit"});
    match try_de::<W::Opt>(f, &wire) {
        Got::Value(o) => {
            let yb = W::unopt(o).bits();
            if yb == xb {
                st.bump("opt-present/equal");
                c.outcome(wire.hash() ^ 2);
            } else if limitation && yb == opaque {
                // cannot happen silently in tok-fixed (unread data is an error); kept for completeness
                st.bump("opt-present/documented limitation -> opaque");
            } else {
                c.violation(&sig("wrong-value"), 1.0, || case(json!({"value_bits": hexbits(&yb)})));
            }
        }
        Got::Err(e) => {
            c.outcome(wire.hash() ^ pv::fnv(e.as_bytes()));
            if W::STRICT && !limitation {
                c.violation(&sig("error"), 1.0, || case(json!({"error": e})));
            } else {
                st.bump(if limitation { "opt-present/documented limitation -> error" } else { "opt-present/outside the statement -> error" });
            }
        }
        Got::Panic(p) => {
            if W::STRICT || !documented_panic(&p) {
                c.violation(&sig("panic"), 1.0, || case(json!({"panic": p})));
            } else {
                st.bump("opt-present/outside the statement -> documented panic");
            }
        }
    }
    true
}

// ---------------------------------------------------------------------------------------
// runners

pub fn run_plain<T: Case>(cfg: &Cfg, c: &mut Collector, st: &mut Stats) {
    let mut env = Env::default();
    let vals = values(T::N, cfg.tier);
    let (mut traces, mut shapes) = (0u64, 0u64);
    for ix in &vals {
        shapes += check_shape::<T>(c, st, ix);
        for f in ALL_FMTS {
            traces += check_rt::<T>(c, &mut env, st, cfg.seed, ix, f) as u64;
        }
    }
    c.add("roundtrip", vals.len() as u64, env.ops, traces, traces);
    c.add("shape", vals.len() as u64, shapes, shapes, shapes);
}

pub fn run_alpha<W: AlphaLike>(cfg: &Cfg, c: &mut Collector, st: &mut Stats) {
    run_plain::<W>(cfg, c, st);
    let mut env = Env::default();
    let vals = values(W::N, cfg.tier);
    // data without alpha, helper on data with alpha
    let few: Vec<&Vec<usize>> = if cfg.tier == Tier::Thorough { vals.iter().collect() } else { vals.iter().take(1 + 2 * LN).collect() };
    let (mut m, mut p, mut p_ops) = (0u64, 0u64, 0u64);
    for ix in &few {
        for f in ALL_FMTS {
            m += check_missing::<W>(c, &mut env, st, ix, f, false) as u64;
            // the optional-alpha helper has a stated behaviour only for colour-like types
            if W::STRICT {
                m += check_missing::<W>(c, &mut env, st, ix, f, true) as u64;
                let before = env.ops;
                p += check_opt_present::<W>(c, &mut env, st, ix, f) as u64;
                p_ops += env.ops - before;
            }
        }
    }
    c.add("missing-alpha", few.len() as u64, env.ops - p_ops, m, m);
    let ops0 = env.ops;
    c.add("opt-present", if W::STRICT { few.len() as u64 } else { 0 }, p_ops, p, p);
    // permutations of the map form
    if !W::STRICT {
        return;
    }
    let x = W::build(&vals[0]);
    let Ok(Ok(toks)) = pv::catch(|| to_toks(&x, true)) else { return };
    let Some((_, entries)) = top_entries(&toks) else { return };
    let names: Vec<&'static str> = entries.iter().map(|e| e.0).collect();
    if names.iter().filter(|n| **n == "alpha").count() != 1 {
        // only happens when the serializer is broken (the shape check reports it): say that
        // the permutation space could not be built rather than shrink silently
        c.warn(format!("perm: {} does not serialize with exactly one `alpha` entry; its permutation space was not explored", W::name()));
        return;
    }
    let variants = perm_variants(&names);
    // value vectors: the base vector, one with special values, (thorough) a sweep of alpha
    let mut pv_vals: Vec<Vec<usize>> = vec![vals[0].clone(), (0..W::N).map(|i| [6, 10, 12, 15, 0, 1, 2, 3][i % 8]).collect()];
    if cfg.tier == Tier::Thorough {
        for l in [0, 1, 12, 14] {
            let mut v = vals[0].clone();
            v[W::N - 1] = l;
            pv_vals.push(v);
        }
    }
    let mut n = 0u64;
    for ix in &pv_vals {
        for labels in &variants {
            for f in MAP_FMTS {
                for opt in [false, true] {
                    n += check_perm::<W>(c, &mut env, st, cfg.seed, ix, labels, f, opt) as u64;
                }
            }
        }
    }
    c.add("perm", (pv_vals.len() * variants.len()) as u64, env.ops - ops0, n, n);
}

pub fn replay_plain<T: Case>(c: &mut Collector, case: &Value) {
    let ix: Vec<usize> = case["ix"].as_array().map(|a| a.iter().map(|v| v.as_u64().unwrap_or(0) as usize).collect()).unwrap_or_default();
    let mut env = Env::default();
    let mut st = Stats::default();
    match case["sub"].as_str().unwrap_or("") {
        "shape" => {
            check_shape::<T>(c, &mut st, &ix);
            let x = T::build(&ix);
            println!("type {}: recorded calls: {}", T::name(), pv::catch(|| to_toks(&x, true).map(|t| show(&t))).map(|r| r.unwrap_or_else(|e| e.0)).unwrap_or_else(|p| format!("panic: {p}")));
        }
        _ => {
            let f = Fmt::parse(case["fmt"].as_str().unwrap_or("json")).unwrap_or(Fmt::Json);
            check_rt::<T>(c, &mut env, &mut st, 0, &ix, f);
            let x = T::build(&ix);
            let (w, g) = roundtrip::<T>(f, &x);
            println!("type {} fmt {}: wire {}", T::name(), f.name(), wshow(&w));
            match g {
                Got::Value(y) => println!("  input bits {:?}\n  output bits {:?}", hexbits(&x.bits()), hexbits(&y.bits())),
                Got::Err(e) => println!("  error: {e}"),
                Got::Panic(p) => println!("  panic: {p}"),
            }
        }
    }
    println!("tallies: {:?}", st.0);
}

pub fn replay_alpha<W: AlphaLike>(c: &mut Collector, case: &Value) {
    let ix: Vec<usize> = case["ix"].as_array().map(|a| a.iter().map(|v| v.as_u64().unwrap_or(0) as usize).collect()).unwrap_or_default();
    let f = Fmt::parse(case["fmt"].as_str().unwrap_or("json")).unwrap_or(Fmt::Json);
    let opt = case["opt"].as_bool().unwrap_or(false);
    let mut env = Env::default();
    let mut st = Stats::default();
    match case["sub"].as_str().unwrap_or("") {
        "perm" => {
            let labels: Vec<String> = case["labels"].as_array().map(|a| a.iter().map(|v| v.as_str().unwrap_or("").to_string()).collect()).unwrap_or_default();
            check_perm::<W>(c, &mut env, &mut st, 0, &ix, &labels, f, opt);
            println!("type {} fmt {} labels {:?} via {}", W::name(), f.name(), labels, if opt { W::HELPER } else { "Deserialize" });
        }
        "missing-alpha" => {
            check_missing::<W>(c, &mut env, &mut st, &ix, f, opt);
        }
        "opt-present" => {
            check_opt_present::<W>(c, &mut env, &mut st, &ix, f);
        }
        _ => return replay_plain::<W>(c, case),
    }
    println!("tallies: {:?}", st.0);
    for (sig, v) in &c.viol {
        println!("{sig}: {}", pv::report::compact(&v.first));
    }
}

// ---------------------------------------------------------------------------------------
// helpers: as_array / as_uint

pub struct AsArr<T>(pub T);
impl<T: palette::cast::ArrayCast> Serialize for AsArr<T>
where
    T::Array: Serialize,
{
    fn serialize<S: serde::Serializer>(&self, s: S) -> Result<S::Ok, S::Error> {
        palette::serde::as_array::serialize(&self.0, s)
    }
}
impl<'de, T: palette::cast::ArrayCast> serde::Deserialize<'de> for AsArr<T>
where
    T::Array: serde::Deserialize<'de>,
{
    fn deserialize<D: serde::Deserializer<'de>>(d: D) -> Result<Self, D::Error> {
        palette::serde::as_array::deserialize(d).map(AsArr)
    }
}

pub fn run_as_array<T, P>(cfg: &Cfg, c: &mut Collector, st: &mut Stats)
where
    T: Case + palette::cast::ArrayCast + Clone,
    T::Array: Serialize + DeserializeOwned + AsRef<[P]> + Clone,
    P: Prim,
{
    let mut env = Env::default();
    let vals = values(T::N, cfg.tier);
    let mut n = 0u64;
    for ix in &vals {
        let x = T::build(ix);
        let arr = palette::cast::into_array(x.clone());
        let ab: Vec<u128> = arr.as_ref().iter().map(|p| p.pbits()).collect();
        let case = |f: &str, obs: Value, exp: &str| json!({"sub": "as_array", "item": format!("as_array:{}", T::name()), "type": T::name(), "ix": ix, "fmt": f, "cast_into_array_bits": hexbits(&ab), "observed": obs, "expected": exp});
        // shape: a tuple of exactly the cast values
        let mut exp = vec![Tok::Tuple(ab.len())];
        exp.extend(arr.as_ref().iter().map(|p| p.tok()));
        exp.push(Tok::TupleEnd);
        n += 1;
        match pv::catch(|| to_toks(&AsArr(x.clone()), true)) {
            Ok(Ok(t)) if t == exp => st.bump("as_array/shape as predicted"),
            Ok(Ok(t)) => c.violation(&format!("C20/as_array/{}/shape", T::sig()), 1.0, || case("tokens", json!(show(&t)), &show(&exp))),
            Ok(Err(e)) => c.violation(&format!("C20/as_array/{}/shape-error", T::sig()), 1.0, || case("tokens", json!({"error": e.0}), &show(&exp))),
            Err(p) => c.violation(&format!("C20/as_array/{}/shape-panic", T::sig()), 1.0, || case("tokens", json!({"panic": p}), &show(&exp))),
        }
        for f in ALL_FMTS {
            if !arr.as_ref().iter().all(|p| env.prim_ok(f, *p)) {
                st.bump("as_array/skipped: format cannot carry a component");
                continue;
            }
            n += 1;
            env.ops += 3;
            let w1 = try_ser(f, &AsArr(x.clone()));
            let w2 = try_ser(f, &arr);
            let (Got::Value(w1), Got::Value(w2)) = (w1.clone(), w2) else {
                c.violation(&format!("C20/as_array/{}/{}/serialize-failed", T::sig(), f.class()), 1.0, || case(f.name(), json!(format!("{w1:?}")), "serialization succeeds"));
                continue;
            };
            if w1 != w2 {
                c.violation(&format!("C20/as_array/{}/{}/differs-from-cast", T::sig(), f.class()), 1.0, || case(f.name(), json!(w1.show()), &w2.show()));
                continue;
            }
            match try_de::<AsArr<T>>(f, &w1) {
                Got::Value(y) => {
                    let yb: Vec<u128> = palette::cast::into_array(y.0.clone()).as_ref().iter().map(|p| p.pbits()).collect();
                    if yb == ab && y.0.bits() == x.bits() {
                        st.bump("as_array/equal");
                        c.outcome(w1.hash() ^ 3);
                    } else {
                        c.violation(&format!("C20/as_array/{}/{}/wrong-value", T::sig(), f.class()), 1.0, || case(f.name(), json!(hexbits(&yb)), "cast::from_array of the cast::into_array values"));
                    }
                }
                g => c.violation(&format!("C20/as_array/{}/{}/error", T::sig(), f.class()), 1.0, || case(f.name(), json!(format!("{:?}", match g { Got::Err(e) => e, Got::Panic(p) => format!("panic: {p}"), _ => String::new() })), "the input value")),
            }
        }
    }
    c.add("as_array", vals.len() as u64, env.ops, n, n);
}

pub fn replay_as_array<T, P>(c: &mut Collector, _case: &Value)
where
    T: Case + palette::cast::ArrayCast + Clone,
    T::Array: Serialize + DeserializeOwned + AsRef<[P]> + Clone,
    P: Prim,
{
    let mut st = Stats::default();
    run_as_array::<T, P>(&Cfg { tier: Tier::Quick, seed: 0 }, c, &mut st);
    println!("re-ran the complete as_array item for {}; tallies: {:?}", T::name(), st.0);
}

pub trait UPrim: Serialize + DeserializeOwned + Copy + PartialEq + std::fmt::Debug + 'static {
    const BITS: u32;
    fn from128(x: u128) -> Self;
    fn to128(self) -> u128;
    fn tok(self) -> Tok;
}
macro_rules! uprim {
    ($($t:ident $v:ident),*) => {$(impl UPrim for $t {
        const BITS: u32 = <$t>::BITS;
        fn from128(x: u128) -> Self { x as $t }
        fn to128(self) -> u128 { self as u128 }
        fn tok(self) -> Tok { Tok::$v(self) }
    })*};
}
uprim!(u8 U8, u16 U16, u32 U32, u64 U64, u128 U128);

fn uint_lattice(bits: u32) -> Vec<u128> {
    let max: u128 = if bits == 128 { u128::MAX } else { (1u128 << bits) - 1 };
    let mut v = vec![0, 1, max, max - 1, 0x17C64CFF & max, 0xFF17C64C & max, 0x0102030405060708090a0b0c0d0e0f10 & max, 0x100f0e0d0c0b0a090807060504030201 & max, 0x80 & max, 0xff & max];
    for k in 0..bits {
        v.push(1u128 << k);
        v.push(max ^ (1u128 << k));
    }
    for b in 0..(bits / 8) {
        v.push(0xA5u128 << (8 * b));
    }
    let mut seen = HashSet::new();
    v.retain(|x| seen.insert(*x));
    v
}

pub struct AsUint<T>(pub T);
impl<T: palette::cast::UintCast> Serialize for AsUint<T>
where
    T::Uint: Serialize,
{
    fn serialize<S: serde::Serializer>(&self, s: S) -> Result<S::Ok, S::Error> {
        palette::serde::as_uint::serialize(&self.0, s)
    }
}
impl<'de, T: palette::cast::UintCast> serde::Deserialize<'de> for AsUint<T>
where
    T::Uint: serde::Deserialize<'de>,
{
    fn deserialize<D: serde::Deserializer<'de>>(d: D) -> Result<Self, D::Error> {
        palette::serde::as_uint::deserialize(d).map(AsUint)
    }
}

pub fn run_as_uint<T, U>(label: &str, c: &mut Collector, st: &mut Stats)
where
    T: palette::cast::UintCast<Uint = U> + Copy,
    U: UPrim,
{
    let mut n = 0u64;
    let mut ops = 0u64;
    let lat = uint_lattice(U::BITS);
    for &raw in &lat {
        let u = U::from128(raw);
        let x: T = palette::cast::from_uint(u);
        let iu: U = palette::cast::into_uint(x);
        let case = |f: &str, obs: Value, exp: String| json!({"sub": "as_uint", "item": format!("as_uint:{label}"), "type": label, "input": format!("0x{raw:x}"), "fmt": f, "observed": obs, "expected": exp});
        n += 1;
        match pv::catch(|| to_toks(&AsUint(x), true)) {
            Ok(Ok(t)) if t == vec![iu.tok()] => st.bump("as_uint/shape as predicted"),
            other => c.violation(&format!("C20/as_uint/{label}/shape"), 1.0, || case("tokens", json!(format!("{other:?}")), format!("{:?}", iu.tok()))),
        }
        for f in ALL_FMTS {
            if !matches!(roundtrip::<U>(f, &iu).1, Got::Value(y) if y == iu) {
                st.bump("as_uint/skipped: format cannot carry the integer");
                continue;
            }
            n += 1;
            ops += 3;
            let (Got::Value(w1), Got::Value(w2)) = (try_ser(f, &AsUint(x)), try_ser(f, &iu)) else {
                c.violation(&format!("C20/as_uint/{label}/{}/serialize-failed", f.class()), 1.0, || case(f.name(), json!("serialization failed"), "serialization succeeds".into()));
                continue;
            };
            if w1 != w2 {
                c.violation(&format!("C20/as_uint/{label}/{}/differs-from-cast", f.class()), 1.0, || case(f.name(), json!(w1.show()), w2.show()));
                continue;
            }
            match try_de::<AsUint<T>>(f, &w1) {
                Got::Value(y) if palette::cast::into_uint(y.0) == iu => {
                    st.bump("as_uint/equal");
                    c.outcome(w1.hash() ^ 4);
                }
                Got::Value(y) => c.violation(&format!("C20/as_uint/{label}/{}/wrong-value", f.class()), 1.0, || case(f.name(), json!(format!("{:?}", palette::cast::into_uint(y.0))), format!("{iu:?}"))),
                Got::Err(e) | Got::Panic(e) => c.violation(&format!("C20/as_uint/{label}/{}/error", f.class()), 1.0, || case(f.name(), json!({"error": e}), format!("{iu:?}"))),
            }
        }
    }
    c.add("as_uint", lat.len() as u64, ops, n, n);
}

/// the example in the documentation of palette::serde::as_uint
pub fn run_as_uint_doc(c: &mut Collector, st: &mut Stats) {
    use palette::rgb::{PackedArgb, PackedRgba};
    use palette::{Srgb, Srgba};
    let argb: PackedArgb = Srgb::new(0x17u8, 0xC6, 0x4C).into();
    let rgba: PackedRgba = Srgba::new(0x17u8, 0xC6, 0x4C, 0xFF).into();
    let got = (serde_json::to_string(&AsUint(argb)).unwrap_or_default(), serde_json::to_string(&AsUint(rgba)).unwrap_or_default());
    if got != ("4279748172".to_string(), "398871807".to_string()) {
        c.violation("C20/as_uint/documented-example", 1.0, || json!({"sub": "as_uint", "item": "as_uint:doc-example", "observed": [got.0, got.1], "expected": ["4279748172", "398871807"]}));
    } else {
        st.bump("as_uint/documented example");
    }
    let back: Result<AsUint<PackedArgb>, _> = serde_json::from_str("4279748172");
    if !matches!(back, Ok(AsUint(p)) if p == argb) {
        c.violation("C20/as_uint/documented-example", 1.0, || json!({"sub": "as_uint", "item": "as_uint:doc-example", "observed": "deserialization differs", "expected": "PackedArgb 0xFF17C64C"}));
    }
    c.add("as_uint", 2, 3, 3, 3);
}

// ---------------------------------------------------------------------------------------
// shapes the Alpha (de)serializer declares unsupported

pub fn run_unsupported<P: Case + Clone>(cfg: &Cfg, c: &mut Collector, st: &mut Stats)
where
    palette::Alpha<P, f32>: Case,
{
    let _ = cfg;
    let mut env = Env::default();
    let mut n = 0u64;
    let vals: Vec<Vec<usize>> = (0..LN).map(|l| vec![l, 5]).collect();
    for ix in &vals {
        for f in ALL_FMTS {
            n += check_foreign::<P>(c, &mut env, st, ix, f, true) as u64;
            n += check_foreign::<P>(c, &mut env, st, ix, f, false) as u64;
        }
    }
    c.add("unsupported", vals.len() as u64, env.ops + 2 * n, n, n);
}

/// data not produced by the Alpha serializer: `(p, alpha)` as a tuple, or `p` alone
pub fn check_foreign<P: Case + Clone>(c: &mut Collector, env: &mut Env, st: &mut Stats, ix: &[usize], f: Fmt, tuple: bool) -> bool {
    let p = P::build(&ix[..1]);
    if !env.rt_ok(f, &p) {
        st.bump("unsupported/skipped: format cannot carry the value on its own");
        return false;
    }
    let a = <f32 as Prim>::lat(ix[1]);
    let w = if tuple { try_ser(f, &(P::build(&ix[..1]), a)) } else { try_ser(f, &p) };
    let Got::Value(wire) = w else { return false };
    let mut want = p.bits();
    want.push(if tuple { a.pbits() } else { 1.0f32.pbits() });
    let sig = |kind: &str| format!("C20/unsupported/Alpha<{}>/{}/{}/{}", P::class(), if tuple { "tuple-input" } else { "bare-input" }, f.class(), kind);
    let case = |obs: Value| json!({"sub": "unsupported", "item": format!("unsupported:{}", P::name()), "type": P::name(), "ix": ix, "fmt": f.name(), "tuple": tuple, "wire": wire.show(), "observed": obs, "expected": "an error, the documented unimplemented! panic, or the natural reading of the data"});
    match try_de::<palette::Alpha<P, f32>>(f, &wire) {
        Got::Value(y) => {
            let mut yb = y.color.bits();
            yb.push(y.alpha.pbits());
            if yb == want {
                st.bump("unsupported/foreign input -> natural value");
            } else {
                c.violation(&sig("wrong-value"), 1.0, || case(json!({"value_bits": hexbits(&yb)})));
            }
        }
        Got::Err(e) => {
            st.bump("unsupported/foreign input -> error");
            c.outcome(pv::fnv(e.as_bytes()));
        }
        Got::Panic(m) => {
            if documented_panic(&m) {
                st.bump("unsupported/foreign input -> documented panic");
                c.outcome(pv::fnv(m.as_bytes()) ^ f.id() as u64);
            } else {
                c.violation(&sig("undocumented-panic"), 1.0, || case(json!({"panic": m})));
            }
        }
    }
    true
}

pub fn replay_unsupported<P: Case + Clone>(c: &mut Collector, case: &Value)
where
    palette::Alpha<P, f32>: Case,
{
    let ix: Vec<usize> = case["ix"].as_array().map(|a| a.iter().map(|v| v.as_u64().unwrap_or(0) as usize).collect()).unwrap_or_default();
    let f = Fmt::parse(case["fmt"].as_str().unwrap_or("json")).unwrap_or(Fmt::Json);
    let mut st = Stats::default();
    check_foreign::<P>(c, &mut Env::default(), &mut st, &ix, f, case["tuple"].as_bool().unwrap_or(true));
    println!("tallies: {:?}", st.0);
}

// ---------------------------------------------------------------------------------------
// probes: observations recorded as notes, never flagged (see the assumptions)

pub fn probes(c: &mut Collector) {
    use crate::mocks::{MHrDep, Outer, OuterOpt};
    use palette::{RgbHue, Srgb, Srgba};
    // how ron renders the hue newtype
    let hue = RgbHue::new(10.5f32);
    c.note(
        "observation/hue-in-ron",
        json!({"ron": ron::to_string(&hue).unwrap_or_default(), "json": serde_json::to_string(&hue).unwrap_or_default(), "tokens": to_toks(&hue, true).map(|t| show(&t)).unwrap_or_default(),
               "remark": "hues derive Serialize on a newtype struct without #[serde(transparent)]: a bare number in JSON and positional formats; ron 0.8 writes every newtype struct as `(x)`"}),
    );
    // a transparent colour flattened into an outer struct
    let o = Outer { id: 1, color: Srgba::new(0.1f32, 0.25, 0.5, 0.75) };
    let s = serde_json::to_string(&o).unwrap_or_default();
    let plain = pv::catch(|| serde_json::from_str::<Outer<Srgba>>(&s).map(|y| y.color.bits()).map_err(|e| e.to_string()));
    let opt = pv::catch(|| serde_json::from_str::<OuterOpt<Srgb>>(&s).map(|y| y.color.bits()).map_err(|e| e.to_string()));
    let opaque_ctl = serde_json::to_string(&Outer { id: 1, color: Srgb::new(0.1f32, 0.25, 0.5) }).ok().and_then(|s| serde_json::from_str::<Outer<Srgb>>(&s).ok()).map(|y| y.color.bits() == Srgb::new(0.1f32, 0.25, 0.5).bits());
    c.note(
        "observation/documented-limitation/alpha-colour-flattened-into-outer-struct",
        json!({"json": s, "input_bits": hexbits(&o.color.bits()),
               "Outer<Srgba> via Deserialize": format!("{plain:?}"),
               "Outer<Srgba> via deserialize_with_optional_alpha": format!("{opt:?}"),
               "Outer<Srgb> (opaque) round-trips": opaque_ctl,
               "remark": "serde's flatten buffer hands the colour only the keys named in `fields`; AlphaDeserializer::deserialize_struct passes the colour's fields unchanged ('We can't add to the expected fields so we just hope it works anyway'), so `alpha` is never seen: plain Alpha fails with missing field `alpha`, the optional helper silently yields alpha = 1.0"}),
    );
    // is_human_readable is forwarded by AlphaSerializer but not by AlphaDeserializer
    let x = palette::Alpha { color: MHrDep(0.1), alpha: 0.75f32 };
    let mut m = serde_json::Map::new();
    for f in [Fmt::TokMap(crate::tok::Key::Str), Fmt::TokSeq, Fmt::TokFixed] {
        let alone = roundtrip::<MHrDep>(f, &x.color).1;
        let (w, g) = roundtrip::<palette::Alpha<MHrDep, f32>>(f, &x);
        m.insert(
            f.name().to_string(),
            json!({"wire": wshow(&w), "colour alone": match alone { Got::Value(y) => format!("ok {:?}", y.0), Got::Err(e) | Got::Panic(e) => e },
                   "under Alpha": match g { Got::Value(y) => format!("value {:?} alpha {:?} (input 0.1, 0.75)", y.color.0, y.alpha), Got::Err(e) => format!("error: {e}"), Got::Panic(p) => format!("panic: {p}") }}),
        );
    }
    m.insert("remark".into(), json!("AlphaSerializer forwards is_human_readable, AlphaDeserializer does not (defaults to true); only matters for colour types whose representation depends on it — none in palette"));
    c.note("observation/is_human_readable-asymmetry", Value::Object(m));
}
