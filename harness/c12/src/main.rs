fn main() {
    eprintln!("C12: check not built yet");
    std::process::exit(3);
}
