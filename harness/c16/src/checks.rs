//! The comparisons of C16 for one (viewing conditions, white point, XYZ) point. Every violation
//! kind is produced here, so `--replay` re-executes exactly this function on the stored point.
//!
//! Signature: C16/<sub-check>/<conversion incl. partial type>/<white-point parameter type>/<float>/
//! <input class: black | near-black | negative-cone (an adapted cone response is negative: the sign
//! branch of the compression) | regular>/<NaN | inf | finite-off | exact>. The lattice provenance of the
//! colour (in-srgb, outside-srgb, xyz-cube, adopted-white, …) is the "class" field of the case. The
//! viewing conditions of the first and of the worst failing case are in the case JSON (conditions are
//! enumerated simplest first: D65, L_A = 40, Y_b = 0.2, Average, Auto), and the set of condition
//! classes (surround preset / segment, discounting auto / custom / clamped, L_A < 1) under which a
//! signature failed is printed and written to the evidence note `failing-condition-classes`.
use crate::oracle::{self, Cond64, Disc, RefCam, RefParams, Sur};
use crate::subject::{Cam, Obs, Subject, WpSel, ATTR, PARTIALS, PART_IDX};
use pv::fl::Fl;
use pv::report::fnum;
use pv::{json, Collector, Value};
use std::collections::{BTreeMap, BTreeSet};

/// Tolerances (see TOL_NOTE). The round-trip and forward tolerances are multiplied by the cancellation
/// factor κ of the point (1 whenever the three adapted cone responses are positive, i.e. for every
/// real colour near sRGB).
pub struct Tol {
    /// round trip: ‖ΔXYZ‖∞ ≤ κ·(rt_rel·‖XYZ‖∞ + rt_abs), XYZ relative to white Y = 1
    pub rt_rel: f64,
    pub rt_abs: f64,
    /// attribute algebra (into_full, J↔Q, C↔M↔s): |Δ| ≤ alg·(|attr| + 1e-6)
    pub alg: f64,
    /// forward vs reference: |Δattr| ≤ κ·fwd·(|attr| + fwd_floor[attr]); C and M with the hue as
    /// vectors; s through α = s²(A_w+4)/(2500c)
    pub fwd: f64,
    /// UCS: |Δ| ≤ ucs·(|value| + 1) for J', M', a', b' and the values converted back
    pub ucs: f64,
    /// |J − 100| at the adopted white
    pub white_j: f64,
}
pub const FWD_FLOOR_J: f64 = 1.0;
pub const FWD_FLOOR_C: f64 = 80.0;
/// floor of α = s²(A_w+4)/(2500c) = C/√(J/100), the quantity saturation is computed from
pub const FWD_FLOOR_ALPHA: f64 = 100.0;
/// beyond this cancellation the point counts as "on the boundary of the model's domain"
pub const KAPPA_MAX: f64 = 50.0;

pub fn tol<T: Fl>() -> Tol {
    if T::NAME == "f32" {
        Tol { rt_rel: 4e-5, rt_abs: 2e-9, alg: 2e-5, fwd: 1e-4, ucs: 4e-5, white_j: 1e-3 }
    } else {
        Tol { rt_rel: 1e-9, rt_abs: 1e-15, alg: 1e-12, fwd: 1e-9, ucs: 1e-12, white_j: 1e-9 }
    }
}

pub const TOL_NOTE: &str = "XYZ is relative to white Y = 1. Round trip: ‖ΔXYZ‖∞ ≤ κ·(rel·‖XYZ‖∞ + abs) with rel = 4e-5 (f32) / 1e-9 (f64) and an absolute floor 2e-9 / 1e-15: the error of x ↦ x^0.42 ↦ x^(1/0.42) is relative to the size of the colour, so near-black colours are held to a tolerance that scales with them plus a floor; κ = Σ|terms|/|Σ terms| of the achromatic response A and of the denominator of t (1 for all-positive cone responses, i.e. for every real colour near sRGB) accounts for cancellation when a cone response is negative; points with κ > 50 or outside the real-valued domain of the published equations (A ≤ 0 or denominator ≤ 0: imaginary stimuli of the XYZ cube) are only required not to panic. Attribute algebra (into_full, interconversion): relative 2e-5 / 1e-12 (multiplications, divisions and square roots only). Forward model vs reference: κ·1e-4 / κ·1e-9 relative to |attr| + floor — J, Q: floor 1; C and M compared as vectors with the hue, floor 80 (hue is meaningless at the neutral axis; C ∝ t^0.9 amplifies the f32 rounding of a, b ≈ 0 to ≈ 7e-4); s compared through α = s²(A_w+4)/(2500c) = C/√(J/100), floor 100 (s ∝ t^0.45: at the neutral axis an f32 implementation has α ≈ 7e-4 of rounding noise, i.e. s ≈ 0.2–0.3; measured). UCS: 4e-5 / 1e-12 relative to |value| + 1 (ln(1+x)/0.0228 and (e^x−1)/0.0228 have absolute error ≈ 44 ε). J at the adopted white: 1e-3 / 1e-9 (measured: exactly 100). Measured on the unchanged tree (evidence: raw-error-maxima, max_err_over_tol): every sub-check has ≥ 8× slack in f32 and ≥ 100× in f64, while every tolerance stays ≤ 1e-4 of the attribute range (a wrong constant moves results by ≥ 1e-3).";

/// One point of the space.
pub struct Pt<'a, T> {
    pub cond: &'a Cond64,
    pub sel: WpSel,
    pub refp: &'a RefParams,
    pub x: [T; 3],
    pub class: &'static str,
}

/// Sub-checks (clauses of the property); evidence names are `<name>/<float>`.
#[derive(Clone, Copy, PartialEq, Eq, Debug)]
pub enum Sub {
    Roundtrip = 0,
    Black,
    PartialEq,
    Baked,
    IntoFull,
    Interconvert,
    Forward,
    Ucs,
    WhiteJ,
}
pub const NSUB: usize = 9;
pub const SUBS: [&str; NSUB] = ["roundtrip", "black", "partial-eq-full", "baked-vs-unbaked", "into-full", "interconvert", "forward-vs-reference", "ucs", "white-J100"];
impl Sub {
    pub fn name(self) -> &'static str {
        SUBS[self as usize]
    }
}

pub struct Local {
    pub states: u64,
    pub trans: u64,
    pub traces: [u64; NSUB],
    /// largest error/tolerance already reported to the collector, per sub-check
    pub best: [f64; NSUB],
    pub enabled: [bool; NSUB],
    pub nontrivial: u64,
    pub black: u64,
    pub outside_domain: u64,
    pub boundary: u64,
    pub negative_cone: u64,
    /// raw error maxima per (sub-check, metric, colour class): calibration record for the evidence
    pub maxima: BTreeMap<(usize, &'static str, &'static str), f64>,
    /// per violation signature: the classes of viewing conditions under which it failed
    pub fail_conds: BTreeMap<String, BTreeSet<String>>,
}
impl Default for Local {
    fn default() -> Self {
        Local { states: 0, trans: 0, traces: [0; NSUB], best: [-1.0; NSUB], enabled: [true; NSUB], nontrivial: 0, black: 0, outside_domain: 0, boundary: 0, negative_cone: 0, maxima: BTreeMap::new(), fail_conds: BTreeMap::new() }
    }
}
impl Local {
    pub fn with_enabled(enabled: [bool; NSUB]) -> Self {
        Local { enabled, ..Local::default() }
    }
    fn max(&mut self, key: (usize, &'static str, &'static str), v: f64) {
        let e = self.maxima.entry(key).or_insert(0.0);
        if v > *e || v.is_nan() {
            *e = v;
        }
    }
    pub fn merge(&mut self, o: Local) {
        self.states += o.states;
        self.trans += o.trans;
        for i in 0..NSUB {
            self.traces[i] += o.traces[i];
        }
        self.nontrivial += o.nontrivial;
        self.black += o.black;
        self.outside_domain += o.outside_domain;
        self.boundary += o.boundary;
        self.negative_cone += o.negative_cone;
        for (k, v) in o.maxima {
            self.max(k, v);
        }
        for (k, v) in o.fail_conds {
            self.fail_conds.entry(k).or_default().extend(v);
        }
    }
}

pub fn sur_json(s: Sur) -> Value {
    match s {
        Sur::Dark => json!({"kind": "Dark"}),
        Sur::Dim => json!({"kind": "Dim"}),
        Sur::Average => json!({"kind": "Average"}),
        Sur::Percent(p) => json!({"kind": "Percent", "bits": pv::fl::hex64(p), "value": p}),
    }
}
pub fn disc_json(d: Disc) -> Value {
    match d {
        Disc::Auto => json!({"kind": "Auto"}),
        Disc::Custom(v) => json!({"kind": "Custom", "bits": pv::fl::hex64(v), "value": v}),
    }
}
fn hexbits<T: Fl>(x: T) -> String {
    if T::NAME == "f32" {
        format!("{:#010x}", x.bits64())
    } else {
        format!("{:#018x}", x.bits64())
    }
}
fn v64<T: Fl>(a: &[T]) -> Vec<Value> {
    a.iter().map(|x| fnum(x.to64())).collect()
}

/// Which branches of the parameter preparation a set of viewing conditions selects.
pub fn cond_class(c: &Cond64, sel: WpSel) -> String {
    let sur = match c.sur {
        Sur::Dark | Sur::Dim | Sur::Average => "surround-preset",
        Sur::Percent(p) if p <= 0.0 || p == 10.0 || p >= 20.0 => "percent-at-an-end",
        Sur::Percent(p) if p < 10.0 => "percent-in-dark-dim-segment",
        Sur::Percent(_) => "percent-in-dim-average-segment",
    };
    let disc = match c.disc {
        Disc::Auto => "auto",
        Disc::Custom(d) if (0.0..=1.0).contains(&d) => "custom",
        Disc::Custom(_) => "custom-clamped",
    };
    format!("{} {sur} {disc} {}", sel.name(), if c.la < 1.0 { "LA<1" } else { "LA>=1" })
}

/// The replayable description of a point (conversion, type and observed/expected are added by the caller).
pub fn case_json<T: Fl>(sub: &str, pt: &Pt<T>) -> Value {
    json!({
        "sub": sub, "float": T::NAME, "wp": pt.sel.name(), "class": pt.class,
        "cond": {"la_bits": pv::fl::hex64(pt.cond.la), "la": pt.cond.la, "yb_bits": pv::fl::hex64(pt.cond.yb), "yb": pt.cond.yb, "surround": sur_json(pt.cond.sur), "discounting": disc_json(pt.cond.disc), "white": pt.cond.white.to_vec()},
        "xyz_bits": [hexbits(pt.x[0]), hexbits(pt.x[1]), hexbits(pt.x[2])],
        "xyz": v64(&pt.x),
        "cond_class": cond_class(pt.cond, pt.sel),
        "input": {"xyz": v64(&pt.x), "la": pt.cond.la, "yb": pt.cond.yb, "surround": format!("{:?}", pt.cond.sur), "discounting": format!("{:?}", pt.cond.disc), "wp": pt.sel.name()},
    })
}

fn same<T: Fl>(a: T, b: T) -> bool {
    a.bits64() == b.bits64() || a.to64() == b.to64() || (a.to64().is_nan() && b.to64().is_nan())
}
/// the same direction on the hue circle (a carried-through hue may legitimately be renormalised by 360°)
fn same_angle<T: Fl>(a: T, b: T) -> bool {
    if same(a, b) {
        return true;
    }
    let d = ((a.to64() - b.to64()) % 360.0 + 540.0) % 360.0 - 180.0;
    d.abs() <= if T::NAME == "f32" { 1e-3 } else { 1e-9 }
}
fn kind(v: &[f64]) -> &'static str {
    if v.iter().any(|x| x.is_nan()) {
        "NaN"
    } else if v.iter().any(|x| x.is_infinite()) {
        "inf"
    } else {
        "finite-off"
    }
}
fn to6<T: Fl>(a: [T; 6]) -> [f64; 6] {
    [a[0].to64(), a[1].to64(), a[2].to64(), a[3].to64(), a[4].to64(), a[5].to64()]
}
fn to3<T: Fl>(a: [T; 3]) -> [f64; 3] {
    [a[0].to64(), a[1].to64(), a[2].to64()]
}
/// |r1·e^{i h1} − r2·e^{i h2}|, hues in degrees
fn vec_dist(r1: f64, h1: f64, r2: f64, h2: f64) -> f64 {
    let (a1, b1) = (r1 * h1.to_radians().cos(), r1 * h1.to_radians().sin());
    let (a2, b2) = (r2 * h2.to_radians().cos(), r2 * h2.to_radians().sin());
    (a1 - a2).hypot(b1 - b2)
}
/// NaN-proof "error exceeds tolerance"
fn exceeds(err: f64, tol: f64) -> bool {
    !(err <= tol)
}

struct Cx<'a, 'b, T> {
    pt: &'a Pt<'b, T>,
    c: &'a mut Collector,
    l: &'a mut Local,
    /// input class of the signature: black | near-black | negative-cone | regular
    sigclass: &'static str,
}
impl<'a, 'b, T: Fl> Cx<'a, 'b, T> {
    fn on(&self, sub: Sub) -> bool {
        self.l.enabled[sub as usize]
    }
    fn sig(&self, sub: Sub, site: &str, k: &str) -> String {
        format!("C16/{}/{site}/{}/{}/{}/{k}", sub.name(), self.pt.sel.type_name(), T::NAME, self.sigclass)
    }
    /// numeric comparison: records the ratio, the raw maximum, and a violation if err > tol
    /// (`site` and `extra` are only evaluated when something has to be recorded)
    #[allow(clippy::too_many_arguments)]
    fn num(&mut self, sub: Sub, metric: &'static str, err: f64, tol: f64, raw: f64, site: impl Fn() -> String, extra: impl Fn() -> Value) {
        let si = sub as usize;
        self.l.traces[si] += 1;
        self.l.max((si, metric, self.pt.class), raw);
        let bad = exceeds(err, tol);
        if !bad && err / tol <= self.l.best[si] {
            return;
        }
        let pt = self.pt;
        let mk = |note: &str| {
            let mut j = case_json(sub.name(), pt);
            j["conversion"] = json!(site());
            j["metric"] = json!(metric);
            j["error"] = fnum(err);
            j["tol"] = json!(tol);
            j["detail"] = extra();
            j["note"] = json!(note);
            j
        };
        if bad {
            let k = if err.is_nan() { "NaN" } else if err.is_infinite() { "inf" } else { "finite-off" };
            let sig = self.sig(sub, &site(), k);
            self.l.fail_conds.entry(sig.clone()).or_default().insert(cond_class(pt.cond, pt.sel));
            self.c.violation(&sig, if err.is_finite() { err } else { f64::INFINITY }, || mk("violates"));
        } else {
            self.l.best[si] = err / tol;
            self.c.ratio(&format!("{}/{}", sub.name(), T::NAME), err / tol, || mk("largest error/tolerance of this sub-check"));
        }
    }
    /// exact comparison
    fn exact(&mut self, sub: Sub, ok: bool, site: impl Fn() -> String, extra: impl Fn() -> Value) {
        self.l.traces[sub as usize] += 1;
        if !ok {
            let pt = self.pt;
            let sig = self.sig(sub, &site(), "exact");
            self.l.fail_conds.entry(sig.clone()).or_default().insert(cond_class(pt.cond, pt.sel));
            self.c.violation(&sig, 1.0, || {
                let mut j = case_json(sub.name(), pt);
                j["conversion"] = json!(site());
                j["detail"] = extra();
                j
            });
        }
    }
}

fn type_name(k: usize) -> &'static str {
    if k == 0 {
        "Cam16"
    } else {
        PARTIALS[k - 1]
    }
}
fn fv(a: &[f64]) -> Vec<Value> {
    a.iter().map(|x| fnum(*x)).collect()
}

fn check_black<T: Fl>(cx: &mut Cx<T>, o: &Obs<T>) {
    if !cx.on(Sub::Black) {
        return;
    }
    let f = to6(o.full);
    let zero_attrs = |a: &[f64; 6]| a[0] == 0.0 && a[1] == 0.0 && a[3] == 0.0 && a[4] == 0.0 && a[5] == 0.0 && a[2].is_finite();
    cx.exact(Sub::Black, zero_attrs(&f), || "Cam16::from_xyz".into(), || json!({"observed": fv(&f), "expected": "J = C = Q = M = s = 0, finite hue"}));
    for k in 0..7 {
        let b = to3(if k == 0 { o.back_full } else { o.back[k - 1] });
        cx.exact(Sub::Black, b == [0.0; 3], || format!("{}::into_xyz∘from_xyz", type_name(k)), || json!({"observed": fv(&b), "expected": [0.0, 0.0, 0.0]}));
    }
    for i in 0..6 {
        let p = to3(o.part[i]);
        cx.exact(Sub::Black, p[0] == 0.0 && p[1] == 0.0 && p[2].is_finite(), || format!("{}::from_xyz", PARTIALS[i]), || json!({"observed": fv(&p), "expected": "zero luminance and chromaticity attribute"}));
        let g = to6(o.into_full[i]);
        cx.exact(Sub::Black, zero_attrs(&g), || format!("{}::into_full", PARTIALS[i]), || json!({"observed": fv(&g), "expected": "all attributes 0"}));
    }
}

fn check_partial_eq_full<T: Fl>(cx: &mut Cx<T>, o: &Obs<T>) {
    if cx.on(Sub::PartialEq) {
        for i in 0..6 {
            let (li, ci) = PART_IDX[i];
            let want = [o.full[li], o.full[ci], o.full[2]];
            for (site, got) in [("from_xyz", o.part[i]), ("from_full", o.part_from_full[i])] {
                let ok = same(got[0], want[0]) && same(got[1], want[1]) && same_angle(got[2], want[2]);
                cx.exact(Sub::PartialEq, ok, || format!("{}::{site}", PARTIALS[i]), || json!({"observed": v64(&got), "expected (fields of Cam16::from_xyz)": v64(&want), "attributes": [ATTR[li], ATTR[ci], "h"]}));
            }
        }
    }
    if cx.on(Sub::Baked) {
        let ok = (0..6).all(|k| same(o.full[k], o.full_unbaked[k]));
        cx.exact(Sub::Baked, ok, || "Cam16::from_xyz(Parameters)".into(), || json!({"observed (Parameters)": v64(&o.full_unbaked), "expected (BakedParameters)": v64(&o.full)}));
    }
}

/// largest relative attribute error (J, C, Q, M, s) between two full colours
fn attr_err(a: &[f64; 6], b: &[f64; 6]) -> (f64, usize) {
    let mut worst = (0.0f64, 0usize);
    for k in [0usize, 1, 3, 4, 5] {
        let e = (a[k] - b[k]).abs() / (b[k].abs() + 1e-6);
        if exceeds(e, worst.0) {
            worst = (e, k);
        }
    }
    worst
}

fn check_algebra<T: Fl>(cx: &mut Cx<T>, o: &Obs<T>, t: &Tol) {
    let full = to6(o.full);
    for i in 0..6 {
        let g = to6(o.into_full[i]);
        let (e, k) = attr_err(&g, &full);
        // the mutual-inverse clause starts from a *correct* full colour: where P1::into_full is already
        // wrong (reported by into-full), every P2 would fail on the inconsistent input as an echo
        let g_ok = !exceeds(e, t.alg);
        if cx.on(Sub::IntoFull) {
            cx.num(Sub::IntoFull, "attr-rel", e, t.alg, e, || format!("{}::into_full", PARTIALS[i]), || json!({"attribute": ATTR[k], "observed": fv(&g), "expected (Cam16::from_xyz)": fv(&full)}));
            cx.exact(Sub::IntoFull, same_angle(o.into_full[i][2], o.full[2]), || format!("{}::into_full/hue", PARTIALS[i]), || json!({"observed": fnum(g[2]), "expected": fnum(full[2])}));
        }
        if cx.on(Sub::Interconvert) && g_ok {
            for j in 0..6 {
                let h = to6(o.cross[i][j]);
                let (e, k) = attr_err(&h, &g);
                // call site = the second partial type (whose from_full→into_full must reproduce the full colour it was made from)
                cx.num(Sub::Interconvert, "attr-rel", e, t.alg, e, || format!("{}::into_full∘from_full", PARTIALS[j]), || json!({"attribute": ATTR[k], "full colour made by": format!("{}::into_full", PARTIALS[i]), "observed": fv(&h), "expected (the full colour it was made from)": fv(&g)}));
                cx.exact(Sub::Interconvert, same_angle(o.cross[i][j][2], o.full[2]), || format!("{}::into_full∘from_full/hue", PARTIALS[j]), || json!({"observed": fnum(h[2]), "expected": fnum(full[2])}));
            }
        }
    }
}

fn check_roundtrip<T: Fl>(cx: &mut Cx<T>, o: &Obs<T>, t: &Tol, kappa: f64) {
    if !cx.on(Sub::Roundtrip) {
        return;
    }
    let x = to3(cx.pt.x);
    let scale = x[0].abs().max(x[1].abs()).max(x[2].abs());
    let tolv = kappa * (t.rt_rel * scale + t.rt_abs);
    for k in 0..7 {
        let b = to3(if k == 0 { o.back_full } else { o.back[k - 1] });
        let err = (b[0] - x[0]).abs().max((b[1] - x[1]).abs()).max((b[2] - x[2]).abs());
        let err = if b.iter().all(|v| v.is_finite()) { err } else { f64::NAN };
        cx.num(Sub::Roundtrip, "xyz", err, tolv, err / (kappa * (scale + t.rt_abs / t.rt_rel)), || format!("{}::into_xyz∘from_xyz", type_name(k)), || json!({"observed": fv(&b), "expected": x.to_vec(), "kind": kind(&b), "kappa": kappa}));
    }
}

fn check_forward<T: Fl>(cx: &mut Cx<T>, o: &Obs<T>, t: &Tol, r: &RefCam) {
    if !cx.on(Sub::Forward) {
        return;
    }
    let p = to6(o.full);
    let e = r.attrs();
    let tl = t.fwd * r.kappa;
    let site = || "Cam16::from_xyz".to_string();
    let detail = || json!({"observed [J,C,h,Q,M,s]": fv(&p), "reference [J,C,h,Q,M,s]": fv(&e), "kappa": r.kappa});
    let nan = p.iter().any(|v| !v.is_finite());
    let g = |v: f64| if nan { f64::NAN } else { v };
    let ej = (p[0] - e[0]).abs() / (e[0].abs() + FWD_FLOOR_J);
    cx.num(Sub::Forward, "J", g(ej), tl, ej / r.kappa, site, detail);
    let eq = (p[3] - e[3]).abs() / (e[3].abs() + FWD_FLOOR_J);
    cx.num(Sub::Forward, "Q", g(eq), tl, eq / r.kappa, site, detail);
    let ec = vec_dist(p[1], p[2], e[1], e[2]) / (e[1].abs() + FWD_FLOOR_C);
    cx.num(Sub::Forward, "C·h", g(ec), tl, ec / r.kappa, site, detail);
    let em = vec_dist(p[4], p[2], e[4], e[2]) / (e[4].abs() + FWD_FLOOR_C);
    cx.num(Sub::Forward, "M·h", g(em), tl, em / r.kappa, site, detail);
    // saturation through α = s²(A_w + 4)/(2500 c) (reference parameters): s ∝ α^½ is ill-conditioned at the neutral axis
    let k = (cx.pt.refp.a_w + 4.0) / (2500.0 * cx.pt.refp.c);
    let es = (p[5] * p[5] * k - e[5] * e[5] * k).abs() / (e[5] * e[5] * k + FWD_FLOOR_ALPHA);
    cx.num(Sub::Forward, "s→α", g(es), tl, es / r.kappa, site, detail);
}

fn check_ucs<T: Cam>(cx: &mut Cx<T>, o: &Obs<T>, t: &Tol) {
    if !cx.on(Sub::Ucs) {
        return;
    }
    let jmh = o.part[1];
    let u = T::ucs(jmh);
    cx.l.trans += 6;
    let (j, m, h) = (jmh[0].to64(), jmh[1].to64(), jmh[2].to64());
    let (ej, em) = (oracle::ucs_j(j), oracle::ucs_m(m));
    let uj = to3(u.ucs_jmh);
    let rel = |a: f64, b: f64| (a - b).abs() / (b.abs() + 1.0);
    let e = rel(uj[0], ej).max(rel(uj[1], em));
    cx.num(Sub::Ucs, "J'M'", e, t.ucs, e, || "Cam16UcsJmh::from(Cam16Jmh)".into(), || json!({"input [J,M,h]": [j, m, h], "observed": fv(&uj), "expected [J', M']": [ej, em]}));
    cx.exact(Sub::Ucs, same_angle(u.ucs_jmh[2], jmh[2]), || "Cam16UcsJmh::from(Cam16Jmh)/hue".into(), || json!({"observed": fnum(uj[2]), "expected": h}));
    let back = to3(u.jmh_back);
    let e = rel(back[0], j).max(rel(back[1], m));
    cx.num(Sub::Ucs, "JM", e, t.ucs, e, || "Cam16Jmh::from(Cam16UcsJmh)".into(), || json!({"observed": fv(&back), "expected [J,M,h]": [j, m, h]}));
    cx.exact(Sub::Ucs, same_angle(u.jmh_back[2], jmh[2]), || "Cam16Jmh::from(Cam16UcsJmh)/hue".into(), || json!({"observed": fnum(back[2]), "expected": h}));
    // rectangular form from palette's own J', M' (so that only this step is measured)
    let (ea, eb) = oracle::ucs_ab(uj[1], uj[2]);
    for (site, jab) in [("Cam16UcsJab::from(Cam16UcsJmh)", to3(u.jab)), ("Cam16UcsJab::from(Cam16Jmh)", to3(u.jab_direct))] {
        let e = rel(jab[0], uj[0]).max((jab[1] - ea).hypot(jab[2] - eb) / (uj[1].abs() + 1.0));
        cx.num(Sub::Ucs, "J'a'b'", e, t.ucs, e, || site.into(), || json!({"observed": fv(&jab), "expected [J', a', b']": [uj[0], ea, eb]}));
    }
    let back = to3(u.ucs_jmh_from_jab);
    let e = rel(back[0], uj[0]).max(vec_dist(back[1], back[2], uj[1], uj[2]) / (uj[1].abs() + 1.0));
    cx.num(Sub::Ucs, "J'M'h", e, t.ucs, e, || "Cam16UcsJmh::from(Cam16UcsJab)".into(), || json!({"observed": fv(&back), "expected": fv(&uj)}));
    let back = to3(u.jmh_from_jab);
    let e = rel(back[0], j).max(vec_dist(back[1], back[2], m, h) / (m.abs() + 1.0));
    cx.num(Sub::Ucs, "JMh", e, t.ucs, e, || "Cam16Jmh::from(Cam16UcsJab)".into(), || json!({"observed": fv(&back), "expected [J,M,h]": [j, m, h]}));
}

/// All sub-checks on one point.
pub fn check_point<T: Cam>(pt: &Pt<T>, subj: &Subject<T>, c: &mut Collector, l: &mut Local, seed: u64) {
    let t = tol::<T>();
    let x64 = to3(pt.x);
    let r = oracle::forward(pt.refp, x64);
    l.states += 1;
    let o = match pv::catch(|| (subj.run)(pt.x)) {
        Ok(o) => o,
        Err(msg) => {
            c.violation(&format!("C16/panic/from_xyz|into_xyz|into_full/{}/{}/{}", pt.sel.type_name(), T::NAME, pt.class), 1.0, || {
                let mut j = case_json("panic", pt);
                j["observed"] = json!({"panic": msg});
                j
            });
            return;
        }
    };
    l.trans += 3 + 6 * 4 + 36 * 2;
    let black = x64 == [0.0; 3];
    let sigclass = if black {
        "black"
    } else if pt.class == "near-black" {
        "near-black"
    } else if r.negative_cone {
        "negative-cone"
    } else {
        "regular"
    };
    let mut cx = Cx { pt, c, l, sigclass };
    check_partial_eq_full(&mut cx, &o);
    if black {
        cx.l.black += 1;
        check_black(&mut cx, &o);
        check_ucs(&mut cx, &o, &t); // J' = M' = a' = b' = 0
    } else if !r.in_domain() {
        cx.l.outside_domain += 1;
    } else if r.kappa > KAPPA_MAX {
        cx.l.boundary += 1;
    } else {
        if r.negative_cone {
            cx.l.negative_cone += 1;
        }
        if r.c > 1.0 {
            cx.l.nontrivial += 1;
        }
        check_roundtrip(&mut cx, &o, &t, r.kappa);
        check_algebra(&mut cx, &o, &t);
        check_forward(&mut cx, &o, &t, &r);
        check_ucs(&mut cx, &o, &t);
        if pt.class == "adopted-white" && cx.on(Sub::WhiteJ) {
            let j = o.full[0].to64();
            let e = (j - 100.0).abs();
            cx.num(Sub::WhiteJ, "J", e, t.white_j, e, || "Cam16::from_xyz".into(), || json!({"observed J": fnum(j), "expected": 100.0, "reference J": r.j}));
        }
    }
    let mut h = 0u64;
    for v in o.full.iter().chain(o.back_full.iter()).chain(o.back[5].iter()) {
        h = pv::splitmix(h ^ v.bits64());
    }
    c.outcome(h);
    let key = pv::splitmix(seed ^ pv::splitmix(pt.x[0].bits64() ^ pt.x[1].bits64().rotate_left(21) ^ pt.x[2].bits64().rotate_left(42) ^ pv::splitmix(pt.cond.la.to_bits() ^ pt.cond.yb.to_bits().rotate_left(7) ^ (pt.sel as u64))));
    c.sample(key, || {
        let mut j = case_json("sample", pt);
        j["Cam16::from_xyz [J,C,h,Q,M,s]"] = json!(v64(&o.full));
        j["reference [J,C,h,Q,M,s]"] = json!(fv(&r.attrs()));
        j["Cam16Qsh::into_xyz"] = json!(v64(&o.back[5]));
        j
    });
}

/// The published vector through palette's API (dynamic white point). Returns (transitions, traces).
pub fn check_vector<T: Cam>(c: &mut Collector) -> (u64, u64) {
    let cond = Cond64 { la: T::from64(oracle::VECTOR_LA).to64(), yb: T::from64(oracle::VECTOR_YB).to64(), sur: Sur::Average, disc: Disc::Auto, white: oracle::VECTOR_WHITE };
    let w = [T::from64(oracle::VECTOR_WHITE[0]), T::from64(oracle::VECTOR_WHITE[1]), T::from64(oracle::VECTOR_WHITE[2])];
    let x = [T::from64(oracle::VECTOR_XYZ[0]), T::from64(oracle::VECTOR_XYZ[1]), T::from64(oracle::VECTOR_XYZ[2])];
    let subj = T::subject_dynamic(&cond, w);
    let o = match pv::catch(|| (subj.run)(x)) {
        Ok(o) => o,
        Err(m) => {
            c.violation(&format!("C16/published-vector/Cam16::from_xyz/Xyz<Any>/{}/panic", T::NAME), 1.0, || json!({"sub": "published-vector", "float": T::NAME, "observed": {"panic": m}}));
            return (1, 0);
        }
    };
    let mut p = to6(o.full);
    if p[2] < 0.0 {
        p[2] += 360.0;
    }
    let w = oracle::VECTOR_EXPECT;
    // f64: every attribute to the 4 published decimals. f32: the vector is almost neutral (C = 0.10), so its
    // hue and saturation are ill-conditioned in f32; they are compared as C·e^{ih}, M·e^{ih} and s² (see TOL_NOTE)
    let errs: Vec<(&str, f64, f64)> = if T::NAME == "f64" {
        (0..6).map(|i| (ATTR[i], (p[i] - w[i]).abs(), 0.5001e-4)).collect()
    } else {
        vec![("J", (p[0] - w[0]).abs(), 2e-3), ("Q", (p[3] - w[3]).abs(), 2e-3), ("C·h", vec_dist(p[1], p[2], w[1], w[2]), 2e-3), ("M·h", vec_dist(p[4], p[2], w[4], w[2]), 2e-3), ("s²", (p[5] * p[5] - w[5] * w[5]).abs(), 0.4)]
    };
    let mut worst = 0.0f64;
    for (name, e, half) in &errs {
        let (e, half) = (*e, *half);
        worst = worst.max(e / half);
        if exceeds(e, half) {
            c.violation(&format!("C16/published-vector/Cam16::from_xyz/Xyz<Any>/{}/{}", T::NAME, name), e, || json!({"sub": "published-vector", "float": T::NAME, "attribute": name, "observed [J,C,h,Q,M,s]": fv(&p), "expected": w.to_vec(), "tol": half, "input": {"xyz": oracle::VECTOR_XYZ.to_vec(), "white": oracle::VECTOR_WHITE.to_vec(), "la": oracle::VECTOR_LA, "yb": oracle::VECTOR_YB, "surround": "Average", "discounting": "Auto"}}));
        }
    }
    c.ratio(&format!("published-vector/{}", T::NAME), worst, || json!({"observed [J,C,h,Q,M,s]": fv(&p), "expected": oracle::VECTOR_EXPECT.to_vec()}));
    c.outcome(pv::splitmix(o.full[0].bits64() ^ 0x16));
    (1, errs.len() as u64)
}
