fn main() {
    eprintln!("C07: check not built yet");
    std::process::exit(3);
}
