//! C19 — random colour sampling respects the requested range and volume.
//!
//! A sampler is a deterministic function of the words it draws from its RNG, and the RNG is the
//! harness's own (`rng::ScriptRng`): "all RNG streams" becomes "all scripts over a word lattice"
//! W^d (d = measured number of draws of the type), and for the volume claim a *complete regular
//! grid* of the words that feed the radial and height draws, whose exact push-forward is counted
//! in equal-volume cells and compared with the closed-form inverse CDF derived in `geom.rs`.
//! Nothing is sampled at random; nothing is decided by statistics.
mod geom;
mod range;
mod rng;
mod spec;
mod volume;

use pv::fl::Fl;
use pv::{json, Collector, Ctx, Mode, Tier, Value};
use rand::distributions::uniform::SampleUniform;
use range::*;
use spec::{Shape, Spec, A4};

struct Lat {
    std3: Vec<u64>,
    std4: Vec<u64>,
    uni3: Vec<u64>,
    uni4: Vec<u64>,
}

fn lattices<T: Fl>(tier: Tier) -> Lat {
    let bits = word_bits::<T>();
    let (ks, ku) = if bits == 32 { (24, 23) } else { (53, 52) };
    let quick = rng::word_lattice(bits, &[1, 2, 9, ks, ku, bits - 1], 9); // 24 words
    let small = rng::word_lattice(bits, &[1, ku], 4); // 11 words
    match tier {
        Tier::Quick => Lat { std3: quick.clone(), std4: small.clone(), uni3: quick, uni4: small },
        Tier::Thorough => Lat {
            std3: rng::word_lattice(bits, &[1, 2, 3, 4, 8, 9, 12, 16, 20, 22, ks, ku, ks + 1, ku - 1, bits - 1, bits - 2, bits - 4], 33), // 70 words
            std4: quick.clone(),
            uni3: rng::word_lattice(bits, &[1, 2, 3, 9, 16, ks, ku, bits - 1], 21), // 40 words
            uni4: rng::word_lattice(bits, &[1, 2, 9, ku], 5),                       // 16 words
        },
    }
}

fn run_standard<T: Fl>(ctx: &Ctx, specs: &[Spec<T>], total: &mut Collector) {
    let sub = format!("standard/{}", T::NAME);
    if !ctx.wants(&sub) {
        return;
    }
    let lat = lattices::<T>(ctx.tier);
    // work items: (spec, index of the first script word)
    let draws: Vec<Draws> = specs.iter().map(|sp| probe_draws::<T>(&*sp.std, &format!("Standard/{}<{}>", sp.name, T::NAME))).collect();
    let mut items = vec![];
    for (si, sp) in specs.iter().enumerate() {
        let w = if draws[si].n >= 4 { &lat.std4 } else { &lat.std3 };
        for fi in 0..w.len() {
            items.push((si, fi));
        }
        let _ = sp;
    }
    let (items_ref, draws_ref, lat_ref) = (&items, &draws, &lat);
    let cc = pv::par::run_chunks(items.len(), |ci, c| {
        let (si, fi) = items_ref[ci];
        let sp = &specs[si];
        let d = draws_ref[si];
        let w = if d.n >= 4 { &lat_ref.std4 } else { &lat_ref.std3 };
        let who = format!("Standard/{}<{}>", sp.name, T::NAME);
        let (mut states, mut traces, mut nontrivial) = (0u64, 0u64, 0u64);
        for_scripts(w, d.n, Some(fi), |script| {
            let x = run_sample::<T>(&*sp.std, script, d, &who);
            states += 1;
            // non-trivial: some word of the script is an extreme (all-zero / all-ones) word, i.e. the
            // sample sits on an end of at least one component's range
            if script.iter().any(|&s| s == 0 || s == w[1]) {
                nontrivial += 1;
            }
            check_standard(sp, script, &x, c, &mut traces);
            let mut h = pv::fnv(sp.name.as_bytes());
            for v in &x[..sp.n] {
                h = pv::splitmix(h ^ v.bits64());
            }
            c.outcome(h);
            if states == 1 {
                c.sample(pv::splitmix(ci as u64 ^ ctx.seed ^ 0x51), || json!({"sub": "standard", "type": sp.name, "float": T::NAME, "script": words_hex(script), "sample": f64s(&x, sp.n)}));
            }
        });
        c.add(&sub, states, states, traces, nontrivial);
    });
    total.merge(cc);
    let dn: Vec<String> = specs.iter().zip(&draws).map(|(s, d)| format!("{}:{}", s.name, d.n)).collect();
    total.note(&format!("draws_per_sample/standard/{}", T::NAME), json!(dn));
    total.exhaustive(&sub, true, &format!("{} types x all scripts W^d, d = measured draws per sample (1..4), |W| = {} (d <= 3) / {} (d = 4, Alpha forms) words of the lattice {{0, MAX, 1, MAX-1, 2^k, 2^k-1, equally spaced}}", specs.len(), lat.std3.len(), lat.std4.len()));
}

fn run_uniform<T: Fl + SampleUniform>(ctx: &Ctx, specs: &[Spec<T>], total: &mut Collector) {
    let sub = format!("uniform/{}", T::NAME);
    if !ctx.wants(&sub) {
        return;
    }
    let lat = lattices::<T>(ctx.tier);
    let thorough = ctx.tier == Tier::Thorough;
    let pairs: Vec<Vec<Ends<T>>> = specs.iter().map(|sp| end_pairs(sp, thorough)).collect();
    // work items: (spec, block of end-point pairs)
    let mut items = vec![];
    for si in 0..specs.len() {
        let per = 4usize;
        let mut i = 0;
        while i < pairs[si].len() {
            items.push((si, i, (i + per).min(pairs[si].len())));
            i += per;
        }
    }
    let (items_ref, pairs_ref, lat_ref) = (&items, &pairs, &lat);
    let out = pv::par::map_chunks(items.len(), |ci| {
        let mut col = Collector::new();
        let c = &mut col;
        let (si, p0, p1) = items_ref[ci];
        let sp = &specs[si];
        let (mut states, mut trans, mut traces, mut nontrivial) = (0u64, 0u64, 0u64, 0u64);
        let mut panics: std::collections::BTreeMap<String, u64> = Default::default();
        for pi in p0..p1 {
            let (lo, hi) = (pairs_ref[si][pi].lo, pairs_ref[si][pi].hi);
            for inclusive in [false, true] {
                if !inclusive && pairs_ref[si][pi].inclusive_only {
                    continue;
                }
                trans += 1;
                let sampler = match build(sp, &lo, &hi, inclusive) {
                    Ok(s) => s,
                    Err(msg) => {
                        // rand's constructors panic on an empty range (`new` with low >= high, …); the
                        // property speaks about drawn colours only — recorded, not judged
                        *panics.entry(format!("{}: {}", if inclusive { "new_inclusive" } else { "new" }, msg)).or_default() += 1;
                        continue;
                    }
                };
                let who = format!("Uniform::{}/{}<{}>", if inclusive { "new_inclusive" } else { "new" }, sp.name, T::NAME);
                let d = probe_draws::<T>(&*sampler, &who);
                let w = if d.n >= 4 { &lat_ref.uni4 } else { &lat_ref.uni3 };
                let ends_hsv = sp.to_hsv.map(|f| (f(&lo), f(&hi)));
                let uc = UniCase { sp, lo, hi, inclusive, ends_hsv };
                let degenerate = (0..sp.n).any(|i| lo[i].bits64() == hi[i].bits64());
                let mut first = true;
                for_scripts(w, d.n, None, |script| {
                    let x = run_sample::<T>(&*sampler, script, d, &who);
                    states += 1;
                    trans += 1;
                    if degenerate || script.iter().any(|&s| s == 0 || s == w[1]) {
                        nontrivial += 1;
                    }
                    check_uniform(&uc, script, &x, c, &mut traces);
                    let mut h = pv::fnv(sp.name.as_bytes()) ^ inclusive as u64;
                    for v in &x[..sp.n] {
                        h = pv::splitmix(h ^ v.bits64());
                    }
                    c.outcome(h);
                    if first && pi == p0 {
                        first = false;
                        c.sample(pv::splitmix(ci as u64 ^ ctx.seed ^ 0x77), || json!({"sub": "uniform", "type": sp.name, "float": T::NAME, "dist": if inclusive { "new_inclusive" } else { "new" }, "low": f64s(&lo, sp.n), "high": f64s(&hi, sp.n), "script": words_hex(script), "sample": f64s(&x, sp.n)}));
                    }
                });
            }
        }
        c.add(&sub, states, trans, traces, nontrivial);
        let panics: Vec<(String, u64)> = panics.into_iter().map(|(k, v)| (format!("{}: {}", sp.name, k), v)).collect();
        (col, panics)
    });
    // constructor panics: summed per (type, constructor, message)
    let mut sums: std::collections::BTreeMap<String, u64> = Default::default();
    for (col, panics) in out {
        total.merge(col);
        for (k, v) in panics {
            *sums.entry(k).or_default() += v;
        }
    }
    total.note(&format!("constructor_panics/{}", T::NAME), json!(sums));
    let np: usize = pairs.iter().map(|p| p.len()).sum();
    total.exhaustive(&sub, true, &format!("{} types x {} end-point pairs (product over components of {{full range, sub-range, equal ends (inclusive), adjacent floats (inclusive), 2^-20 of the range{}}}; hue arcs (10,20) (350,370) (-10,10) (0,360) (720,730) equal adjacent{}; Alpha forms: diagonal x alpha pairs; HWB forms also reversed ends) x {{new, new_inclusive}} x all scripts W^d, |W| = {} (d <= 3) / {} (d = 4)", specs.len(), np, if thorough { ", low tenth, high tenth, both at min, both at max, max-ulp..max" } else { "" }, if thorough { " (359,361) (-370,-350) (180,540) (5,365) (350,360) (-720,-710) (0,0) (90,270) (270,450)" } else { "" }, lat.uni3.len(), lat.uni4.len()));
}

fn replay(c: &mut Collector, rep: &Value) {
    let case = &rep["case"];
    let float = case["float"].as_str().unwrap_or("f32").to_string();
    fn go<T: Fl + SampleUniform>(specs: Vec<Spec<T>>, case: &Value, c: &mut Collector) {
        let ty = case["type"].as_str().unwrap_or("");
        let sp = specs.iter().find(|s| s.name == ty).unwrap_or_else(|| machinery(format!("replay: unknown type {ty}")));
        let script = parse_hex(&case["script"]);
        let arr = |v: &Value| -> A4<T> {
            let b = parse_hex(v);
            let mut a = [T::from64(0.0); 4];
            for (i, x) in b.iter().enumerate().take(4) {
                a[i] = T::from_bits64(*x);
            }
            a
        };
        let mut traces = 0u64;
        match case["sub"].as_str().unwrap_or("") {
            "standard" => {
                let d = probe_draws::<T>(&*sp.std, "replay");
                let x = run_sample::<T>(&*sp.std, &script, d, "replay");
                println!("Standard -> {}<{}> with script {:?} = {:?}", sp.name, T::NAME, words_hex(&script), f64s(&x, sp.n));
                check_standard(sp, &script, &x, c, &mut traces);
            }
            "uniform" => {
                let (lo, hi) = (arr(&case["low_bits"]), arr(&case["high_bits"]));
                let inclusive = case["dist"].as_str() == Some("new_inclusive");
                match build(sp, &lo, &hi, inclusive) {
                    Err(msg) => println!("constructor panicked: {msg}"),
                    Ok(s) => {
                        let d = probe_draws::<T>(&*s, "replay");
                        let x = run_sample::<T>(&*s, &script, d, "replay");
                        println!("Uniform::{}({:?}, {:?}) -> {}<{}> with script {:?} = {:?}", if inclusive { "new_inclusive" } else { "new" }, f64s(&lo, sp.n), f64s(&hi, sp.n), sp.name, T::NAME, words_hex(&script), f64s(&x, sp.n));
                        let ends_hsv = sp.to_hsv.map(|f| (f(&lo), f(&hi)));
                        check_uniform(&UniCase { sp, lo, hi, inclusive, ends_hsv }, &script, &x, c, &mut traces);
                    }
                }
            }
            "volume" => volume::replay(sp, case, c),
            other => machinery(format!("replay: unknown sub {other}")),
        }
    }
    if float == "f32" {
        go::<f32>(specs_for!(f32), case, c)
    } else {
        go::<f64>(specs_for!(f64), case, c)
    }
}

fn main() {
    pv::main_guard(real_main)
}

fn real_main() -> i32 {
    let (ctx, mode) = Ctx::from_args("C19");
    if let Mode::Replay(rep) = mode {
        let mut c = Collector::new();
        replay(&mut c, &rep);
        return ctx.finish_replay(c);
    }
    let mut total = Collector::new();
    let (s32, s64) = (specs_for!(f32), specs_for!(f64));
    run_standard::<f32>(&ctx, &s32, &mut total);
    run_standard::<f64>(&ctx, &s64, &mut total);
    run_uniform::<f32>(&ctx, &s32, &mut total);
    run_uniform::<f64>(&ctx, &s64, &mut total);
    volume::run::<f32>(&ctx, &s32, &mut total);
    volume::run::<f64>(&ctx, &s64, &mut total);
    let _ = Shape::Hue;
    ctx.finish(
        total,
        "model_checking",
        "states = (distribution, end-point pair, RNG script) triples: every script of the word lattice W^d resp. every word pair of the complete regular grid; transitions = sampler constructions + sample calls on the harness's scripted RNG; traces = range predicates and closed-form inverse-CDF predictions compared with the sample, plus one per equal-volume cell count; non-trivial = scripts containing an extreme (all-zero / all-ones) word or end-point pairs with an equal component (range oracle), grid points that are not on a cell boundary (volume oracle)",
        &[
            "a sampler is a deterministic function of the words it requests from RngCore (checked: the number and kind of requests per sample is measured per type and asserted constant; f32 samplers use next_u32, f64 samplers next_u64)",
            "range: components drawn directly from a component sampler are compared exactly; components obtained through sqrt/cbrt of a draw between F(low) and F(high) get the rounding allowance derived in geom::end_bounds (16 eps pushed through the exact inverse CDF), HWB forms additionally the HSV->HWB->HSV round-trip allowance eps*(16+2/v); hue arcs 8 eps (360+|low|+|high|) degrees",
            "a panic of Uniform::new / new_inclusive (rand's documented behaviour for empty ranges) produces no colour and is recorded in the notes, not judged",
            "Uniform::new: reaching the excluded upper end is reported only for directly drawn components and only if rand's own Uniform::new(low, high) for that component does not reach it with the all-ones word",
            "volume: cone = HSV geometry (radius s*v, height v), bicone = HSL geometry (radius s*(1-|2l-1|), height l), HWB judged through palette's own conversion to its equivalent HSV; Hsluv is not named by the property's volume claim and only range-checked",
        ],
    )
}
